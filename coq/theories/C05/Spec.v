(* C05 — specification: which value writes are to be accepted, and what the driver must receive.
   Written over exact rationals (Q), independently of the code's control flow, of jsonschema and of float arithmetic.

   TWO READINGS of "the value lies on the grid min + k*step" when the numbers are binary floats:
     RBinary   a float stands for its exact binary value (0.1 is 3602879701896397 / 2^55).  The grid of step 0.1 then contains
               0, fl(0.1), 2 fl(0.1) ... and hardly any number a user can write: 0.3 is NOT 3 * fl(0.1).
     RDecimal  a float stands for the decimal number its shortest representation shows — the number the user wrote in the port
               definition / the request (repr(0.1) = "0.1", json text 0.3).  0.3 = 3 * 0.1: on the grid.
   The property is about the domain the user DECLARED, i.e. RDecimal; RBinary is what an "exact" reading of the code computes.
   They coincide whenever every float involved prints exactly (integers below 2^53, halves, quarters, ...), in particular
   on integer-valued inputs.  F8 (History/C05Old.v) lives in the gap: RDecimal accepts 0.3 with min 0 step 0.1, the code's
   binary float test rejects it.

   accepts r p j  :=  the port exists, is enabled and writable, and j is in the declared domain:
     - choices declared: j equals one of them (a boolean equals only the same boolean; numbers by value);
     - boolean port: j is a JSON boolean;
     - number port: j is a JSON number (not a boolean) representable as a binary64 magnitude, min <= j <= max,
       integral if the port is integer, and (j - min) / step an integer if step (non-zero) and min are declared.
   A request whose write transform FAILS to evaluate on the value (DIV(1, $) at 0), or whose result cannot be coerced to the
   port type, must be refused — error answer, no driver call, nothing changed (what the code does: 500 unexpected-error);
   [accepts] does not look at the transform, the oracle (Run.spec_class_value) demands the refusal, and an acceptance of such a
   request is a wrong delivery (the driver cannot have received coerce (transform v): there is no such value).
   Non-finite "numbers" (Infinity / NaN, which json.loads lets through, and 1e400 which it reads as inf) are in no domain.

   Carve-outs, where the property text decides nothing and the spec is SILENT ([spec_silent], compared model-vs-code only):
     (a) integer port and an integer-valued float literal (3.0): JSON Schema draft 4 says "not an integer", "integral" says yes;
     (b) a boolean port that declares min / max / step / integer (meaningless definition);
     (c) choices together with min + step (the code also applies the step test to the choices; the text says "or");
     (d) integers of magnitude >= 2^1024 - 2^970, which have no binary64: [accepts] excludes them ("of the port's type" =
         a binary64 magnitude) and so does patch_port_value (by accident: logging the value overflows -> 500), but
         patch_port_sequence lets them through — whether a number port must refuse 10^400 is not in the property text. *)
From Coq Require Export QArith Qabs.
From QT Require Export C05.Model.
Open Scope Q_scope.

Inductive reading := RBinary | RDecimal.

(* ------------------------------------------------------------------ exact values *)

Definition Q_of_frac (nd : Z * Z) : Q := let '(n, d) := nd in Qmake n (Z.to_pos d).

(* the exact value of a finite binary64 *)
Definition sf_exact (f : sf) : option Q :=
  match f with
  | S754_zero _ => Some 0
  | S754_finite s m e =>
      let v := if s then Zneg m else Zpos m in
      Some (if (0 <=? e)%Z then inject_Z (v * 2 ^ e) else Qmake v (Z.to_pos (2 ^ (- e))))
  | _ => None
  end.

(* the decimal number a finite binary64 prints as *)
Definition sf_decimal (f : sf) : option Q :=
  match f_repr_dec f with
  | Some (N, x) => Some (if (0 <=? x)%Z then inject_Z (N * 10 ^ x) else Qmake N (Z.to_pos (10 ^ (- x))))
  | None => None
  end.

Definition sf_value (r : reading) (f : sf) : option Q :=
  match r with RBinary => sf_exact f | RDecimal => sf_decimal f end.

(* a declared attribute (min / max / step / a choice) as a number; a bool counts as 0 / 1 like in Python *)
Definition num_of (r : reading) (v : pyval) : option Q :=
  match v with
  | VBool b => Some (if b then 1 else 0)
  | VInt z => Some (inject_Z z)
  | VFloat f => sf_value r f
  end.

(* a JSON value as a number: booleans, strings ... are not numbers *)
Definition jnum (r : reading) (j : json) : option Q :=
  match j with JInt z => Some (inject_Z z) | JFloat f => sf_value r f | _ => None end.

Definition bound (r : reading) (o : option pyval) : option Q :=
  match o with Some v => num_of r v | None => None end.

(* ------------------------------------------------------------------ the domain, declaratively *)

(* integers of this magnitude or more have no binary64 (they round to infinity): 2^1024 - 2^970 *)
Definition float_limit : Z := (2 ^ 1024 - 2 ^ 970)%Z.

Definition representable (v : Q) : Prop := Qabs v < inject_Z float_limit.
Definition integral (v : Q) : Prop := exists k : Z, v == inject_Z k.
Definition on_grid (v m s : Q) : Prop := exists k : Z, v - m == inject_Z k * s.

Definition opt_P {A} (o : option A) (P : A -> Prop) : Prop := match o with Some a => P a | None => True end.

Definition num_domain (r : reading) (d : portdef) (v : Q) : Prop :=
  representable v
  /\ opt_P (bound r (p_min d)) (fun m => m <= v)
  /\ opt_P (bound r (p_max d)) (fun M => v <= M)
  /\ (p_integer d = true -> integral v)
  /\ opt_P (bound r (p_step d)) (fun s => opt_P (bound r (p_min d)) (fun m => ~ s == 0 -> on_grid v m s)).

(* j is the choice c *)
Definition is_choice (r : reading) (c : pyval) (j : json) : Prop :=
  match c, j with
  | VBool a, JBool b => a = b
  | VBool _, _ => False
  | _, JBool _ => False
  | _, _ => match num_of r c, jnum r j with Some x, Some y => x == y | _, _ => False end
  end.

Definition in_domain (r : reading) (d : portdef) (j : json) : Prop :=
  match p_choices d with
  | Some cs => exists c, In c cs /\ is_choice r c j
  | None =>
      match p_type d with
      | TBoolean => match j with JBool _ => True | _ => False end
      | TNumber => match jnum r j with Some v => num_domain r d v | None => False end
      end
  end.

Definition accepts (r : reading) (p : option portdef) (j : json) : Prop :=
  exists d, p = Some d /\ p_enabled d = true /\ p_writable d = true /\ in_domain r d j.

(* a sequence request: well-formed body, same number of values and delays, every value in the domain *)
Definition seq_wellformed (values delays : list json) (repeat : json) : Prop :=
  seq_params_ok values delays repeat = true /\ length values = length delays.

Definition seq_accepts (r : reading) (p : option portdef) (values delays : list json) (repeat : json) : Prop :=
  seq_wellformed values delays repeat
  /\ exists d, p = Some d /\ p_enabled d = true /\ p_writable d = true /\ Forall (in_domain r d) values.

(* ------------------------------------------------------------------ what the driver must receive *)

(* "the value after the port's write transform, coerced to the port type" *)
Definition coerce (d : portdef) (v : pyval) : option pyval :=
  match adapt d v with inl w => Some w | inr _ => None end.

(* with a transform: exactly coerce (transform v).  Without one the code hands over the request's own number: it must be
   that number (Python ==, bool only for bool) — an int 3 on a non-integer number port arrives as 3, not 3.0 (observation O1) *)
Definition delivered_ok (d : portdef) (v w : pyval) : bool :=
  match p_transform d with
  | Some t =>
      match t v with
      | TVal x => match coerce d x with
                  | Some y => match y, w with
                              | VBool a, VBool b => Bool.eqb a b
                              | VInt a, VInt b => (a =? b)%Z
                              | VFloat a, VFloat b => sf_eqb a b
                              | _, _ => false
                              end
                  | None => false
                  end
      | _ => false
      end
  | None =>
      match v, w with
      | VBool a, VBool b => Bool.eqb a b
      | VBool _, _ => false
      | _, VBool _ => false
      | _, _ => py_eq v w
      end
  end.

(* ------------------------------------------------------------------ the same, executable (oracle for the harness) *)

Definition representableb (v : Q) : bool := negb (Qle_bool (inject_Z float_limit) (Qabs v)).
Definition integralb (v : Q) : bool := (Qnum v mod Zpos (Qden v) =? 0)%Z.
Definition on_gridb (v m s : Q) : bool := integralb ((v - m) / s).

Definition num_domainb (r : reading) (d : portdef) (v : Q) : bool :=
  representableb v
  && opt_ok (bound r (p_min d)) (fun m => Qle_bool m v)
  && opt_ok (bound r (p_max d)) (fun M => Qle_bool v M)
  && (negb (p_integer d) || integralb v)
  && opt_ok (bound r (p_step d)) (fun s => opt_ok (bound r (p_min d)) (fun m => Qeq_bool s 0 || on_gridb v m s)).

Definition is_choiceb (r : reading) (c : pyval) (j : json) : bool :=
  match c, j with
  | VBool a, JBool b => Bool.eqb a b
  | VBool _, _ => false
  | _, JBool _ => false
  | _, _ => match num_of r c, jnum r j with Some x, Some y => Qeq_bool x y | _, _ => false end
  end.

Definition in_domainb (r : reading) (d : portdef) (j : json) : bool :=
  match p_choices d with
  | Some cs => existsb (fun c => is_choiceb r c j) cs
  | None =>
      match p_type d with
      | TBoolean => match j with JBool _ => true | _ => false end
      | TNumber => match jnum r j with Some v => num_domainb r d v | None => false end
      end
  end.

Definition acceptsb (r : reading) (p : option portdef) (j : json) : bool :=
  match p with Some d => p_enabled d && p_writable d && in_domainb r d j | None => false end.

Definition seq_acceptsb (r : reading) (p : option portdef) (values delays : list json) (repeat : json) : bool :=
  seq_params_ok values delays repeat && Nat.eqb (length values) (length delays)
  && match p with Some d => p_enabled d && p_writable d && forallb (in_domainb r d) values | None => false end.

(* ------------------------------------------------------------------ where the spec is silent *)

Definition is_some {A} (o : option A) : bool := match o with Some _ => true | None => false end.

Definition integral_float (j : json) : bool :=
  match j with JFloat f => match sf_exact f with Some v => integralb v | None => false end | _ => false end.

Definition huge_int (j : json) : bool := match j with JInt z => (float_limit <=? Z.abs z)%Z | _ => false end.

Definition spec_silent (d : portdef) (j : json) : bool :=
  match p_choices d with
  | Some _ => is_some (p_step d) && is_some (p_min d)                                          (* (c) *)
  | None =>
      match p_type d with
      | TBoolean => is_some (p_min d) || is_some (p_max d) || is_some (p_step d) || p_integer d  (* (b) *)
      | TNumber => (p_integer d && integral_float j) || huge_int j                             (* (a), (d) *)
      end
  end.
