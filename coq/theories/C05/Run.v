(* C05 — dispatch used by the generated case files: run the model / the specification oracle on observed cases. *)
From QT Require Export C05.Spec.
From QT Require Import Gen.C05Gen.
Open Scope Z_scope.

(* ------------------------------------------------------------------ the write transforms the harness uses, by code *)

Definition of_res (r : pyres) : tres := match r with POk v => TVal v | PErr _ => TErr end.

(* a numeric literal of the expression language evaluates to a float: LiteralValue._eval returns float(self.value) *)
Definition lit (z : Z) : pyval := VFloat (f_of_Z_raw z).

Definition transform_of (code : Z) : option (pyval -> tres) :=
  match code with
  | 1 => Some (fun v => of_res (pbind (py_mul (VInt 1) v) (fun x => py_mul x (lit 2))))         (* MUL($, 2): r = 1; r *= .. *)
  | 2 => Some (fun v => of_res (py_sum [v; lit 1]))                                             (* ADD($, 1): sum([...]) *)
  | 3 => Some (fun v => TVal (VInt (if py_truth v then 0 else 1)))                              (* NOT($): int(not bool(..)) *)
  | 4 => Some (fun v => of_res (py_sub (lit 10) v))                                             (* SUB(10, $) *)
  | 5 => Some (fun v => if py_truth v then of_res (py_truediv (lit 1) v) else TErr)             (* DIV(1, $) *)
  | 6 => Some (fun v => of_res (py_truediv v (lit 4)))                                          (* DIV($, 4) *)
  | 7 => Some (fun v => if py_truth v then of_res (py_mod (lit 7) v) else TErr)                 (* MOD(7, $): fails at 0 *)
  | 8 => Some (fun v => match py_sub v (lit 3) with                                             (* DIV($, SUB($, 3)): fails at 3 *)
                        | POk s => if py_truth s then of_res (py_truediv v s) else TErr
                        | PErr _ => TErr
                        end)
  | _ => None
  end.

(* port definition as plain data *)
Record pdesc := {
  d_bool : bool; d_min : option pyval; d_max : option pyval; d_integer : bool; d_step : option pyval;
  d_choices : option (list pyval); d_transform : Z; d_enabled : bool; d_writable : bool
}.

Definition mk_def (x : pdesc) : portdef :=
  {| p_type := if d_bool x then TBoolean else TNumber; p_min := d_min x; p_max := d_max x; p_integer := d_integer x;
     p_step := d_step x; p_choices := d_choices x; p_transform := transform_of (d_transform x);
     p_enabled := d_enabled x; p_writable := d_writable x |}.

(* ------------------------------------------------------------------ equality of observations (floats bit for bit) *)

Definition pyval_eqb (a b : pyval) : bool :=
  match a, b with
  | VBool x, VBool y => Bool.eqb x y
  | VInt x, VInt y => x =? y
  | VFloat x, VFloat y => sf_eqb x y
  | _, _ => false
  end.

Definition effect_eqb (a b : effect) : bool :=
  match a, b with
  | DriverWrite x, DriverWrite y => option_eqb pyval_eqb x y
  | SetSequence x, SetSequence y => list_eqb pyval_eqb x y
  | _, _ => false
  end.

Definition apierr_code (e : apierr) : Z :=
  match e with E404 => 1 | EInvalid => 2 | EDisabled => 3 | EReadOnly => 4 | EWithExpression => 5 | E500 => 6 end.

Definition outcome_eqb (a b : outcome) : bool :=
  match a, b with
  | Accepted, Accepted => true
  | Rejected x, Rejected y => apierr_code x =? apierr_code y
  | _, _ => false
  end.

Definition obs_eqb (a b : outcome * list effect) : bool :=
  outcome_eqb (fst a) (fst b) && list_eqb effect_eqb (snd a) (snd b).

(* ------------------------------------------------------------------ cases *)

(* PATCH value: (port | None, body, observed outcome, observed driver calls) *)
Definition vcase := (option pdesc * json * (outcome * list effect))%type.
(* PATCH sequence: (port | None, values, delays, repeat, observation) *)
Definition scase := (option pdesc * list json * list json * json * (outcome * list effect))%type.

Definition rules_value : rules := {| r_step := step_rule_value; r_finite_guard := finite_guard_value |}.
Definition rules_sequence : rules := {| r_step := step_rule_sequence; r_finite_guard := finite_guard_sequence |}.

Definition bad_model (cases : list vcase) : list nat :=
  mismatches (fun '(p, j, o) => obs_eqb (patch_value rules_value (option_map mk_def p) j) o) cases 0.

Definition bad_model_seq (cases : list scase) : list nat :=
  mismatches (fun '(p, vs, ds, r, o) => obs_eqb (patch_sequence rules_sequence (option_map mk_def p) vs ds r) o) cases 0.

(* ------------------------------------------------------------------ the specification oracle *)

(* classes of contradiction (0 = none):
   2 decimal-step-grid       rejected, on the grid of the decimal numbers the user wrote, off the grid of their binary values
   3 non-finite-number       Infinity / NaN accepted
   4 rejected-inside-domain  rejected although both readings put the value in the domain
   5 accepted-outside-domain accepted although neither reading does
   6 off-grid-accepted       accepted, off the grid under both readings, in the domain but for the step
   7 effect-on-reject        rejected, yet the driver / the sequence was touched
   8 wrong-delivery          accepted, but the driver did not receive exactly coerce (transform v)
   9 on-grid-rejected        rejected by the step test although on the grid under both readings (float rounding in value - min) *)

(* the transform yields a value that can be coerced and logged; otherwise the property says nothing about the request *)
Definition deliverable (d : portdef) (v : pyval) : bool :=
  match p_transform d with
  | None => true
  | Some t => match t v with
              | TVal x => match coerce d x with Some y => dumps_ok y | None => false end
              | _ => false
              end
  end.

Definition without_step (d : portdef) : portdef :=
  {| p_type := p_type d; p_min := p_min d; p_max := p_max d; p_integer := p_integer d; p_step := None;
     p_choices := p_choices d; p_transform := p_transform d; p_enabled := p_enabled d; p_writable := p_writable d |}.

Definition spec_class_value (c : vcase) : Z :=
  let '(p, j, (o, es)) := c in
  let p' := option_map mk_def p in
  let acc := match o with Accepted => true | _ => false end in
  if negb acc && negb (match es with [] => true | _ => false end) then 7 else
  match p' with
  | None => if acc then 5 else 0
  | Some d =>
      if spec_silent d j then 0 else
      let ad := acceptsb RDecimal p' j in
      let ab := acceptsb RBinary p' j in
      if acc then
        if ad || ab then
          match j_py j, es with
          | Some v, [DriverWrite (Some w)] => if delivered_ok d v w then 0 else 8
          | _, _ => 8
          end
        else if nonfinite j then 3
        else if acceptsb RDecimal (Some (without_step d)) j then 6 else 5
      else
        if ad && match j_py j with Some v => deliverable d v | None => false end
        then (if ab then (if negb (model_accepts rules_value p' j) && model_accepts rules_value (Some (without_step d)) j then 9 else 4)
              else 2) else 0
  end.

Definition spec_class_seq (c : scase) : Z :=
  let '(p, vs, ds, r, (o, es)) := c in
  let p' := option_map mk_def p in
  let acc := match o with Accepted => true | _ => false end in
  if negb acc && negb (match es with [] => true | _ => false end) then 7 else
  match p' with
  | None => if acc then 5 else 0
  | Some d =>
      if existsb (spec_silent d) vs then 0 else
      let ad := seq_acceptsb RDecimal p' vs ds r in
      let ab := seq_acceptsb RBinary p' vs ds r in
      if acc then
        if ad || ab then
          match all_py vs, es with
          | Some ws, [SetSequence xs] => if list_eqb pyval_eqb ws xs then 0 else 8
          | _, _ => 8
          end
        else if existsb nonfinite vs then 3
        else if seq_acceptsb RDecimal (Some (without_step d)) vs ds r then 6 else 5
      else
        if ad then (if ab then 4 else 2) else 0
  end.

Fixpoint classes {A} (f : A -> Z) (l : list A) (i : nat) : list nat :=
  match l with
  | [] => []
  | x :: r => let c := f x in if c =? 0 then classes f r (S i) else i :: Z.to_nat c :: classes f r (S i)
  end.

(* flat list  [index; class; index; class; ...]  of the cases that contradict the specification *)
Definition bad_spec (cases : list vcase) : list nat := classes spec_class_value cases 0.
Definition bad_spec_seq (cases : list scase) : list nat := classes spec_class_seq cases 0.

(* census (informational): cases whose verdict differs between the binary-float step test and the exact decimal one *)
Definition rule_flips (cases : list vcase) : list nat :=
  mismatches (fun '(p, j, _) =>
    let g := finite_guard_value in
    Bool.eqb (model_accepts {| r_step := SBinary; r_finite_guard := g |} (option_map mk_def p) j)
             (model_accepts {| r_step := SDecimal; r_finite_guard := g |} (option_map mk_def p) j)) cases 0.

(* of those, the pairs the fix would LOSE: accepted by the binary test, refused by the decimal one ... *)
Definition flips_lost (cases : list vcase) : list nat :=
  mismatches (fun '(p, j, _) =>
    let g := finite_guard_value in
    negb (model_accepts {| r_step := SBinary; r_finite_guard := g |} (option_map mk_def p) j
          && negb (model_accepts {| r_step := SDecimal; r_finite_guard := g |} (option_map mk_def p) j))) cases 0.
(* ... and among them those that lie on the exact binary grid (currently accepted exact-grid values the fix refuses) *)
Definition flips_lost_on_binary_grid (cases : list vcase) : list nat :=
  mismatches (fun '(p, j, _) =>
    let g := finite_guard_value in
    negb (model_accepts {| r_step := SBinary; r_finite_guard := g |} (option_map mk_def p) j
          && negb (model_accepts {| r_step := SDecimal; r_finite_guard := g |} (option_map mk_def p) j)
          && acceptsb RBinary (option_map mk_def p) j)) cases 0.

(* ------------------------------------------------------------------ playback of an accepted sequence *)

(* (port, the values of an accepted PATCH sequence, the driver calls observed while the sequence played once) *)
Definition pcase := (pdesc * list json * list effect)%type.

(* every element goes through transform_and_write_value: what the model delivers, element by element, in order
   (an element whose transform raises produces no call) *)
Definition play_expected (d : portdef) (ws : list pyval) : list effect :=
  flat_map (fun v => snd (transform_and_write d v)) ws.

Definition bad_play (cases : list pcase) : list nat :=
  mismatches (fun '(p, vs, es) =>
    match all_py vs with
    | Some ws => list_eqb effect_eqb (play_expected (mk_def p) ws) es
    | None => false
    end) cases 0.

(* specification: the driver receives coerce (transform v) for every element whose transform yields a value, in order *)
Fixpoint play_spec_ok (d : portdef) (ws : list pyval) (es : list effect) : bool :=
  match ws with
  | [] => match es with [] => true | _ => false end
  | v :: ws' =>
      if deliverable d v && dumps_ok v then
        match es with
        | DriverWrite (Some w) :: es' => delivered_ok d v w && play_spec_ok d ws' es'
        | _ => false
        end
      else play_spec_ok d ws' es
  end.

Definition bad_play_spec (cases : list pcase) : list nat :=
  mismatches (fun '(p, vs, es) =>
    match all_py vs with Some ws => play_spec_ok (mk_def p) ws es | None => true end) cases 0.

(* tie of Repr.v to CPython: (float, digits N, exponent x) with repr(float) = N * 10^x, N not divisible by 10 *)
Fixpoint strip10 (fuel : nat) (N x : Z) : Z * Z :=
  match fuel with
  | O => (N, x)
  | S f => if (N mod 10 =? 0) && negb (N =? 0) then strip10 f (N / 10) (x + 1) else (N, x)
  end.

Definition bad_repr (cases : list (sf * Z * Z)) : list nat :=
  mismatches (fun '(f, N, x) =>
    match f_repr_dec f with
    | Some (a, b) => let '(a', b') := strip10 400 a b in (a' =? N) && ((a' =? 0) || (b' =? x))
    | None => false
    end) cases 0.
