(* C05 — facts about the rules regenerated from core/api/funcs/ports.py (Gen/C05Gen.v), re-proved on every run:
   both entry points use the same step test and the same non-finite guard. *)
From QT Require Import C05.Spec C05.ExactThm Gen.C05Gen.

Lemma rules_agree : step_rule_sequence = step_rule_value /\ finite_guard_sequence = finite_guard_value.
Proof. split; reflexivity. Qed.

(* if the source has the exact decimal step test, the step test of the code decides the decimal grid for all numbers *)
Lemma repo_step_test_exact :
  step_rule_value = SDecimal ->
  forall v m s a b c,
    num_of RDecimal v = Some a -> num_of RDecimal m = Some b -> num_of RDecimal s = Some c -> ~ (c == 0)%Q ->
    (step_test step_rule_value v m s = SOk <-> on_grid a b c).
Proof. intros H. rewrite H. exact step_decimal_exact. Qed.
