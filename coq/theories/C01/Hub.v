(* C01 — the hub as a labelled transition system: polling passes (non-atomic: one event per port read), the per-port
   evaluation task (take a queued snapshot, evaluate, coerce, compare with the last read value, submit a write and wait for
   it), the write completing at an echo driver, source changes and expression assignment.
   core/main.py: update / handle_value_changes; core/ports.py: push_eval / _eval_loop / _eval_and_write / _write_value_loop.
   Definitions only.  Expressions are abstract here (Section variables); C01/HubInst.v instantiates them with Expr/Eval.v. *)
From QT Require Export Base.Prelude.
Open Scope nat_scope.

Definition pid := nat.

Inductive eout (A : Type) := OVal (v : option A) | OErr.      (* a value / "unavailable" (None), or an error *)
Arguments OVal {A} v.
Arguments OErr {A}.

Section Hub.
  Variable V : Type.                                 (* port values *)
  Variable veqb : option V -> option V -> bool.      (* Python's == on (nullable) port values *)
  Variable E : Type.                                 (* expressions *)
  Variable W : Type.                                 (* what an expression evaluates to, before coercion to the port type *)

  Definition snap := pid -> option V.                (* a snapshot of last read values (absent / unavailable = None) *)

  (* Expression.eval over the LIVE enabled flags and a snapshot of last read values (PortValue._eval: a disabled port is an
     error whatever the snapshot says — AVAILABLE / DEFAULT catch it); ValueUnavailable mapped to OVal None *)
  Variable feval : E -> (pid -> bool) -> snap -> eout W.
  Variable deps : E -> list pid.                     (* get_deps(): the `$id` dependencies *)
  Variable coerce : pid -> option W -> eout V.       (* adapt_value_type for that port (may fail: int(nan)...) *)

  (* does the code refresh (main.update()) inside the evaluation task after its own write?  regenerated from ports.py *)
  Variable refresh_after_write : bool.
  (* does enable() force the evaluation of ALL expressions (not only the port's own)?  regenerated from ports.py *)
  Variable enable_forces_all : bool.
  (* does disable() force the evaluation of all expressions?  (AVAILABLE($p) / DEFAULT($p, x) change when p is disabled)
     regenerated from ports.py *)
  Variable disable_forces_all : bool.

  Inductive phase := Idle | Writing (v : option V) | NeedRefresh | Refreshing.

  Record port := {
    src : option V;            (* what a driver read returns now *)
    last : option V;           (* _last_read_value *)
    expr : option E;
    evq : list snap;           (* _eval_queue, oldest first *)
    ph : phase;                (* where the port's evaluation task is *)
    forced : bool;             (* in main._force_eval_expression_ports *)
    en : bool                  (* is_enabled() *)
  }.

  Record pass_state := { to_read : list pid; changed : list pid }.

  Record state := {
    ports : pid -> port;
    all_ids : list pid;                 (* the registered ports, in registry order *)
    pass : option pass_state;           (* a polling pass holds the update lock *)
    force_all : bool                    (* main._force_eval_all_expressions *)
  }.

  Definition upd (f : pid -> port) (p : pid) (x : port) : pid -> port := fun q => if Nat.eqb q p then x else f q.

  Definition set_port (s : state) (p : pid) (x : port) : state :=
    {| ports := upd (ports s) p x; all_ids := all_ids s; pass := pass s; force_all := force_all s |}.

  (* push_eval's snapshot: the last read values of the enabled ports *)
  Definition lasts (s : state) : snap :=
    fun p => if existsb (Nat.eqb p) (all_ids s) && en (ports s p) then last (ports s p) else None.

  (* the live enabled flags, as PortValue._eval sees them (port.is_enabled()) *)
  Definition ens (s : state) : pid -> bool := fun p => en (ports s p).

  Inductive event :=
  | PassBegin                                  (* main.update() acquired the lock *)
  | PassRead (p : pid)                         (* read_transformed_value of p returned (echo/source driver) *)
  | PassSkip (p : pid)                         (* p is disabled when the pass reaches it *)
  | PassEnd                                    (* handle_value_changes: push evaluations; lock released *)
  | Eval (q : pid)                             (* _eval_loop took the oldest queued snapshot and ran _eval_and_write up to its await *)
  | WriteEnd (q : pid)                         (* the driver write submitted by q's evaluation task completed *)
  | SourceSet (p : pid) (v : option V)         (* the environment changed what p's driver reads *)
  | SetExpr (q : pid) (e : E)                  (* attr_set_expression with an accepted expression *)
  | Enable (p : pid)
  | Disable (p : pid).

  Definition mem (p : pid) (l : list pid) : bool := existsb (Nat.eqb p) l.

  Definition begin_refresh (x : port) : port :=
    match ph x with
    | NeedRefresh => {| src := src x; last := last x; expr := expr x; evq := evq x; ph := Refreshing; forced := forced x; en := en x |}
    | _ => x
    end.

  (* handle_value_changes for one port: push a snapshot when forced or when a dependency (other than itself) changed *)
  Definition end_pass_port (fall : bool) (L : snap) (chg : list pid) (q : pid) (x : port) : port :=
    let x1 := match ph x with
              | Refreshing => {| src := src x; last := last x; expr := expr x; evq := evq x; ph := Idle; forced := forced x; en := en x |}
              | _ => x
              end in
    match (if en x1 then expr x1 else None) with
    | None => {| src := src x1; last := last x1; expr := expr x1; evq := evq x1; ph := ph x1; forced := false; en := en x1 |}
    | Some e =>
        if fall || forced x1 || existsb (fun d => negb (Nat.eqb d q) && mem d chg) (deps e)
        then {| src := src x1; last := last x1; expr := expr x1; evq := evq x1 ++ [L]; ph := ph x1; forced := false; en := en x1 |}
        else x1
    end.

  Definition step (s : state) (ev : event) : option state :=
    match ev with
    | PassBegin =>
        match pass s with
        | Some _ => None
        | None => Some {| ports := fun q => begin_refresh (ports s q); all_ids := all_ids s;
                          pass := Some {| to_read := all_ids s; changed := [] |}; force_all := force_all s |}
        end
    | PassRead p =>
        match pass s with
        | Some {| to_read := p' :: rest; changed := chg |} =>
            if Nat.eqb p p' then          (* enabled when the read started; it may have been disabled meanwhile *)
              let x := ports s p in
              let chg' := if veqb (src x) (last x) then chg else p :: chg in
              Some {| ports := upd (ports s) p {| src := src x; last := src x; expr := expr x; evq := evq x; ph := ph x; forced := forced x; en := en x |};
                      all_ids := all_ids s; pass := Some {| to_read := rest; changed := chg' |}; force_all := force_all s |}
            else None
        | _ => None
        end
    | PassSkip p =>
        match pass s with
        | Some {| to_read := p' :: rest; changed := chg |} =>
            if Nat.eqb p p' && negb (en (ports s p)) then
              Some {| ports := ports s; all_ids := all_ids s; pass := Some {| to_read := rest; changed := chg |};
                      force_all := force_all s |}
            else None
        | _ => None
        end
    | PassEnd =>
        match pass s with
        | Some {| to_read := []; changed := chg |} =>
            let L := lasts s in
            Some {| ports := fun q => if mem q (all_ids s) then end_pass_port (force_all s) L chg q (ports s q) else ports s q;
                    all_ids := all_ids s; pass := None; force_all := false |}
        | _ => None
        end
    | Eval q =>
        let x := ports s q in
        match ph x, evq x, expr x with
        | Idle, sn :: rest, Some e =>
            let x0 := {| src := src x; last := last x; expr := expr x; evq := rest; ph := Idle; forced := forced x; en := en x |} in
            match feval e (ens s) sn with        (* the queued snapshot, the enabled flags of NOW *)
            | OErr => Some (set_port s q x0)
            | OVal v =>
                match coerce q v with
                | OErr => Some (set_port s q x0)
                | OVal v' =>
                    if veqb v' (last x) then Some (set_port s q x0)
                    else Some (set_port s q {| src := src x; last := last x; expr := expr x; evq := rest; ph := Writing v'; forced := forced x; en := en x |})
                end
            end
        | _, _, _ => None
        end
    | WriteEnd q =>
        let x := ports s q in
        match ph x with
        | Writing v =>
            Some (set_port s q {| src := v; last := last x; expr := expr x; evq := evq x;
                                  ph := if refresh_after_write then NeedRefresh else Idle; forced := forced x; en := en x |})
        | _ => None
        end
    | SourceSet p v =>
        let x := ports s p in
        match expr x with
        | None => Some (set_port s p {| src := v; last := last x; expr := None; evq := evq x; ph := ph x; forced := forced x; en := en x |})
        | Some _ => None
        end
    | SetExpr q e =>
        let x := ports s q in
        Some (set_port s q {| src := src x; last := last x; expr := Some e; evq := evq x; ph := ph x; forced := true; en := en x |})
    | Enable p =>
        let x := ports s p in
        if en x then Some s
        else
          let s1 := set_port s p {| src := src x; last := last x; expr := expr x; evq := evq x; ph := ph x;
                                    forced := match expr x with Some _ => true | None => forced x end; en := true |} in
          Some {| ports := ports s1; all_ids := all_ids s1; pass := pass s1;
                  force_all := if enable_forces_all then true else force_all s |}
    | Disable p =>
        let x := ports s p in
        let s1 := set_port s p {| src := src x; last := last x; expr := expr x; evq := evq x; ph := ph x; forced := forced x; en := false |} in
        Some {| ports := ports s1; all_ids := all_ids s1; pass := pass s1;
                force_all := if en x && disable_forces_all then true else force_all s |}
    end.

  Fixpoint run (s : state) (tr : list event) : option state :=
    match tr with
    | [] => Some s
    | ev :: r => match step s ev with Some s' => run s' r | None => None end
    end.

  (* ---------------- what the property talks about *)
  Definition quiescent (s : state) : Prop :=
    pass s = None /\ force_all s = false /\
    forall p, In p (all_ids s) ->
      evq (ports s p) = [] /\ ph (ports s p) = Idle /\ forced (ports s p) = false
      /\ (en (ports s p) = true -> veqb (src (ports s p)) (last (ports s p)) = true).

  (* the driver of q holds, and the hub reports, the coerced value of q's expression over the current values and the current
     enabled flags; silent only when the evaluation or the coercion is an error *)
  Definition follows (s : state) (q : pid) : Prop :=
    match (if en (ports s q) then expr (ports s q) else None) with
    | None => True                                       (* no expression, or the port is disabled *)
    | Some e =>
        match feval e (ens s) (lasts s) with
        | OErr => True                                   (* evaluation error: the port keeps its value; the property is silent *)
        | OVal v =>
            match coerce q v with
            | OErr => True
            | OVal v' => veqb v' (src (ports s q)) = true /\ veqb (src (ports s q)) (last (ports s q)) = true
            end
        end
    end.
End Hub.

Arguments Idle {V}.
Arguments Writing {V} v.
Arguments NeedRefresh {V}.
Arguments Refreshing {V}.
Arguments src {V E} p.
Arguments last {V E} p.
Arguments expr {V E} p.
Arguments evq {V E} p.
Arguments ph {V E} p.
Arguments forced {V E} p.
Arguments Build_port {V E}.
Arguments ports {V E} s.
Arguments all_ids {V E} s.
Arguments pass {V E} s.
Arguments force_all {V E} s.
Arguments en {V E} p.
Arguments Build_state {V E}.
Arguments ens {V E} s.
Arguments PassBegin {V E}.
Arguments PassRead {V E} p.
Arguments PassEnd {V E}.
Arguments Eval {V E} q.
Arguments WriteEnd {V E} q.
Arguments SourceSet {V E} p v.
Arguments SetExpr {V E} q e.
Arguments PassSkip {V E} p.
Arguments Enable {V E} p.
Arguments Disable {V E} p.
