(* C01 — second correspondence stream: the specification evaluated on typed ports (number / integer / boolean, harness ports and
   the hub's own virtual ports) with unavailable values, on what the implementation reports at quiescence.  Definitions only. *)
From QT Require Export Expr.Spec.
Open Scope Z_scope.

Inductive pkind := KInt | KNum | KBool.

(* BasePort.adapt_value_type_sync; None = the coercion itself raises (no constraint then) *)
Definition adapt (k : pkind) (v : pyval) : option pyval :=
  match k with
  | KBool => Some (VBool (py_truth v))
  | KInt => match py_int v with inl z => Some (VInt z) | inr _ => None end
  | KNum => match py_float v with POk f => Some f | PErr _ => None end
  end.

Definition rport := (string * pkind * bool * option pyval)%type.      (* id, kind, enabled, last read value *)

Definition rid (p : rport) : string := let '(i, _, _, _) := p in i.
Definition ren (p : rport) : bool := let '(_, _, e, _) := p in e.
Definition rlast (p : rport) : option pyval := let '(_, _, _, v) := p in v.
Definition rkind (p : rport) : pkind := let '(_, k, _, _) := p in k.

Definition rfind (q : string) (ps : list rport) : option rport := find (fun p => String.eqb (rid p) q) ps.

(* the evaluation context handle_value_changes builds at rest: the last read values of the enabled ports *)
Definition rich_ctx (ps : list rport) (q : string) : ctx :=
  {| port_values := map (fun p => (rid p, rlast p)) (filter ren ps);
     ports := map (fun p => (rid p, ren p)) ps;
     now_ms := 0;
     self_id := Some q;
     self_last := match rfind q ps with Some p => rlast p | None => None end;
     transform_role := false |}.

Definition all_unavail (ks : list kind) : bool :=
  match ks with [] => false | _ => forallb (fun k => kind_eqb k KUnavail) ks end.

(* port q, enabled, carrying value expression e: holds the coerced value of e over the current values, and is unavailable
   when e is unavailable; nothing is said when the evaluation fails otherwise *)
Definition follows (ps : list rport) (q : string) (e : expr) : bool :=
  match rfind q ps with
  | Some p =>
      if negb (ren p) then true else
      match sem (rich_ctx ps q) e with
      | Val v => match adapt (rkind p) v with
                 | Some w => match rlast p with Some l => py_eq l w | None => false end
                 | None => true
                 end
      | Fail ks => if all_unavail ks then match rlast p with None => true | Some _ => false end else true
      | Ref _ => true
      end
  | None => true
  end.

Definition rich_case (c : list rport * list (string * expr)) : bool :=
  let '(ps, exprs) := c in forallb (fun qe => follows ps (fst qe) (snd qe)) exprs.

Definition bad_rich (cases : list (list rport * list (string * expr))) : list nat := mismatches rich_case cases 0.
