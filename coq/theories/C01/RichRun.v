(* C01 — second correspondence stream: the specification evaluated on typed ports (number / integer / boolean, harness ports and
   the hub's own virtual ports) with unavailable values, on what the implementation reports at quiescence.  Definitions only. *)
From QT Require Export Expr.Spec.
Open Scope Z_scope.

Inductive pkind := KInt | KNum | KBool.

(* BasePort.adapt_value_type_sync; None = the coercion itself raises (no constraint then) *)
Definition adapt (k : pkind) (v : pyval) : option pyval :=
  match k with
  | KBool => Some (VBool (py_truth v))
  | KInt => match py_int v with inl z => Some (VInt z) | inr _ => None end
  | KNum => match py_float v with POk f => Some f | PErr _ => None end
  end.

Definition rport := (string * pkind * bool * option pyval)%type.      (* id, kind, enabled, last read value *)

Definition rid (p : rport) : string := let '(i, _, _, _) := p in i.
Definition ren (p : rport) : bool := let '(_, _, e, _) := p in e.
Definition rlast (p : rport) : option pyval := let '(_, _, _, v) := p in v.
Definition rkind (p : rport) : pkind := let '(_, k, _, _) := p in k.

Definition rfind (q : string) (ps : list rport) : option rport := find (fun p => String.eqb (rid p) q) ps.

(* the evaluation context handle_value_changes builds at rest: the last read values of the enabled ports *)
Definition rich_ctx (ps : list rport) (q : string) : ctx :=
  {| port_values := map (fun p => (rid p, rlast p)) (filter ren ps);
     ports := map (fun p => (rid p, ren p)) ps;
     now_ms := 0;
     self_id := Some q;
     self_last := match rfind q ps with Some p => rlast p | None => None end;
     transform_role := false |}.

Definition all_unavail (ks : list kind) : bool :=
  match ks with [] => false | _ => forallb (fun k => kind_eqb k KUnavail) ks end.

(* the context BasePort.transform_and_write_value builds for the write transform: only the own port, holding the value to write *)
Definition transform_ctx (q : string) (v : option pyval) : ctx :=
  {| port_values := [(q, v)]; ports := [(q, true)]; now_ms := 0; self_id := Some q; self_last := v; transform_role := true |}.

(* what the port must hold when the (coerced) expression value is a (None = unavailable):
   Some (Some x) = exactly x;  Some None = unavailable;  None = nothing is said (the transform or a coercion fails) *)
Definition expected_held (k : pkind) (q : string) (tw : option expr) (a : option pyval) : option (option pyval) :=
  match tw with
  | None => Some a
  | Some t =>
      match sem (transform_ctx q a) t with
      | Val w => match adapt k w with Some x => Some (Some x) | None => None end
      | Fail ks => if all_unavail ks then Some None else None
      | Ref _ => None
      end
  end.

Definition holds (last want : option pyval) : bool :=
  match last, want with
  | Some l, Some w => py_eq l w || (is_nan_val l && is_nan_val w)     (* a NaN result is held as NaN *)
  | None, None => true
  | _, _ => false
  end.

(* port q, enabled, carrying value expression e (and possibly a write transform): holds the coerced value of e over the current
   values passed through the write transform and coerced again, and is unavailable when that is unavailable; nothing is said
   when an evaluation or coercion fails otherwise.  With a write transform the hub's "unchanged" short-cut compares the
   untransformed value with what the port holds (known finding F13, reported by the first stream): a port that holds exactly
   the untransformed value is therefore not judged here. *)
Definition follows (ps : list rport) (q : string) (e : expr) (tw : option expr) : bool :=
  match rfind q ps with
  | Some p =>
      if negb (ren p) then true else
      let judge (a : option pyval) :=
        (* SelfPortValue falls back to the port's live last value when the value handed to the transform is falsy (0, false,
           unavailable): what the transform then yields depends on the history, not on the state at rest - not judged *)
        let history_dependent := match tw, a with
                                 | Some _, None => true
                                 | Some _, Some x => negb (py_truth x)
                                 | None, _ => false
                                 end in
        if history_dependent then true else
        match expected_held (rkind p) q tw a with
        | None => true
        | Some want => holds (rlast p) want || match tw with Some _ => holds (rlast p) a | None => false end
        end in
      match sem (rich_ctx ps q) e with
      | Val v => match adapt (rkind p) v with Some w => judge (Some w) | None => true end
      | Fail ks => if all_unavail ks then judge None else true
      | Ref _ => true
      end
  | None => true
  end.

Definition rich_case (c : list rport * list (string * expr * option expr)) : bool :=
  let '(ps, exprs) := c in forallb (fun qe => follows ps (fst (fst qe)) (snd (fst qe)) (snd qe)) exprs.

Definition bad_rich (cases : list (list rport * list (string * expr * option expr))) : list nat := mismatches rich_case cases 0.
