(* C01 — proofs over the hub LTS: an inductive invariant that gives convergence at every quiescent state, for every
   trace (any length, any interleaving of passes, evaluations, write completions, source changes, expression assignments,
   enable / disable). *)
From QT Require Import C01.Hub.
From Coq Require Import Lia.
Open Scope nat_scope.

Section HubThm.
  Variable V : Type.
  Variable veqb : option V -> option V -> bool.
  Hypothesis veqb_spec : forall a b, veqb a b = true <-> a = b.
  Variable E W : Type.
  Variable feval : E -> (pid -> bool) -> snap V -> eout W.
  Variable deps : E -> list pid.
  Variable coerce : pid -> option W -> eout V.
  (* evaluation only looks at the reported dependencies — their enabled flags and their values in the snapshot (proved for the
     concrete language: Expr/Deps.v deps_sound) *)
  Hypothesis frame : forall e f1 f2 s1 s2,
    (forall d, In d (deps e) -> f1 d = f2 d) -> (forall d, In d (deps e) -> s1 d = s2 d) -> feval e f1 s1 = feval e f2 s2.

  Notation port := (port V E).
  Notation state := (state V E).
  (* the evaluation task refreshes after its write; enable() forces the evaluation of all expressions ... *)
  Variable dfa : bool.
  (* ... and so does disable(): evaluation sees the live enabled flags (AVAILABLE($p) / DEFAULT($p, x) change value when p is
     disabled), so the invariant needs it.  Only the lemmas about Disable (hence step_inv, run_inv, convergence) use it. *)
  Hypothesis dfa_true : dfa = true.
  Notation step := (step V veqb E W feval deps coerce true true dfa).
  Notation run := (run V veqb E W feval deps coerce true true dfa).
  Notation lasts := (lasts V E).
  Notation ens := (@ens V E).
  Notation follows := (follows V veqb E W feval coerce).
  Notation quiescent := (quiescent V veqb E).

  (* the value the expression of q asks for in state s, over the live enabled flags and the current last read values
     (None: evaluation / coercion error — the property is silent) *)
  Definition target (s : state) (q : pid) (e : E) : option (option V) :=
    match feval e (ens s) (lasts s) with
    | OErr => None
    | OVal v => match coerce q v with OErr => None | OVal v' => Some v' end
    end.

  Definition agree {A} (l : list pid) (s1 s2 : pid -> A) : Prop := forall d, In d l -> s1 d = s2 d.

  Lemma target_ext s s' q e :
    agree (deps e) (ens s') (ens s) -> agree (deps e) (lasts s') (lasts s) -> target s' q e = target s q e.
  Proof. intros Hd Ha. unfold target. rewrite (frame e _ _ _ _ Hd Ha). reflexivity. Qed.

  Lemma ens_agree s s' l : (forall d, en (ports s' d) = en (ports s d)) -> agree l (ens s') (ens s).
  Proof. intros H d _. unfold Hub.ens. apply H. Qed.

  Definition settled (s : state) (q : pid) (e : E) (x : port) : Prop :=
    match target s q e with
    | None => True
    | Some g => match ph x with Writing v => v = g | _ => src x = g end
    end.

  Definition changed_of (s : state) : list pid := match pass s with Some ps => changed ps | None => [] end.

  Definition is_last (l : list (snap V)) (sn : snap V) : Prop := exists l', l = l' ++ [sn].

  (* the coverage invariant for one port with an expression *)
  Definition covered (s : state) (q : pid) (e : E) : Prop :=
    let x := ports s q in
    en x = false
    \/ forced x = true
    \/ force_all s = true
    \/ (exists d, In d (deps e) /\ In d (changed_of s))
    \/ (exists sn, is_last (evq x) sn /\ agree (deps e) sn (lasts s))
    \/ (evq x = [] /\ settled s q e x).

  Record Inv (s : state) : Prop := {
    inv_cov : forall q e, In q (all_ids s) -> expr (ports s q) = Some e -> covered s q e;
    inv_sync : forall q, In q (all_ids s) -> expr (ports s q) <> None ->
               (ph (ports s q) = Idle \/ exists v, ph (ports s q) = Writing v) -> src (ports s q) = last (ports s q);
    inv_refresh : forall q, In q (all_ids s) -> ph (ports s q) = Refreshing ->
               exists ps, pass s = Some ps /\ (In q (to_read ps) \/ src (ports s q) = last (ports s q));
    inv_toread : forall ps, pass s = Some ps -> incl (to_read ps) (all_ids s);
    inv_noself : forall q e, In q (all_ids s) -> expr (ports s q) = Some e -> ~ In q (deps e);
    inv_idle : forall q, In q (all_ids s) -> expr (ports s q) = None -> ph (ports s q) = Idle;
    inv_off : forall q, In q (all_ids s) -> en (ports s q) = false -> ph (ports s q) = Idle /\ evq (ports s q) = []
  }.

  (* events the theorem quantifies over: they concern registered ports; an expression is assigned to, and a port is
     disabled, when the port is at rest (no queued evaluation, task idle, last read value current); expressions do not read
     their own port *)
  Definition wf_event (s : state) (ev : event V E) : Prop :=
    match ev with
    | Eval q | WriteEnd q => In q (all_ids s)
    | SourceSet p _ => In p (all_ids s)
    | SetExpr q e =>
        In q (all_ids s) /\ ~ In q (deps e) /\ evq (ports s q) = [] /\ ph (ports s q) = Idle
        /\ src (ports s q) = last (ports s q)
    | Enable p => In p (all_ids s)
    | Disable p => In p (all_ids s) /\ evq (ports s p) = [] /\ ph (ports s p) = Idle
    | _ => True
    end.

  Fixpoint run_wf (s : state) (tr : list (event V E)) : Prop :=
    match tr with
    | [] => True
    | ev :: r => wf_event s ev /\ match step s ev with Some s' => run_wf s' r | None => True end
    end.

  Lemma mem_In p l : mem p l = true <-> In p l.
  Proof.
    unfold mem. rewrite existsb_exists. split.
    - intros (x & Hx & Hxe). apply Nat.eqb_eq in Hxe. subst. exact Hx.
    - intros H. exists p. split; [exact H|apply Nat.eqb_refl].
  Qed.

  (* two states with the same registry, enabled flags and last values have the same snapshot *)
  Lemma lasts_ext s s' :
    all_ids s' = all_ids s ->
    (forall p, In p (all_ids s) -> last (ports s' p) = last (ports s p) /\ en (ports s' p) = en (ports s p)) ->
    forall p, lasts s' p = lasts s p.
  Proof.
    intros Hid Hl p. unfold Hub.lasts. rewrite Hid. destruct (existsb (Nat.eqb p) (all_ids s)) eqn:Hm; [|reflexivity].
    assert (Hin : In p (all_ids s)) by (apply mem_In; exact Hm). destruct (Hl p Hin) as [H1 H2]. rewrite H1, H2. reflexivity.
  Qed.

  Lemma upd_eq (f : pid -> port) p x : upd V E f p x p = x.
  Proof. unfold upd. rewrite Nat.eqb_refl. reflexivity. Qed.

  Lemma upd_neq (f : pid -> port) p x q : q <> p -> upd V E f p x q = f q.
  Proof. intros H. unfold upd. apply Nat.eqb_neq in H. rewrite H. reflexivity. Qed.

  (* ---------------- transporting [covered] between states that agree on what it looks at *)
  Lemma covered_ext s s' q e :
    ports s' q = ports s q -> (force_all s = true -> force_all s' = true) ->
    (forall d, en (ports s' d) = en (ports s d)) -> (forall p, lasts s' p = lasts s p) ->
    (forall d, In d (changed_of s) -> In d (changed_of s')) ->
    covered s q e -> covered s' q e.
  Proof.
    intros Hp Hfa Hen HL Hc Hcov. unfold covered in *. rewrite Hp.
    pose proof (ens_agree s s' (deps e) Hen) as Hdo.
    destruct Hcov as [H|[H|[H|[(d & Hd & Hin)|[(sn & Hl & Ha)|(Hq & Hs)]]]]].
    - left. exact H.
    - right. left. exact H.
    - right. right. left. apply Hfa. exact H.
    - right. right. right. left. exists d. split; [exact Hd|apply Hc; exact Hin].
    - right. right. right. right. left. exists sn. split; [exact Hl|]. intros d Hd. rewrite HL. apply Ha. exact Hd.
    - right. right. right. right. right. split; [exact Hq|]. unfold settled in *.
      rewrite (target_ext s s' q e Hdo); [exact Hs|]. intros d _. apply HL.
  Qed.

  Lemma set_port_other s p x q : q <> p -> ports (set_port V E s p x) q = ports s q.
  Proof. intros H. unfold set_port. cbn [ports]. apply upd_neq. exact H. Qed.

  Lemma set_port_same s p x : ports (set_port V E s p x) p = x.
  Proof. unfold set_port. cbn [ports]. apply upd_eq. Qed.

  Lemma en_set_port s p x : en x = en (ports s p) -> forall d, en (ports (set_port V E s p x) d) = en (ports s d).
  Proof.
    intros H d. destruct (Nat.eq_dec d p) as [->|Hn]; [rewrite set_port_same; exact H|rewrite set_port_other by exact Hn; reflexivity].
  Qed.

  Lemma lasts_set_port s p x :
    last x = last (ports s p) -> en x = en (ports s p) -> forall r, lasts (set_port V E s p x) r = lasts s r.
  Proof.
    intros H He r. apply lasts_ext; [reflexivity|]. intros r' _.
    destruct (Nat.eq_dec r' p) as [->|Hn]; [rewrite set_port_same; split; assumption|rewrite set_port_other by exact Hn; split; reflexivity].
  Qed.

  (* an event that touches one port without changing its last read value, its enabled flag, the registry, the running pass
     or the global force flag *)
  Lemma inv_local s p x :
    Inv s -> In p (all_ids s) -> last x = last (ports s p) -> en x = en (ports s p) ->
    (forall e, expr x = Some e -> covered (set_port V E s p x) p e) ->
    (expr x <> None -> (ph x = Idle \/ exists v, ph x = Writing v) -> src x = last x) ->
    (ph x = Refreshing -> ph (ports s p) = Refreshing /\ src x = src (ports s p)) ->
    (forall e, expr x = Some e -> ~ In p (deps e)) ->
    (expr x = None -> ph x = Idle) ->
    (en x = false -> ph x = Idle /\ evq x = []) ->
    Inv (set_port V E s p x).
  Proof.
    intros HI Hp Hlast Hen Hcov Hsync Hrefr Hnoself Hidle Hoff.
    pose proof (lasts_set_port s p x Hlast Hen) as HL.
    pose proof (en_set_port s p x Hen) as HE.
    constructor.
    - intros q e Hq He. cbn [all_ids set_port] in Hq.
      destruct (Nat.eq_dec q p) as [->|Hn].
      + rewrite set_port_same in He. apply Hcov. exact He.
      + rewrite set_port_other in He by exact Hn.
        apply (covered_ext s); [apply set_port_other; exact Hn|intros H; exact H|exact HE|exact HL|intros d Hd; exact Hd|].
        apply (inv_cov s HI); assumption.
    - intros q Hq He Hph. cbn [all_ids set_port] in Hq.
      destruct (Nat.eq_dec q p) as [->|Hn].
      + rewrite set_port_same in *. apply Hsync; assumption.
      + rewrite set_port_other in * by exact Hn. apply (inv_sync s HI); assumption.
    - intros q Hq Hph. cbn [all_ids set_port pass] in *.
      destruct (Nat.eq_dec q p) as [->|Hn].
      + rewrite set_port_same in *. destruct (Hrefr Hph) as [Hold Hsrc].
        destruct (inv_refresh s HI p Hp Hold) as (ps & Hps & Hor). exists ps. split; [exact Hps|].
        destruct Hor as [Hin|Heq]; [left; exact Hin|right; rewrite Hsrc, Hlast; exact Heq].
      + rewrite set_port_other in * by exact Hn. apply (inv_refresh s HI); assumption.
    - intros ps Hps. cbn [all_ids set_port pass] in *. apply (inv_toread s HI); exact Hps.
    - intros q e Hq He. cbn [all_ids set_port] in Hq.
      destruct (Nat.eq_dec q p) as [->|Hn].
      + rewrite set_port_same in He. apply Hnoself; exact He.
      + rewrite set_port_other in He by exact Hn. apply (inv_noself s HI); assumption.
    - intros q Hq He. cbn [all_ids set_port] in Hq.
      destruct (Nat.eq_dec q p) as [->|Hn].
      + rewrite set_port_same in *. apply Hidle; exact He.
      + rewrite set_port_other in * by exact Hn. apply (inv_idle s HI); assumption.
    - intros q Hq He. cbn [all_ids set_port] in Hq.
      destruct (Nat.eq_dec q p) as [->|Hn].
      + rewrite set_port_same in *. apply Hoff; exact He.
      + rewrite set_port_other in * by exact Hn. apply (inv_off s HI); assumption.
  Qed.

  Lemma veqb_refl a : veqb a a = true.
  Proof. apply veqb_spec. reflexivity. Qed.

  Lemma is_last_tail (a : snap V) r x : is_last (a :: r) x -> r <> [] -> is_last r x.
  Proof.
    intros [l' H] Hr. destruct l' as [|b l'].
    - cbn in H. injection H as _ H. contradiction.
    - cbn in H. injection H as _ H. exists l'. exact H.
  Qed.

  Lemma is_last_single (a x : snap V) : is_last [a] x -> x = a.
  Proof.
    intros [l' H]. destruct l' as [|b l'].
    - cbn in H. injection H as H. symmetry. exact H.
    - cbn in H. injection H as _ H. destruct l'; discriminate.
  Qed.

  (* the disjuncts of [covered] that do not look at the port's queue / phase / driver value survive a local change *)
  Lemma covered_local s p x e :
    last x = last (ports s p) -> en x = en (ports s p) -> forced x = forced (ports s p) ->
    covered s p e ->
    (forall sn, is_last (evq (ports s p)) sn -> agree (deps e) sn (lasts s) ->
       (exists sn', is_last (evq x) sn' /\ agree (deps e) sn' (lasts s)) \/ (evq x = [] /\ settled s p e x)) ->
    (evq (ports s p) = [] -> settled s p e (ports s p) -> evq x = [] /\ settled s p e x) ->
    covered (set_port V E s p x) p e.
  Proof.
    intros Hlast Hen Hfo Hc Hq Hs. unfold covered in *. rewrite set_port_same.
    pose proof (lasts_set_port s p x Hlast Hen) as HL. pose proof (en_set_port s p x Hen) as HE.
    pose proof (ens_agree s (set_port V E s p x) (deps e) HE) as Hdo.
    assert (Hset : forall y, settled s p e y -> settled (set_port V E s p x) p e y).
    { intros y Hy. unfold settled in *. rewrite (target_ext s _ p e Hdo); [exact Hy|]. intros d _. apply HL. }
    destruct Hc as [H|[H|[H|[(d & Hd & Hin)|[(sn & Hl & Ha)|(Hev & Hst)]]]]].
    - left. rewrite Hen. exact H.
    - right. left. rewrite Hfo. exact H.
    - right. right. left. exact H.
    - right. right. right. left. exists d. split; [exact Hd|exact Hin].
    - destruct (Hq sn Hl Ha) as [(sn' & Hl' & Ha')|(He' & Hs')].
      + right. right. right. right. left. exists sn'. split; [exact Hl'|]. intros d Hd. rewrite HL. apply Ha'. exact Hd.
      + right. right. right. right. right. split; [exact He'|apply Hset; exact Hs'].
    - destruct (Hs Hev Hst) as [He' Hs']. right. right. right. right. right. split; [exact He'|apply Hset; exact Hs'].
  Qed.

  (* ---------------- SourceSet *)
  Lemma inv_SourceSet s p v s' : Inv s -> wf_event s (SourceSet p v) -> step s (SourceSet p v) = Some s' -> Inv s'.
  Proof.
    intros HI Hwf H. cbn [Hub.step wf_event] in *. destruct (expr (ports s p)) eqn:Ee; [discriminate|]. injection H as <-.
    apply inv_local; cbn [src last expr evq ph forced en]; try assumption; try reflexivity.
    - intros e He. discriminate.
    - intros He. contradiction.
    - intros Hph. rewrite (inv_idle s HI p Hwf Ee) in Hph. discriminate.
    - intros e He. discriminate.
    - intros _. apply (inv_idle s HI p Hwf Ee).
    - intros He. apply (inv_off s HI p Hwf He).
  Qed.

  (* ---------------- SetExpr *)
  Lemma inv_SetExpr s q e s' : Inv s -> wf_event s (SetExpr q e) -> step s (SetExpr q e) = Some s' -> Inv s'.
  Proof.
    intros HI (Hq & Hns & Hevq & Hph & Hsl) H. cbn [Hub.step] in H. injection H as <-.
    apply inv_local; cbn [src last expr evq ph forced en]; try assumption; try reflexivity.
    - intros e' _. right. left. rewrite set_port_same. reflexivity.
    - intros _ _. exact Hsl.
    - intros Hr. rewrite Hph in Hr. discriminate.
    - intros e' He. injection He as <-. exact Hns.
    - intros He. discriminate.
    - intros _. split; assumption.
  Qed.

  (* ---------------- WriteEnd *)
  Lemma inv_WriteEnd s q s' : Inv s -> wf_event s (WriteEnd q) -> step s (WriteEnd q) = Some s' -> Inv s'.
  Proof.
    intros HI Hq H. cbn [Hub.step wf_event] in *. destruct (ph (ports s q)) as [|v| |] eqn:Eph; try discriminate. injection H as <-.
    assert (Hexpr : expr (ports s q) <> None).
    { intros He. rewrite (inv_idle s HI q Hq He) in Eph. discriminate. }
    assert (Hon : en (ports s q) = false -> False).
    { intros He. rewrite (proj1 (inv_off s HI q Hq He)) in Eph. discriminate. }
    apply inv_local; cbn [src last expr evq ph forced en]; try assumption; try reflexivity.
    - intros e He. apply covered_local; cbn [src last expr evq ph forced en]; try reflexivity.
      + apply (inv_cov s HI q e Hq He).
      + intros sn Hl Ha. left. exists sn. split; assumption.
      + intros Hev Hst. split; [exact Hev|]. unfold settled in *. destruct (target s q e) as [g|]; [|exact I].
        cbn [ph src]. rewrite Eph in Hst. exact Hst.
    - intros _ [Hc|[w Hc]]; discriminate.
    - intros Hc. discriminate.
    - intros e He. apply (inv_noself s HI q e Hq He).
    - intros He. contradiction.
    - intros He. exfalso. apply Hon. exact He.
  Qed.

  (* ---------------- Eval *)
  Lemma inv_Eval s q s' : Inv s -> wf_event s (Eval q) -> step s (Eval q) = Some s' -> Inv s'.
  Proof.
    intros HI Hq H. cbn [Hub.step wf_event] in *.
    destruct (ph (ports s q)) eqn:Eph; try discriminate.
    destruct (evq (ports s q)) as [|sn rest] eqn:Eevq; [discriminate|].
    destruct (expr (ports s q)) as [e|] eqn:Eexpr; [|discriminate].
    assert (Hsync : src (ports s q) = last (ports s q)).
    { apply (inv_sync s HI q Hq); [rewrite Eexpr; discriminate|left; exact Eph]. }
    assert (Hon : en (ports s q) = false -> False).
    { intros He. rewrite (proj2 (inv_off s HI q Hq He)) in Eevq. discriminate. }
    pose proof (inv_cov s HI q e Hq Eexpr) as Hc.
    pose proof (inv_noself s HI q e Hq Eexpr) as Hns.
    (* the port after the evaluation, for either phase *)
    assert (Hgen : forall newph,
      (newph = Idle \/ exists v', newph = Writing v') ->
      (rest = [] -> agree (deps e) sn (lasts s) ->
         match target s q e with
         | None => True
         | Some g => match newph with Writing v => v = g | _ => src (ports s q) = g end
         end) ->
      Inv (set_port V E s q {| src := src (ports s q); last := last (ports s q); expr := Some e;
                               evq := rest; ph := newph; forced := forced (ports s q); en := en (ports s q) |})).
    { intros newph Hnew Hset.
      apply inv_local; cbn [src last expr evq ph forced en]; try assumption; try reflexivity.
      - intros e' He'. injection He' as <-.
        apply covered_local; cbn [src last expr evq ph forced en]; try reflexivity; [exact Hc| |].
        + intros sn' Hl Ha. rewrite Eevq in Hl. destruct rest as [|r0 rest'] eqn:Er.
          * apply is_last_single in Hl. subst sn'.
            right. split; [reflexivity|]. unfold settled. cbn [ph src]. apply Hset; [reflexivity|exact Ha].
          * left. exists sn'. split; [apply (is_last_tail sn); [exact Hl|discriminate]|exact Ha].
        + intros Hev. rewrite Eevq in Hev. discriminate.
      - intros _ _. exact Hsync.
      - intros Hr. destruct Hnew as [->|[v' ->]]; discriminate.
      - intros e' He'. injection He' as <-. exact Hns.
      - intros He'. discriminate.
      - intros He. exfalso. apply Hon. exact He. }
    (* the queued snapshot is evaluated over the live flags: when it agrees with the current values on the dependencies, the
       result is the target *)
    assert (Hfr : agree (deps e) sn (lasts s) -> feval e (ens s) (lasts s) = feval e (ens s) sn).
    { intros Ha. symmetry. apply frame; [intros d _; reflexivity|exact Ha]. }
    destruct (feval e (ens s) sn) as [v|] eqn:Ef.
    2:{ injection H as <-. apply Hgen; [left; reflexivity|]. intros _ Ha. unfold target. rewrite (Hfr Ha). exact I. }
    destruct (coerce q v) as [v'|] eqn:Ec.
    2:{ injection H as <-. apply Hgen; [left; reflexivity|]. intros _ Ha. unfold target. rewrite (Hfr Ha). cbv beta iota. rewrite Ec. exact I. }
    destruct (veqb v' (last (ports s q))) eqn:Ev; injection H as <-.
    - apply Hgen; [left; reflexivity|]. intros _ Ha. unfold target. rewrite (Hfr Ha). cbv beta iota. rewrite Ec.
      apply veqb_spec in Ev. rewrite Hsync. symmetry. exact Ev.
    - apply Hgen; [right; exists v'; reflexivity|]. intros _ Ha. unfold target. rewrite (Hfr Ha). cbv beta iota. rewrite Ec. reflexivity.
  Qed.

  (* ---------------- PassBegin *)
  Lemma begin_refresh_fields (x : port) :
    src (begin_refresh V E x) = src x /\ last (begin_refresh V E x) = last x /\ expr (begin_refresh V E x) = expr x
    /\ evq (begin_refresh V E x) = evq x /\ forced (begin_refresh V E x) = forced x /\ en (begin_refresh V E x) = en x.
  Proof. unfold begin_refresh. destruct (ph x); repeat split. Qed.

  Lemma settled_begin_refresh (x : port) (g : option V) :
    match ph (begin_refresh V E x) with Writing v => v = g | _ => src x = g end
    <-> match ph x with Writing v => v = g | _ => src x = g end.
  Proof. unfold begin_refresh. destruct (ph x) eqn:E0; cbn [ph]; rewrite ?E0; tauto. Qed.

  Lemma inv_PassBegin s s' : Inv s -> step s PassBegin = Some s' -> Inv s'.
  Proof.
    intros HI H. cbn [Hub.step] in H. destruct (pass s) eqn:Ep; [discriminate|]. injection H as <-.
    set (s' := {| ports := fun q => begin_refresh V E (ports s q); all_ids := all_ids s;
                  pass := Some {| to_read := all_ids s; changed := [] |}; force_all := force_all s |}).
    assert (HE : forall d, en (ports s' d) = en (ports s d)) by (intros d; subst s'; cbn [ports]; apply (begin_refresh_fields (ports s d))).
    assert (HL : forall p, lasts s' p = lasts s p).
    { apply lasts_ext; [reflexivity|]. intros p _. subst s'. cbn [ports]. split; apply (begin_refresh_fields (ports s p)). }
    constructor; subst s'; cbn [ports all_ids pass force_all].
    - intros q e Hq He. destruct (begin_refresh_fields (ports s q)) as (Hs & Hl & Hx & Hv & Hf & Hen). rewrite Hx in He.
      pose proof (inv_cov s HI q e Hq He) as Hc. unfold covered in *. cbn [ports force_all]. rewrite Hf, Hv, Hen.
      destruct Hc as [H|[H|[H|[(d & Hd & Hin)|[(sn & Hla & Ha)|(Hev & Hst)]]]]].
      + left. exact H.
      + right. left. exact H.
      + right. right. left. exact H.
      + unfold changed_of in Hin. rewrite Ep in Hin. destruct Hin.
      + right. right. right. right. left. exists sn. split; [exact Hla|]. intros d Hd. rewrite HL. apply Ha. exact Hd.
      + right. right. right. right. right. split; [exact Hev|]. unfold settled in *.
        rewrite (target_ext s _ q e (ens_agree s _ (deps e) HE)) by (intros d _; apply HL).
        destruct (target s q e) as [g|]; [|exact I]. rewrite Hs.
        apply settled_begin_refresh. exact Hst.
    - intros q Hq He Hph. destruct (begin_refresh_fields (ports s q)) as (Hs & Hl & Hx & Hv & Hf & Hen).
      rewrite Hs, Hl. rewrite Hx in He. apply (inv_sync s HI q Hq He).
      unfold begin_refresh in Hph. destruct (ph (ports s q)) eqn:E0; cbn [ph] in Hph; rewrite ?E0 in Hph.
      + left. reflexivity.
      + right. eexists. reflexivity.
      + destruct Hph as [Hc|[v Hc]]; discriminate.
      + destruct Hph as [Hc|[v Hc]]; discriminate.
    - intros q Hq Hph. eexists. split; [reflexivity|]. cbn [to_read]. left. exact Hq.
    - intros ps Hps. injection Hps as <-. cbn [to_read]. apply incl_refl.
    - intros q e Hq He. destruct (begin_refresh_fields (ports s q)) as (_ & _ & Hx & _). rewrite Hx in He.
      apply (inv_noself s HI q e Hq He).
    - intros q Hq He. destruct (begin_refresh_fields (ports s q)) as (_ & _ & Hx & _). rewrite Hx in He.
      pose proof (inv_idle s HI q Hq He) as Hi. unfold begin_refresh. rewrite Hi. exact Hi.
    - intros q Hq He. destruct (begin_refresh_fields (ports s q)) as (_ & _ & _ & Hv & _ & Hen). rewrite Hen in He.
      destruct (inv_off s HI q Hq He) as [Hi Hq0]. rewrite Hv. split; [|exact Hq0]. unfold begin_refresh. rewrite Hi. exact Hi.
  Qed.

  (* ---------------- PassSkip *)
  Lemma inv_PassSkip s p s' : Inv s -> step s (PassSkip p) = Some s' -> Inv s'.
  Proof.
    intros HI H. cbn [Hub.step] in H. destruct (pass s) as [[tr chg]|] eqn:Ep; [|discriminate].
    destruct tr as [|p' rest]; [discriminate|]. destruct (Nat.eqb p p' && negb (en (ports s p))) eqn:Epp; [|discriminate].
    apply andb_true_iff in Epp. destruct Epp as [Epp Een]. apply Nat.eqb_eq in Epp. subst p'. apply negb_true_iff in Een.
    assert (Hp : In p (all_ids s)) by (apply (inv_toread s HI _ Ep); left; reflexivity).
    injection H as <-.
    set (s' := {| ports := ports s; all_ids := all_ids s; pass := Some {| to_read := rest; changed := chg |}; force_all := force_all s |}).
    assert (HL : forall r, lasts s' r = lasts s r) by (intros r; reflexivity).
    constructor; subst s'; cbn [ports all_ids pass force_all].
    - intros q e Hq He.
      apply (covered_ext s); [reflexivity|intros H; exact H|intros d; reflexivity|exact HL| |apply (inv_cov s HI q e Hq He)].
      intros d Hd. unfold changed_of in *. cbn [pass changed]. rewrite Ep in Hd. exact Hd.
    - apply (inv_sync s HI).
    - intros q Hq Hph. exists {| to_read := rest; changed := chg |}. split; [reflexivity|]. cbn [to_read].
      destruct (inv_refresh s HI q Hq Hph) as (ps & Hps & Hor). rewrite Ep in Hps. injection Hps as <-. cbn [to_read] in Hor.
      destruct Hor as [[Heq|Hin]|Heq]; [|left; exact Hin|right; exact Heq].
      subst q. rewrite (proj1 (inv_off s HI p Hp Een)) in Hph. discriminate.
    - intros ps Hps. injection Hps as <-. cbn [to_read]. intros r Hr. apply (inv_toread s HI _ Ep). right. exact Hr.
    - apply (inv_noself s HI).
    - apply (inv_idle s HI).
    - apply (inv_off s HI).
  Qed.

  (* ---------------- PassRead *)
  Lemma inv_PassRead s p s' : Inv s -> step s (PassRead p) = Some s' -> Inv s'.
  Proof.
    intros HI H. cbn [Hub.step] in H. destruct (pass s) as [[tr chg]|] eqn:Ep; [|discriminate].
    destruct tr as [|p' rest]; [discriminate|]. destruct (Nat.eqb p p') eqn:Epp; [|discriminate].
    apply Nat.eqb_eq in Epp. subst p'.
    assert (Hp : In p (all_ids s)) by (apply (inv_toread s HI _ Ep); left; reflexivity).
    set (x := ports s p) in *.
    set (x' := {| src := src x; last := src x; expr := expr x; evq := evq x; ph := ph x; forced := forced x; en := en x |}) in *.
    set (chg' := if veqb (src x) (last x) then chg else p :: chg) in *.
    injection H as <-.
    set (s' := {| ports := upd V E (ports s) p x'; all_ids := all_ids s; pass := Some {| to_read := rest; changed := chg' |};
                  force_all := force_all s |}).
    assert (Hother : forall q, q <> p -> ports s' q = ports s q) by (intros q Hn; subst s'; cbn [ports]; apply upd_neq; exact Hn).
    assert (Hsame : ports s' p = x') by (subst s'; cbn [ports]; apply upd_eq).
    assert (HE : forall d, en (ports s' d) = en (ports s d)).
    { intros d. destruct (Nat.eq_dec d p) as [->|Hn]; [rewrite Hsame; reflexivity|rewrite Hother by exact Hn; reflexivity]. }
    assert (HLo : forall r, r <> p -> lasts s' r = lasts s r).
    { intros r Hn. unfold Hub.lasts. subst s'. cbn [all_ids ports]. rewrite upd_neq by exact Hn. reflexivity. }
    assert (Hchg : forall d, In d chg -> In d chg').
    { intros d Hd. subst chg'. destruct (veqb (src x) (last x)); [exact Hd|right; exact Hd]. }
    constructor.
    - intros q e Hq He.
      assert (He0 : expr (ports s q) = Some e).
      { destruct (Nat.eq_dec q p) as [->|Hn]; [rewrite Hsame in He; exact He|rewrite Hother in He by exact Hn; exact He]. }
      pose proof (inv_cov s HI q e Hq He0) as Hc. pose proof (inv_noself s HI q e Hq He0) as Hns.
      assert (Hfields : forced (ports s' q) = forced (ports s q) /\ evq (ports s' q) = evq (ports s q)
                        /\ ph (ports s' q) = ph (ports s q) /\ src (ports s' q) = src (ports s q)).
      { destruct (Nat.eq_dec q p) as [->|Hn]; [rewrite Hsame; repeat split|rewrite Hother by exact Hn; repeat split]. }
      destruct Hfields as (Hfo & Hev & Hph & Hsr).
      pose proof (ens_agree s s' (deps e) HE) as Hdo.
      unfold covered in *. rewrite Hfo, Hev, HE. unfold changed_of in *. rewrite Ep in Hc.
      replace (force_all s') with (force_all s) by reflexivity. replace (pass s') with (Some {| to_read := rest; changed := chg' |}) by reflexivity.
      cbn [changed].
      destruct Hc as [H|[H|[H|[(d & Hd & Hin)|Hrest]]]].
      + left. exact H.
      + right. left. exact H.
      + right. right. left. exact H.
      + right. right. right. left. exists d. split; [exact Hd|apply Hchg; exact Hin].
      + destruct (veqb (src x) (last x)) eqn:Ev.
        * (* the value read is the one already known: nothing changes *)
          apply veqb_spec in Ev.
          assert (HL : forall r, lasts s' r = lasts s r).
          { intros r. destruct (Nat.eq_dec r p) as [->|Hn]; [|apply HLo; exact Hn].
            unfold Hub.lasts. subst s'. cbn [all_ids ports]. rewrite upd_eq. subst x'. cbn [last en]. rewrite Ev. reflexivity. }
          destruct Hrest as [(sn & Hla & Ha)|(Hevq & Hst)].
          -- right. right. right. right. left. exists sn. split; [exact Hla|]. intros d Hd. rewrite HL. apply Ha. exact Hd.
          -- right. right. right. right. right. split; [exact Hevq|]. unfold settled in *.
             rewrite (target_ext s s' q e Hdo) by (intros d _; apply HL).
             destruct (target s q e) as [g|]; [|exact I]. rewrite Hph, Hsr. exact Hst.
        * (* a change was detected *)
          destruct (in_dec Nat.eq_dec p (deps e)) as [Hin|Hnin].
          -- right. right. right. left. exists p. split; [exact Hin|]. subst chg'. rewrite ?Ev. left. reflexivity.
          -- assert (Hag : agree (deps e) (lasts s') (lasts s)).
             { intros d Hd. apply HLo. intros ->. contradiction. }
             destruct Hrest as [(sn & Hla & Ha)|(Hevq & Hst)].
             ++ right. right. right. right. left. exists sn. split; [exact Hla|]. intros d Hd. rewrite Hag by exact Hd. apply Ha. exact Hd.
             ++ right. right. right. right. right. split; [exact Hevq|]. unfold settled in *.
                rewrite (target_ext s s' q e Hdo Hag).
                destruct (target s q e) as [g|]; [|exact I]. rewrite Hph, Hsr. exact Hst.
    - intros q Hq He Hph. destruct (Nat.eq_dec q p) as [->|Hn].
      + rewrite Hsame. reflexivity.
      + rewrite Hother in * by exact Hn. apply (inv_sync s HI q Hq He Hph).
    - intros q Hq Hph. exists {| to_read := rest; changed := chg' |}. split; [reflexivity|]. cbn [to_read].
      destruct (Nat.eq_dec q p) as [->|Hn].
      + right. rewrite Hsame. reflexivity.
      + rewrite Hother in * by exact Hn. destruct (inv_refresh s HI q Hq Hph) as (ps & Hps & Hor).
        rewrite Ep in Hps. injection Hps as <-. cbn [to_read] in Hor.
        destruct Hor as [[Heq|Hin]|Heq]; [symmetry in Heq; contradiction|left; exact Hin|right; exact Heq].
    - intros ps Hps. subst s'. cbn [pass all_ids] in *. injection Hps as <-. cbn [to_read].
      intros r Hr. apply (inv_toread s HI _ Ep). right. exact Hr.
    - intros q e Hq He. destruct (Nat.eq_dec q p) as [->|Hn].
      + rewrite Hsame in He. apply (inv_noself s HI p e Hq He).
      + rewrite Hother in He by exact Hn. apply (inv_noself s HI q e Hq He).
    - intros q Hq He. destruct (Nat.eq_dec q p) as [->|Hn].
      + rewrite Hsame in *. apply (inv_idle s HI p Hq He).
      + rewrite Hother in * by exact Hn. apply (inv_idle s HI q Hq He).
    - intros q Hq He. destruct (Nat.eq_dec q p) as [->|Hn].
      + rewrite Hsame in *. apply (inv_off s HI p Hq He).
      + rewrite Hother in * by exact Hn. apply (inv_off s HI q Hq He).
  Qed.

  (* ---------------- PassEnd *)
  Definition unrefresh (x : port) : port :=
    match ph x with
    | Refreshing => {| src := src x; last := last x; expr := expr x; evq := evq x; ph := Idle; forced := forced x; en := en x |}
    | _ => x
    end.

  Definition triggered (fall : bool) (chg : list pid) (q : pid) (e : E) (x : port) : bool :=
    fall || forced x || existsb (fun d => negb (Nat.eqb d q) && mem d chg) (deps e).

  Lemma end_pass_port_spec fall L chg q (x : port) :
    let y := end_pass_port V E deps fall L chg q x in
    src y = src x /\ last y = last x /\ expr y = expr x /\ en y = en x /\ ph y = ph (unrefresh x)
    /\ match (if en x then expr x else None) with
       | None => evq y = evq x /\ forced y = false
       | Some e => if triggered fall chg q e x then evq y = evq x ++ [L] /\ forced y = false
                   else evq y = evq x /\ forced y = forced x
       end.
  Proof.
    cbv zeta. unfold end_pass_port, triggered, unrefresh.
    destruct x as [sr la ex ev p0 fo en0]. cbn [ph src last expr evq forced en].
    destruct p0; cbn [ph src last expr evq forced en]; destruct en0; cbn [ph src last expr evq forced en];
      destruct ex as [e|]; cbn [ph src last expr evq forced en];
      try (match goal with |- context [if ?b then _ else _] => destruct b end; cbn [ph src last expr evq forced en]);
      repeat split; reflexivity.
  Qed.

  Lemma unrefresh_ph (x : port) : ph (unrefresh x) <> Refreshing.
  Proof. unfold unrefresh. destruct (ph x) eqn:E0; cbn [ph]; rewrite ?E0; discriminate. Qed.

  Lemma inv_PassEnd s s' : Inv s -> step s PassEnd = Some s' -> Inv s'.
  Proof.
    intros HI H. cbn [Hub.step] in H. destruct (pass s) as [[tr chg]|] eqn:Ep; [|discriminate].
    destruct tr; [|discriminate]. injection H as <-.
    set (L := lasts s). set (fall := force_all s).
    set (s' := {| ports := fun q => if mem q (all_ids s) then end_pass_port V E deps fall L chg q (ports s q) else ports s q;
                  all_ids := all_ids s; pass := None; force_all := false |}).
    assert (Hport : forall q, In q (all_ids s) -> ports s' q = end_pass_port V E deps fall L chg q (ports s q)).
    { intros q Hq. subst s'. cbn [ports]. apply mem_In in Hq. rewrite Hq. reflexivity. }
    assert (HE : forall d, en (ports s' d) = en (ports s d)).
    { intros d. subst s'. cbn [ports]. destruct (mem d (all_ids s)); [|reflexivity]. apply (end_pass_port_spec fall L chg d (ports s d)). }
    assert (HL : forall p, lasts s' p = lasts s p).
    { apply lasts_ext; [reflexivity|]. intros p Hp. rewrite (Hport p Hp).
      destruct (end_pass_port_spec fall L chg p (ports s p)) as (_ & Hl & _ & Hen & _). split; assumption. }
    constructor; cbn [all_ids pass]; fold s'.
    - intros q e Hq He. rewrite (Hport q Hq) in He.
      destruct (end_pass_port_spec fall L chg q (ports s q)) as (Hs & Hl & Hx & Hen & Hp & Hrest). rewrite Hx in He.
      pose proof (inv_cov s HI q e Hq He) as Hc. pose proof (inv_noself s HI q e Hq He) as Hns.
      pose proof (ens_agree s s' (deps e) HE) as Hdo.
      unfold covered. rewrite (Hport q Hq). rewrite Hen.
      destruct (en (ports s q)) eqn:Eenq; [|left; reflexivity].
      rewrite He in Hrest.
      destruct (triggered fall chg q e (ports s q)) eqn:Et.
      + destruct Hrest as [Hev Hfo]. right. right. right. right. left. exists L. split; [exists (evq (ports s q)); exact Hev|].
        intros d _. rewrite HL. reflexivity.
      + destruct Hrest as [Hev Hfo]. rewrite Hev, Hfo. unfold triggered in Et.
        apply orb_false_iff in Et. destruct Et as [Et0 Et2]. apply orb_false_iff in Et0. destruct Et0 as [Et0 Et1].
        unfold covered in Hc. destruct Hc as [H|[H|[H|[(d & Hd & Hin)|[(sn & Hla & Ha)|(Hevq & Hst)]]]]].
        * rewrite Eenq in H. discriminate.
        * rewrite H in Et1. discriminate.
        * subst fall. rewrite H in Et0. discriminate.
        * exfalso. unfold changed_of in Hin. rewrite Ep in Hin. cbn [changed] in Hin.
          assert (Hex : existsb (fun d0 => negb (Nat.eqb d0 q) && mem d0 chg) (deps e) = true).
          { apply existsb_exists. exists d. split; [exact Hd|]. apply andb_true_iff. split.
            - apply negb_true_iff. apply Nat.eqb_neq. intros ->. contradiction.
            - apply mem_In. exact Hin. }
          rewrite Hex in Et2. discriminate.
        * right. right. right. right. left. exists sn. split; [exact Hla|]. intros d Hd. rewrite HL. apply Ha. exact Hd.
        * right. right. right. right. right. split; [exact Hevq|]. unfold settled in *.
          rewrite (target_ext s s' q e Hdo) by (intros d _; apply HL).
          destruct (target s q e) as [g|]; [|exact I]. rewrite Hp, Hs.
          unfold unrefresh. destruct (ph (ports s q)) eqn:E0; cbn [ph]; rewrite ?E0; exact Hst.
    - intros q Hq He Hph. rewrite (Hport q Hq) in *.
      destruct (end_pass_port_spec fall L chg q (ports s q)) as (Hs & Hl & Hx & _ & Hp & _). rewrite Hs, Hl. rewrite Hx in He. rewrite Hp in Hph.
      destruct (ph (ports s q)) eqn:E0.
      + apply (inv_sync s HI q Hq He). left. exact E0.
      + apply (inv_sync s HI q Hq He). right. eexists. exact E0.
      + unfold unrefresh in Hph. rewrite E0 in Hph. rewrite E0 in Hph. destruct Hph as [Hc|[v Hc]]; discriminate.
      + destruct (inv_refresh s HI q Hq E0) as (ps & Hps & Hor). rewrite Ep in Hps. injection Hps as <-. cbn [to_read] in Hor.
        destruct Hor as [[]|Heq]. exact Heq.
    - intros q Hq Hph. rewrite (Hport q Hq) in Hph.
      destruct (end_pass_port_spec fall L chg q (ports s q)) as (_ & _ & _ & _ & Hp & _). rewrite Hp in Hph.
      exfalso. apply (unrefresh_ph (ports s q)). exact Hph.
    - intros ps Hps. discriminate.
    - intros q e Hq He. rewrite (Hport q Hq) in He.
      destruct (end_pass_port_spec fall L chg q (ports s q)) as (_ & _ & Hx & _). rewrite Hx in He. apply (inv_noself s HI q e Hq He).
    - intros q Hq He. rewrite (Hport q Hq) in *.
      destruct (end_pass_port_spec fall L chg q (ports s q)) as (_ & _ & Hx & _ & Hp & _). rewrite Hx in He. rewrite Hp.
      pose proof (inv_idle s HI q Hq He) as Hi. unfold unrefresh. rewrite Hi. exact Hi.
    - intros q Hq He. rewrite (Hport q Hq) in *.
      destruct (end_pass_port_spec fall L chg q (ports s q)) as (_ & _ & _ & Hen & Hp & Hrest). rewrite Hen in He.
      destruct (inv_off s HI q Hq He) as [Hi Hq0]. rewrite He in Hrest. destruct Hrest as [Hev _]. rewrite Hp, Hev.
      split; [unfold unrefresh; rewrite Hi; exact Hi|exact Hq0].
  Qed.

  (* ---------------- Enable *)
  Lemma inv_Enable s p s' : Inv s -> wf_event s (Enable p) -> step s (Enable p) = Some s' -> Inv s'.
  Proof.
    intros HI Hp H. cbn [Hub.step wf_event] in *. destruct (en (ports s p)) eqn:Een; [injection H as <-; exact HI|].
    injection H as <-. destruct (inv_off s HI p Hp Een) as [Hidle Hevq].
    set (x' := {| src := src (ports s p); last := last (ports s p); expr := expr (ports s p); evq := evq (ports s p);
                  ph := ph (ports s p); forced := match expr (ports s p) with Some _ => true | None => forced (ports s p) end; en := true |}).
    unfold set_port. cbn [ports all_ids pass force_all].
    constructor; cbn [ports all_ids pass force_all].
    - intros q e Hq He. unfold covered. cbn [force_all]. right. right. left. reflexivity.
    - intros q Hq He Hph. destruct (Nat.eq_dec q p) as [->|Hn].
      + rewrite upd_eq in *. subst x'. cbn [src last expr ph] in *. apply (inv_sync s HI p Hp He Hph).
      + rewrite upd_neq in * by exact Hn. apply (inv_sync s HI q Hq He Hph).
    - intros q Hq Hph. destruct (Nat.eq_dec q p) as [->|Hn].
      + rewrite upd_eq in Hph. subst x'. cbn [ph] in Hph. rewrite Hidle in Hph. discriminate.
      + rewrite upd_neq in * by exact Hn. apply (inv_refresh s HI q Hq Hph).
    - intros ps Hps. apply (inv_toread s HI _ Hps).
    - intros q e Hq He. destruct (Nat.eq_dec q p) as [->|Hn].
      + rewrite upd_eq in He. subst x'. cbn [expr] in He. apply (inv_noself s HI p e Hp He).
      + rewrite upd_neq in He by exact Hn. apply (inv_noself s HI q e Hq He).
    - intros q Hq He. destruct (Nat.eq_dec q p) as [->|Hn].
      + rewrite upd_eq in *. subst x'. cbn [expr ph] in *. exact Hidle.
      + rewrite upd_neq in * by exact Hn. apply (inv_idle s HI q Hq He).
    - intros q Hq He. destruct (Nat.eq_dec q p) as [->|Hn].
      + rewrite upd_eq in He. subst x'. cbn [en] in He. discriminate.
      + rewrite upd_neq in * by exact Hn. apply (inv_off s HI q Hq He).
  Qed.

  (* ---------------- Disable *)
  (* disabling an enabled port changes what every expression reading it evaluates to (an error for most functions, but
     AVAILABLE / DEFAULT catch it): the step sets the global force flag, so every expression is covered again.  Disabling a
     disabled port changes nothing. *)
  Lemma inv_Disable s p s' : Inv s -> wf_event s (Disable p) -> step s (Disable p) = Some s' -> Inv s'.
  Proof.
    intros HI (Hp & Hevq & Hidle) H. cbn [Hub.step] in H. injection H as <-.
    set (x' := {| src := src (ports s p); last := last (ports s p); expr := expr (ports s p); evq := evq (ports s p);
                  ph := ph (ports s p); forced := forced (ports s p); en := false |}).
    set (fa := if en (ports s p) && dfa then true else force_all s).
    set (s' := {| ports := upd V E (ports s) p x'; all_ids := all_ids s; pass := pass s; force_all := fa |}).
    assert (Hsame : ports s' p = x') by (subst s'; cbn [ports]; apply upd_eq).
    assert (Hother : forall q, q <> p -> ports s' q = ports s q) by (intros q Hn; subst s'; cbn [ports]; apply upd_neq; exact Hn).
    assert (Hids : all_ids s' = all_ids s) by reflexivity.
    assert (Hpass : pass s' = pass s) by reflexivity.
    assert (Hfa : force_all s' = true \/ (en (ports s p) = false /\ force_all s' = force_all s)).
    { subst s' fa. cbn [force_all]. rewrite dfa_true, andb_true_r. destruct (en (ports s p)); [left|right; split]; reflexivity. }
    clearbody s'.
    constructor; rewrite ?Hids, ?Hpass.
    - intros q e Hq He. destruct Hfa as [Ht|[Eoff Hfa]]; [unfold covered; right; right; left; exact Ht|].
      (* already disabled: nothing the invariant looks at changed *)
      destruct (Nat.eq_dec q p) as [->|Hn].
      + unfold covered. left. rewrite Hsame. reflexivity.
      + rewrite (Hother q Hn) in He.
        assert (HE : forall d, en (ports s' d) = en (ports s d)).
        { intros d. destruct (Nat.eq_dec d p) as [->|Hd]; [rewrite Hsame, Eoff; reflexivity|rewrite (Hother d Hd); reflexivity]. }
        assert (HL : forall r, lasts s' r = lasts s r).
        { apply lasts_ext; [exact Hids|]. intros r _. split; [|apply HE].
          destruct (Nat.eq_dec r p) as [->|Hr]; [rewrite Hsame; reflexivity|rewrite (Hother r Hr); reflexivity]. }
        apply (covered_ext s); [apply Hother; exact Hn|intros Ht; rewrite Hfa; exact Ht|exact HE|exact HL| |apply (inv_cov s HI q e Hq He)].
        intros d Hd. unfold changed_of in *. rewrite Hpass. exact Hd.
    - intros q Hq He Hph. destruct (Nat.eq_dec q p) as [->|Hn].
      + rewrite Hsame in *. subst x'. cbn [src last expr ph] in *. apply (inv_sync s HI p Hp He Hph).
      + rewrite (Hother q Hn) in *. apply (inv_sync s HI q Hq He Hph).
    - intros q Hq Hph. destruct (Nat.eq_dec q p) as [->|Hn].
      + rewrite Hsame in Hph. subst x'. cbn [ph] in Hph. rewrite Hidle in Hph. discriminate.
      + rewrite (Hother q Hn) in *. apply (inv_refresh s HI q Hq Hph).
    - intros ps Hps. apply (inv_toread s HI _ Hps).
    - intros q e Hq He. destruct (Nat.eq_dec q p) as [->|Hn].
      + rewrite Hsame in He. subst x'. cbn [expr] in He. apply (inv_noself s HI p e Hp He).
      + rewrite (Hother q Hn) in He. apply (inv_noself s HI q e Hq He).
    - intros q Hq He. destruct (Nat.eq_dec q p) as [->|Hn].
      + rewrite Hsame in *. subst x'. cbn [expr ph] in *. exact Hidle.
      + rewrite (Hother q Hn) in *. apply (inv_idle s HI q Hq He).
    - intros q Hq He. destruct (Nat.eq_dec q p) as [->|Hn].
      + rewrite Hsame. subst x'. cbn [ph evq]. split; assumption.
      + rewrite (Hother q Hn) in *. apply (inv_off s HI q Hq He).
  Qed.

  (* ---------------- every step preserves the invariant; so does every run *)
  Theorem step_inv s ev s' : Inv s -> wf_event s ev -> step s ev = Some s' -> Inv s'.
  Proof.
    intros HI Hwf H. destruct ev as [| p | p | | q | q | p v | q e | p | p].
    - apply (inv_PassBegin s s' HI H).
    - apply (inv_PassRead s p s' HI H).
    - apply (inv_PassSkip s p s' HI H).
    - apply (inv_PassEnd s s' HI H).
    - apply (inv_Eval s q s' HI Hwf H).
    - apply (inv_WriteEnd s q s' HI Hwf H).
    - apply (inv_SourceSet s p v s' HI Hwf H).
    - apply (inv_SetExpr s q e s' HI Hwf H).
    - apply (inv_Enable s p s' HI Hwf H).
    - apply (inv_Disable s p s' HI Hwf H).
  Qed.

  Theorem run_inv tr : forall s s', Inv s -> run_wf s tr -> run s tr = Some s' -> Inv s'.
  Proof.
    induction tr as [|ev r IH]; intros s s' HI Hwf H; cbn [Hub.run run_wf] in *.
    - injection H as <-. exact HI.
    - destruct Hwf as [Hw Hr]. destruct (step s ev) as [s1|] eqn:Es; [|discriminate].
      apply (IH s1 s'); [apply (step_inv s ev s1 HI Hw Es)|exact Hr|exact H].
  Qed.

  (* ---------------- convergence: in every quiescent reachable state every enabled port follows its expression *)
  Theorem inv_quiescent_follows s : Inv s -> quiescent s -> forall q, In q (all_ids s) -> follows s q.
  Proof.
    intros HI (Hpass & Hfall & Hq) q Hin. destruct (Hq q Hin) as (Hevq & Hph & Hfo & Hsl).
    unfold Hub.follows. destruct (en (ports s q)) eqn:Een; [|exact I].
    destruct (expr (ports s q)) as [e|] eqn:He; [|exact I].
    pose proof (inv_cov s HI q e Hin He) as Hc. unfold covered in Hc.
    destruct Hc as [H|[H|[H|[(d & Hd & Hc)|[(sn & [l' Hl] & Ha)|(_ & Hst)]]]]].
    - rewrite Een in H. discriminate.
    - rewrite H in Hfo. discriminate.
    - rewrite H in Hfall. discriminate.
    - unfold changed_of in Hc. rewrite Hpass in Hc. destruct Hc.
    - rewrite Hevq in Hl. destruct l'; discriminate.
    - unfold settled, target in Hst.
      destruct (feval e (ens s) (lasts s)) as [v|]; [|exact I]. destruct (coerce q v) as [v'|]; [|exact I].
      rewrite Hph in Hst. split; [apply veqb_spec; symmetry; exact Hst|apply Hsl; reflexivity].
  Qed.

  (* the initial state: registered ports without expressions, nothing queued, nothing running *)
  Definition pristine (s : state) : Prop :=
    pass s = None /\ forall q, In q (all_ids s) ->
      expr (ports s q) = None /\ ph (ports s q) = Idle /\ evq (ports s q) = [].

  Lemma pristine_inv s : pristine s -> Inv s.
  Proof.
    intros [Hp Hq]. constructor.
    - intros q e Hin He. rewrite (proj1 (Hq q Hin)) in He. discriminate.
    - intros q Hin He. exfalso. apply He. apply (Hq q Hin).
    - intros q Hin Hph. rewrite (proj1 (proj2 (Hq q Hin))) in Hph. discriminate.
    - intros ps Hps. rewrite Hp in Hps. discriminate.
    - intros q e Hin He. rewrite (proj1 (Hq q Hin)) in He. discriminate.
    - intros q Hin _. apply (Hq q Hin).
    - intros q Hin _. apply (Hq q Hin).
  Qed.

  Theorem convergence s0 tr s :
    pristine s0 -> run_wf s0 tr -> run s0 tr = Some s -> quiescent s -> forall q, In q (all_ids s) -> follows s q.
  Proof.
    intros H0 Hwf Hrun Hq. apply inv_quiescent_follows; [|exact Hq].
    apply (run_inv tr s0 s (pristine_inv s0 H0) Hwf Hrun).
  Qed.

  (* ---------------- re-evaluation after every change of a dependency, and only then *)
  Theorem reeval_on_dep_change s chg q e d :
    pass s = Some {| to_read := []; changed := chg |} -> In q (all_ids s) -> en (ports s q) = true ->
    expr (ports s q) = Some e -> In d (deps e) -> d <> q -> In d chg ->
    exists s', step s PassEnd = Some s' /\ evq (ports s' q) = evq (ports s q) ++ [lasts s].
  Proof.
    intros Hp Hq Hen He Hd Hn Hc. cbn [Hub.step]. rewrite Hp. eexists. split; [reflexivity|]. cbn [ports].
    apply mem_In in Hq. rewrite Hq.
    destruct (end_pass_port_spec (force_all s) (lasts s) chg q (ports s q)) as (_ & _ & _ & _ & _ & Hrest). rewrite Hen, He in Hrest.
    assert (Ht : triggered (force_all s) chg q e (ports s q) = true).
    { unfold triggered. apply orb_true_iff. right. apply existsb_exists. exists d. split; [exact Hd|].
      apply andb_true_iff. split; [apply negb_true_iff; apply Nat.eqb_neq; exact Hn|apply mem_In; exact Hc]. }
    rewrite Ht in Hrest. apply Hrest.
  Qed.

  Theorem no_eval_without_dep_change s chg q e :
    pass s = Some {| to_read := []; changed := chg |} -> In q (all_ids s) -> expr (ports s q) = Some e ->
    force_all s = false -> forced (ports s q) = false -> (forall d, In d (deps e) -> d <> q -> ~ In d chg) ->
    exists s', step s PassEnd = Some s' /\ evq (ports s' q) = evq (ports s q).
  Proof.
    intros Hp Hq He Hfa Hf Hc. cbn [Hub.step]. rewrite Hp. eexists. split; [reflexivity|]. cbn [ports].
    apply mem_In in Hq. rewrite Hq.
    destruct (end_pass_port_spec (force_all s) (lasts s) chg q (ports s q)) as (_ & _ & _ & _ & _ & Hrest).
    destruct (en (ports s q)); [|apply Hrest]. rewrite He in Hrest.
    assert (Ht : triggered (force_all s) chg q e (ports s q) = false).
    { unfold triggered. rewrite Hfa, Hf. cbn [orb]. apply not_true_is_false. intros Hex. apply existsb_exists in Hex.
      destruct Hex as (d & Hd & Hand). apply andb_true_iff in Hand. destruct Hand as [Hne Hm].
      apply negb_true_iff in Hne. apply Nat.eqb_neq in Hne. apply mem_In in Hm. apply (Hc d Hd Hne Hm). }
    rewrite Ht in Hrest. apply Hrest.
  Qed.
End HubThm.
