(* C01 — proofs over the hub LTS: an inductive invariant that gives convergence at every quiescent state, for every
   trace (any length, any interleaving of passes, evaluations, write completions, source changes and expression assignments). *)
From QT Require Import C01.Hub.
From Coq Require Import Lia.
Open Scope nat_scope.

Section HubThm.
  Variable V : Type.
  Variable veqb : option V -> option V -> bool.
  Hypothesis veqb_spec : forall a b, veqb a b = true <-> a = b.
  Variable E W : Type.
  Variable feval : E -> snap V -> eout W.
  Variable deps : E -> list pid.
  Variable coerce : pid -> option W -> eout V.
  (* evaluation only looks at the reported dependencies (proved for the concrete language: Expr/Deps.v deps_sound) *)
  Hypothesis frame : forall e s1 s2, (forall d, In d (deps e) -> s1 d = s2 d) -> feval e s1 = feval e s2.

  Notation port := (port V E).
  Notation state := (state V E).
  Notation step := (step V veqb E W feval deps coerce true).        (* the evaluation task refreshes after its write *)
  Notation run := (run V veqb E W feval deps coerce true).
  Notation lasts := (lasts V E).
  Notation follows := (follows V veqb E W feval coerce).
  Notation quiescent := (quiescent V veqb E).

  (* the value the expression of q asks for under the snapshot L (None: evaluation / coercion error — the property is silent) *)
  Definition target (L : snap V) (q : pid) (e : E) : option (option V) :=
    match feval e L with
    | OErr => None
    | OVal v => match coerce q v with OErr => None | OVal v' => Some v' end
    end.

  Definition agree (l : list pid) (s1 s2 : snap V) : Prop := forall d, In d l -> s1 d = s2 d.

  Lemma target_agree e q L1 L2 : agree (deps e) L1 L2 -> target L1 q e = target L2 q e.
  Proof. intros H. unfold target. rewrite (frame e L1 L2 H). reflexivity. Qed.

  Definition settled (L : snap V) (q : pid) (e : E) (x : port) : Prop :=
    match target L q e with
    | None => True
    | Some g => match ph x with Writing v => v = g | _ => src x = g end
    end.

  Definition changed_of (s : state) : list pid := match pass s with Some ps => changed ps | None => [] end.

  Definition is_last (l : list (snap V)) (sn : snap V) : Prop := exists l', l = l' ++ [sn].

  (* the coverage invariant for one port with an expression *)
  Definition covered (s : state) (q : pid) (e : E) : Prop :=
    let x := ports s q in
    forced x = true
    \/ (exists d, In d (deps e) /\ In d (changed_of s))
    \/ (exists sn, is_last (evq x) sn /\ agree (deps e) sn (lasts s))
    \/ (evq x = [] /\ settled (lasts s) q e x).

  Record Inv (s : state) : Prop := {
    inv_cov : forall q e, In q (all_ids s) -> expr (ports s q) = Some e -> covered s q e;
    inv_sync : forall q, In q (all_ids s) -> expr (ports s q) <> None ->
               (ph (ports s q) = Idle \/ exists v, ph (ports s q) = Writing v) -> src (ports s q) = last (ports s q);
    inv_refresh : forall q, In q (all_ids s) -> ph (ports s q) = Refreshing ->
               exists ps, pass s = Some ps /\ (In q (to_read ps) \/ src (ports s q) = last (ports s q));
    inv_toread : forall ps, pass s = Some ps -> incl (to_read ps) (all_ids s);
    inv_noself : forall q e, In q (all_ids s) -> expr (ports s q) = Some e -> ~ In q (deps e);
    inv_idle : forall q, In q (all_ids s) -> expr (ports s q) = None -> ph (ports s q) = Idle
  }.

  (* events the theorem quantifies over: they concern registered ports; an expression is assigned to a port that is at rest
     (no queued evaluation, task idle, last read value current) and does not read its own port *)
  Definition wf_event (s : state) (ev : event V E) : Prop :=
    match ev with
    | Eval q | WriteEnd q => In q (all_ids s)
    | SourceSet p _ => In p (all_ids s)
    | SetExpr q e =>
        In q (all_ids s) /\ ~ In q (deps e) /\ evq (ports s q) = [] /\ ph (ports s q) = Idle
        /\ src (ports s q) = last (ports s q)
    | _ => True
    end.

  Fixpoint run_wf (s : state) (tr : list (event V E)) : Prop :=
    match tr with
    | [] => True
    | ev :: r => wf_event s ev /\ match step s ev with Some s' => run_wf s' r | None => True end
    end.

  Lemma mem_In p l : mem p l = true <-> In p l.
  Proof.
    unfold mem. rewrite existsb_exists. split.
    - intros (x & Hx & Hxe). apply Nat.eqb_eq in Hxe. subst. exact Hx.
    - intros H. exists p. split; [exact H|apply Nat.eqb_refl].
  Qed.

  Lemma lasts_in s p : In p (all_ids s) -> lasts s p = last (ports s p).
  Proof. intros H. unfold lasts. apply mem_In in H. unfold mem in H. rewrite H. reflexivity. Qed.

  Lemma lasts_out s p : ~ In p (all_ids s) -> lasts s p = None.
  Proof.
    intros H. unfold lasts. destruct (existsb (Nat.eqb p) (all_ids s)) eqn:Hm; [|reflexivity].
    exfalso. apply H. apply mem_In. exact Hm.
  Qed.

  (* two states with the same registry and the same last values have the same snapshot *)
  Lemma lasts_ext s s' :
    all_ids s' = all_ids s -> (forall p, In p (all_ids s) -> last (ports s' p) = last (ports s p)) ->
    forall p, lasts s' p = lasts s p.
  Proof.
    intros Hid Hl p. unfold lasts. rewrite Hid. destruct (existsb (Nat.eqb p) (all_ids s)) eqn:Hm; [|reflexivity].
    apply Hl. apply mem_In. exact Hm.
  Qed.

  Lemma upd_eq (f : pid -> port) p x : upd V E f p x p = x.
  Proof. unfold upd. rewrite Nat.eqb_refl. reflexivity. Qed.

  Lemma upd_neq (f : pid -> port) p x q : q <> p -> upd V E f p x q = f q.
  Proof. intros H. unfold upd. apply Nat.eqb_neq in H. rewrite H. reflexivity. Qed.

  (* ---------------- transporting [covered] between states that agree on what it looks at *)
  Lemma covered_ext s s' q e :
    ports s' q = ports s q -> (forall p, lasts s' p = lasts s p) ->
    (forall d, In d (changed_of s) -> In d (changed_of s')) ->
    covered s q e -> covered s' q e.
  Proof.
    intros Hp HL Hc Hcov. unfold covered in *. rewrite Hp.
    destruct Hcov as [Hf|[(d & Hd & Hin)|[(sn & Hl & Ha)|(Hq & Hs)]]].
    - left. exact Hf.
    - right. left. exists d. split; [exact Hd|apply Hc; exact Hin].
    - right. right. left. exists sn. split; [exact Hl|]. intros d Hd. rewrite HL. apply Ha. exact Hd.
    - right. right. right. split; [exact Hq|]. unfold settled in *.
      rewrite (target_agree e q (lasts s') (lasts s)); [exact Hs|]. intros d _. apply HL.
  Qed.

  Lemma set_port_other s p x q : q <> p -> ports (set_port V E s p x) q = ports s q.
  Proof. intros H. unfold set_port. cbn [ports]. apply upd_neq. exact H. Qed.

  Lemma set_port_same s p x : ports (set_port V E s p x) p = x.
  Proof. unfold set_port. cbn [ports]. apply upd_eq. Qed.

  Lemma lasts_set_port s p x : last x = last (ports s p) -> forall r, lasts (set_port V E s p x) r = lasts s r.
  Proof.
    intros H r. apply lasts_ext; [reflexivity|]. intros r' _.
    destruct (Nat.eq_dec r' p) as [->|Hn]; [rewrite set_port_same; exact H|rewrite set_port_other by exact Hn; reflexivity].
  Qed.

  (* an event that touches one port without changing its last read value, the registry or the running pass *)
  Lemma inv_local s p x :
    Inv s -> In p (all_ids s) -> last x = last (ports s p) ->
    (forall e, expr x = Some e -> covered (set_port V E s p x) p e) ->
    (expr x <> None -> (ph x = Idle \/ exists v, ph x = Writing v) -> src x = last x) ->
    (ph x = Refreshing -> ph (ports s p) = Refreshing /\ src x = src (ports s p)) ->
    (forall e, expr x = Some e -> ~ In p (deps e)) ->
    (expr x = None -> ph x = Idle) ->
    Inv (set_port V E s p x).
  Proof.
    intros HI Hp Hlast Hcov Hsync Hrefr Hnoself Hidle.
    pose proof (lasts_set_port s p x Hlast) as HL.
    constructor.
    - intros q e Hq He. cbn [all_ids set_port] in Hq.
      destruct (Nat.eq_dec q p) as [->|Hn].
      + rewrite set_port_same in He. apply Hcov. exact He.
      + rewrite set_port_other in He by exact Hn.
        apply (covered_ext s); [apply set_port_other; exact Hn|exact HL|intros d Hd; exact Hd|].
        apply (inv_cov s HI); assumption.
    - intros q Hq He Hph. cbn [all_ids set_port] in Hq.
      destruct (Nat.eq_dec q p) as [->|Hn].
      + rewrite set_port_same in *. apply Hsync; assumption.
      + rewrite set_port_other in * by exact Hn. apply (inv_sync s HI); assumption.
    - intros q Hq Hph. cbn [all_ids set_port pass] in *.
      destruct (Nat.eq_dec q p) as [->|Hn].
      + rewrite set_port_same in *. destruct (Hrefr Hph) as [Hold Hsrc].
        destruct (inv_refresh s HI p Hp Hold) as (ps & Hps & Hor). exists ps. split; [exact Hps|].
        destruct Hor as [Hin|Heq]; [left; exact Hin|right; rewrite Hsrc, Hlast; exact Heq].
      + rewrite set_port_other in * by exact Hn. apply (inv_refresh s HI); assumption.
    - intros ps Hps. cbn [all_ids set_port pass] in *. apply (inv_toread s HI); exact Hps.
    - intros q e Hq He. cbn [all_ids set_port] in Hq.
      destruct (Nat.eq_dec q p) as [->|Hn].
      + rewrite set_port_same in He. apply Hnoself; exact He.
      + rewrite set_port_other in He by exact Hn. apply (inv_noself s HI); assumption.
    - intros q Hq He. cbn [all_ids set_port] in Hq.
      destruct (Nat.eq_dec q p) as [->|Hn].
      + rewrite set_port_same in *. apply Hidle; exact He.
      + rewrite set_port_other in * by exact Hn. apply (inv_idle s HI); assumption.
  Qed.

  Lemma veqb_refl a : veqb a a = true.
  Proof. apply veqb_spec. reflexivity. Qed.

  Lemma is_last_tail (a : snap V) r x : is_last (a :: r) x -> r <> [] -> is_last r x.
  Proof.
    intros [l' H] Hr. destruct l' as [|b l'].
    - cbn in H. injection H as _ H. contradiction.
    - cbn in H. injection H as _ H. exists l'. exact H.
  Qed.

  Lemma is_last_single (a x : snap V) : is_last [a] x -> x = a.
  Proof.
    intros [l' H]. destruct l' as [|b l'].
    - cbn in H. injection H as H. symmetry. exact H.
    - cbn in H. injection H as _ H. destruct l'; discriminate.
  Qed.

  (* ---------------- SourceSet *)
  Lemma inv_SourceSet s p v s' : Inv s -> wf_event s (SourceSet p v) -> step s (SourceSet p v) = Some s' -> Inv s'.
  Proof.
    intros HI Hwf H. cbn [step wf_event] in *. destruct (expr (ports s p)) eqn:Ee; [discriminate|]. injection H as <-.
    apply inv_local; cbn [src last expr evq ph forced]; try assumption; try reflexivity.
    - intros e He. discriminate.
    - intros He. contradiction.
    - intros Hph. rewrite (inv_idle s HI p Hwf Ee) in Hph. discriminate.
    - intros e He. discriminate.
    - intros _. apply (inv_idle s HI p Hwf Ee).
  Qed.

  (* ---------------- SetExpr *)
  Lemma inv_SetExpr s q e s' : Inv s -> wf_event s (SetExpr q e) -> step s (SetExpr q e) = Some s' -> Inv s'.
  Proof.
    intros HI (Hq & Hns & Hevq & Hph & Hsl) H. cbn [step] in H. injection H as <-.
    apply inv_local; cbn [src last expr evq ph forced]; try assumption; try reflexivity.
    - intros e' _. left. rewrite set_port_same. reflexivity.
    - intros _ _. exact Hsl.
    - intros Hr. rewrite Hph in Hr. discriminate.
    - intros e' He. injection He as <-. exact Hns.
    - intros He. discriminate.
  Qed.

  (* ---------------- WriteEnd *)
  Lemma inv_WriteEnd s q s' : Inv s -> wf_event s (WriteEnd q) -> step s (WriteEnd q) = Some s' -> Inv s'.
  Proof.
    intros HI Hq H. cbn [step wf_event] in *. destruct (ph (ports s q)) as [|v| |] eqn:Eph; try discriminate. injection H as <-.
    assert (Hexpr : expr (ports s q) <> None).
    { intros He. rewrite (inv_idle s HI q Hq He) in Eph. discriminate. }
    apply inv_local; cbn [src last expr evq ph forced]; try assumption; try reflexivity.
    - intros e He. pose proof (inv_cov s HI q e Hq He) as Hc. unfold covered in *. rewrite set_port_same.
      cbn [src last expr evq ph forced].
      destruct Hc as [Hf|[(d & Hd & Hin)|[(sn & Hl & Ha)|(Hev & Hs)]]].
      + left. exact Hf.
      + right. left. exists d. split; [exact Hd|exact Hin].
      + right. right. left. exists sn. split; [exact Hl|]. intros d Hd. rewrite lasts_set_port by reflexivity. apply Ha. exact Hd.
      + right. right. right. split; [exact Hev|]. unfold settled in *. cbn [src ph].
        rewrite (target_agree e q _ (lasts s)) by (intros d _; apply lasts_set_port; reflexivity).
        destruct (target (lasts s) q e) as [g|]; [|exact I]. rewrite Eph in Hs. exact Hs.
    - intros _ [Hc|[w Hc]]; discriminate.
    - intros Hc. discriminate.
    - intros e He. apply (inv_noself s HI q e Hq He).
    - intros He. contradiction.
  Qed.

  (* ---------------- Eval *)
  Lemma inv_Eval s q s' : Inv s -> wf_event s (Eval q) -> step s (Eval q) = Some s' -> Inv s'.
  Proof.
    intros HI Hq H. cbn [step wf_event] in *.
    destruct (ph (ports s q)) eqn:Eph; try discriminate.
    destruct (evq (ports s q)) as [|sn rest] eqn:Eevq; [discriminate|].
    destruct (expr (ports s q)) as [e|] eqn:Eexpr; [|discriminate].
    assert (Hsync : src (ports s q) = last (ports s q)).
    { apply (inv_sync s HI q Hq); [rewrite Eexpr; discriminate|left; exact Eph]. }
    pose proof (inv_cov s HI q e Hq Eexpr) as Hc.
    pose proof (inv_noself s HI q e Hq Eexpr) as Hns.
    (* the port after the evaluation, for either phase *)
    assert (Hgen : forall newph,
      (newph = Idle \/ exists v', newph = Writing v') ->
      (rest = [] -> agree (deps e) sn (lasts s) ->
         match target (lasts s) q e with
         | None => True
         | Some g => match newph with Writing v => v = g | _ => src (ports s q) = g end
         end) ->
      Inv (set_port V E s q {| src := src (ports s q); last := last (ports s q); expr := Some e;
                               evq := rest; ph := newph; forced := forced (ports s q) |})).
    { intros newph Hnew Hset.
      apply inv_local; cbn [src last expr evq ph forced]; try assumption; try reflexivity.
      - intros e' He'. injection He' as <-.
        unfold covered in *. rewrite set_port_same. cbn [src last expr evq ph forced]. rewrite Eevq in Hc.
        destruct Hc as [Hf|[(d & Hd & Hin)|[(sn' & Hl & Ha)|(Hev & Hs)]]].
        + left. exact Hf.
        + right. left. exists d. split; [exact Hd|exact Hin].
        + destruct rest as [|r0 rest'] eqn:Er.
          * right. right. right. split; [reflexivity|].
            apply is_last_single in Hl. subst sn'. unfold settled. cbn [src ph].
            rewrite (target_agree e q _ (lasts s)) by (intros d _; apply lasts_set_port; reflexivity).
            apply Hset; [reflexivity|exact Ha].
          * right. right. left. exists sn'. split; [apply (is_last_tail sn); [exact Hl|discriminate]|].
            intros d Hd. rewrite lasts_set_port by reflexivity. apply Ha. exact Hd.
        + discriminate.
      - intros _ _. exact Hsync.
      - intros Hr. destruct Hnew as [->|[v' ->]]; discriminate.
      - intros e' He'. injection He' as <-. exact Hns.
      - intros He'. discriminate. }
    destruct (feval e sn) as [v|] eqn:Ef.
    2:{ injection H as <-. apply Hgen; [left; reflexivity|]. intros _ Ha. unfold target. rewrite <- (frame e sn (lasts s) Ha), Ef. exact I. }
    destruct (coerce q v) as [v'|] eqn:Ec.
    2:{ injection H as <-. apply Hgen; [left; reflexivity|]. intros _ Ha. unfold target. rewrite <- (frame e sn (lasts s) Ha), Ef, Ec. exact I. }
    destruct (veqb v' (last (ports s q))) eqn:Ev; injection H as <-.
    - apply Hgen; [left; reflexivity|]. intros _ Ha. unfold target. rewrite <- (frame e sn (lasts s) Ha), Ef, Ec.
      apply veqb_spec in Ev. rewrite Hsync. symmetry. exact Ev.
    - apply Hgen; [right; exists v'; reflexivity|]. intros _ Ha. unfold target. rewrite <- (frame e sn (lasts s) Ha), Ef, Ec. reflexivity.
  Qed.

  (* ---------------- PassBegin *)
  Lemma begin_refresh_fields (x : port) :
    src (begin_refresh V E x) = src x /\ last (begin_refresh V E x) = last x /\ expr (begin_refresh V E x) = expr x
    /\ evq (begin_refresh V E x) = evq x /\ forced (begin_refresh V E x) = forced x.
  Proof. unfold begin_refresh. destruct (ph x); repeat split. Qed.

  Lemma settled_begin_refresh (x : port) (g : option V) :
    match ph (begin_refresh V E x) with Writing v => v = g | _ => src x = g end
    <-> match ph x with Writing v => v = g | _ => src x = g end.
  Proof. unfold begin_refresh. destruct (ph x) eqn:E0; cbn [ph]; rewrite ?E0; tauto. Qed.

  Lemma inv_PassBegin s s' : Inv s -> step s PassBegin = Some s' -> Inv s'.
  Proof.
    intros HI H. cbn [step] in H. destruct (pass s) eqn:Ep; [discriminate|]. injection H as <-.
    set (s' := {| ports := fun q => begin_refresh V E (ports s q); all_ids := all_ids s;
                  pass := Some {| to_read := all_ids s; changed := [] |} |}).
    assert (HL : forall p, lasts s' p = lasts s p).
    { apply lasts_ext; [reflexivity|]. intros p _. subst s'. cbn [ports]. apply (begin_refresh_fields (ports s p)). }
    constructor; subst s'; cbn [ports all_ids pass].
    - intros q e Hq He. destruct (begin_refresh_fields (ports s q)) as (Hs & Hl & Hx & Hv & Hf). rewrite Hx in He.
      pose proof (inv_cov s HI q e Hq He) as Hc. unfold covered in *. cbn [ports]. rewrite Hf, Hv.
      destruct Hc as [Hfo|[(d & Hd & Hin)|[(sn & Hla & Ha)|(Hev & Hst)]]].
      + left. exact Hfo.
      + unfold changed_of in Hin. rewrite Ep in Hin. destruct Hin.
      + right. right. left. exists sn. split; [exact Hla|]. intros d Hd. rewrite HL. apply Ha. exact Hd.
      + right. right. right. split; [exact Hev|]. unfold settled in *.
        rewrite (target_agree e q _ (lasts s)) by (intros d _; apply HL).
        destruct (target (lasts s) q e) as [g|]; [|exact I]. rewrite Hs.
        apply settled_begin_refresh. exact Hst.
    - intros q Hq He Hph. destruct (begin_refresh_fields (ports s q)) as (Hs & Hl & Hx & Hv & Hf).
      rewrite Hs, Hl. rewrite Hx in He. apply (inv_sync s HI q Hq He).
      unfold begin_refresh in Hph. destruct (ph (ports s q)) eqn:E0; cbn [ph] in Hph; rewrite ?E0 in Hph.
      + left. reflexivity.
      + right. eexists. reflexivity.
      + destruct Hph as [Hc|[v Hc]]; discriminate.
      + destruct Hph as [Hc|[v Hc]]; discriminate.
    - intros q Hq Hph. eexists. split; [reflexivity|]. cbn [to_read]. left. exact Hq.
    - intros ps Hps. injection Hps as <-. cbn [to_read]. apply incl_refl.
    - intros q e Hq He. destruct (begin_refresh_fields (ports s q)) as (_ & _ & Hx & _ & _). rewrite Hx in He.
      apply (inv_noself s HI q e Hq He).
    - intros q Hq He. destruct (begin_refresh_fields (ports s q)) as (_ & _ & Hx & _ & _). rewrite Hx in He.
      pose proof (inv_idle s HI q Hq He) as Hi. unfold begin_refresh. rewrite Hi. exact Hi.
  Qed.

  (* ---------------- PassRead *)
  Lemma inv_PassRead s p s' : Inv s -> step s (PassRead p) = Some s' -> Inv s'.
  Proof.
    intros HI H. cbn [step] in H. destruct (pass s) as [[tr chg]|] eqn:Ep; [|discriminate].
    destruct tr as [|p' rest]; [discriminate|]. destruct (Nat.eqb p p') eqn:Epp; [|discriminate].
    apply Nat.eqb_eq in Epp. subst p'.
    assert (Hp : In p (all_ids s)) by (apply (inv_toread s HI _ Ep); left; reflexivity).
    set (x := ports s p) in *.
    set (x' := {| src := src x; last := src x; expr := expr x; evq := evq x; ph := ph x; forced := forced x |}) in *.
    set (chg' := if veqb (src x) (last x) then chg else p :: chg) in *.
    injection H as <-.
    set (s' := {| ports := upd V E (ports s) p x'; all_ids := all_ids s; pass := Some {| to_read := rest; changed := chg' |} |}).
    assert (Hother : forall q, q <> p -> ports s' q = ports s q) by (intros q Hn; subst s'; cbn [ports]; apply upd_neq; exact Hn).
    assert (Hsame : ports s' p = x') by (subst s'; cbn [ports]; apply upd_eq).
    assert (HLo : forall r, r <> p -> lasts s' r = lasts s r).
    { intros r Hn. unfold lasts. subst s'. cbn [all_ids ports]. rewrite upd_neq by exact Hn. reflexivity. }
    assert (Hchg : forall d, In d chg -> In d chg').
    { intros d Hd. subst chg'. destruct (veqb (src x) (last x)); [exact Hd|right; exact Hd]. }
    constructor.
    - intros q e Hq He.
      assert (He0 : expr (ports s q) = Some e).
      { destruct (Nat.eq_dec q p) as [->|Hn]; [rewrite Hsame in He; exact He|rewrite Hother in He by exact Hn; exact He]. }
      pose proof (inv_cov s HI q e Hq He0) as Hc. pose proof (inv_noself s HI q e Hq He0) as Hns.
      assert (Hfields : forced (ports s' q) = forced (ports s q) /\ evq (ports s' q) = evq (ports s q)
                        /\ ph (ports s' q) = ph (ports s q) /\ src (ports s' q) = src (ports s q)).
      { destruct (Nat.eq_dec q p) as [->|Hn]; [rewrite Hsame; repeat split|rewrite Hother by exact Hn; repeat split]. }
      destruct Hfields as (Hfo & Hev & Hph & Hsr).
      unfold covered in *. rewrite Hfo, Hev. unfold changed_of in *. rewrite Ep in Hc. subst s'. cbn [pass changed].
      destruct Hc as [Hf|[(d & Hd & Hin)|Hrest]].
      + left. exact Hf.
      + right. left. exists d. split; [exact Hd|apply Hchg; exact Hin].
      + destruct (veqb (src x) (last x)) eqn:Ev.
        * (* the value read is the one already known: nothing changes *)
          apply veqb_spec in Ev.
          assert (HL : forall r, lasts {| ports := upd V E (ports s) p x'; all_ids := all_ids s; pass := Some {| to_read := rest; changed := chg' |} |} r = lasts s r).
          { intros r. destruct (Nat.eq_dec r p) as [->|Hn]; [|apply HLo; exact Hn].
            unfold lasts. cbn [all_ids ports]. rewrite upd_eq. subst x'. cbn [last]. rewrite Ev. reflexivity. }
          destruct Hrest as [(sn & Hla & Ha)|(Hevq & Hst)].
          -- right. right. left. exists sn. split; [exact Hla|]. intros d Hd. rewrite HL. apply Ha. exact Hd.
          -- right. right. right. split; [exact Hevq|]. unfold settled in *.
             rewrite (target_agree e q _ (lasts s)) by (intros d _; apply HL).
             destruct (target (lasts s) q e) as [g|]; [|exact I]. cbn [ports] in Hph, Hsr |- *. rewrite Hph, Hsr. exact Hst.
        * (* a change was detected *)
          destruct (in_dec Nat.eq_dec p (deps e)) as [Hin|Hnin].
          -- right. left. exists p. split; [exact Hin|]. subst chg'. rewrite ?Ev. left. reflexivity.
          -- assert (Hag : agree (deps e) (lasts {| ports := upd V E (ports s) p x'; all_ids := all_ids s; pass := Some {| to_read := rest; changed := chg' |} |}) (lasts s)).
             { intros d Hd. apply HLo. intros ->. contradiction. }
             destruct Hrest as [(sn & Hla & Ha)|(Hevq & Hst)].
             ++ right. right. left. exists sn. split; [exact Hla|]. intros d Hd. rewrite Hag by exact Hd. apply Ha. exact Hd.
             ++ right. right. right. split; [exact Hevq|]. unfold settled in *.
                rewrite (target_agree e q _ (lasts s) Hag).
                destruct (target (lasts s) q e) as [g|]; [|exact I]. cbn [ports] in Hph, Hsr |- *. rewrite Hph, Hsr. exact Hst.
    - intros q Hq He Hph. destruct (Nat.eq_dec q p) as [->|Hn].
      + rewrite Hsame. reflexivity.
      + rewrite Hother in * by exact Hn. apply (inv_sync s HI q Hq He Hph).
    - intros q Hq Hph. exists {| to_read := rest; changed := chg' |}. split; [reflexivity|]. cbn [to_read].
      destruct (Nat.eq_dec q p) as [->|Hn].
      + right. rewrite Hsame. reflexivity.
      + rewrite Hother in * by exact Hn. destruct (inv_refresh s HI q Hq Hph) as (ps & Hps & Hor).
        rewrite Ep in Hps. injection Hps as <-. cbn [to_read] in Hor.
        destruct Hor as [[Heq|Hin]|Heq]; [symmetry in Heq; contradiction|left; exact Hin|right; exact Heq].
    - intros ps Hps. subst s'. cbn [pass all_ids] in *. injection Hps as <-. cbn [to_read].
      intros r Hr. apply (inv_toread s HI _ Ep). right. exact Hr.
    - intros q e Hq He. destruct (Nat.eq_dec q p) as [->|Hn].
      + rewrite Hsame in He. apply (inv_noself s HI p e Hq He).
      + rewrite Hother in He by exact Hn. apply (inv_noself s HI q e Hq He).
    - intros q Hq He. destruct (Nat.eq_dec q p) as [->|Hn].
      + rewrite Hsame in *. apply (inv_idle s HI p Hq He).
      + rewrite Hother in * by exact Hn. apply (inv_idle s HI q Hq He).
  Qed.

  (* ---------------- PassEnd *)
  Definition unrefresh (x : port) : port :=
    match ph x with
    | Refreshing => {| src := src x; last := last x; expr := expr x; evq := evq x; ph := Idle; forced := forced x |}
    | _ => x
    end.

  Definition triggered (chg : list pid) (q : pid) (e : E) (x : port) : bool :=
    forced x || existsb (fun d => negb (Nat.eqb d q) && mem d chg) (deps e).

  Lemma end_pass_port_spec L chg q (x : port) :
    let y := end_pass_port V E deps L chg q x in
    src y = src x /\ last y = last x /\ expr y = expr x /\ ph y = ph (unrefresh x)
    /\ match expr x with
       | None => evq y = evq x /\ forced y = false
       | Some e => if triggered chg q e x then evq y = evq x ++ [L] /\ forced y = false
                   else evq y = evq x /\ forced y = forced x
       end.
  Proof.
    cbv zeta. unfold end_pass_port, triggered, unrefresh.
    destruct x as [sr la ex ev p0 fo]. cbn [ph src last expr evq forced].
    destruct p0; cbn [ph src last expr evq forced]; destruct ex as [e|]; cbn [ph src last expr evq forced];
      try (match goal with |- context [if ?b then _ else _] => destruct b end; cbn [ph src last expr evq forced]);
      repeat split; reflexivity.
  Qed.

  Lemma unrefresh_ph (x : port) : ph (unrefresh x) <> Refreshing.
  Proof. unfold unrefresh. destruct (ph x) eqn:E0; cbn [ph]; rewrite ?E0; discriminate. Qed.

  Lemma inv_PassEnd s s' : Inv s -> step s PassEnd = Some s' -> Inv s'.
  Proof.
    intros HI H. cbn [step] in H. destruct (pass s) as [[tr chg]|] eqn:Ep; [|discriminate].
    destruct tr; [|discriminate]. injection H as <-.
    set (L := lasts s).
    set (s' := {| ports := fun q => if mem q (all_ids s) then end_pass_port V E deps L chg q (ports s q) else ports s q;
                  all_ids := all_ids s; pass := None |}).
    assert (Hport : forall q, In q (all_ids s) -> ports s' q = end_pass_port V E deps L chg q (ports s q)).
    { intros q Hq. subst s'. cbn [ports]. apply mem_In in Hq. rewrite Hq. reflexivity. }
    assert (HL : forall p, lasts s' p = lasts s p).
    { apply lasts_ext; [reflexivity|]. intros p Hp. rewrite (Hport p Hp). apply (end_pass_port_spec L chg p (ports s p)). }
    constructor; cbn [all_ids pass]; fold s'.
    - intros q e Hq He. rewrite (Hport q Hq) in He.
      destruct (end_pass_port_spec L chg q (ports s q)) as (Hs & Hl & Hx & Hp & Hrest). rewrite Hx in He. rewrite He in Hrest.
      pose proof (inv_cov s HI q e Hq He) as Hc. pose proof (inv_noself s HI q e Hq He) as Hns.
      unfold covered. rewrite (Hport q Hq).
      destruct (triggered chg q e (ports s q)) eqn:Et.
      + destruct Hrest as [Hev Hfo]. right. right. left. exists L. split; [exists (evq (ports s q)); exact Hev|].
        intros d _. rewrite HL. reflexivity.
      + destruct Hrest as [Hev Hfo]. rewrite Hev, Hfo. unfold triggered in Et. apply orb_false_iff in Et. destruct Et as [Et1 Et2].
        unfold covered in Hc. destruct Hc as [Hf|[(d & Hd & Hin)|[(sn & Hla & Ha)|(Hevq & Hst)]]].
        * rewrite Hf in Et1. discriminate.
        * exfalso. unfold changed_of in Hin. rewrite Ep in Hin. cbn [changed] in Hin.
          assert (Hex : existsb (fun d0 => negb (Nat.eqb d0 q) && mem d0 chg) (deps e) = true).
          { apply existsb_exists. exists d. split; [exact Hd|]. apply andb_true_iff. split.
            - apply negb_true_iff. apply Nat.eqb_neq. intros ->. contradiction.
            - apply mem_In. exact Hin. }
          rewrite Hex in Et2. discriminate.
        * right. right. left. exists sn. split; [exact Hla|]. intros d Hd. rewrite HL. apply Ha. exact Hd.
        * right. right. right. split; [exact Hevq|]. unfold settled in *.
          rewrite (target_agree e q _ (lasts s)) by (intros d _; apply HL).
          destruct (target (lasts s) q e) as [g|]; [|exact I]. rewrite Hp, Hs.
          unfold unrefresh. destruct (ph (ports s q)) eqn:E0; cbn [ph]; rewrite ?E0; exact Hst.
    - intros q Hq He Hph. rewrite (Hport q Hq) in *.
      destruct (end_pass_port_spec L chg q (ports s q)) as (Hs & Hl & Hx & Hp & _). rewrite Hs, Hl. rewrite Hx in He. rewrite Hp in Hph.
      destruct (ph (ports s q)) eqn:E0.
      + apply (inv_sync s HI q Hq He). left. exact E0.
      + apply (inv_sync s HI q Hq He). right. eexists. exact E0.
      + unfold unrefresh in Hph. rewrite E0 in Hph. rewrite E0 in Hph. destruct Hph as [Hc|[v Hc]]; discriminate.
      + destruct (inv_refresh s HI q Hq E0) as (ps & Hps & Hor). rewrite Ep in Hps. injection Hps as <-. cbn [to_read] in Hor.
        destruct Hor as [[]|Heq]. exact Heq.
    - intros q Hq Hph. rewrite (Hport q Hq) in Hph.
      destruct (end_pass_port_spec L chg q (ports s q)) as (_ & _ & _ & Hp & _). rewrite Hp in Hph.
      exfalso. apply (unrefresh_ph (ports s q)). exact Hph.
    - intros ps Hps. discriminate.
    - intros q e Hq He. rewrite (Hport q Hq) in He.
      destruct (end_pass_port_spec L chg q (ports s q)) as (_ & _ & Hx & _ & _). rewrite Hx in He. apply (inv_noself s HI q e Hq He).
    - intros q Hq He. rewrite (Hport q Hq) in *.
      destruct (end_pass_port_spec L chg q (ports s q)) as (_ & _ & Hx & Hp & _). rewrite Hx in He. rewrite Hp.
      pose proof (inv_idle s HI q Hq He) as Hi. unfold unrefresh. rewrite Hi. exact Hi.
  Qed.

  (* ---------------- every step preserves the invariant; so does every run *)
  Theorem step_inv s ev s' : Inv s -> wf_event s ev -> step s ev = Some s' -> Inv s'.
  Proof.
    intros HI Hwf H. destruct ev as [| p | | q | q | p v | q e].
    - apply (inv_PassBegin s s' HI H).
    - apply (inv_PassRead s p s' HI H).
    - apply (inv_PassEnd s s' HI H).
    - apply (inv_Eval s q s' HI Hwf H).
    - apply (inv_WriteEnd s q s' HI Hwf H).
    - apply (inv_SourceSet s p v s' HI Hwf H).
    - apply (inv_SetExpr s q e s' HI Hwf H).
  Qed.

  Theorem run_inv tr : forall s s', Inv s -> run_wf s tr -> run s tr = Some s' -> Inv s'.
  Proof.
    induction tr as [|ev r IH]; intros s s' HI Hwf H; cbn [run run_wf] in *.
    - injection H as <-. exact HI.
    - destruct Hwf as [Hw Hr]. destruct (step s ev) as [s1|] eqn:Es; [|discriminate].
      apply (IH s1 s'); [apply (step_inv s ev s1 HI Hw Es)|exact Hr|exact H].
  Qed.

  (* ---------------- convergence: in every quiescent reachable state every port follows its expression *)
  Theorem inv_quiescent_follows s : Inv s -> quiescent s -> forall q, In q (all_ids s) -> follows s q.
  Proof.
    intros HI [Hpass Hq] q Hin. destruct (Hq q Hin) as (Hevq & Hph & Hfo & Hsl).
    unfold follows. destruct (expr (ports s q)) as [e|] eqn:He; [|exact I].
    pose proof (inv_cov s HI q e Hin He) as Hc. unfold covered in Hc.
    destruct Hc as [Hf|[(d & Hd & Hc)|[(sn & [l' Hl] & Ha)|(_ & Hst)]]].
    - rewrite Hf in Hfo. discriminate.
    - unfold changed_of in Hc. rewrite Hpass in Hc. destruct Hc.
    - rewrite Hevq in Hl. destruct l'; discriminate.
    - unfold settled, target in Hst.
      destruct (feval e (lasts s)) as [v|]; [|exact I]. destruct (coerce q v) as [v'|]; [|exact I].
      rewrite Hph in Hst. split; [apply veqb_spec; symmetry; exact Hst|exact Hsl].
  Qed.

  (* the initial state: registered ports without expressions, nothing queued, nothing running *)
  Definition pristine (s : state) : Prop :=
    pass s = None /\ forall q, In q (all_ids s) ->
      expr (ports s q) = None /\ ph (ports s q) = Idle.

  Lemma pristine_inv s : pristine s -> Inv s.
  Proof.
    intros [Hp Hq]. constructor.
    - intros q e Hin He. rewrite (proj1 (Hq q Hin)) in He. discriminate.
    - intros q Hin He. exfalso. apply He. apply (Hq q Hin).
    - intros q Hin Hph. rewrite (proj2 (Hq q Hin)) in Hph. discriminate.
    - intros ps Hps. rewrite Hp in Hps. discriminate.
    - intros q e Hin He. rewrite (proj1 (Hq q Hin)) in He. discriminate.
    - intros q Hin _. apply (Hq q Hin).
  Qed.

  Theorem convergence s0 tr s :
    pristine s0 -> run_wf s0 tr -> run s0 tr = Some s -> quiescent s -> forall q, In q (all_ids s) -> follows s q.
  Proof.
    intros H0 Hwf Hrun Hq. apply inv_quiescent_follows; [|exact Hq].
    apply (run_inv tr s0 s (pristine_inv s0 H0) Hwf Hrun).
  Qed.

  (* ---------------- re-evaluation after every change of a dependency, and only then *)
  Theorem reeval_on_dep_change s chg q e d :
    pass s = Some {| to_read := []; changed := chg |} -> In q (all_ids s) -> expr (ports s q) = Some e ->
    In d (deps e) -> d <> q -> In d chg ->
    exists s', step s PassEnd = Some s' /\ evq (ports s' q) = evq (ports s q) ++ [lasts s].
  Proof.
    intros Hp Hq He Hd Hn Hc. cbn [step]. rewrite Hp. eexists. split; [reflexivity|]. cbn [ports].
    apply mem_In in Hq. rewrite Hq.
    destruct (end_pass_port_spec (lasts s) chg q (ports s q)) as (_ & _ & _ & _ & Hrest). rewrite He in Hrest.
    assert (Ht : triggered chg q e (ports s q) = true).
    { unfold triggered. apply orb_true_iff. right. apply existsb_exists. exists d. split; [exact Hd|].
      apply andb_true_iff. split; [apply negb_true_iff; apply Nat.eqb_neq; exact Hn|apply mem_In; exact Hc]. }
    rewrite Ht in Hrest. apply Hrest.
  Qed.

  Theorem no_eval_without_dep_change s chg q e :
    pass s = Some {| to_read := []; changed := chg |} -> In q (all_ids s) -> expr (ports s q) = Some e ->
    forced (ports s q) = false -> (forall d, In d (deps e) -> d <> q -> ~ In d chg) ->
    exists s', step s PassEnd = Some s' /\ evq (ports s' q) = evq (ports s q).
  Proof.
    intros Hp Hq He Hf Hc. cbn [step]. rewrite Hp. eexists. split; [reflexivity|]. cbn [ports].
    apply mem_In in Hq. rewrite Hq.
    destruct (end_pass_port_spec (lasts s) chg q (ports s q)) as (_ & _ & _ & _ & Hrest). rewrite He in Hrest.
    assert (Ht : triggered chg q e (ports s q) = false).
    { unfold triggered. rewrite Hf. cbn [orb]. apply not_true_is_false. intros Hex. apply existsb_exists in Hex.
      destruct Hex as (d & Hd & Hand). apply andb_true_iff in Hand. destruct Hand as [Hne Hm].
      apply negb_true_iff in Hne. apply Nat.eqb_neq in Hne. apply mem_In in Hm. apply (Hc d Hd Hne Hm). }
    rewrite Ht in Hrest. apply Hrest.
  Qed.
End HubThm.
