(* C01 — the hub LTS instantiated with the concrete expression language (Expr/Eval.v): integer-valued number ports,
   snapshots and the live enabled flags turned into evaluation contexts, dependencies from port_deps; the frame hypothesis of
   HubThm is discharged by Expr/Deps.v:deps_sound, so the convergence theorem holds with no assumption left about expressions. *)
From QT Require Import C01.Hub C01.HubThm Expr.Spec Expr.EvalThm Expr.Deps.
Open Scope Z_scope.

Definition V := Z.
Definition veqb (a b : option V) : bool := option_eqb Z.eqb a b.

Lemma veqb_spec a b : veqb a b = true <-> a = b.
Proof.
  unfold veqb, option_eqb. destruct a as [x|], b as [y|]; split; intros H; try discriminate; try reflexivity.
  - apply Z.eqb_eq in H. subst. reflexivity.
  - injection H as ->. apply Z.eqb_refl.
Qed.

(* port p is called "p<p>" by the harness; any naming works for the theorems *)
Section Inst.
  Variable pname : pid -> string.
  Variable ids : list pid.                       (* the registered ports *)
  Variable now : Z.                              (* evaluation time: irrelevant for time-independent expressions *)

  (* the evaluation context: the snapshot of last read values, and the LIVE enabled flags of the registered ports
     (PortValue._eval asks port.is_enabled() at evaluation time) *)
  Definition ctx_of (f : pid -> bool) (s : snap V) : ctx :=
    {| port_values := map (fun p => (pname p, option_map VInt (s p))) ids;
       Eval.ports := map (fun p => (pname p, f p)) ids;
       now_ms := now; self_id := None; self_last := None; transform_role := false |}.

  Definition feval (e : expr) (f : pid -> bool) (s : snap V) : eout pyval :=
    match eval false (ctx_of f s) e with
    | Val v => OVal (Some v)
    | Ref _ => OErr
    | Fail ks => if list_eqb kind_eqb ks [KUnavail] then OVal None else OErr
    end.

  (* adapt_value_type for an integer number port: int(value) *)
  Definition coerce (_ : pid) (v : option pyval) : eout V :=
    match v with
    | None => OVal None
    | Some w => match py_int w with inl z => OVal (Some z) | inr _ => OErr end
    end.

  Definition deps (e : expr) : list pid :=
    filter (fun p => existsb (String.eqb (pname p)) (port_deps e ++ ref_deps e)) ids.

  Lemma assoc_map {A} (f : pid -> A) id : forall l,
    assoc id (map (fun p => (pname p, f p)) l)
    = match find (fun p => String.eqb id (pname p)) l with Some p => Some (f p) | None => None end.
  Proof.
    induction l as [|p l IH]; [reflexivity|]. cbn [map assoc find]. destruct (String.eqb id (pname p)); [reflexivity|exact IH].
  Qed.

  Lemma in_deps p id e : In p ids -> id = pname p -> In id (port_deps e) -> In p (deps e).
  Proof.
    intros Hin -> Hid. unfold deps. apply filter_In. split; [exact Hin|].
    apply existsb_exists. exists (pname p). split; [apply in_or_app; left; exact Hid|apply String.eqb_refl].
  Qed.

  (* evaluation looks at the enabled flags and the snapshot values of the reported dependencies only *)
  Lemma frame e f1 f2 s1 s2 :
    (forall d, In d (deps e) -> f1 d = f2 d) -> (forall d, In d (deps e) -> s1 d = s2 d) -> feval e f1 s1 = feval e f2 s2.
  Proof.
    intros Hf H. unfold feval.
    rewrite (deps_sound false e (ctx_of f1 s1) (ctx_of f2 s2)); [reflexivity|].
    unfold agree_on, ctx_of. cbn [port_values Eval.ports now_ms self_id self_last transform_role].
    split; [|split; [|split]].
    - intros id Hid. rewrite !assoc_map.
      destruct (find (fun p => String.eqb id (pname p)) ids) as [p|] eqn:Ef; [|split; reflexivity].
      apply find_some in Ef. destruct Ef as [Hin Heq]. apply String.eqb_eq in Heq.
      pose proof (in_deps p id e Hin Heq Hid) as Hd.
      rewrite (Hf p Hd), (H p Hd). split; reflexivity.
    - intros id _. rewrite !assoc_map. destruct (find (fun p => String.eqb id (pname p)) ids); split; intros Hc; try discriminate; reflexivity.
    - intros _. split; [reflexivity|]. split; [reflexivity|]. intros id Hc. discriminate.
    - intros _. reflexivity.
  Qed.
End Inst.
