(* C01 — dispatch used by the generated case files: trace acceptance and final-state comparison. *)
From QT Require Export C01.Hub C01.HubInst Expr.Spec.
From QT Require Import Gen.C01Gen.
Open Scope Z_scope.

Definition pname (p : pid) : string := bytes_to_string [112; 48 + Z.of_nat p].     (* "p0" .. "p9" *)

Definition port0 (v : option Z) : port Z expr :=
  Build_port v v None [] Idle false true.

Definition init (vals : list (option Z)) : state Z expr :=
  Build_state (fun p => port0 (nth p vals None)) (seq 0 (List.length vals)) None false.

Section Run.
  Variable refresh : bool.
  Variable forces_all : bool.
  Variable dforces_all : bool.
  Variable ids : list pid.
  Definition hstep := step Z veqb expr pyval (feval pname ids 0) (deps pname ids) coerce refresh forces_all dforces_all.
  Definition hrun := run Z veqb expr pyval (feval pname ids 0) (deps pname ids) coerce refresh forces_all dforces_all.

  (* index of the first event the model refuses (None = whole trace accepted), and the final state *)
  Fixpoint first_refused (s : state Z expr) (tr : list (event Z expr)) (i : nat) : option nat * state Z expr :=
    match tr with
    | [] => (None, s)
    | ev :: r => match hstep s ev with Some s' => first_refused s' r (S i) | None => (Some i, s) end
    end.
End Run.

Definition quiescent_b (s : state Z expr) : bool :=
  match pass s with Some _ => false | None => true end && negb (force_all s)
  && forallb (fun p => let x := Hub.ports s p in
                       match evq x with [] => true | _ => false end
                       && match ph x with Idle => true | _ => false end
                       && negb (forced x) && (negb (en x) || veqb (src x) (Hub.last x))) (all_ids s).

(* the convergence predicate of Hub.v, as a boolean: the expression is evaluated over the current last read values AND the
   current enabled flags ($p of a disabled p is an error, which AVAILABLE / DEFAULT catch); silent only on evaluation /
   coercion errors *)
Definition follows_b (s : state Z expr) (q : pid) : bool :=
  match (if en (Hub.ports s q) then Hub.expr (Hub.ports s q) else None) with
  | None => true
  | Some e =>
      match feval pname (all_ids s) 0 e (Hub.ens s) (lasts Z expr s) with
      | OErr => true
      | OVal v => match coerce q v with
                  | OErr => true
                  | OVal v' => veqb v' (src (Hub.ports s q)) && veqb (src (Hub.ports s q)) (Hub.last (Hub.ports s q))
                  end
      end
  end.

(* one case: initial values, the trace the implementation produced, its final (last read, driver) values per port.
   result code: 0 ok; 1 model refused an event; 2 final state differs; 3 implementation quiescent but does not follow (spec) *)
Definition check_case (c : list (option Z) * list (event Z expr) * list (option Z * option Z)) : Z :=
  let '(vals, tr, final) := c in
  let s0 := init vals in
  let '(refused, s) := first_refused refresh_after_write enable_forces_all disable_forces_all (all_ids s0) s0 tr 0 in
  match refused with
  | Some _ => 1
  | None =>
      if list_eqb (fun a b => veqb (fst a) (fst b) && veqb (snd a) (snd b))
           (map (fun p => (Hub.last (Hub.ports s p), src (Hub.ports s p))) (all_ids s)) final
      then 0 else 2
  end.

(* the specification evaluated directly on what the implementation reports: every port with an expression follows it.
   exprs: the expression each port has at the end (None = none); final: (last read, driver) values; enl: enabled flags *)
Definition spec_case (c : list (option expr) * list (option Z * option Z) * list bool) : bool :=
  let '(exprs, final, enl) := c in
  let n := List.length final in
  let s := Build_state (fun p => Build_port (snd (nth p final (None, None))) (fst (nth p final (None, None)))
                                            (nth p exprs None) [] Idle false (nth p enl true)) (seq 0 n) None false in
  forallb (follows_b s) (seq 0 n).

Definition bad_model (cases : list (list (option Z) * list (event Z expr) * list (option Z * option Z))) : list Z :=
  map check_case cases.
Definition bad_spec (cases : list (list (option expr) * list (option Z * option Z) * list bool)) : list nat :=
  mismatches spec_case cases 0.
