(* C01 — the code refreshes the last read values inside the evaluation task after its own write (regenerated from
   core/ports.py on every run); the convergence theorem is proved for exactly that model. *)
From QT Require Import Gen.C01Gen.

Lemma refresh_after_write_true : refresh_after_write = true.
Proof. reflexivity. Qed.
