(* C01 — the code refreshes the last read values inside the evaluation task after its own write, and enable() and disable()
   both force the evaluation of all expressions (all three regenerated from core/ports.py on every run); the convergence
   theorem is proved for exactly that model. *)
From QT Require Import Gen.C01Gen.

Lemma refresh_after_write_true : refresh_after_write = true.
Proof. reflexivity. Qed.

Lemma enable_forces_all_true : enable_forces_all = true.
Proof. reflexivity. Qed.

Lemma disable_forces_all_true : disable_forces_all = true.
Proof. reflexivity. Qed.
