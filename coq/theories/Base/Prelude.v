(* Shared imports and small executable helpers used by the generated case files. *)
From Coq Require Export ZArith List Bool Lia String Ascii.
Export ListNotations.

Definition byte_to_ascii (z : Z) : ascii := ascii_of_N (Z.to_N z).

Fixpoint bytes_to_string (l : list Z) : string :=
  match l with
  | [] => EmptyString
  | b :: r => String (byte_to_ascii b) (bytes_to_string r)
  end.

Fixpoint string_to_bytes (s : string) : list Z :=
  match s with
  | EmptyString => []
  | String a r => Z.of_N (N_of_ascii a) :: string_to_bytes r
  end.

(* indices (from i) of the elements that do not satisfy ok *)
Fixpoint mismatches {A} (ok : A -> bool) (l : list A) (i : nat) : list nat :=
  match l with
  | [] => []
  | x :: r => if ok x then mismatches ok r (S i) else i :: mismatches ok r (S i)
  end.

Definition option_eqb {A} (eqb : A -> A -> bool) (a b : option A) : bool :=
  match a, b with
  | None, None => true
  | Some x, Some y => eqb x y
  | _, _ => false
  end.

Fixpoint list_eqb {A} (eqb : A -> A -> bool) (a b : list A) : bool :=
  match a, b with
  | [], [] => true
  | x :: a', y :: b' => eqb x y && list_eqb eqb a' b'
  | _, _ => false
  end.
