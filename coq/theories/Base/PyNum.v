(* Python's numeric tower as used by qtoggleserver's expressions: bool, unbounded int (Z), float (IEEE-754 binary64 as Coq's
   [spec_float], computed with the pure Gallina operations of Coq.Floats.SpecFloat — no primitive floats, no axioms).
   Definitions only.  Every operation returns [pyres]: a value or the class of Python exception CPython raises. *)
From Coq Require Export ZArith List Bool SpecFloat.
Export ListNotations.
Open Scope Z_scope.

Definition prec := 53.
Definition emax := 1024.
Notation sf := spec_float.

Inductive pyval := VBool (b : bool) | VInt (z : Z) | VFloat (f : sf).
(* Unmodelled: the operation's result depends on something outside this model (libm pow, complex results) *)
Inductive pyexc := ZeroDiv | Overflow | ValueErr | TypeErr | Unmodelled.
Inductive pyres := POk (v : pyval) | PErr (e : pyexc).

Definition pbind (r : pyres) (k : pyval -> pyres) : pyres := match r with POk v => k v | PErr e => PErr e end.

(* ------------------------------------------------------------------ floats *)

Definition fadd := SFadd prec emax.
Definition fsub := SFsub prec emax.
Definition fmul := SFmul prec emax.
Definition fdiv := SFdiv prec emax.
Definition fzero := S754_zero false.
Definition f_of_Z_raw (z : Z) : sf := binary_normalize prec emax z 0 false.

Definition f_is_nan (f : sf) := match f with S754_nan => true | _ => false end.
Definition f_is_inf (f : sf) := match f with S754_infinity _ => true | _ => false end.
Definition f_is_finite (f : sf) := match f with S754_zero _ | S754_finite _ _ _ => true | _ => false end.
Definition f_is_zero (f : sf) := match f with S754_zero _ => true | _ => false end.
Definition f_sign (f : sf) : bool :=
  match f with S754_zero s | S754_infinity s | S754_finite s _ _ => s | S754_nan => false end.

(* structural equality = same IEEE datum (one NaN) *)
Definition sf_eqb (a b : sf) : bool :=
  match a, b with
  | S754_zero s, S754_zero t => Bool.eqb s t
  | S754_infinity s, S754_infinity t => Bool.eqb s t
  | S754_nan, S754_nan => true
  | S754_finite s m e, S754_finite t n f => Bool.eqb s t && Pos.eqb m n && Z.eqb e f
  | _, _ => false
  end.

(* float(int): round half even, OverflowError when the result is not finite *)
Definition f_of_Z (z : Z) : sf + pyexc :=
  let f := f_of_Z_raw z in if f_is_inf f then inr Overflow else inl f.

(* the exact integer value of [±m·2^e] scaled: returns (numerator, log2 of denominator) with value = num / 2^k, k >= 0 *)
Definition f_as_frac (s : bool) (m : positive) (e : Z) : Z * Z :=
  let v := if s then Zneg m else Zpos m in
  if 0 <=? e then (v * 2 ^ e, 0) else (v, - e).

(* int(float): truncation toward zero *)
Definition f_trunc (f : sf) : Z + pyexc :=
  match f with
  | S754_zero _ => inl 0
  | S754_finite s m e => let '(n, k) := f_as_frac s m e in inl (Z.quot n (2 ^ k))
  | S754_infinity _ => inr Overflow
  | S754_nan => inr ValueErr
  end.

Definition f_floor (f : sf) : Z + pyexc :=
  match f with
  | S754_zero _ => inl 0
  | S754_finite s m e => let '(n, k) := f_as_frac s m e in inl (n / 2 ^ k)
  | S754_infinity _ => inr Overflow
  | S754_nan => inr ValueErr
  end.

Definition f_ceil (f : sf) : Z + pyexc :=
  match f with
  | S754_zero _ => inl 0
  | S754_finite s m e => let '(n, k) := f_as_frac s m e in inl (- ((- n) / 2 ^ k))
  | S754_infinity _ => inr Overflow
  | S754_nan => inr ValueErr
  end.

(* exact comparison of an int with a float (Python never converts the int); None when the float is NaN *)
Definition cmp_Z_f (z : Z) (f : sf) : option comparison :=
  match f with
  | S754_nan => None
  | S754_infinity s => Some (if s then Gt else Lt)
  | S754_zero _ => Some (z ?= 0)
  | S754_finite s m e => let '(n, k) := f_as_frac s m e in Some (z * 2 ^ k ?= n)
  end.

(* the float nearest to p/q (q > 0), ties to even: quotient with >= 55 significant bits plus a sticky bit, then one rounding *)
Definition f_of_ratio (p q : Z) : sf :=
  if p =? 0 then fzero else
  let a := Z.abs p in
  let k := Z.max 0 (Z.log2 q - Z.log2 a + 56) in
  let n := a * 2 ^ k in
  let m := n / q in
  let sticky := if n mod q =? 0 then 0 else 1 in
  let m' := 2 * m + sticky in
  binary_normalize prec emax (if p <? 0 then - m' else m') (- (k + 1)) false.

(* C fmod on the exact integer values, then CPython's float_rem sign fix-up *)
Definition f_neg_zero (s : bool) : sf := S754_zero s.

Definition f_fmod (x y : sf) : sf :=
  match x, y with
  | S754_nan, _ | _, S754_nan => S754_nan
  | S754_infinity _, _ => S754_nan
  | _, S754_zero _ => S754_nan
  | S754_zero s, _ => S754_zero s
  | S754_finite _ _ _, S754_infinity _ => x
  | S754_finite sx mx ex, S754_finite _ my ey =>
      let e := Z.min ex ey in
      let X := Zpos mx * 2 ^ (ex - e) in
      let Y := Zpos my * 2 ^ (ey - e) in
      let R := X mod Y in
      if R =? 0 then S754_zero sx else binary_normalize prec emax (if sx then - R else R) e false
  end.

Definition f_ltb0 (f : sf) : bool := SFltb f fzero.   (* f < 0.0 *)

Definition f_rem (vx wx : sf) : sf + pyexc :=
  if f_is_zero wx then inr ZeroDiv else
  let m := f_fmod vx wx in
  if f_is_zero m then inl (S754_zero (f_sign wx))              (* copysign(0.0, wx); (nan is not zero) *)
  else if negb (Bool.eqb (f_ltb0 wx) (f_ltb0 m)) then inl (fadd m wx) else inl m.

(* round(float, ndigits) — CPython's double_round (correctly rounded through the exact decimal value) *)
Definition round_half_even_div (n d : Z) : Z :=      (* nearest integer to n/d, d > 0, ties to even *)
  let q := n / d in let r := n mod d in
  match 2 * r ?= d with
  | Lt => q
  | Gt => q + 1
  | Eq => if Z.even q then q else q + 1
  end.

Definition f_round (f : sf) (nd : Z) : sf + pyexc :=
  match f with
  | S754_finite s m e =>
      if 323 <? nd then inl f
      else if nd <? -308 then inl (S754_zero s)
      else
        let '(n, k) := f_as_frac s m e in              (* value = n / 2^k *)
        let a := Z.abs n in
        (* q = round_half_even(|value| * 10^nd) ; result = q / 10^nd *)
        let '(q, den) :=
          if 0 <=? nd then (round_half_even_div (a * 10 ^ nd) (2 ^ k), 10 ^ nd)
          else (round_half_even_div a (2 ^ k * 10 ^ (- nd)), 1) in
        let num := if 0 <=? nd then q else q * 10 ^ (- nd) in
        let r := f_of_ratio num den in
        let r := match r with S754_zero _ => S754_zero s | S754_finite _ m' e' => S754_finite s m' e' | S754_infinity _ => S754_infinity s | _ => r end in
        if f_is_inf r then inr Overflow else inl r
  | _ => inl f
  end.

(* round(int, ndigits) *)
Definition z_round (z : Z) (nd : Z) : Z :=
  if 0 <=? nd then z else let p := 10 ^ (- nd) in round_half_even_div z p * p.

(* ------------------------------------------------------------------ the tower *)

Inductive num := NInt (z : Z) | NFloat (f : sf).

Definition as_num (v : pyval) : num :=
  match v with VBool b => NInt (if b then 1 else 0) | VInt z => NInt z | VFloat f => NFloat f end.

Definition to_float (n : num) : sf + pyexc := match n with NInt z => f_of_Z z | NFloat f => inl f end.

Definition lift_f (r : sf + pyexc) : pyres := match r with inl f => POk (VFloat f) | inr e => PErr e end.
Definition lift_z (r : Z + pyexc) : pyres := match r with inl z => POk (VInt z) | inr e => PErr e end.

Definition float_binop (op : sf -> sf -> sf) (a b : num) : pyres :=
  match to_float a, to_float b with
  | inl x, inl y => POk (VFloat (op x y))
  | inr e, _ => PErr e
  | _, inr e => PErr e
  end.

Definition py_add (a b : pyval) : pyres :=
  match as_num a, as_num b with
  | NInt x, NInt y => POk (VInt (x + y))
  | x, y => float_binop fadd x y
  end.

Definition py_sub (a b : pyval) : pyres :=
  match as_num a, as_num b with
  | NInt x, NInt y => POk (VInt (x - y))
  | x, y => float_binop fsub x y
  end.

Definition py_mul (a b : pyval) : pyres :=
  match as_num a, as_num b with
  | NInt x, NInt y => POk (VInt (x * y))
  | x, y => float_binop fmul x y
  end.

(* a / b ; callers exclude falsy b, the zero cases are modelled anyway *)
Definition py_truediv (a b : pyval) : pyres :=
  match as_num a, as_num b with
  | NInt x, NInt y =>
      if y =? 0 then PErr ZeroDiv
      else if x =? 0 then POk (VFloat (S754_zero (y <? 0)))          (* 0 / -5 is -0.0 *)
      else let r := f_of_ratio (if y <? 0 then - x else x) (Z.abs y) in
           if f_is_inf r then PErr Overflow else POk (VFloat r)
  | x, y =>
      match to_float x, to_float y with
      | inl fx, inl fy => if f_is_zero fy then PErr ZeroDiv else POk (VFloat (fdiv fx fy))
      | inr e, _ => PErr e
      | _, inr e => PErr e
      end
  end.

Definition py_mod (a b : pyval) : pyres :=
  match as_num a, as_num b with
  | NInt x, NInt y => if y =? 0 then PErr ZeroDiv else POk (VInt (x mod y))
  | x, y =>
      match to_float x, to_float y with
      | inl fx, inl fy => lift_f (f_rem fx fy)
      | inr e, _ => PErr e
      | _, inr e => PErr e
      end
  end.

(* a ** b : exact for int ** non-negative int; everything else (libm pow, complex results) is outside the model *)
Definition py_pow (a b : pyval) : pyres :=
  match as_num a, as_num b with
  | NInt x, NInt y => if 0 <=? y then POk (VInt (x ^ y)) else PErr Unmodelled
  | _, _ => PErr Unmodelled
  end.

Definition cmp_num (a b : num) : option comparison :=
  match a, b with
  | NInt x, NInt y => Some (x ?= y)
  | NInt x, NFloat f => cmp_Z_f x f
  | NFloat f, NInt y => option_map CompOpp (cmp_Z_f y f)
  | NFloat f, NFloat g => SFcompare f g
  end.

Definition py_lt (a b : pyval) : bool := match cmp_num (as_num a) (as_num b) with Some Lt => true | _ => false end.
Definition py_gt (a b : pyval) : bool := match cmp_num (as_num a) (as_num b) with Some Gt => true | _ => false end.
Definition py_le (a b : pyval) : bool := match cmp_num (as_num a) (as_num b) with Some Lt | Some Eq => true | _ => false end.
Definition py_ge (a b : pyval) : bool := match cmp_num (as_num a) (as_num b) with Some Gt | Some Eq => true | _ => false end.
Definition py_eq (a b : pyval) : bool := match cmp_num (as_num a) (as_num b) with Some Eq => true | _ => false end.

Definition py_truth (v : pyval) : bool :=
  match v with VBool b => b | VInt z => negb (z =? 0) | VFloat f => negb (f_is_zero f) end.

Definition py_int (v : pyval) : Z + pyexc :=
  match as_num v with NInt z => inl z | NFloat f => f_trunc f end.

Definition py_floor (v : pyval) : Z + pyexc := match as_num v with NInt z => inl z | NFloat f => f_floor f end.
Definition py_ceil (v : pyval) : Z + pyexc := match as_num v with NInt z => inl z | NFloat f => f_ceil f end.

Definition py_round (v : pyval) (nd : Z) : pyres :=
  match as_num v with NInt z => POk (VInt (z_round z nd)) | NFloat f => lift_f (f_round f nd) end.

Definition py_abs (v : pyval) : pyval :=
  match as_num v with NInt z => VInt (Z.abs z) | NFloat f => VFloat (SFabs f) end.

Definition py_float (v : pyval) : pyres := lift_f (to_float (as_num v)).       (* float(v) *)

Definition py_bool_to_int (b : bool) : pyval := VInt (if b then 1 else 0).     (* int(<bool>) *)

(* shifts: a negative count raises ValueError *)
Definition py_shl (x n : Z) : pyres := if n <? 0 then PErr ValueErr else POk (VInt (Z.shiftl x n)).
Definition py_shr (x n : Z) : pyres := if n <? 0 then PErr ValueErr else POk (VInt (Z.shiftr x n)).

(* ------------------------------------------------------------------ builtin sum() of CPython 3.12 *)

Definition fits_long (z : Z) : bool := (- 2 ^ 63 <=? z) && (z <? 2 ^ 63).

(* generic tail: result = result + item for the remaining items *)
Fixpoint sum_generic (acc : pyval) (l : list pyval) : pyres :=
  match l with
  | [] => POk acc
  | x :: r => pbind (py_add acc x) (fun acc' => sum_generic acc' r)
  end.

Definition fold_comp (f c : sf) : sf :=                     (* if (c && isfinite(c)) f += c *)
  if negb (f_is_zero c) && f_is_finite c then fadd f c else f.

(* float loop with Neumaier compensation *)
Fixpoint sum_float (f c : sf) (l : list pyval) : pyres :=
  match l with
  | [] => POk (VFloat (fold_comp f c))
  | VFloat x :: r =>
      let t := fadd f x in
      let c' := if SFleb (SFabs x) (SFabs f) then fadd c (fadd (fsub f t) x) else fadd c (fadd (fsub x t) f) in
      sum_float t c' r
  | v :: r =>
      match as_num v with
      | NInt z =>
          if fits_long z then sum_float (fadd f (f_of_Z_raw z)) c r
          else pbind (py_add (VFloat (fold_comp f c)) v) (fun acc => sum_generic acc r)
      | NFloat _ => PErr TypeErr
      end
  end.

(* int loop: exact ints (and bools) while the running total fits a C long *)
Fixpoint sum_int (i : Z) (l : list pyval) : pyres :=
  match l with
  | [] => POk (VInt i)
  | v :: r =>
      match v with
      | VFloat x =>
          pbind (py_add (VInt i) v) (fun acc =>
            match acc with VFloat f => sum_float f fzero r | _ => sum_generic acc r end)
      | _ =>
          match as_num v with
          | NInt z =>
              if fits_long z && fits_long (i + z) then sum_int (i + z) r
              else sum_generic (VInt (i + z)) r
          | NFloat _ => PErr TypeErr
          end
      end
  end.

Definition py_sum (l : list pyval) : pyres := sum_int 0 l.
