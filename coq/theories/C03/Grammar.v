(* C03 — the expression grammar as a recogniser written independently of the parser's index-based scan:
     expr   ::= ws* ( literal | ('$'|'@') id? | NAME ws* '(' args? ')' ) ws*
     args   ::= expr (',' expr)*            split at the commas that are outside any nested parentheses
     NAME   in the registry, enabled, with an admissible number of arguments and argument kinds
   Used as the specification oracle for accept/reject. *)
From QT Require Export C03.Parser.
Open Scope nat_scope.

(* split at depth-0 commas; None when a ')' has no partner or a '(' stays open *)
Fixpoint split_top (s : str) (depth : nat) (cur : str) (acc : list str) : option (list str) :=
  match s with
  | [] => if depth =? 0 then Some (rev (rev cur :: acc)) else None
  | c :: r =>
      if aeqb c c_lpar then split_top r (S depth) (c :: cur) acc
      else if aeqb c c_rpar then match depth with 0 => None | S d => split_top r d (c :: cur) acc end
      else if aeqb c c_comma && (depth =? 0) then split_top r 0 [] (rev cur :: acc)
      else split_top r depth (c :: cur) acc
  end.

Fixpoint index_of (c : ascii) (s : str) (i : nat) : option nat :=
  match s with [] => None | x :: r => if aeqb x c then Some i else index_of c r (S i) end.

Definition is_literal (t : str) : bool :=
  str_eqb t (list_ascii_of_string "true") || str_eqb t (list_ascii_of_string "false")
  || str_eqb t (list_ascii_of_string "unavailable")
  || match parse_int_text t with Some _ => true | None => false end
  || match parse_float_text t with Some _ => true | None => false end.

Section WithTable.
  Variable table : list func_info.
  Variable history_enabled : bool.

  (* returns Some is_port_reference when the text is an expression *)
  Fixpoint derives (fuel : nat) (s : str) {struct fuel} : option bool :=
    match fuel with
    | O => None
    | S fuel' =>
        let t := strip s in
        match t with
        | [] => None
        | c :: id =>
            if aeqb c c_dollar || aeqb c c_at then
              if forallb is_id_char id then Some (aeqb c c_at) else None
            else if existsb (fun c => aeqb c c_lpar || aeqb c c_rpar) t then
              match index_of c_lpar t 0 with
              | None => None
              | Some p =>
                  let name := strip (firstn p t) in
                  let body := skipn (S p) t in
                  match rev body with
                  | last :: rinner =>
                      if negb (aeqb last c_rpar) then None else
                      let inner := rev rinner in
                      if negb (forallb is_name_char name) then None else
                      match find_func (str_of name) table with
                      | None => None
                      | Some fi =>
                          if negb (fi_enabled fi || history_enabled) then None else
                          let pieces := match inner with [] => Some [] | _ => split_top inner 0 [] [] end in
                          match pieces with
                          | None => None
                          | Some ps =>
                              let n := Z.of_nat (List.length ps) in
                              if match fi_min fi with Some m => (n <? m)%Z | None => false end then None
                              else if match fi_max fi with Some m => (m <? n)%Z | None => false end then None
                              else
                                let kinds := map (derives fuel') ps in
                                let ok := fix ok (l : list (option bool)) (i : nat) : bool :=
                                  match l with
                                  | [] => true
                                  | None :: _ => false
                                  | Some isref :: r =>
                                      Bool.eqb isref (existsb (fun k => Z.eqb k (Z.of_nat i)) (fi_refargs fi)) && ok r (S i)
                                  end in
                                if ok kinds 0 then Some false else None
                          end
                      end
                  | [] => None
                  end
              end
            else if is_literal t then Some false else None
        end
    end.

  Definition accepts (s : str) : bool := match derives (S (List.length s)) s with Some _ => true | None => false end.
End WithTable.
