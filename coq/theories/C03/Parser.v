(* C03 — model of the expression parser (core/expressions/__init__.py:parse, functions.py:Function.parse,
   port.py:PortExpression.parse, literalvalues.py:LiteralValue.parse) and of the printer (__str__), over ASCII texts
   represented as [list ascii].  Definitions only.  The function registry is a parameter (instantiated with the regenerated
   Gen/FuncTable.v). *)
From QT Require Export Base.Prelude Base.PyNum Expr.FuncInfo.
Open Scope nat_scope.

Notation str := (list ascii).

Definition code (a : ascii) : nat := nat_of_ascii a.
Definition ch (n : nat) : ascii := ascii_of_nat n.

(* str.isspace() on ASCII: \t \n \v \f \r, \x1c-\x1f and space *)
Definition is_space (a : ascii) : bool :=
  let n := code a in ((9 <=? n) && (n <=? 13)) || ((28 <=? n) && (n <=? 32)).
Definition is_digit (a : ascii) : bool := let n := code a in (48 <=? n) && (n <=? 57).
Definition is_alpha (a : ascii) : bool :=
  let n := code a in ((65 <=? n) && (n <=? 90)) || ((97 <=? n) && (n <=? 122)).
Definition is_name_char (a : ascii) : bool := is_alpha a || is_digit a || (code a =? 95).             (* [a-zA-Z0-9_] *)
Definition is_id_char (a : ascii) : bool := is_name_char a || (code a =? 46) || (code a =? 45).      (* [a-zA-Z0-9_.-] *)

Definition c_lpar : ascii := ch 40.
Definition c_rpar : ascii := ch 41.
Definition c_comma : ascii := ch 44.
Definition c_dollar : ascii := ch 36.
Definition c_at : ascii := ch 64.
Definition c_space : ascii := ch 32.

Definition aeqb (a b : ascii) : bool := Ascii.eqb a b.

Fixpoint str_eqb (a b : str) : bool :=
  match a, b with
  | [], [] => true
  | x :: a', y :: b' => aeqb x y && str_eqb a' b'
  | _, _ => false
  end.

(* strip leading whitespace, counting the removed characters *)
Fixpoint lstrip (s : str) : str * nat :=
  match s with
  | c :: r => if is_space c then let '(t, n) := lstrip r in (t, S n) else (s, 0)
  | [] => ([], 0)
  end.
Definition rstrip (s : str) : str := rev (fst (lstrip (rev s))).
Definition strip (s : str) : str := rstrip (fst (lstrip s)).

Definition slice (s : str) (a b : nat) : str := firstn (b - a) (skipn a s).     (* s[a:b] for a <= b *)

(* index of the first character not satisfying ok *)
Fixpoint first_bad (ok : ascii -> bool) (s : str) (i : nat) : option (ascii * nat) :=
  match s with [] => None | c :: r => if ok c then first_bad ok r (S i) else Some (c, i) end.

(* ------------------------------------------------------------------ syntax trees with the literal's text *)
Inductive pexpr :=
| PLit (text : str) (v : option pyval)
| PPortVal (id : str) | PSelfVal | PPortRef (id : str) | PSelfRef
| PCall (f : str) (args : list pexpr).

Inductive perr :=
| EUnknownFunction (name : str) (pos : nat)
| EInvalidNumArgs (name : str) (pos : nat)
| EInvalidArgKind (name : str) (pos num : nat)
| EUnbalanced (pos : nat)
| EUnexpectedEnd
| EUnexpectedChar (c : ascii) (pos : nat)
| EEmpty
| EFuel.                                   (* never produced when the fuel is the length of the text + 1 *)

Inductive pres := POK (e : pexpr) | PErrR (e : perr).

(* ------------------------------------------------------------------ printing (__str__) *)
Fixpoint join (sep : str) (l : list str) : str :=
  match l with [] => [] | [x] => x | x :: r => x ++ sep ++ join sep r end.

Fixpoint print (e : pexpr) : str :=
  match e with
  | PLit text _ => text
  | PPortVal id => c_dollar :: id
  | PSelfVal => [c_dollar]
  | PPortRef id => c_at :: id
  | PSelfRef => [c_at]
  | PCall f args => f ++ c_lpar :: join [c_comma; c_space] (map print args) ++ [c_rpar]
  end.

(* ------------------------------------------------------------------ literals: what int() / float() accept on ASCII text *)

Definition digit_val (a : ascii) : Z := Z.of_nat (code a - 48).

(* digit ('_'? digit)* ; returns the digits' value, their number, and the rest *)
Fixpoint digitpart_more (s : str) (acc : Z) (n : nat) : Z * nat * str :=
  match s with
  | c :: r =>
      if is_digit c then digitpart_more r (acc * 10 + digit_val c)%Z (S n)
      else if (code c =? 95) then
        match r with
        | d :: r' => if is_digit d then digitpart_more r' (acc * 10 + digit_val d)%Z (S n) else (acc, n, s)
        | [] => (acc, n, s)
        end
      else (acc, n, s)
  | [] => (acc, n, s)
  end.

Definition digitpart (s : str) : option (Z * nat * str) :=
  match s with
  | c :: r => if is_digit c then Some (digitpart_more r (digit_val c) 1) else None
  | [] => None
  end.

Definition take_sign (s : str) : bool * str :=
  match s with
  | c :: r => if code c =? 45 then (true, r) else if code c =? 43 then (false, r) else (false, s)
  | [] => (false, s)
  end.

Definition parse_int_text (s : str) : option Z :=
  let '(neg, r) := take_sign s in
  match digitpart r with
  | Some (v, _, []) => Some (if neg then (- v)%Z else v)
  | _ => None
  end.

Definition lower (a : ascii) : ascii := let n := code a in if (65 <=? n) && (n <=? 90) then ch (n + 32) else a.

Definition word_eqb (s : str) (w : string) : bool := str_eqb (map lower s) (list_ascii_of_string w).

(* value of mantissa digits M with decimal exponent E, correctly rounded *)
Definition dec_to_float (neg : bool) (m : Z) (e10 : Z) : sf :=
  if (m =? 0)%Z then S754_zero neg
  else
    let f := if (0 <=? e10)%Z then f_of_ratio (m * 10 ^ e10) 1 else f_of_ratio m (10 ^ (- e10)) in
    match f with
    | S754_finite _ mm ee => S754_finite neg mm ee
    | S754_infinity _ => S754_infinity neg
    | S754_zero _ => S754_zero neg
    | S754_nan => S754_nan
    end.

Definition parse_exponent (s : str) : option (Z * str) :=     (* [eE][+-]?digitpart ; None when absent or malformed *)
  match s with
  | c :: r =>
      if (code c =? 101) || (code c =? 69) then
        let '(neg, r') := take_sign r in
        match digitpart r' with
        | Some (v, _, rest) => Some ((if neg then - v else v)%Z, rest)
        | None => None
        end
      else None
  | [] => None
  end.

Definition parse_float_text (s : str) : option sf :=
  let '(neg, r) := take_sign s in
  if word_eqb r "inf" || word_eqb r "infinity" then Some (S754_infinity neg)
  else if word_eqb r "nan" then Some S754_nan
  else
    (* digitpart? ('.' digitpart?)? exponent?   with at least one mantissa digit *)
    let '(ip, n1, r1) := match digitpart r with Some x => x | None => (0%Z, 0, r) end in
    let '(fp, n2, r2) :=
      match r1 with
      | c :: r1' =>
          if code c =? 46 then
            match digitpart r1' with Some (v, n, rest) => (v, n, rest) | None => (0%Z, 0, r1') end
          else (0%Z, 0, r1)
      | [] => (0%Z, 0, r1)
      end in
    if (n1 + n2 =? 0) then None
    else
      let mant := (ip * 10 ^ Z.of_nat n2 + fp)%Z in
      match r2 with
      | [] => Some (dec_to_float neg mant (- Z.of_nat n2))
      | _ => match parse_exponent r2 with
             | Some (e, []) => Some (dec_to_float neg mant (e - Z.of_nat n2))
             | _ => None
             end
      end.

(* re.match(r'-?\d+(\.?\d+)?', s).end() *)
Fixpoint skip_digits (s : str) (i : nat) : str * nat :=
  match s with c :: r => if is_digit c then skip_digits r (S i) else (s, i) | [] => (s, i) end.

Definition literal_regex_end (s : str) : option nat :=
  let '(r0, i0) := match s with c :: r => if code c =? 45 then (r, 1) else (s, 0) | [] => (s, 0) end in
  match r0 with
  | c :: _ =>
      if is_digit c then
        let '(r1, i1) := skip_digits r0 i0 in
        match r1 with
        | d :: r1' =>
            if code d =? 46 then
              match r1' with
              | d2 :: _ => if is_digit d2 then Some (snd (skip_digits r1' (S i1))) else Some i1
              | [] => Some i1
              end
            else Some i1
        | [] => Some i1
        end
      else None
  | [] => None
  end.

(* LiteralValue.parse on an already stripped text at position pos *)
Definition parse_literal (s : str) (pos : nat) : pres :=
  match s with
  | [] => PErrR EEmpty
  | c0 :: _ =>
      if str_eqb s (list_ascii_of_string "true") then POK (PLit s (Some (VInt 1)))
      else if str_eqb s (list_ascii_of_string "false") then POK (PLit s (Some (VInt 0)))
      else if str_eqb s (list_ascii_of_string "unavailable") then POK (PLit s None)
      else match parse_int_text s with
           | Some z => POK (PLit s (Some (VInt z)))
           | None =>
               match parse_float_text s with
               | Some f => POK (PLit s (Some (VFloat f)))
               | None =>
                   match literal_regex_end s with
                   | Some e => PErrR (EUnexpectedChar (nth e s c0) (pos + e))
                   | None => PErrR (EUnexpectedChar c0 pos)
                   end
               end
           end
  end.

(* PortExpression.parse on a stripped text starting with $ or @ *)
Definition parse_port (s : str) (pos : nat) : pres :=
  match s with
  | prefix :: id =>
      match id with
      | [] => POK (if aeqb prefix c_dollar then PSelfVal else PSelfRef)
      | _ =>
          match first_bad is_id_char id 0 with
          | Some (c, p) => PErrR (EUnexpectedChar c (p + pos + 2))
          | None => POK (if aeqb prefix c_dollar then PPortVal id else PPortRef id)
          end
      end
  | [] => PErrR EEmpty
  end.

(* ------------------------------------------------------------------ Function.parse: the single left-to-right scan *)
Record scan_st := {
  p_start : option nat; p_end : option nat; p_last_comma : option nat; level : nat;
  sargs : list (str * nat)                          (* (text, position inside the call text), most recent first *)
}.

Definition st0 : scan_st := {| p_start := None; p_end := None; p_last_comma := None; level := 0; sargs := [] |}.

(* (p_last_comma or p_start) + 1 — note that 0 is falsy in Python *)
Definition arg_from (st : scan_st) : nat :=
  match p_last_comma st with
  | Some (S n) => S (S n)
  | _ => match p_start st with Some p => S p | None => 0 end
  end.

Definition is_blank (s : str) : bool := forallb is_space s.

Definition scan_step (s : str) (pos : nat) (st : scan_st) (i : nat) (c : ascii) : scan_st + perr :=
  if aeqb c c_lpar then
    match p_start st with
    | None => inl {| p_start := Some i; p_end := p_end st; p_last_comma := p_last_comma st; level := S (level st); sargs := sargs st |}
    | Some _ =>
        if level st =? 0 then inr (EUnexpectedChar c (pos + i))
        else inl {| p_start := p_start st; p_end := p_end st; p_last_comma := p_last_comma st; level := S (level st); sargs := sargs st |}
    end
  else if aeqb c c_rpar then
    match level st with
    | 0 => inr (EUnbalanced (pos + i))
    | 1 =>
        match p_end st with
        | None => inl {| p_start := p_start st; p_end := Some i; p_last_comma := p_last_comma st; level := 0; sargs := sargs st |}
        | Some _ => inr (EUnbalanced (pos + i))
        end
    | S l => inl {| p_start := p_start st; p_end := p_end st; p_last_comma := p_last_comma st; level := l; sargs := sargs st |}
    end
  else if aeqb c c_comma && (level st =? 1) then
    let from := arg_from st in
    let sarg := slice s from i in
    if is_blank sarg then inr (EUnexpectedChar c (pos + from + List.length sarg))
    else inl {| p_start := p_start st; p_end := p_end st; p_last_comma := Some i; level := level st; sargs := (sarg, from) :: sargs st |}
  else
    match p_start st with
    | Some _ => if (level st =? 0) && negb (is_space c) then inr (EUnexpectedChar c (pos + i)) else inl st
    | None => inl st
    end.

Fixpoint scan (s : str) (pos : nat) (rest : str) (i : nat) (st : scan_st) : scan_st + perr :=
  match rest with
  | [] => inl st
  | c :: r => match scan_step s pos st i c with inl st' => scan s pos r (S i) st' | inr e => inr e end
  end.

Section WithTable.
  Variable table : list func_info.
  Variable history_enabled : bool.          (* HISTORY.ENABLED is the run-time predicate history.is_enabled *)

  Definition str_of (s : str) : string := string_of_list_ascii s.

  Definition is_ref (e : pexpr) : bool := match e with PPortRef _ | PSelfRef => true | _ => false end.

  (* validate_arg_kinds: position i must be a PortRef when ARG_KINDS[i] is PortRef, and must not be one otherwise *)
  Fixpoint check_kinds (fi : func_info) (args : list pexpr) (poss : list nat) (i : nat) : option (nat * nat) :=
    match args, poss with
    | a :: ar, p :: pr =>
        let want_ref := existsb (fun k => Z.eqb k (Z.of_nat i)) (fi_refargs fi) in
        if Bool.eqb want_ref (is_ref a) then check_kinds fi ar pr (S i) else Some (p, S i)
    | _, _ => None
    end.

  Fixpoint parse_args_with (p : str -> nat -> pres) (pos : nat) (l : list (str * nat)) : list pexpr + perr :=
    match l with
    | [] => inl []
    | (sa, sp) :: r =>
        match p sa (pos + sp) with
        | PErrR e => inr e
        | POK a => match parse_args_with p pos r with inl ar => inl (a :: ar) | inr e => inr e end
        end
    end.

  (* Function.parse after the scan: closing checks, last argument, name, registry lookup, arity, arguments, kinds *)
  Definition finish_call (parse_arg : str -> nat -> pres) (s : str) (pos : nat) (st : scan_st) : pres :=
    match p_start st, p_end st with
    | Some ps, Some pe =>
        if (pe <? ps) || negb (level st =? 0) then PErrR EUnexpectedEnd
        else
          let last :=
            if 1 <? pe - ps then
              let from := arg_from st in
              let sarg := slice s from pe in
              if is_blank sarg then inr (EUnexpectedChar c_rpar (pos + from + List.length sarg))
              else inl ((sarg, from) :: sargs st)
            else inl (sargs st) in
          match last with
          | inr e => PErrR e
          | inl rsargs =>
              let sargl := rev rsargs in
              let name := strip (firstn ps s) in
              match first_bad is_name_char name 0 with
              | Some (c, p) => PErrR (EUnexpectedChar c (p + pos))
              | None =>
                  match find_func (str_of name) table with
                  | None => PErrR (EUnknownFunction name pos)
                  | Some fi =>
                      if negb (fi_enabled fi || history_enabled) then PErrR (EUnknownFunction name pos)
                      else if match fi_min fi with Some m => (Z.of_nat (List.length sargl) <? m)%Z | None => false end
                      then PErrR (EInvalidNumArgs name pos)
                      else if match fi_max fi with Some m => (m <? Z.of_nat (List.length sargl))%Z | None => false end
                      then PErrR (EInvalidNumArgs name pos)
                      else
                        match parse_args_with parse_arg pos sargl with
                        | inr e => PErrR e
                        | inl args =>
                            match check_kinds fi args (map (fun p => pos + snd p + 1) sargl) 0 with
                            | Some (p, num) => PErrR (EInvalidArgKind name p num)
                            | None => POK (PCall name args)
                            end
                        end
                  end
              end
          end
    | _, _ => PErrR EUnexpectedEnd
    end.

  Definition has_paren (s : str) : bool := existsb (fun c => aeqb c c_lpar || aeqb c c_rpar) s.
  Definition starts_port (s : str) : bool := match s with c :: _ => aeqb c c_dollar || aeqb c c_at | [] => false end.

  Fixpoint parse_fuel (fuel : nat) (self_unused : unit) (s0 : str) (pos0 : nat) {struct fuel} : pres :=
    match fuel with
    | O => PErrR EFuel
    | S fuel' =>
        let pos := pos0 + snd (lstrip s0) in
        let s := rstrip (fst (lstrip s0)) in
        if starts_port s then parse_port s pos
        else if has_paren s then
          match scan s pos s 0 st0 with
          | inr e => PErrR e
          | inl st => finish_call (parse_fuel fuel' tt) s pos st
          end
        else parse_literal s pos
    end.

  (* expressions.parse(self_port_id, text, role, pos=1) *)
  Definition parse (s : str) : pres := parse_fuel (S (List.length s)) tt s 1.
End WithTable.
