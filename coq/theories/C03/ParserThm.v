(* C03 — proofs about the parser model: the canonical text of a well-formed tree parses back to exactly that tree. *)
From QT Require Import C03.Parser.
From Coq Require Import Lia.
Open Scope nat_scope.

(* ------------------------------------------------------------------ character classes (256 cases each, computed) *)
Ltac ascii_cases c := destruct c as [[] [] [] [] [] [] [] []].

Definition special (c : ascii) : bool := aeqb c c_lpar || aeqb c c_rpar || aeqb c c_comma.

Lemma name_char_plain c :
  is_name_char c = true -> special c = false /\ is_space c = false /\ aeqb c c_dollar = false /\ aeqb c c_at = false.
Proof. ascii_cases c; vm_compute; intros H; try discriminate H; repeat split. Qed.

Lemma id_char_plain c : is_id_char c = true -> special c = false.
Proof. ascii_cases c; vm_compute; intros H; try discriminate H; reflexivity. Qed.

Lemma space_plain c : is_space c = true -> special c = false.
Proof. ascii_cases c; vm_compute; intros H; try discriminate H; reflexivity. Qed.

Lemma aeqb_eq a b : aeqb a b = true -> a = b.
Proof. apply Ascii.eqb_eq. Qed.

Lemma aeqb_refl a : aeqb a a = true.
Proof. apply Ascii.eqb_refl. Qed.

Lemma special_split c :
  special c = false -> aeqb c c_lpar = false /\ aeqb c c_rpar = false /\ aeqb c c_comma = false.
Proof. unfold special. intros H. apply orb_false_iff in H. destruct H as [H ?]. apply orb_false_iff in H. tauto. Qed.

(* ------------------------------------------------------------------ nesting depth of an argument text *)
(* relative depth d (0 = the argument's own top level): fails on an unmatched ')' and on a comma at the top level *)
Fixpoint bal (t : str) (d : nat) : option nat :=
  match t with
  | [] => Some d
  | c :: r =>
      if aeqb c c_lpar then bal r (S d)
      else if aeqb c c_rpar then match d with 0 => None | S d' => bal r d' end
      else if aeqb c c_comma then (if d =? 0 then None else bal r d)
      else bal r d
  end.

Lemma bal_app t u d d' : bal t d = Some d' -> bal (t ++ u) d = bal u d'.
Proof.
  revert d. induction t as [|c r IH]; intros d H; cbn [bal app] in *.
  - injection H as <-. reflexivity.
  - destruct (aeqb c c_lpar); [apply IH; exact H|].
    destruct (aeqb c c_rpar); [destruct d; [discriminate|apply IH; exact H]|].
    destruct (aeqb c c_comma); [destruct (d =? 0); [discriminate|apply IH; exact H]|apply IH; exact H].
Qed.

Lemma bal_shift t : forall d d' k, bal t d = Some d' -> bal t (d + k) = Some (d' + k).
Proof.
  induction t as [|c r IH]; intros d d' k H; cbn [bal] in *.
  - injection H as <-. reflexivity.
  - destruct (aeqb c c_lpar); [apply (IH (S d)); exact H|].
    destruct (aeqb c c_rpar).
    { destruct d as [|d0]; [discriminate|]. cbn [Nat.add]. apply IH; exact H. }
    destruct (aeqb c c_comma).
    { destruct (d =? 0) eqn:E; [discriminate|]. apply Nat.eqb_neq in E.
      replace (d + k =? 0) with false by (symmetry; apply Nat.eqb_neq; lia). apply IH; exact H. }
    apply IH; exact H.
Qed.

Lemma bal_plain t d : forallb (fun c => negb (special c)) t = true -> bal t d = Some d.
Proof.
  induction t as [|c r IH]; intros H; cbn [bal forallb] in *; [reflexivity|].
  apply andb_true_iff in H. destruct H as [Hc Hr]. apply negb_true_iff in Hc.
  destruct (special_split c Hc) as (-> & -> & ->). apply IH; exact Hr.
Qed.

(* ------------------------------------------------------------------ the scan over a closed segment *)
Definition with_level (st : scan_st) (l : nat) : scan_st :=
  {| p_start := p_start st; p_end := p_end st; p_last_comma := p_last_comma st; level := l; sargs := sargs st |}.

Lemma with_level_id st : with_level st (level st) = st.
Proof. destruct st; reflexivity. Qed.

Lemma with_level_step st ps l l' :
  p_start st = Some ps ->
  with_level {| p_start := Some ps; p_end := p_end st; p_last_comma := p_last_comma st; level := l; sargs := sargs st |} l'
  = with_level st l'.
Proof. intros H. unfold with_level. cbn [p_start p_end p_last_comma level sargs]. rewrite H. reflexivity. Qed.

(* a segment whose relative depth goes from d to d', scanned inside a call (level L + d with L >= 1), only moves the level *)
Lemma scan_closed s pos t : forall rest i st ps L d d',
  bal t d = Some d' -> p_start st = Some ps -> 1 <= L -> level st = L + d ->
  scan s pos (t ++ rest) i st = scan s pos rest (i + List.length t) (with_level st (L + d')).
Proof.
  induction t as [|c r IH]; intros rest i st ps L d d' Hb Hps HL Hlv.
  - cbn [bal] in Hb. injection Hb as <-. cbn [app List.length]. rewrite Nat.add_0_r, <- Hlv, with_level_id. reflexivity.
  - cbn [bal] in Hb. cbn [app scan List.length]. unfold scan_step.
    replace (i + S (List.length r)) with (S i + List.length r) by lia.
    destruct (aeqb c c_lpar) eqn:E1.
    { rewrite Hps. replace (level st =? 0) with false by (symmetry; apply Nat.eqb_neq; lia).
      rewrite (IH rest (S i) _ ps L (S d) d' Hb); [|reflexivity|exact HL|cbn [level]; lia].
      rewrite (with_level_step st ps) by exact Hps. reflexivity. }
    destruct (aeqb c c_rpar) eqn:E2.
    { destruct d as [|d0]; [discriminate|].
      rewrite Hlv. destruct L as [|L0]; [lia|].
      replace (S L0 + S d0) with (S (S (L0 + d0))) by lia.
      rewrite (IH rest (S i) _ ps (S L0) d0 d' Hb); [|exact Hps|lia|cbn [level]; lia].
      all: try reflexivity. }
    destruct (aeqb c c_comma) eqn:E3.
    { destruct (d =? 0) eqn:Ed; [discriminate|]. apply Nat.eqb_neq in Ed.
      replace (level st =? 1) with false by (symmetry; apply Nat.eqb_neq; lia). cbn [andb].
      rewrite Hps. replace (level st =? 0) with false by (symmetry; apply Nat.eqb_neq; lia). cbn [andb].
      apply (IH rest (S i) st ps L d d' Hb Hps HL Hlv). }
    cbn [andb]. rewrite Hps. replace (level st =? 0) with false by (symmetry; apply Nat.eqb_neq; lia). cbn [andb].
    apply (IH rest (S i) st ps L d d' Hb Hps HL Hlv).
Qed.

(* before the opening parenthesis: name characters leave the state alone *)
Lemma scan_name s pos f : forall rest i,
  forallb is_name_char f = true -> scan s pos (f ++ rest) i st0 = scan s pos rest (i + List.length f) st0.
Proof.
  induction f as [|c r IH]; intros rest i H; cbn [app List.length scan forallb] in *.
  - rewrite Nat.add_0_r. reflexivity.
  - apply andb_true_iff in H. destruct H as [Hc Hr].
    destruct (name_char_plain c Hc) as (Hs & _). destruct (special_split c Hs) as (E1 & E2 & E3).
    unfold scan_step. rewrite E1, E2, E3. cbn [andb p_start st0].
    rewrite IH by exact Hr. f_equal. lia.
Qed.

(* ------------------------------------------------------------------ slices and strips *)
Lemma slice_app pre mid post : slice (pre ++ mid ++ post) (List.length pre) (List.length pre + List.length mid) = mid.
Proof.
  unfold slice. rewrite skipn_app, skipn_all, Nat.sub_diag. cbn [skipn app].
  replace (List.length pre + List.length mid - List.length pre) with (List.length mid) by lia.
  rewrite firstn_app, firstn_all, Nat.sub_diag. cbn [firstn]. apply app_nil_r.
Qed.

Lemma lstrip_spaces pad t :
  forallb is_space pad = true -> (match t with c :: _ => is_space c = false | [] => True end) ->
  lstrip (pad ++ t) = (t, List.length pad).
Proof.
  induction pad as [|c r IH]; intros Hp Ht; cbn [app forallb List.length] in *.
  - destruct t as [|c r]; [reflexivity|]. cbn [lstrip]. rewrite Ht. reflexivity.
  - apply andb_true_iff in Hp. destruct Hp as [Hc Hr]. cbn [lstrip]. rewrite Hc, (IH Hr Ht). reflexivity.
Qed.

Lemma rstrip_keep t c : is_space c = false -> rstrip (t ++ [c]) = t ++ [c].
Proof.
  intros H. unfold rstrip. rewrite rev_app_distr. cbn [rev app lstrip]. rewrite H. cbn [fst].
  change (c :: rev t) with ([c] ++ rev t). rewrite rev_app_distr, rev_involutive. reflexivity.
Qed.

Lemma first_bad_none ok s i : forallb ok s = true -> first_bad ok s i = None.
Proof.
  revert i. induction s as [|c r IH]; intros i H; cbn [first_bad forallb] in *; [reflexivity|].
  apply andb_true_iff in H. destruct H as [Hc Hr]. rewrite Hc. apply IH; exact Hr.
Qed.

(* ------------------------------------------------------------------ well-formed trees *)
Section PexprInd.
  Variable P : pexpr -> Prop.
  Hypothesis HLit : forall t v, P (PLit t v).
  Hypothesis HPV : forall id, P (PPortVal id).
  Hypothesis HSV : P PSelfVal.
  Hypothesis HPR : forall id, P (PPortRef id).
  Hypothesis HSR : P PSelfRef.
  Hypothesis HCall : forall f args, Forall P args -> P (PCall f args).
  Fixpoint pexpr_ind' (e : pexpr) : P e :=
    match e with
    | PLit t v => HLit t v
    | PPortVal id => HPV id
    | PSelfVal => HSV
    | PPortRef id => HPR id
    | PSelfRef => HSR
    | PCall f args =>
        HCall f args ((fix go (l : list pexpr) : Forall P l :=
                         match l with [] => Forall_nil P | x :: r => Forall_cons x (pexpr_ind' x) (go r) end) args)
    end.
End PexprInd.

Fixpoint depth (e : pexpr) : nat :=
  match e with PCall _ args => S (fold_right (fun a n => Nat.max (depth a) n) 0 args) | _ => 0 end.

Definition head_ok (t : str) : Prop :=       (* non-empty, no leading or trailing whitespace *)
  match t with c :: _ => is_space c = false | [] => False end /\ rstrip t = t.

Section WithTable.
  Variable table : list func_info.
  Variable history_enabled : bool.

  Definition arity_ok (fi : func_info) (n : nat) : Prop :=
    match fi_min fi with Some m => (Z.of_nat n <? m)%Z = false | None => True end
    /\ match fi_max fi with Some m => (m <? Z.of_nat n)%Z = false | None => True end.

  Inductive wf : pexpr -> Prop :=
  | wf_lit t v :
      head_ok t -> starts_port t = false -> has_paren t = false ->
      (forall pos, parse_literal t pos = POK (PLit t v)) -> wf (PLit t v)
  | wf_pv id : id <> [] -> forallb is_id_char id = true -> wf (PPortVal id)
  | wf_sv : wf PSelfVal
  | wf_pr id : id <> [] -> forallb is_id_char id = true -> wf (PPortRef id)
  | wf_sr : wf PSelfRef
  | wf_call f args fi :
      forallb is_name_char f = true ->
      find_func (str_of f) table = Some fi -> fi_enabled fi || history_enabled = true ->
      arity_ok fi (List.length args) ->
      (forall poss, List.length poss = List.length args -> check_kinds fi args poss 0 = None) ->
      Forall wf args -> Forall (fun a => bal (print a) 0 = Some 0) args ->
      wf (PCall f args).

  (* ---------------- shape of printed texts *)
  Lemma rstrip_last t c : is_space c = false -> rstrip (t ++ [c]) = t ++ [c].
  Proof. apply rstrip_keep. Qed.

  Lemma id_chars_head_ok (p : ascii) id :
    is_space p = false -> forallb is_id_char id = true -> head_ok (p :: id).
  Proof.
    intros Hp Hid. split; [exact Hp|].
    destruct (exists_last (l := p :: id) ltac:(discriminate)) as (l' & c & E). rewrite E.
    apply rstrip_keep.
    assert (Hin : In c (p :: id)) by (rewrite E; apply in_or_app; right; left; reflexivity).
    destruct Hin as [<-|Hin]; [exact Hp|].
    rewrite forallb_forall in Hid. specialize (Hid c Hin).
    revert Hid. clear. ascii_cases c; vm_compute; intros H; try discriminate H; reflexivity.
  Qed.

  Lemma print_head_ok e : wf e -> head_ok (print e).
  Proof.
    intros H. destruct H as [t v Hh _ _ _|id Hne Hid| |id Hne Hid| |f args fi Hf _ _ _ _ _ _]; cbn [print].
    - exact Hh.
    - apply id_chars_head_ok; [reflexivity|exact Hid].
    - split; reflexivity.
    - apply id_chars_head_ok; [reflexivity|exact Hid].
    - split; reflexivity.
    - split.
      + destruct f as [|c r]; cbn [app]; [reflexivity|].
        cbn [forallb] in Hf. apply andb_true_iff in Hf. destruct Hf as [Hc _].
        apply (name_char_plain c Hc).
      + change (f ++ c_lpar :: join [c_comma; c_space] (map print args) ++ [c_rpar])
          with (f ++ (c_lpar :: join [c_comma; c_space] (map print args)) ++ [c_rpar]).
        rewrite app_assoc. apply rstrip_keep. reflexivity.
  Qed.

  (* ---------------- scanning the arguments of a printed call *)
  Definition argok (a : pexpr) : Prop := bal (print a) 0 = Some 0 /\ head_ok (print a).

  Definition raw_of (r : str * nat) (a : pexpr) : Prop :=
    exists pad, forallb is_space pad = true /\ fst r = pad ++ print a.

  Lemma not_blank pad t : (match t with c :: _ => is_space c = false | [] => False end) -> is_blank (pad ++ t) = false.
  Proof.
    intros H. unfold is_blank. induction pad as [|c r IH]; cbn [app forallb].
    - destruct t as [|c r]; [contradiction|]. cbn [forallb]. rewrite H. reflexivity.
    - rewrite IH. apply andb_false_r.
  Qed.

  Lemma join_cons2 sep (x y : str) r : join sep (x :: y :: r) = x ++ sep ++ join sep (y :: r).
  Proof. reflexivity. Qed.

  Lemma scan_args s pos ps : forall args pre pad st,
    args <> [] ->
    s = pre ++ pad ++ join [c_comma; c_space] (map print args) ++ [c_rpar] ->
    p_start st = Some ps -> ps < List.length pre -> p_end st = None -> level st = 1 -> arg_from st = List.length pre ->
    forallb is_space pad = true -> Forall argok args ->
    exists st' raws last,
      scan s pos (pad ++ join [c_comma; c_space] (map print args) ++ [c_rpar]) (List.length pre) st = inl st'
      /\ p_start st' = Some ps /\ p_end st' = Some (List.length s - 1) /\ level st' = 0
      /\ sargs st' = raws ++ sargs st
      /\ slice s (arg_from st') (List.length s - 1) = last
      /\ Forall2 raw_of (rev ((last, arg_from st') :: raws)) args.
  Proof.
    induction args as [|a rest IH]; intros pre pad st Hne Hs Hps Hlt Hpe Hlv Hfrom Hpad Hok; [contradiction|].
    pose proof (Forall_inv Hok) as [Hbal Hhead]. pose proof (Forall_inv_tail Hok) as Hok'.
    assert (Hseg : bal (pad ++ print a) 0 = Some 0).
    { rewrite (bal_app pad (print a) 0 0); [exact Hbal|]. apply bal_plain.
      rewrite forallb_forall in *. intros c Hc. rewrite (space_plain c (Hpad c Hc)). reflexivity. }
    destruct rest as [|b rest'].
    - (* last argument *)
      cbn [map join] in *.
      set (seg := pad ++ print a) in *.
      assert (Hs' : s = pre ++ seg ++ [c_rpar]) by (rewrite Hs; subst seg; rewrite <- app_assoc; reflexivity).
      replace (pad ++ print a ++ [c_rpar]) with (seg ++ [c_rpar]) by (subst seg; rewrite <- app_assoc; reflexivity).
      rewrite (scan_closed s pos seg [c_rpar] (List.length pre) st ps 1 0 0 Hseg Hps (le_n 1)) by (rewrite Hlv; reflexivity).
      change (1 + 0) with 1. rewrite <- Hlv, with_level_id.
      cbn [scan]. unfold scan_step.
      change (aeqb c_rpar c_lpar) with false. change (aeqb c_rpar c_rpar) with true. cbv iota.
      rewrite Hlv, Hpe.
      assert (Hlen : List.length pre + List.length seg = List.length s - 1).
      { rewrite Hs'. rewrite !app_length. cbn [List.length]. lia. }
      eexists _, [], seg. split; [reflexivity|].
      cbn [p_start p_end level sargs app].
      split; [exact Hps|]. split; [rewrite Hlen; reflexivity|]. split; [reflexivity|]. split; [reflexivity|].
      assert (Hfrom' : arg_from {| p_start := p_start st; p_end := Some (List.length pre + List.length seg);
                                   p_last_comma := p_last_comma st; level := 0; sargs := sargs st |} = List.length pre).
      { rewrite <- Hfrom. unfold arg_from. cbn [p_last_comma p_start]. reflexivity. }
      rewrite Hfrom'. split.
      + rewrite <- Hlen, Hs'. apply slice_app.
      + cbn [rev app]. constructor; [|constructor]. exists pad. split; [exact Hpad|reflexivity].
    - (* an argument followed by ", " and more arguments *)
      cbn [map] in *. rewrite join_cons2 in Hs |- *.
      set (more := join [c_comma; c_space] (print b :: map print rest')) in *.
      set (seg := pad ++ print a) in *.
      assert (Hs' : s = pre ++ seg ++ c_comma :: c_space :: more ++ [c_rpar]).
      { rewrite Hs. subst seg. rewrite <- !app_assoc. reflexivity. }
      replace (pad ++ (print a ++ [c_comma; c_space] ++ more) ++ [c_rpar])
        with (seg ++ c_comma :: c_space :: more ++ [c_rpar]) by (subst seg; rewrite <- !app_assoc; reflexivity).
      rewrite (scan_closed s pos seg _ (List.length pre) st ps 1 0 0 Hseg Hps (le_n 1)) by (rewrite Hlv; reflexivity).
      change (1 + 0) with 1. rewrite <- Hlv, with_level_id.
      cbn [scan]. unfold scan_step at 1.
      change (aeqb c_comma c_lpar) with false. change (aeqb c_comma c_rpar) with false. change (aeqb c_comma c_comma) with true.
      cbv iota. rewrite Hlv. change (1 =? 1) with true. cbn [andb]. cbv iota.
      set (ic := List.length pre + List.length seg).
      assert (Hslice : slice s (arg_from st) ic = seg).
      { rewrite Hfrom. subst ic. rewrite Hs'. apply slice_app. }
      rewrite Hslice.
      assert (Hnb : is_blank seg = false) by (subst seg; apply not_blank; apply Hhead).
      rewrite Hnb.
      set (st2 := {| p_start := p_start st; p_end := p_end st; p_last_comma := Some ic; level := 1;
                     sargs := (seg, arg_from st) :: sargs st |}).
      assert (Hic : exists n, ic = S n) by (exists (ic - 1); subst ic; lia).
      destruct Hic as [n Hn].
      assert (Hfrom2 : arg_from st2 = S ic) by (unfold arg_from; subst st2; cbn [p_last_comma]; rewrite Hn; reflexivity).
      specialize (IH (pre ++ seg ++ [c_comma]) [c_space] st2 ltac:(discriminate)).
      assert (Hlen2 : List.length (pre ++ seg ++ [c_comma]) = S ic).
      { rewrite !app_length. cbn [List.length]. subst ic. lia. }
      rewrite Hlen2 in IH.
      destruct IH as (st' & raws & last & Hscan & Hps' & Hpe' & Hlv' & Hsargs & Hlast & Hraw).
      + rewrite Hs'. rewrite <- !app_assoc. reflexivity.
      + exact Hps.
      + lia.
      + exact Hpe.
      + reflexivity.
      + exact Hfrom2.
      + reflexivity.
      + exact Hok'.
      + exists st', (raws ++ [(seg, arg_from st)]), last.
        split; [exact Hscan|]. split; [exact Hps'|]. split; [exact Hpe'|]. split; [exact Hlv'|].
        split; [rewrite Hsargs; subst st2; cbn [sargs]; rewrite <- app_assoc; reflexivity|].
        split; [exact Hlast|].
        cbn [rev] in *. rewrite rev_app_distr. cbn [rev app].
        constructor; [exists pad; split; [exact Hpad|reflexivity]|exact Hraw].
  Qed.

  Lemma head_weak (t : str) :
    (match t with c :: _ => is_space c = false | [] => False end) ->
    (match t with c :: _ => is_space c = false | [] => True end).
  Proof. destruct t; [contradiction|trivial]. Qed.

  (* ---------------- the arguments parse back, given that each one does *)
  Lemma parse_args_ok (p : str -> nat -> pres) pos : forall sargl args,
    Forall2 (fun (r : str * nat) a => forall q, p (fst r) q = POK a) sargl args ->
    parse_args_with p pos sargl = inl args.
  Proof.
    induction 1 as [|[sa sp] a l l' Hr Hl IH]; cbn [parse_args_with]; [reflexivity|].
    cbn [fst] in Hr. rewrite Hr, IH. reflexivity.
  Qed.

  Lemma strip_name f : forallb is_name_char f = true -> strip f = f.
  Proof.
    intros H. unfold strip.
    destruct f as [|c r]; [reflexivity|].
    assert (Hc : is_space c = false).
    { cbn [forallb] in H. apply andb_true_iff in H. apply (name_char_plain c (proj1 H)). }
    cbn [lstrip]. rewrite Hc. cbn [fst].
    destruct (exists_last (l := c :: r) ltac:(discriminate)) as (l' & z & E). rewrite E.
    apply rstrip_keep.
    assert (Hin : In z (c :: r)) by (rewrite E; apply in_or_app; right; left; reflexivity).
    rewrite forallb_forall in H. apply (name_char_plain z (H z Hin)).
  Qed.

  Lemma has_paren_app_l a b : has_paren (a ++ c_lpar :: b) = true.
  Proof.
    unfold has_paren. apply existsb_exists. exists c_lpar. split; [apply in_or_app; right; left; reflexivity|reflexivity].
  Qed.

  Lemma depth_arg f args a : In a args -> depth a < depth (PCall f args).
  Proof.
    intros Hin. cbn [depth]. apply Nat.lt_succ_r.
    induction args as [|x r IH]; [destruct Hin|]. cbn [fold_right].
    destruct Hin as [<-|Hin]; [apply Nat.le_max_l|]. etransitivity; [apply IH; exact Hin|apply Nat.le_max_r].
  Qed.

  Lemma length_Forall2 {A B} (R : A -> B -> Prop) l l' : Forall2 R l l' -> List.length l = List.length l'.
  Proof. induction 1; cbn [List.length]; congruence. Qed.

  (* ---------------- the canonical text of a well-formed tree parses back to that tree *)
  Theorem parse_print : forall e, wf e -> forall fuel pos pad,
    depth e < fuel -> forallb is_space pad = true ->
    parse_fuel table history_enabled fuel tt (pad ++ print e) pos = POK e.
  Proof.
    induction e as [t v|id| |id| |f args IH] using pexpr_ind'; intros Hwf fuel pos pad Hfuel Hpad;
      (destruct fuel as [|fuel']; [inversion Hfuel|]);
      pose proof (print_head_ok _ Hwf) as [Hh Hr];
      cbn [parse_fuel];
      match goal with |- context [lstrip (pad ++ ?t)] => rewrite (lstrip_spaces pad t Hpad (head_weak t Hh)) end;
      cbn [fst snd]; rewrite Hr.
    - (* literal *)
      inversion Hwf as [? ? _ Hsp Hpar Hlit| | | | |]; subst. cbn [print] in *. rewrite Hsp, Hpar. apply Hlit.
    - (* $id *)
      inversion Hwf as [|? Hne Hid| | | |]; subst. cbn [print]. unfold starts_port, parse_port.
      change (aeqb c_dollar c_dollar) with true. cbn [orb]. cbv iota.
      destruct id as [|c r]; [contradiction|]. rewrite (first_bad_none _ _ 0 Hid). reflexivity.
    - reflexivity.
    - inversion Hwf as [| | |? Hne Hid| |]; subst. cbn [print]. unfold starts_port, parse_port.
      change (aeqb c_at c_dollar) with false. change (aeqb c_at c_at) with true. cbn [orb]. cbv iota.
      destruct id as [|c r]; [contradiction|]. rewrite (first_bad_none _ _ 0 Hid). reflexivity.
    - reflexivity.
    - (* call *)
      inversion Hwf as [| | | | |? ? fi Hname Hfind Hen Har Hkinds Hargs Hbal]; subst.
      cbn [print] in *.
      set (body := join [c_comma; c_space] (map print args)) in *.
      set (s := f ++ c_lpar :: body ++ [c_rpar]) in *.
      assert (Hsp : starts_port s = false).
      { subst s. destruct f as [|c r]; [reflexivity|]. cbn [app starts_port].
        cbn [forallb] in Hname. apply andb_true_iff in Hname.
        destruct (name_char_plain c (proj1 Hname)) as (_ & _ & -> & ->). reflexivity. }
      rewrite Hsp. unfold s at 1. rewrite has_paren_app_l.
      set (p := pos + List.length pad).
      set (ps := List.length f).
      (* the scan *)
      assert (Hscan : exists st,
        scan s p s 0 st0 = inl st /\ p_start st = Some ps /\ level st = 0 /\
        exists pe, p_end st = Some pe /\ ps <= pe /\
        exists sargl,
          (if 1 <? pe - ps
           then (if is_blank (slice s (arg_from st) pe) then inr (EUnexpectedChar c_rpar (p + arg_from st + List.length (slice s (arg_from st) pe)))
                 else inl ((slice s (arg_from st) pe, arg_from st) :: sargs st))
           else inl (sargs st)) = inl (B := perr) (rev sargl) /\ Forall2 raw_of sargl args).
      { unfold s at 2. rewrite (scan_name s p f _ 0 Hname). cbn [Nat.add]. fold ps.
        cbn [scan]. unfold scan_step at 1. change (aeqb c_lpar c_lpar) with true. cbv iota. cbn [p_start st0].
        set (st1 := {| p_start := Some ps; p_end := p_end st0; p_last_comma := p_last_comma st0; level := S (level st0); sargs := sargs st0 |}).
        destruct args as [|a0 args0].
        - (* no arguments: NAME() *)
          subst body. cbn [map join app scan]. unfold scan_step. change (aeqb c_rpar c_lpar) with false.
          change (aeqb c_rpar c_rpar) with true. cbv iota. cbn [level st1 st0 p_end].
          eexists. split; [reflexivity|]. cbn [p_start p_end level sargs arg_from p_last_comma].
          split; [reflexivity|]. split; [reflexivity|]. exists (S ps). split; [reflexivity|]. split; [lia|].
          exists []. replace (S ps - ps) with 1 by lia. cbn [Nat.ltb Nat.leb rev]. split; [reflexivity|constructor].
        - (* at least one argument *)
          assert (Hargok : Forall argok (a0 :: args0)).
          { rewrite Forall_forall in *. intros a Ha. split; [apply Hbal; exact Ha|apply print_head_ok; apply Hargs; exact Ha]. }
          destruct (scan_args s p ps (a0 :: args0) (f ++ [c_lpar]) [] st1) as (st' & raws & last & Hsc & Hps' & Hpe' & Hlv' & Hsa & Hlast & Hraw).
          + discriminate.
          + subst s body. rewrite <- app_assoc. reflexivity.
          + reflexivity.
          + rewrite app_length. cbn [List.length]. subst ps. lia.
          + reflexivity.
          + reflexivity.
          + unfold arg_from. cbn [p_last_comma st1 st0 p_start]. rewrite app_length. cbn [List.length]. subst ps. lia.
          + reflexivity.
          + exact Hargok.
          + cbn [app] in Hsc. rewrite app_length in Hsc. cbn [List.length] in Hsc.
            replace (List.length f + 1) with (S ps) in Hsc by (subst ps; lia).
            exists st'. split; [exact Hsc|]. split; [exact Hps'|]. split; [exact Hlv'|].
            exists (List.length s - 1). split; [exact Hpe'|].
            assert (Hbody : body <> []).
            { subst body. cbn [map]. pose proof (Forall_inv Hargok) as [_ [Hh0 _]].
              destruct (print a0) as [|c0 r0] eqn:Ep; [contradiction|].
              destruct (map print args0); cbn [join app]; discriminate. }
            assert (Hls : List.length s = ps + 1 + List.length body + 1).
            { subst s. rewrite !app_length. cbn [List.length]. rewrite app_length. cbn [List.length]. subst ps. lia. }
            assert (Hbl : 1 <= List.length body) by (destruct body; [contradiction|cbn [List.length]; lia]).
            split; [lia|].
            exists (rev ((last, arg_from st') :: raws)).
            replace (1 <? List.length s - 1 - ps) with true by (symmetry; apply Nat.ltb_lt; lia).
            rewrite Hlast.
            assert (Hnb : is_blank last = false).
            {
              assert (Hlastraw : exists a, raw_of (last, arg_from st') a /\ In a (a0 :: args0)).
              { clear -Hraw. cbn [rev] in Hraw.
                apply Forall2_app_inv_l in Hraw. destruct Hraw as (l1 & l2 & _ & H2 & E).
                inversion H2 as [|? a ? ? Hr Hnil]; subst. inversion Hnil; subst.
                exists a. split; [exact Hr|rewrite E; apply in_or_app; right; left; reflexivity]. }
              destruct Hlastraw as (a & (pd & Hpd & Epd) & Hin). cbn [fst] in Epd. rewrite Epd.
              apply not_blank. rewrite Forall_forall in Hargok. apply (Hargok a Hin). }
            rewrite Hnb. rewrite Hsa. cbn [sargs st1 st0]. rewrite app_nil_r, rev_involutive.
            split; [reflexivity|exact Hraw]. }
      destruct Hscan as (st & Hsc & Hps & Hlv & pe & Hpe & Hle & sargl & Hlastargs & Hraws).
      rewrite Hsc. unfold finish_call. rewrite Hps, Hpe, Hlv.
      replace (pe <? ps) with false by (symmetry; apply Nat.ltb_ge; exact Hle). cbn [orb negb Nat.eqb].
      rewrite Hlastargs. rewrite rev_involutive.
      assert (Hfirstn : firstn ps s = f).
      { subst s ps. rewrite firstn_app, firstn_all, Nat.sub_diag. cbn [firstn]. apply app_nil_r. }
      rewrite Hfirstn, (strip_name f Hname), (first_bad_none _ _ 0 Hname), Hfind, Hen. cbn [negb].
      pose proof (length_Forall2 _ _ _ Hraws) as Hlen. rewrite Hlen.
      destruct Har as [Hmin Hmax].
      replace (match fi_min fi with Some m => (Z.of_nat (List.length args) <? m)%Z | None => false end) with false
        by (destruct (fi_min fi); [symmetry; exact Hmin|reflexivity]).
      replace (match fi_max fi with Some m => (m <? Z.of_nat (List.length args))%Z | None => false end) with false
        by (destruct (fi_max fi); [symmetry; exact Hmax|reflexivity]).
      rewrite (parse_args_ok _ p sargl args).
      + rewrite Hkinds; [reflexivity|]. rewrite map_length. exact Hlen.
      + (* each raw argument text parses to its argument, by induction *)
        clear -Hraws IH Hargs Hfuel.
        assert (Hd : forall a, In a args -> depth a < fuel').
        { intros a Ha. pose proof (depth_arg f args a Ha). lia. }
        clear Hfuel. induction Hraws as [|r a l l' (pd & Hpd & Epd) Hl IHl]; constructor.
        * intros q. rewrite Epd. apply (Forall_inv IH); [apply (Forall_inv Hargs)|apply Hd; left; reflexivity|exact Hpd].
        * apply IHl; [apply (Forall_inv_tail IH)|apply (Forall_inv_tail Hargs)|intros x Hx; apply Hd; right; exact Hx].
  Qed.

  Lemma depth_lt_length e : wf e -> depth e < S (List.length (print e)).
  Proof.
    induction e as [t v|id| |id| |f args IH] using pexpr_ind'; intros Hwf; cbn [depth]; try lia.
    inversion Hwf as [| | | | |? ? fi _ _ _ _ _ Hargs _]; subst. cbn [print].
    apply -> Nat.succ_lt_mono. rewrite app_length. cbn [List.length]. rewrite app_length. cbn [List.length].
    assert (H : fold_right (fun a n => Nat.max (depth a) n) 0 args <= List.length (join [c_comma; c_space] (map print args))).
    { clear -IH Hargs. induction args as [|a r IHr]; cbn [fold_right map]; [lia|].
      pose proof (Forall_inv IH (Forall_inv Hargs)) as Ha.
      specialize (IHr (Forall_inv_tail IH) (Forall_inv_tail Hargs)).
      destruct (map print r) as [|y ys] eqn:E.
      - cbn [join] in *. destruct r; [|discriminate]. cbn [fold_right] in *. lia.
      - rewrite join_cons2. rewrite !app_length. cbn [List.length]. lia. }
    lia.
  Qed.

  (* printing is a parse fixpoint *)
  Theorem wf_print_parse e : wf e -> parse table history_enabled (print e) = POK e.
  Proof.
    intros Hwf. unfold parse. apply (parse_print e Hwf _ 1 []); [apply depth_lt_length; exact Hwf|reflexivity].
  Qed.
End WithTable.
