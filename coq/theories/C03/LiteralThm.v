(* C03 — what the literal recognisers accept never contains a parenthesis or a comma (needed to show that a literal
   argument cannot be split by the call scan). *)
From QT Require Import C03.Parser C03.ParserThm.
From Coq Require Import Lia.
Open Scope nat_scope.

(* characters that can occur in an int()/float() literal *)
Definition lit_char (c : ascii) : bool :=
  is_digit c || is_alpha c || (code c =? 43) || (code c =? 45) || (code c =? 95) || (code c =? 46).

Lemma lit_char_plain c : lit_char c = true -> special c = false.
Proof. ascii_cases c; vm_compute; intros H; try discriminate H; reflexivity. Qed.

Lemma digit_lit c : is_digit c = true -> lit_char c = true.
Proof. intros H. unfold lit_char. rewrite H. reflexivity. Qed.

Lemma code_lit c n : (code c =? n) = true -> In n [43; 45; 95; 46; 101; 69] -> lit_char c = true.
Proof.
  intros H Hin. apply Nat.eqb_eq in H. cbn [In] in Hin.
  assert (E : c = ch n) by (rewrite <- H; unfold ch, code; symmetry; apply ascii_nat_embedding).
  subst c. repeat (destruct Hin as [<-|Hin]; [reflexivity|]). contradiction.
Qed.

Lemma digitpart_more_consumes : forall k s acc n v n' rest,
  List.length s <= k -> digitpart_more s acc n = (v, n', rest) ->
  exists pre, s = pre ++ rest /\ forallb lit_char pre = true.
Proof.
  induction k as [|k IH]; intros s acc n v n' rest Hk H.
  - destruct s; [|cbn in Hk; lia]. cbn in H. injection H as _ _ <-. exists []. split; reflexivity.
  - destruct s as [|c r]; [cbn in H; injection H as _ _ <-; exists []; split; reflexivity|].
    cbn [digitpart_more] in H. cbn [List.length] in Hk.
    destruct (is_digit c) eqn:Ed.
    { destruct (IH r _ _ _ _ _ ltac:(lia) H) as (pre & -> & Hp). exists (c :: pre). split; [reflexivity|].
      cbn [forallb]. rewrite (digit_lit c Ed), Hp. reflexivity. }
    destruct (code c =? 95) eqn:Eu.
    { destruct r as [|d r'].
      - injection H as _ _ <-. exists []. split; reflexivity.
      - destruct (is_digit d) eqn:Ed2.
        + cbn [List.length] in Hk. destruct (IH r' _ _ _ _ _ ltac:(lia) H) as (pre & -> & Hp).
          exists (c :: d :: pre). split; [reflexivity|]. cbn [forallb].
          rewrite (code_lit c 95 Eu), (digit_lit d Ed2), Hp by (cbn; tauto). reflexivity.
        + injection H as _ _ <-. exists []. split; reflexivity. }
    injection H as _ _ <-. exists []. split; reflexivity.
Qed.

Lemma digitpart_consumes s v n rest :
  digitpart s = Some (v, n, rest) -> exists pre, s = pre ++ rest /\ forallb lit_char pre = true.
Proof.
  unfold digitpart. destruct s as [|c r]; [discriminate|]. destruct (is_digit c) eqn:Ed; [|discriminate].
  intros H. injection H as H.
  destruct (digitpart_more_consumes (List.length r) r _ _ _ _ _ (le_n _) H) as (pre & -> & Hp).
  exists (c :: pre). split; [reflexivity|]. cbn [forallb]. rewrite (digit_lit c Ed), Hp. reflexivity.
Qed.

Lemma take_sign_consumes s b r :
  take_sign s = (b, r) -> exists pre, s = pre ++ r /\ forallb lit_char pre = true.
Proof.
  unfold take_sign. destruct s as [|c s']; [intros H; injection H as _ <-; exists []; split; reflexivity|].
  destruct (code c =? 45) eqn:E1.
  { intros H. injection H as _ <-. exists [c]. split; [reflexivity|]. cbn [forallb]. rewrite (code_lit c 45 E1) by (cbn; tauto). reflexivity. }
  destruct (code c =? 43) eqn:E2.
  { intros H. injection H as _ <-. exists [c]. split; [reflexivity|]. cbn [forallb]. rewrite (code_lit c 43 E2) by (cbn; tauto). reflexivity. }
  intros H. injection H as _ <-. exists []. split; reflexivity.
Qed.

Lemma forallb_app' {A} (p : A -> bool) a b : forallb p a = true -> forallb p b = true -> forallb p (a ++ b) = true.
Proof. intros Ha Hb. rewrite forallb_app, Ha, Hb. reflexivity. Qed.

Lemma parse_int_text_chars t z : parse_int_text t = Some z -> forallb lit_char t = true.
Proof.
  unfold parse_int_text. destruct (take_sign t) as [neg r] eqn:Es.
  destruct (take_sign_consumes _ _ _ Es) as (pre & -> & Hp).
  destruct (digitpart r) as [[[v n] rest]|] eqn:Ed; [|discriminate].
  destruct rest; [|discriminate]. intros _.
  destruct (digitpart_consumes _ _ _ _ Ed) as (pre2 & -> & Hp2). rewrite app_nil_r. apply forallb_app'; assumption.
Qed.

Lemma lower_alpha c : is_alpha (lower c) = true -> is_alpha c = true.
Proof. ascii_cases c; vm_compute; intros H; try discriminate H; reflexivity. Qed.

Lemma word_chars r (w : string) :
  forallb is_alpha (list_ascii_of_string w) = true -> word_eqb r w = true -> forallb lit_char r = true.
Proof.
  unfold word_eqb. generalize (list_ascii_of_string w) as l. clear w.
  induction r as [|c r IH]; intros l Hl H; [reflexivity|].
  destruct l as [|x l]; [discriminate|]. cbn [map str_eqb forallb] in *.
  apply andb_true_iff in H. destruct H as [Hc Hr]. apply andb_true_iff in Hl. destruct Hl as [Hx Hl].
  apply aeqb_eq in Hc. rewrite <- Hc in Hx. apply lower_alpha in Hx.
  unfold lit_char at 1. rewrite Hx, orb_true_r. cbn [orb]. apply (IH l Hl Hr).
Qed.

Lemma parse_exponent_consumes s e rest :
  parse_exponent s = Some (e, rest) -> exists pre, s = pre ++ rest /\ forallb lit_char pre = true.
Proof.
  unfold parse_exponent. destruct s as [|c r]; [discriminate|].
  destruct ((code c =? 101) || (code c =? 69)) eqn:Ee; [|discriminate].
  assert (Hc : lit_char c = true).
  { apply orb_true_iff in Ee. unfold lit_char. destruct Ee as [E|E]; apply Nat.eqb_eq in E.
    - assert (c = ch 101) by (rewrite <- E; unfold ch, code; symmetry; apply ascii_nat_embedding). subst c. reflexivity.
    - assert (c = ch 69) by (rewrite <- E; unfold ch, code; symmetry; apply ascii_nat_embedding). subst c. reflexivity. }
  destruct (take_sign r) as [neg r'] eqn:Es.
  destruct (take_sign_consumes _ _ _ Es) as (pre & -> & Hp).
  destruct (digitpart r') as [[[v n] rest']|] eqn:Ed; [|discriminate].
  intros H. injection H as _ <-.
  destruct (digitpart_consumes _ _ _ _ Ed) as (pre2 & -> & Hp2).
  exists (c :: pre ++ pre2). split; [cbn [app]; rewrite <- app_assoc; reflexivity|].
  cbn [forallb]. rewrite Hc. apply forallb_app'; assumption.
Qed.

Lemma parse_float_text_chars t f : parse_float_text t = Some f -> forallb lit_char t = true.
Proof.
  unfold parse_float_text. destruct (take_sign t) as [neg r] eqn:Es.
  destruct (take_sign_consumes _ _ _ Es) as (pre & -> & Hp).
  destruct (word_eqb r "inf" || word_eqb r "infinity") eqn:Ew.
  { intros _. apply forallb_app'; [exact Hp|]. apply orb_true_iff in Ew. destruct Ew as [E|E]; eapply word_chars; try exact E; reflexivity. }
  destruct (word_eqb r "nan") eqn:En.
  { intros _. apply forallb_app'; [exact Hp|]. eapply word_chars; try exact En; reflexivity. }
  (* integer part *)
  assert (H1 : exists ip n1 r1 p1, (match digitpart r with Some x => x | None => (0%Z, 0, r) end) = (ip, n1, r1)
                                   /\ r = p1 ++ r1 /\ forallb lit_char p1 = true).
  { destruct (digitpart r) as [[[ip n1] r1]|] eqn:Ed.
    - destruct (digitpart_consumes _ _ _ _ Ed) as (p1 & E & Hp1). exists ip, n1, r1, p1. repeat split; assumption.
    - exists 0%Z, 0, r, []. repeat split. }
  destruct H1 as (ip & n1 & r1 & p1 & -> & -> & Hp1).
  (* fraction *)
  assert (H2 : exists fp n2 r2 p2,
    (match r1 with
     | c :: r1' => if code c =? 46 then match digitpart r1' with Some (v, n, rest) => (v, n, rest) | None => (0%Z, 0, r1') end
                   else (0%Z, 0, r1)
     | [] => (0%Z, 0, r1) end) = (fp, n2, r2) /\ r1 = p2 ++ r2 /\ forallb lit_char p2 = true).
  { destruct r1 as [|c r1']; [exists 0%Z, 0, [], []; repeat split|].
    destruct (code c =? 46) eqn:Ec; [|exists 0%Z, 0, (c :: r1'), []; repeat split].
    assert (Hc : lit_char c = true) by (apply (code_lit c 46 Ec); cbn; tauto).
    destruct (digitpart r1') as [[[v n] rest]|] eqn:Ed.
    - destruct (digitpart_consumes _ _ _ _ Ed) as (p2 & E & Hp2). exists v, n, rest, (c :: p2).
      split; [reflexivity|]. split; [cbn [app]; rewrite E; reflexivity|]. cbn [forallb]. rewrite Hc, Hp2. reflexivity.
    - exists 0%Z, 0, r1', [c]. split; [reflexivity|]. split; [reflexivity|]. cbn [forallb]. rewrite Hc. reflexivity. }
  destruct H2 as (fp & n2 & r2 & p2 & -> & -> & Hp2).
  destruct (n1 + n2 =? 0); [discriminate|].
  destruct r2 as [|c2 r2'].
  { intros _. rewrite app_nil_r. apply forallb_app'; [exact Hp|]. apply forallb_app'; assumption. }
  destruct (parse_exponent (c2 :: r2')) as [[e rest]|] eqn:Ee; [|discriminate].
  destruct rest; [|discriminate]. intros _.
  destruct (parse_exponent_consumes _ _ _ Ee) as (p3 & -> & Hp3). rewrite app_nil_r.
  apply forallb_app'; [exact Hp|]. apply forallb_app'; [exact Hp1|]. apply forallb_app'; assumption.
Qed.

Lemma str_eqb_eq a b : str_eqb a b = true -> a = b.
Proof.
  revert b. induction a as [|x a IH]; intros [|y b] H; cbn [str_eqb] in H; try discriminate; [reflexivity|].
  apply andb_true_iff in H. destruct H as [Hx Ha]. apply aeqb_eq in Hx. rewrite Hx, (IH b Ha). reflexivity.
Qed.

(* an accepted literal text contains no parenthesis and no comma *)
Theorem literal_plain t pos v : parse_literal t pos = POK (PLit t v) -> forallb (fun c => negb (special c)) t = true.
Proof.
  unfold parse_literal. destruct t as [|c0 r]; [discriminate|]. set (t := c0 :: r).
  assert (Hlit : forallb lit_char t = true -> forallb (fun c => negb (special c)) t = true).
  { intros H. rewrite forallb_forall in *. intros c Hc. rewrite (lit_char_plain c (H c Hc)). reflexivity. }
  destruct (str_eqb t (list_ascii_of_string "true")) eqn:E1.
  { intros _. apply str_eqb_eq in E1. rewrite E1. reflexivity. }
  destruct (str_eqb t (list_ascii_of_string "false")) eqn:E2.
  { intros _. apply str_eqb_eq in E2. rewrite E2. reflexivity. }
  destruct (str_eqb t (list_ascii_of_string "unavailable")) eqn:E3.
  { intros _. apply str_eqb_eq in E3. rewrite E3. reflexivity. }
  destruct (parse_int_text t) as [z|] eqn:Ei.
  { intros _. apply Hlit. eapply parse_int_text_chars; exact Ei. }
  destruct (parse_float_text t) as [f|] eqn:Ef.
  { intros _. apply Hlit. eapply parse_float_text_chars; exact Ef. }
  destruct (literal_regex_end t); discriminate.
Qed.

(* the value part of an accepted literal does not depend on the position *)
Lemma literal_pos_indep t pos v : parse_literal t pos = POK (PLit t v) -> forall pos', parse_literal t pos' = POK (PLit t v).
Proof.
  unfold parse_literal. destruct t as [|c0 r]; [discriminate|]. intros H pos'.
  destruct (str_eqb _ _); [exact H|]. destruct (str_eqb _ _); [exact H|]. destruct (str_eqb _ _); [exact H|].
  destruct (parse_int_text _); [exact H|]. destruct (parse_float_text _); [exact H|].
  destruct (literal_regex_end _); discriminate.
Qed.
