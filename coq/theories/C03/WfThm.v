(* C03 — every accepted text yields a well-formed tree; with ParserThm.wf_print_parse this gives the parse/print fixpoint
   for every accepted expression. *)
From QT Require Import C03.Parser C03.ParserThm C03.LiteralThm.
From Coq Require Import Lia.
Open Scope nat_scope.

(* ------------------------------------------------------------------ strips *)
Lemma lstrip_spec s :
  exists pad, s = pad ++ fst (lstrip s) /\ forallb is_space pad = true /\ snd (lstrip s) = List.length pad
              /\ match fst (lstrip s) with c :: _ => is_space c = false | [] => True end.
Proof.
  induction s as [|c r IH]; [exists []; repeat split|].
  cbn [lstrip]. destruct (is_space c) eqn:E.
  - destruct IH as (pad & Hs & Hp & Hn & Hh). destruct (lstrip r) as [t n] eqn:El. cbn [fst snd] in *.
    exists (c :: pad). cbn [app forallb List.length]. rewrite E, Hp, <- Hs, Hn. repeat split. exact Hh.
  - exists []. cbn [fst snd app forallb List.length]. repeat split. exact E.
Qed.

Lemma rstrip_spec u :
  exists pad, u = rstrip u ++ pad /\ forallb is_space pad = true
              /\ (rstrip u = [] \/ exists l c, rstrip u = l ++ [c] /\ is_space c = false).
Proof.
  unfold rstrip. destruct (lstrip_spec (rev u)) as (pad & Hs & Hp & _ & Hh).
  exists (rev pad). split; [|split].
  - rewrite <- rev_app_distr, <- Hs, rev_involutive. reflexivity.
  - rewrite forallb_forall in *. intros x Hx. apply Hp. apply in_rev. exact Hx.
  - destruct (fst (lstrip (rev u))) as [|c v]; [left; reflexivity|right].
    exists (rev v), c. split; [reflexivity|exact Hh].
Qed.

Lemma strip_head_ok s0 : let s' := rstrip (fst (lstrip s0)) in s' <> [] -> head_ok s'.
Proof.
  cbv zeta. intros Hne. destruct (lstrip_spec s0) as (_ & _ & _ & _ & Hh).
  set (u := fst (lstrip s0)) in *. destruct (rstrip_spec u) as (pad & Hu & _ & Hlast).
  destruct Hlast as [E|(l & c & E & Hc)]; [contradiction|]. split.
  - destruct (rstrip u) as [|x r] eqn:Er; [contradiction|]. rewrite Hu in Hh. cbn [app] in Hh. exact Hh.
  - rewrite E. apply rstrip_keep. exact Hc.
Qed.

Lemma first_bad_none_inv ok s i : first_bad ok s i = None -> forallb ok s = true.
Proof.
  revert i. induction s as [|c r IH]; intros i H; cbn [first_bad forallb] in *; [reflexivity|].
  destruct (ok c); [apply (IH (S i) H)|discriminate].
Qed.

(* ------------------------------------------------------------------ printed texts are closed segments *)
Section WithTable.
  Variable table : list func_info.
  Variable history_enabled : bool.
  Notation wf := (wf table history_enabled).

  Lemma plain_forall (p : ascii -> bool) t :
    (forall c, p c = true -> special c = false) -> forallb p t = true -> forallb (fun c => negb (special c)) t = true.
  Proof. intros H Ht. rewrite forallb_forall in *. intros c Hc. rewrite (H c (Ht c Hc)). reflexivity. Qed.

  Lemma bal_join args :
    Forall (fun a => bal (print a) 0 = Some 0) args -> bal (join [c_comma; c_space] (map print args)) 1 = Some 1.
  Proof.
    induction args as [|a r IH]; intros H; [reflexivity|].
    pose proof (Forall_inv H) as Ha. specialize (IH (Forall_inv_tail H)). cbn [map].
    destruct (map print r) as [|y ys] eqn:E.
    - cbn [join]. apply (bal_shift (print a) 0 0 1 Ha).
    - rewrite join_cons2. rewrite (bal_app (print a) _ 1 1 (bal_shift (print a) 0 0 1 Ha)).
      change ([c_comma; c_space] ++ join [c_comma; c_space] (y :: ys)) with (c_comma :: c_space :: join [c_comma; c_space] (y :: ys)).
      cbn [bal]. change (aeqb c_comma c_lpar) with false. change (aeqb c_comma c_rpar) with false.
      change (aeqb c_comma c_comma) with true. change (aeqb c_space c_lpar) with false.
      change (aeqb c_space c_rpar) with false. change (aeqb c_space c_comma) with false. cbv iota.
      change (1 =? 0) with false. cbv iota. exact IH.
  Qed.

  Theorem wf_bal e : wf e -> bal (print e) 0 = Some 0.
  Proof.
    intros H. destruct H as [t v _ _ _ Hlit|id _ Hid| |id _ Hid| |f args fi Hname _ _ _ _ _ Hbal]; cbn [print].
    - apply bal_plain. apply (literal_plain t 0 v (Hlit 0)).
    - apply (bal_plain (c_dollar :: id)). cbn [forallb]. change (negb (special c_dollar)) with true.
      apply (plain_forall is_id_char); [apply id_char_plain|exact Hid].
    - reflexivity.
    - apply (bal_plain (c_at :: id)). cbn [forallb]. change (negb (special c_at)) with true.
      apply (plain_forall is_id_char); [apply id_char_plain|exact Hid].
    - reflexivity.
    - rewrite (bal_app f _ 0 0).
      + cbn [bal]. change (aeqb c_lpar c_lpar) with true. cbv iota.
        rewrite (bal_app _ [c_rpar] 1 1 (bal_join args Hbal)). reflexivity.
      + apply bal_plain. apply (plain_forall is_name_char); [intros c Hc; apply (name_char_plain c Hc)|exact Hname].
  Qed.

  (* ------------------------------------------------------------------ accepted texts give well-formed trees *)
  Lemma parse_args_with_inv (p : str -> nat -> pres) pos : forall l args,
    parse_args_with p pos l = inl args -> Forall2 (fun (r : str * nat) a => p (fst r) (pos + snd r) = POK a) l args.
  Proof.
    induction l as [|[sa sp] r IH]; intros args H; cbn [parse_args_with] in H.
    - injection H as <-. constructor.
    - destruct (p sa (pos + sp)) as [a|e] eqn:Ea; [|discriminate].
      destruct (parse_args_with p pos r) as [ar|e] eqn:Er; [|discriminate].
      injection H as <-. constructor; [exact Ea|apply IH; reflexivity].
  Qed.

  Lemma check_kinds_indep fi : forall args poss poss' i,
    List.length poss = List.length args -> List.length poss' = List.length args ->
    check_kinds fi args poss i = None -> check_kinds fi args poss' i = None.
  Proof.
    induction args as [|a r IH]; intros poss poss' i H1 H2 H.
    - destruct poss'; reflexivity.
    - destruct poss as [|p ps]; [discriminate|]. destruct poss' as [|p' ps']; [discriminate|].
      cbn [check_kinds] in *. destruct (Bool.eqb _ _); [|discriminate].
      cbn [List.length] in *. apply (IH ps ps' (S i)); [lia|lia|exact H].
  Qed.

  Lemma parse_literal_shape t pos e : parse_literal t pos = POK e -> exists v, e = PLit t v.
  Proof.
    unfold parse_literal. destruct t as [|c0 r]; [discriminate|].
    destruct (str_eqb _ _); [intros H; injection H as <-; eexists; reflexivity|].
    destruct (str_eqb _ _); [intros H; injection H as <-; eexists; reflexivity|].
    destruct (str_eqb _ _); [intros H; injection H as <-; eexists; reflexivity|].
    destruct (parse_int_text _); [intros H; injection H as <-; eexists; reflexivity|].
    destruct (parse_float_text _); [intros H; injection H as <-; eexists; reflexivity|].
    destruct (literal_regex_end _); discriminate.
  Qed.

  Theorem parse_ok_wf : forall fuel s0 pos0 e, parse_fuel table history_enabled fuel tt s0 pos0 = POK e -> wf e.
  Proof.
    induction fuel as [|fuel' IH]; intros s0 pos0 e H; [discriminate|].
    cbn [parse_fuel] in H.
    set (pos := pos0 + snd (lstrip s0)) in *. set (s := rstrip (fst (lstrip s0))) in *.
    pose proof (strip_head_ok s0) as Hhead. cbv zeta in Hhead. fold s in Hhead.
    destruct (starts_port s) eqn:Esp.
    { (* $id / @id *)
      unfold parse_port in H. destruct s as [|prefix id]; [discriminate|].
      destruct id as [|c r].
      - injection H as <-. destruct (aeqb prefix c_dollar); constructor.
      - destruct (first_bad is_id_char (c :: r) 0) as [[c' p']|] eqn:Ef; [discriminate|].
        apply first_bad_none_inv in Ef. injection H as <-.
        destruct (aeqb prefix c_dollar); constructor; (discriminate || exact Ef). }
    destruct (has_paren s) eqn:Ehp.
    { (* NAME(args) *)
      destruct (scan s pos s 0 st0) as [st|err]; [|discriminate].
      unfold finish_call in H.
      destruct (p_start st) as [ps|]; [|discriminate]. destruct (p_end st) as [pe|]; [|discriminate].
      destruct ((pe <? ps) || negb (level st =? 0)); [discriminate|].
      match type of H with context [match ?L with inr _ => _ | inl _ => _ end] => destruct L as [rsargs|err] end; [|discriminate].
      set (name := strip (firstn ps s)) in *.
      destruct (first_bad is_name_char name 0) as [[c' p']|] eqn:Ef; [discriminate|].
      apply first_bad_none_inv in Ef.
      destruct (find_func (str_of name) table) as [fi|] eqn:Efi; [|discriminate].
      destruct (fi_enabled fi || history_enabled) eqn:Een; [|discriminate]. cbn [negb] in H.
      destruct (match fi_min fi with Some m => (Z.of_nat (List.length (rev rsargs)) <? m)%Z | None => false end) eqn:Emin; [discriminate|].
      destruct (match fi_max fi with Some m => (m <? Z.of_nat (List.length (rev rsargs)))%Z | None => false end) eqn:Emax; [discriminate|].
      destruct (parse_args_with (parse_fuel table history_enabled fuel' tt) pos (rev rsargs)) as [args|err] eqn:Ea; [|discriminate].
      destruct (check_kinds fi args _ 0) as [[p' num]|] eqn:Ek; [discriminate|].
      injection H as <-.
      apply parse_args_with_inv in Ea.
      assert (Hlen : List.length (rev rsargs) = List.length args) by (apply (length_Forall2 _ _ _ Ea)).
      assert (Hwfargs : Forall wf args).
      { clear -Ea IH. induction Ea as [|r a l l' Hr Hl IHl]; constructor; [apply (IH _ _ _ Hr)|exact IHl]. }
      apply (wf_call table history_enabled name args fi).
      - exact Ef.
      - exact Efi.
      - exact Een.
      - split; rewrite <- Hlen; [destruct (fi_min fi); [exact Emin|exact I]|destruct (fi_max fi); [exact Emax|exact I]].
      - intros poss Hp. eapply check_kinds_indep; [|exact Hp|exact Ek]. rewrite map_length. exact Hlen.
      - exact Hwfargs.
      - rewrite Forall_forall in *. intros a Ha. apply wf_bal. apply Hwfargs. exact Ha. }
    (* literal *)
    destruct (parse_literal_shape _ _ _ H) as [v ->].
    assert (Hne : s <> []) by (intros E; rewrite E in H; discriminate).
    constructor; [apply Hhead; exact Hne|exact Esp|exact Ehp|apply (literal_pos_indep s pos v H)].
  Qed.

  (* ------------------------------------------------------------------ the fixpoint for every accepted text *)
  Theorem print_parse_fixpoint s e :
    parse table history_enabled s = POK e ->
    parse table history_enabled (print e) = POK e.
  Proof. intros H. apply wf_print_parse. eapply parse_ok_wf. exact H. Qed.
End WithTable.
