(* C03 — dispatch used by the generated case files. *)
From QT Require Export C03.Grammar.
From QT Require Import Gen.FuncTable Expr.Spec.
Open Scope nat_scope.

Definition s_of (l : list Z) : str := map (fun z => ch (Z.to_nat z)) l.

Fixpoint pexpr_eqb (a b : pexpr) {struct a} : bool :=
  match a, b with
  | PLit t v, PLit t' v' => str_eqb t t' && option_eqb pyval_eqb v v'
  | PPortVal i, PPortVal j => str_eqb i j
  | PSelfVal, PSelfVal => true
  | PPortRef i, PPortRef j => str_eqb i j
  | PSelfRef, PSelfRef => true
  | PCall f x, PCall g y =>
      str_eqb f g &&
      (fix go (l : list pexpr) (m : list pexpr) : bool :=
         match l, m with
         | [], [] => true
         | p :: l', q :: m' => pexpr_eqb p q && go l' m'
         | _, _ => false
         end) x y
  | _, _ => false
  end.

Definition perr_eqb (a b : perr) : bool :=
  match a, b with
  | EUnknownFunction n p, EUnknownFunction m q => str_eqb n m && (p =? q)
  | EInvalidNumArgs n p, EInvalidNumArgs m q => str_eqb n m && (p =? q)
  | EInvalidArgKind n p k, EInvalidArgKind m q l => str_eqb n m && (p =? q) && (k =? l)
  | EUnbalanced p, EUnbalanced q => p =? q
  | EUnexpectedEnd, EUnexpectedEnd => true
  | EUnexpectedChar c p, EUnexpectedChar d q => aeqb c d && (p =? q)
  | EEmpty, EEmpty => true
  | _, _ => false
  end.

Definition pres_eqb (a b : pres) : bool :=
  match a, b with POK x, POK y => pexpr_eqb x y | PErrR x, PErrR y => perr_eqb x y | _, _ => false end.

Section Run.
  Variable history_enabled : bool.
  Definition model (text : list Z) : pres := parse func_table history_enabled (s_of text).
  Definition is_ok (r : pres) : bool := match r with POK _ => true | _ => false end.

  (* cases: (text, what the implementation answered, str() of the accepted expression) *)
  Definition bad_model (cases : list (list Z * pres * list Z)) : list nat :=
    mismatches (fun '(t, r, printed) =>
      pres_eqb (model t) r && match model t with POK e => str_eqb (print e) (s_of printed) | _ => true end) cases 0.
  Definition bad_spec (cases : list (list Z * pres * list Z)) : list nat :=
    mismatches (fun '(t, r, _) => Bool.eqb (accepts func_table history_enabled (s_of t)) (is_ok r)) cases 0.
  (* printing is a parse fixpoint, checked on the implementation's own output through the model *)
  Definition bad_fixpoint (cases : list (list Z * pres * list Z)) : list nat :=
    mismatches (fun '(t, r, printed) =>
      match r with POK e => pres_eqb (parse func_table history_enabled (s_of printed)) (POK e) | _ => true end) cases 0.
End Run.
