(* C03 — the parser model (Parser.parse, the index-based scan) and the grammar recogniser (Grammar.derives, the accept/reject
   oracle of the harness) accept exactly the same texts: for every text, every function table, both history settings, any
   length and nesting.  Also: the recogniser's fuel is monotone and [S (length s)] always suffices. *)
From QT Require Import C03.Parser C03.Grammar C03.ParserThm C03.LiteralThm C03.WfThm.
From Coq Require Import Lia.
Open Scope nat_scope.

(* ------------------------------------------------------------------ small list facts *)
Lemma firstn_app_len {A} (a b : list A) : firstn (List.length a) (a ++ b) = a.
Proof. rewrite firstn_app, firstn_all, Nat.sub_diag. cbn [firstn]. apply app_nil_r. Qed.

Lemma skipn_app_len {A} (a b : list A) : skipn (List.length a) (a ++ b) = b.
Proof. rewrite skipn_app, skipn_all, Nat.sub_diag. reflexivity. Qed.

Lemma skipn_app_len_S {A} (a : list A) x b : skipn (S (List.length a)) (a ++ x :: b) = b.
Proof.
  replace (a ++ x :: b) with ((a ++ [x]) ++ b) by (rewrite <- app_assoc; reflexivity).
  replace (S (List.length a)) with (List.length (a ++ [x])) by (rewrite app_length; cbn [List.length]; lia).
  apply skipn_app_len.
Qed.

Lemma forallb_rev {A} (p : A -> bool) l : forallb p l = true -> forallb p (rev l) = true.
Proof. rewrite !forallb_forall. intros H x Hx. apply H. apply in_rev. exact Hx. Qed.

Lemma forallb_app_inv {A} (p : A -> bool) a b : forallb p (a ++ b) = true -> forallb p a = true /\ forallb p b = true.
Proof. rewrite forallb_app. apply andb_true_iff. Qed.

Lemma eqb_sym_true a b : Bool.eqb a b = true -> Bool.eqb b a = true.
Proof. destruct a, b; trivial. Qed.

(* ------------------------------------------------------------------ parentheses, strips *)
Definition paren (c : ascii) : bool := aeqb c c_lpar || aeqb c c_rpar.

Lemma special_paren c : special c = false -> paren c = false.
Proof. intros H. destruct (special_split c H) as (E1 & E2 & _). unfold paren. rewrite E1, E2. reflexivity. Qed.

Lemma paren_split c : paren c = false -> aeqb c c_lpar = false /\ aeqb c c_rpar = false.
Proof. unfold paren. intros H. apply orb_false_iff in H. exact H. Qed.

Lemma strip_decomp s : exists pad1 pad2, s = pad1 ++ strip s ++ pad2 /\ forallb is_space pad1 = true /\ forallb is_space pad2 = true.
Proof.
  destruct (lstrip_spec s) as (pad1 & Hs & Hp1 & _).
  destruct (rstrip_spec (fst (lstrip s))) as (pad2 & Hu & Hp2 & _).
  exists pad1, pad2. unfold strip. rewrite <- Hu. repeat split; assumption.
Qed.

Lemma strip_len s : List.length (strip s) <= List.length s.
Proof.
  destruct (strip_decomp s) as (p1 & p2 & Hs & _). apply (f_equal (@List.length _)) in Hs.
  rewrite !app_length in Hs. lia.
Qed.

Lemma blank_strip s : is_blank s = true -> strip s = [].
Proof.
  unfold is_blank. intros H.
  assert (E : fst (lstrip s) = []).
  { induction s as [|c r IH]; [reflexivity|]. cbn [forallb] in H. apply andb_true_iff in H. destruct H as [Hc Hr].
    cbn [lstrip]. rewrite Hc. specialize (IH Hr). destruct (lstrip r) as [t n]. exact IH. }
  unfold strip. rewrite E. reflexivity.
Qed.

Lemma strip_name_noparen pre : forallb is_name_char (strip pre) = true -> forallb (fun c => negb (paren c)) pre = true.
Proof.
  intros H. destruct (strip_decomp pre) as (p1 & p2 & Hs & H1 & H2). rewrite Hs.
  rewrite !forallb_app. rewrite !andb_true_iff. repeat split.
  - rewrite forallb_forall in *. intros c Hc. rewrite (special_paren c (space_plain c (H1 c Hc))). reflexivity.
  - rewrite forallb_forall in *. intros c Hc. destruct (name_char_plain c (H c Hc)) as (Hsp & _).
    rewrite (special_paren c Hsp). reflexivity.
  - rewrite forallb_forall in *. intros c Hc. rewrite (special_paren c (space_plain c (H2 c Hc))). reflexivity.
Qed.

(* a text without trailing whitespace that ends in ')' followed by whitespace only ends at that ')' *)
Lemma rstrip_tail x c r2 :
  rstrip (x ++ c :: r2) = x ++ c :: r2 -> is_space c = false -> forallb is_space r2 = true -> r2 = [].
Proof.
  intros H Hc Hr. unfold rstrip in H. rewrite rev_app_distr in H. cbn [rev] in H. rewrite <- !app_assoc in H.
  rewrite (lstrip_spaces (rev r2) ([c] ++ rev x)) in H; [|apply forallb_rev; exact Hr|exact Hc].
  cbn [fst] in H. rewrite rev_app_distr, rev_involutive in H. cbn [rev app] in H.
  apply app_inv_head in H. injection H as H. symmetry. exact H.
Qed.

(* ------------------------------------------------------------------ index_of, split_top *)
Lemma index_of_spec c : forall t i p, index_of c t i = Some p -> exists pre post, t = pre ++ c :: post /\ p = i + List.length pre.
Proof.
  induction t as [|x r IH]; intros i p H; cbn [index_of] in H; [discriminate|].
  destruct (aeqb x c) eqn:E.
  - injection H as <-. apply aeqb_eq in E. subst x. exists [], r. split; [reflexivity|cbn [List.length]; lia].
  - destruct (IH (S i) p H) as (pre & post & -> & ->). exists (x :: pre), post. split; [reflexivity|cbn [List.length]; lia].
Qed.

Lemma split_top_acc : forall r d cur acc ps, split_top r d cur acc = Some ps -> exists l, ps = rev acc ++ l.
Proof.
  induction r as [|c r IH]; intros d cur acc ps H; cbn [split_top] in H.
  - destruct (d =? 0); [|discriminate]. injection H as <-. cbn [rev]. eexists. reflexivity.
  - destruct (aeqb c c_lpar); [apply (IH _ _ _ _ H)|].
    destruct (aeqb c c_rpar); [destruct d; [discriminate|apply (IH _ _ _ _ H)]|].
    destruct (aeqb c c_comma && (d =? 0)); [|apply (IH _ _ _ _ H)].
    destruct (IH _ _ _ _ H) as (l & ->). cbn [rev]. rewrite <- app_assoc. eexists. reflexivity.
Qed.

Lemma split_top_len : forall r d cur acc ps N,
  split_top r d cur acc = Some ps -> (forall a, In a acc -> List.length a <= N) -> List.length cur + List.length r <= N ->
  forall p, In p ps -> List.length p <= N.
Proof.
  induction r as [|c r IH]; intros d cur acc ps N H Hacc Hcur p Hp; cbn [split_top] in H.
  - destruct (d =? 0); [|discriminate]. injection H as <-. cbn [rev] in Hp. apply in_app_or in Hp.
    destruct Hp as [Hp|[<-|[]]]; [apply Hacc; apply in_rev; exact Hp|rewrite rev_length; lia].
  - cbn [List.length] in Hcur.
    assert (Hnext : forall d', split_top r d' (c :: cur) acc = Some ps -> List.length p <= N).
    { intros d' H'. apply (IH d' (c :: cur) acc ps N H' Hacc); [cbn [List.length]; lia|exact Hp]. }
    destruct (aeqb c c_lpar); [apply (Hnext _ H)|].
    destruct (aeqb c c_rpar); [destruct d; [discriminate|apply (Hnext _ H)]|].
    destruct (aeqb c c_comma && (d =? 0)); [|apply (Hnext _ H)].
    apply (IH 0 [] (rev cur :: acc) ps N H); [|cbn [List.length]; lia|exact Hp].
    intros a [<-|Ha]; [rewrite rev_length; lia|apply Hacc; exact Ha].
Qed.

(* ------------------------------------------------------------------ the two definitions, cut at the same joints *)
Definition kinds_ok (fi : func_info) : list (option bool) -> nat -> bool :=
  fix ok (l : list (option bool)) (i : nat) {struct l} : bool :=
    match l with
    | [] => true
    | None :: _ => false
    | Some isref :: r => Bool.eqb isref (existsb (fun k => Z.eqb k (Z.of_nat i)) (fi_refargs fi)) && ok r (S i)
    end.

(* the grammar's view of NAME(args): the name and the argument texts *)
Definition call_shape (t : str) : option (str * list str) :=
  match index_of c_lpar t 0 with
  | None => None
  | Some p =>
      match rev (skipn (S p) t) with
      | last :: rinner =>
          if negb (aeqb last c_rpar) then None else
          match (match rev rinner with [] => Some [] | _ => split_top (rev rinner) 0 [] [] end) with
          | None => None
          | Some ps => Some (strip (firstn p t), ps)
          end
      | [] => None
      end
  end.

(* the parser's view of NAME(args) after the scan: the name and the argument texts with their positions *)
Definition fc_shape (s : str) (pos : nat) (st : scan_st) : (str * list (str * nat)) + perr :=
  match p_start st, p_end st with
  | Some ps, Some pe =>
      if (pe <? ps) || negb (level st =? 0) then inr EUnexpectedEnd
      else
        let last :=
          if 1 <? pe - ps then
            let from := arg_from st in
            let sarg := slice s from pe in
            if is_blank sarg then inr (EUnexpectedChar c_rpar (pos + from + List.length sarg))
            else inl ((sarg, from) :: sargs st)
          else inl (sargs st) in
        match last with
        | inr e => inr e
        | inl rsargs => inl (strip (firstn ps s), rev rsargs)
        end
  | _, _ => inr EUnexpectedEnd
  end.

Section WithTable.
  Variable table : list func_info.
  Variable h : bool.

  Definition call_sem (rec : str -> option bool) (name : str) (ps : list str) : option bool :=
    if negb (forallb is_name_char name) then None else
    match find_func (str_of name) table with
    | None => None
    | Some fi =>
        if negb (fi_enabled fi || h) then None else
        if match fi_min fi with Some m => (Z.of_nat (List.length ps) <? m)%Z | None => false end then None
        else if match fi_max fi with Some m => (m <? Z.of_nat (List.length ps))%Z | None => false end then None
        else if kinds_ok fi (map rec ps) 0 then Some false else None
    end.

  Definition dstep (rec : str -> option bool) (t : str) : option bool :=
    match t with
    | [] => None
    | c :: id =>
        if aeqb c c_dollar || aeqb c c_at then (if forallb is_id_char id then Some (aeqb c c_at) else None)
        else if has_paren t then
          match call_shape t with None => None | Some (name, ps) => call_sem rec name ps end
        else if is_literal t then Some false else None
    end.

  Lemma derives_S f s : derives table h (S f) s = dstep (derives table h f) (strip s).
  Proof.
    cbn [derives]. unfold dstep, call_shape, call_sem, has_paren. cbv zeta.
    destruct (strip s) as [|c id]; [reflexivity|].
    destruct (aeqb c c_dollar || aeqb c c_at); [reflexivity|].
    destruct (existsb _ (c :: id)); [|reflexivity].
    destruct (index_of c_lpar (c :: id) 0) as [p|]; [|reflexivity].
    destruct (rev (skipn (S p) (c :: id))) as [|last rinner]; [reflexivity|].
    destruct (negb (aeqb last c_rpar)); [reflexivity|].
    destruct (match rev rinner with [] => _ | _ => _ end) as [ps|]; [reflexivity|].
    destruct (forallb is_name_char _); cbn [negb]; [|reflexivity].
    destruct (find_func _ table) as [fi|]; [|reflexivity].
    destruct (negb (fi_enabled fi || h)); reflexivity.
  Qed.

  Definition fc_sem (P : str -> nat -> pres) (pos : nat) (name : str) (sargl : list (str * nat)) : pres :=
    match first_bad is_name_char name 0 with
    | Some (c, p) => PErrR (EUnexpectedChar c (p + pos))
    | None =>
        match find_func (str_of name) table with
        | None => PErrR (EUnknownFunction name pos)
        | Some fi =>
            if negb (fi_enabled fi || h) then PErrR (EUnknownFunction name pos)
            else if match fi_min fi with Some m => (Z.of_nat (List.length sargl) <? m)%Z | None => false end
            then PErrR (EInvalidNumArgs name pos)
            else if match fi_max fi with Some m => (m <? Z.of_nat (List.length sargl))%Z | None => false end
            then PErrR (EInvalidNumArgs name pos)
            else
              match parse_args_with P pos sargl with
              | inr e => PErrR e
              | inl args =>
                  match check_kinds fi args (map (fun p => pos + snd p + 1) sargl) 0 with
                  | Some (p, num) => PErrR (EInvalidArgKind name p num)
                  | None => POK (PCall name args)
                  end
              end
        end
    end.

  Lemma finish_call_eq P s pos st :
    finish_call table h P s pos st
    = match fc_shape s pos st with inr e => PErrR e | inl (name, sargl) => fc_sem P pos name sargl end.
  Proof.
    unfold finish_call, fc_shape, fc_sem. cbv zeta.
    destruct (p_start st) as [ps|]; [|reflexivity]. destruct (p_end st) as [pe|]; [|reflexivity].
    destruct ((pe <? ps) || negb (level st =? 0)); [reflexivity|].
    destruct (1 <? pe - ps); [|reflexivity].
    destruct (is_blank _); reflexivity.
  Qed.

  Lemma parse_fuel_S f s0 pos0 :
    parse_fuel table h (S f) tt s0 pos0 =
    let pos := pos0 + snd (lstrip s0) in
    let s := strip s0 in
    if starts_port s then parse_port s pos
    else if has_paren s then
      match scan s pos s 0 st0 with
      | inr e => PErrR e
      | inl st => finish_call table h (parse_fuel table h f tt) s pos st
      end
    else parse_literal s pos.
  Proof. reflexivity. Qed.
End WithTable.

(* ------------------------------------------------------------------ the scan against index_of / split_top *)
Definition st1 (p : nat) : scan_st := {| p_start := Some p; p_end := None; p_last_comma := None; level := 1; sargs := [] |}.

Lemma arg_from_eq st st2 : p_last_comma st2 = p_last_comma st -> p_start st2 = p_start st -> arg_from st2 = arg_from st.
Proof. unfold arg_from. intros -> ->. reflexivity. Qed.

Section Scan.
  Variables (s : str) (pos : nat).

  Lemma scan_pstart : forall r i st st' p, p_start st = Some p -> scan s pos r i st = inl st' -> p_start st' = Some p.
  Proof.
    induction r as [|c r IH]; intros i st st' p Hps H; cbn [scan] in H.
    - injection H as <-. exact Hps.
    - destruct (scan_step s pos st i c) as [st2|e] eqn:E; [|discriminate].
      apply (IH (S i) st2 st' p); [|exact H]. clear H IH.
      unfold scan_step in E. rewrite Hps in E.
      destruct (aeqb c c_lpar).
      { destruct (level st =? 0); [discriminate|]. injection E as <-. reflexivity. }
      destruct (aeqb c c_rpar).
      { destruct (level st) as [|[|l]]; [discriminate| |].
        - destruct (p_end st); [discriminate|]. injection E as <-. reflexivity.
        - injection E as <-. reflexivity. }
      destruct (aeqb c c_comma && (level st =? 1)).
      { destruct (is_blank _); [discriminate|]. injection E as <-. reflexivity. }
      destruct ((level st =? 0) && negb (is_space c)); [discriminate|]. injection E as <-. exact Hps.
  Qed.

  (* after the closing parenthesis only whitespace may follow *)
  Lemma scan_tail : forall r i st st' p,
    p_start st = Some p -> level st = 0 -> scan s pos r i st = inl st' -> forallb is_space r = true /\ st' = st.
  Proof.
    induction r as [|c r IH]; intros i st st' p Hps Hlv H; cbn [scan] in H.
    - injection H as <-. split; reflexivity.
    - unfold scan_step in H. rewrite Hps, Hlv in H. cbn [Nat.eqb] in H.
      destruct (aeqb c c_lpar); [discriminate|].
      destruct (aeqb c c_rpar); [discriminate|].
      rewrite andb_false_r in H. cbn [andb] in H.
      destruct (is_space c) eqn:Es; cbn [negb] in H; [|discriminate].
      destruct (IH (S i) st st' p Hps Hlv H) as [Hr ->]. cbn [forallb]. rewrite Es, Hr. split; reflexivity.
  Qed.

  (* before the opening parenthesis *)
  Lemma scan_noparen : forall pre rest i,
    forallb (fun c => negb (paren c)) pre = true -> scan s pos (pre ++ rest) i st0 = scan s pos rest (i + List.length pre) st0.
  Proof.
    induction pre as [|c r IH]; intros rest i H; cbn [app List.length scan forallb] in *.
    - rewrite Nat.add_0_r. reflexivity.
    - apply andb_true_iff in H. destruct H as [Hc Hr]. apply negb_true_iff in Hc.
      destruct (paren_split c Hc) as [E1 E2].
      unfold scan_step. rewrite E1, E2. cbn [level st0 p_start Nat.eqb]. rewrite andb_false_r.
      rewrite IH by exact Hr. f_equal. lia.
  Qed.

  Lemma scan_pre : forall r i st' ps, scan s pos r i st0 = inl st' -> p_start st' = Some ps ->
    exists pre r', r = pre ++ c_lpar :: r' /\ ps = i + List.length pre /\ index_of c_lpar r i = Some ps
                   /\ scan s pos r' (S ps) (st1 ps) = inl st'.
  Proof.
    induction r as [|c r IH]; intros i st' ps H Hps; cbn [scan] in H.
    - injection H as <-. discriminate Hps.
    - unfold scan_step in H. change (p_start st0) with (@None nat) in H. change (level st0) with 0 in H.
      destruct (aeqb c c_lpar) eqn:E1.
      + change (scan s pos r (S i) (st1 i) = inl st') in H.
        pose proof (scan_pstart r (S i) (st1 i) st' i eq_refl H) as Hp. rewrite Hps in Hp. injection Hp as ->.
        exists [], r. apply aeqb_eq in E1. subst c. cbn [app List.length index_of].
        rewrite aeqb_refl, Nat.add_0_r. repeat split. exact H.
      + destruct (aeqb c c_rpar); [discriminate|].
        cbn [Nat.eqb] in H. rewrite andb_false_r in H.
        destruct (IH (S i) st' ps H Hps) as (pre & r' & -> & Hpe & Hidx & Hsc).
        exists (c :: pre), r'. cbn [app List.length index_of]. rewrite E1.
        split; [reflexivity|]. split; [lia|]. split; [exact Hidx|exact Hsc].
  Qed.

  (* inside the call: a successful scan decomposes the rest into  r1 ')' whitespace  and has collected split_top's pieces *)
  Lemma scan_inner : forall r d cur acc st i b0 p st' pe,
    s = b0 ++ rev cur ++ r -> arg_from st = List.length b0 -> i = List.length b0 + List.length cur ->
    p_start st = Some p -> p < List.length b0 -> level st = S d -> map fst (sargs st) = acc -> p_end st = None ->
    scan s pos r i st = inl st' -> p_end st' = Some pe ->
    exists r1 r2, r = r1 ++ c_rpar :: r2 /\ forallb is_space r2 = true /\ pe = i + List.length r1 /\
      split_top r1 d cur acc = Some (rev (slice s (arg_from st') pe :: map fst (sargs st'))).
  Proof.
    induction r as [|c r IH]; intros d cur acc st i b0 p st' pe Hs Haf Hi Hps Hlt Hlv Hacc Hpe H Hpe'; cbn [scan] in H.
    - injection H as <-. rewrite Hpe in Hpe'. discriminate.
    - assert (Hs' : s = b0 ++ rev (c :: cur) ++ r) by (rewrite Hs; cbn [rev]; rewrite <- !app_assoc; reflexivity).
      assert (Hi' : S i = List.length b0 + List.length (c :: cur)) by (cbn [List.length]; lia).
      unfold scan_step in H. rewrite Hps, Hlv in H.
      destruct (aeqb c c_lpar) eqn:E1.
      { change (S d =? 0) with false in H. cbv beta iota in H.
        match type of H with scan _ _ _ _ ?X = _ => set (st2 := X) in * end.
        destruct (IH (S d) (c :: cur) acc st2 (S i) b0 p st' pe) as (r1 & r2 & -> & Hsp & Hpe2 & Hsplit);
          [exact Hs'|rewrite <- Haf; apply arg_from_eq; [reflexivity|symmetry; exact Hps]|exact Hi'|reflexivity|exact Hlt
          |reflexivity|exact Hacc|exact Hpe|exact H|exact Hpe'|].
        exists (c :: r1), r2. split; [reflexivity|]. split; [exact Hsp|]. split; [cbn [List.length]; lia|].
        cbn [split_top]. rewrite E1. exact Hsplit. }
      destruct (aeqb c c_rpar) eqn:E2.
      { destruct d as [|d'].
        - rewrite Hpe in H. cbv beta iota in H.
          match type of H with scan _ _ _ _ ?X = _ => set (st2 := X) in * end.
          destruct (scan_tail r (S i) st2 st' p eq_refl eq_refl H) as [Hsp ->].
          exists [], r. apply aeqb_eq in E2. subst c. split; [reflexivity|]. split; [exact Hsp|].
          cbn [p_end st2] in Hpe'. injection Hpe' as <-. split; [cbn [List.length]; lia|].
          cbn [split_top Nat.eqb]. f_equal. f_equal. f_equal; [|symmetry; exact Hacc].
          replace (arg_from st2) with (List.length b0)
            by (rewrite <- Haf; symmetry; apply arg_from_eq; [reflexivity|symmetry; exact Hps]).
          rewrite Hs, Hi, <- (rev_length cur). symmetry. apply slice_app.
        - cbv beta iota in H.
          match type of H with scan _ _ _ _ ?X = _ => set (st2 := X) in * end.
          destruct (IH d' (c :: cur) acc st2 (S i) b0 p st' pe) as (r1 & r2 & -> & Hsp & Hpe2 & Hsplit);
            [exact Hs'|rewrite <- Haf; apply arg_from_eq; [reflexivity|symmetry; exact Hps]|exact Hi'|reflexivity|exact Hlt
            |reflexivity|exact Hacc|exact Hpe|exact H|exact Hpe'|].
          exists (c :: r1), r2. split; [reflexivity|]. split; [exact Hsp|]. split; [cbn [List.length]; lia|].
          cbn [split_top]. rewrite E1, E2. exact Hsplit. }
      change (S d =? 1) with (d =? 0) in H.
      destruct (aeqb c c_comma && (d =? 0)) eqn:E3.
      { pose proof E3 as E3'. apply andb_true_iff in E3'. destruct E3' as [_ Ed]. apply Nat.eqb_eq in Ed. subst d.
        assert (Hsl : slice s (arg_from st) i = rev cur).
        { rewrite Haf, Hs, Hi, <- (rev_length cur). apply slice_app. }
        rewrite Hsl in H. destruct (is_blank (rev cur)); [discriminate|]. cbv beta iota in H.
        match type of H with scan _ _ _ _ ?X = _ => set (st2 := X) in * end.
        assert (Hlen : List.length (b0 ++ rev cur ++ [c]) = S i).
        { rewrite !app_length, rev_length. cbn [List.length]. lia. }
        destruct (IH 0 [] (rev cur :: acc) st2 (S i) (b0 ++ rev cur ++ [c]) p st' pe) as (r1 & r2 & -> & Hsp & Hpe2 & Hsplit).
        - rewrite Hs. cbn [rev app]. rewrite <- !app_assoc. reflexivity.
        - rewrite Hlen. unfold arg_from, st2. cbn [p_last_comma]. destruct i as [|n]; [lia|reflexivity].
        - rewrite Hlen. cbn [List.length]. lia.
        - reflexivity.
        - rewrite Hlen. lia.
        - reflexivity.
        - unfold st2. cbn [sargs map fst]. rewrite Hacc. reflexivity.
        - exact Hpe.
        - exact H.
        - exact Hpe'.
        - exists (c :: r1), r2. split; [reflexivity|]. split; [exact Hsp|]. split; [cbn [List.length]; lia|].
          cbn [split_top]. rewrite E1, E2, E3. exact Hsplit. }
      change (S d =? 0) with false in H. cbn [andb] in H. cbv beta iota in H.
      destruct (IH d (c :: cur) acc st (S i) b0 p st' pe) as (r1 & r2 & -> & Hsp & Hpe2 & Hsplit);
        [exact Hs'|exact Haf|exact Hi'|exact Hps|exact Hlt|exact Hlv|exact Hacc|exact Hpe|exact H|exact Hpe'|].
      exists (c :: r1), r2. split; [reflexivity|]. split; [exact Hsp|]. split; [cbn [List.length]; lia|].
      cbn [split_top]. rewrite E1, E2, E3. exact Hsplit.
  Qed.

  (* conversely: when split_top succeeds and no piece is blank, the scan goes through and collects those pieces *)
  Lemma scan_split : forall r d cur acc st i b0 p pieces,
    s = b0 ++ rev cur ++ r ++ [c_rpar] -> arg_from st = List.length b0 -> i = List.length b0 + List.length cur ->
    p_start st = Some p -> p < List.length b0 -> level st = S d -> map fst (sargs st) = acc -> p_end st = None ->
    split_top r d cur acc = Some pieces -> Forall (fun x => is_blank x = false) pieces ->
    exists st', scan s pos (r ++ [c_rpar]) i st = inl st' /\ p_start st' = Some p /\ p_end st' = Some (i + List.length r)
                /\ level st' = 0 /\ pieces = rev (slice s (arg_from st') (i + List.length r) :: map fst (sargs st')).
  Proof.
    induction r as [|c r IH]; intros d cur acc st i b0 p pieces Hs Haf Hi Hps Hlt Hlv Hacc Hpe Hsplit Hnb;
      cbn [split_top] in Hsplit; cbn [app scan]; unfold scan_step; rewrite Hps, Hlv.
    - change (aeqb c_rpar c_lpar) with false. change (aeqb c_rpar c_rpar) with true. cbv beta iota.
      destruct d as [|d']; [|discriminate]. cbn [Nat.eqb] in Hsplit. injection Hsplit as <-.
      rewrite Hpe. eexists. split; [reflexivity|]. cbn [p_start p_end level sargs List.length]. rewrite Nat.add_0_r.
      split; [reflexivity|]. split; [reflexivity|]. split; [reflexivity|].
      cbn [rev]. rewrite Hacc. f_equal. f_equal.
      match goal with |- _ = slice s (arg_from ?X) i => replace (arg_from X) with (List.length b0)
        by (rewrite <- Haf; symmetry; apply arg_from_eq; [reflexivity|symmetry; exact Hps]) end.
      rewrite Hs, Hi, <- (rev_length cur). symmetry. apply slice_app.
    - assert (Hs' : s = b0 ++ rev (c :: cur) ++ r ++ [c_rpar]) by (rewrite Hs; cbn [rev app]; rewrite <- !app_assoc; reflexivity).
      assert (Hi' : S i = List.length b0 + List.length (c :: cur)) by (cbn [List.length]; lia).
      replace (i + List.length (c :: r)) with (S i + List.length r) by (cbn [List.length]; lia).
      destruct (aeqb c c_lpar) eqn:E1.
      { change (S d =? 0) with false. cbv beta iota.
        match goal with |- context [scan _ _ _ _ ?X] => set (st2 := X) end.
        apply (IH (S d) (c :: cur) acc st2 (S i) b0 p pieces);
          [exact Hs'|rewrite <- Haf; apply arg_from_eq; [reflexivity|symmetry; exact Hps]|exact Hi'|reflexivity|exact Hlt
          |reflexivity|exact Hacc|exact Hpe|exact Hsplit|exact Hnb]. }
      destruct (aeqb c c_rpar) eqn:E2.
      { destruct d as [|d']; [discriminate|]. cbv beta iota.
        match goal with |- context [scan _ _ _ _ ?X] => set (st2 := X) end.
        apply (IH d' (c :: cur) acc st2 (S i) b0 p pieces);
          [exact Hs'|rewrite <- Haf; apply arg_from_eq; [reflexivity|symmetry; exact Hps]|exact Hi'|reflexivity|exact Hlt
          |reflexivity|exact Hacc|exact Hpe|exact Hsplit|exact Hnb]. }
      change (S d =? 1) with (d =? 0).
      destruct (aeqb c c_comma && (d =? 0)) eqn:E3.
      { pose proof E3 as E3'. apply andb_true_iff in E3'. destruct E3' as [_ Ed]. apply Nat.eqb_eq in Ed. subst d.
        assert (Hsl : slice s (arg_from st) i = rev cur).
        { rewrite Haf, Hs, Hi, <- (rev_length cur). apply slice_app. }
        rewrite Hsl.
        assert (Hb : is_blank (rev cur) = false).
        { destruct (split_top_acc _ _ _ _ _ Hsplit) as (l & El). rewrite Forall_forall in Hnb. apply Hnb.
          rewrite El. cbn [rev]. apply in_or_app. left. apply in_or_app. right. left. reflexivity. }
        rewrite Hb. cbv beta iota.
        match goal with |- context [scan _ _ _ _ ?X] => set (st2 := X) end.
        assert (Hlen : List.length (b0 ++ rev cur ++ [c]) = S i).
        { rewrite !app_length, rev_length. cbn [List.length]. lia. }
        apply (IH 0 [] (rev cur :: acc) st2 (S i) (b0 ++ rev cur ++ [c]) p pieces).
        - rewrite Hs. cbn [rev app]. rewrite <- !app_assoc. reflexivity.
        - rewrite Hlen. unfold arg_from, st2. cbn [p_last_comma]. destruct i as [|n]; [lia|reflexivity].
        - rewrite Hlen. cbn [List.length]. lia.
        - reflexivity.
        - rewrite Hlen. lia.
        - reflexivity.
        - unfold st2. cbn [sargs map fst]. rewrite Hacc. reflexivity.
        - exact Hpe.
        - exact Hsplit.
        - exact Hnb. }
      change (S d =? 0) with false. cbn [andb]. cbv beta iota.
      apply (IH d (c :: cur) acc st (S i) b0 p pieces);
        [exact Hs'|exact Haf|exact Hi'|exact Hps|exact Hlt|exact Hlv|exact Hacc|exact Hpe|exact Hsplit|exact Hnb].
  Qed.
End Scan.

(* ------------------------------------------------------------------ shapes agree *)
Lemma shape_sound s pos st name sargl :
  rstrip s = s -> scan s pos s 0 st0 = inl st -> fc_shape s pos st = inl (name, sargl) ->
  call_shape s = Some (name, map fst sargl).
Proof.
  intros Hr Hsc Hfc. unfold fc_shape in Hfc.
  destruct (p_start st) as [ps|] eqn:Hps; [|discriminate]. destruct (p_end st) as [pe|] eqn:Hpe; [|discriminate].
  destruct ((pe <? ps) || negb (level st =? 0)); [discriminate|]. cbv zeta in Hfc.
  destruct (scan_pre s pos s 0 st ps Hsc Hps) as (pre & r' & Hs & Hpse & Hidx & Hsc'). cbn [Nat.add] in Hpse.
  destruct (scan_inner s pos r' 0 [] [] (st1 ps) (S ps) (pre ++ [c_lpar]) ps st pe) as (r1 & r2 & Hr' & Hsp & Hpe2 & Hsplit).
  { rewrite Hs. cbn [rev app]. rewrite <- app_assoc. reflexivity. }
  { rewrite app_length. cbn [List.length]. unfold arg_from, st1. cbn [p_last_comma p_start]. lia. }
  { rewrite app_length. cbn [List.length]. lia. }
  { reflexivity. }
  { rewrite app_length. cbn [List.length]. lia. }
  { reflexivity. }
  { reflexivity. }
  { reflexivity. }
  { exact Hsc'. }
  { exact Hpe. }
  assert (Hr2 : r2 = []).
  { apply (rstrip_tail (pre ++ c_lpar :: r1) c_rpar r2); [|reflexivity|exact Hsp].
    rewrite <- app_assoc. cbn [app]. rewrite <- Hr', <- Hs. exact Hr. }
  subst r2.
  unfold call_shape. rewrite Hidx.
  assert (Hskip : skipn (S ps) s = r1 ++ [c_rpar]) by (rewrite Hs, Hpse, Hr'; apply skipn_app_len_S).
  rewrite Hskip, rev_app_distr. cbn [rev app]. change (negb (aeqb c_rpar c_rpar)) with false. cbv iota.
  rewrite rev_involutive.
  destruct r1 as [|a r1'].
  - cbn [List.length] in Hpe2. replace (1 <? pe - ps) with false in Hfc by (symmetry; apply Nat.ltb_ge; lia).
    injection Hfc as <- <-.
    cbn [split_top Nat.eqb rev app] in Hsplit. injection Hsplit as Hsplit.
    assert (Hnil : map fst (sargs st) = []).
    { destruct (map fst (sargs st)) as [|x l]; [reflexivity|]. cbn [rev] in Hsplit.
      apply (f_equal (@List.length _)) in Hsplit. rewrite !app_length in Hsplit. cbn [List.length] in Hsplit. lia. }
    apply map_eq_nil in Hnil. rewrite Hnil. reflexivity.
  - cbn [List.length] in Hpe2. replace (1 <? pe - ps) with true in Hfc by (symmetry; apply Nat.ltb_lt; lia).
    destruct (is_blank _); [discriminate|]. injection Hfc as <- <-.
    rewrite Hsplit. cbn [rev]. rewrite map_app, map_rev. reflexivity.
Qed.

Lemma shape_complete s pos name ps :
  call_shape s = Some (name, ps) -> forallb is_name_char name = true -> Forall (fun x => is_blank x = false) ps ->
  exists st sargl, scan s pos s 0 st0 = inl st /\ fc_shape s pos st = inl (name, sargl) /\ map fst sargl = ps.
Proof.
  unfold call_shape. intros H Hname Hnb.
  destruct (index_of c_lpar s 0) as [p|] eqn:Hidx; [|discriminate].
  destruct (index_of_spec c_lpar s 0 p Hidx) as (pre & post & Hs & Hp). cbn [Nat.add] in Hp. subst p.
  rewrite Hs in H. rewrite skipn_app_len_S, firstn_app_len in H.
  destruct (rev post) as [|last rinner] eqn:Er; [discriminate|].
  destruct (aeqb last c_rpar) eqn:El; cbn [negb] in H; [|discriminate].
  apply aeqb_eq in El. subst last.
  assert (Hpost : post = rev rinner ++ [c_rpar]).
  { rewrite <- (rev_involutive post), Er. reflexivity. }
  set (inner := rev rinner) in *. clearbody inner. clear Er rinner. subst post.
  set (P := List.length pre) in *.
  assert (Hnp : forallb (fun c => negb (paren c)) pre = true).
  { apply strip_name_noparen. destruct (match inner with [] => _ | _ => _ end); [|discriminate].
    injection H as <- _. exact Hname. }
  assert (Hpre : scan s pos s 0 st0 = scan s pos (inner ++ [c_rpar]) (S P) (st1 P)).
  { rewrite Hs at 2. rewrite (scan_noparen s pos pre _ 0 Hnp). cbn [Nat.add scan]. reflexivity. }
  assert (Hfirst : firstn P s = pre) by (rewrite Hs; apply firstn_app_len).
  destruct inner as [|a inner'].
  - injection H as <- <-.
    exists {| p_start := Some P; p_end := Some (S P); p_last_comma := None; level := 0; sargs := [] |}, [].
    split; [rewrite Hpre; reflexivity|]. split; [|reflexivity].
    unfold fc_shape. cbn [p_start p_end level sargs].
    replace (S P <? P) with false by (symmetry; apply Nat.ltb_ge; lia).
    replace (S P - P) with 1 by lia. cbn [Nat.eqb negb orb Nat.ltb Nat.leb rev]. rewrite Hfirst. reflexivity.
  - set (inner := a :: inner') in *.
    assert (Hsplit : split_top inner 0 [] [] = Some ps).
    { destruct (split_top inner 0 [] []); [|discriminate]. injection H as _ <-. reflexivity. }
    assert (Hn : strip pre = name).
    { rewrite Hsplit in H. injection H as <-. reflexivity. }
    destruct (scan_split s pos inner 0 [] [] (st1 P) (S P) (pre ++ [c_lpar]) P ps) as (st' & Hsc & Hps' & Hpe' & Hlv' & Hpieces).
    { rewrite Hs. cbn [rev app]. rewrite <- app_assoc. reflexivity. }
    { rewrite app_length. cbn [List.length]. unfold arg_from, st1. cbn [p_last_comma p_start]. lia. }
    { rewrite app_length. cbn [List.length]. lia. }
    { reflexivity. }
    { rewrite app_length. cbn [List.length]. lia. }
    { reflexivity. }
    { reflexivity. }
    { reflexivity. }
    { exact Hsplit. }
    { exact Hnb. }
    set (pe := S P + List.length inner) in *.
    assert (Hlast : is_blank (slice s (arg_from st') pe) = false).
    { rewrite Forall_forall in Hnb. apply Hnb. rewrite Hpieces. cbn [rev]. apply in_or_app. right. left. reflexivity. }
    exists st', (rev ((slice s (arg_from st') pe, arg_from st') :: sargs st')).
    split; [rewrite Hpre; exact Hsc|]. split.
    + unfold fc_shape. rewrite Hps', Hpe', Hlv'.
      replace (pe <? P) with false by (symmetry; apply Nat.ltb_ge; lia).
      replace (1 <? pe - P) with true by (symmetry; apply Nat.ltb_lt; unfold pe, inner; cbn [List.length]; lia).
      cbn [Nat.eqb negb orb]. cbv zeta. rewrite Hlast, Hfirst, Hn. reflexivity.
    + rewrite map_rev. cbn [map fst]. symmetry. exact Hpieces.
Qed.

Lemma call_shape_len t name ps p : call_shape t = Some (name, ps) -> In p ps -> List.length p < List.length t.
Proof.
  unfold call_shape. intros H Hin.
  destruct (index_of c_lpar t 0) as [i|] eqn:Hidx; [|discriminate].
  destruct (index_of_spec c_lpar t 0 i Hidx) as (pre & post & Hs & Hp). cbn [Nat.add] in Hp. subst i.
  rewrite Hs in H. rewrite skipn_app_len_S in H.
  destruct (rev post) as [|last rinner] eqn:Er; [discriminate|].
  destruct (negb (aeqb last c_rpar)); [discriminate|].
  assert (Hpost : List.length post = S (List.length (rev rinner))).
  { rewrite <- (rev_length post), Er, rev_length. reflexivity. }
  assert (Hlen : List.length t = List.length pre + 1 + S (List.length (rev rinner))).
  { rewrite Hs, app_length. cbn [List.length]. lia. }
  destruct (rev rinner) as [|a inner'] eqn:Ei.
  - injection H as _ <-. destruct Hin.
  - destruct (split_top (a :: inner') 0 [] []) as [ps'|] eqn:Hsplit; [|discriminate]. injection H as _ <-.
    pose proof (split_top_len _ _ _ _ _ (List.length (a :: inner')) Hsplit ltac:(intros ? []) ltac:(cbn [List.length]; lia) p Hin).
    lia.
Qed.

(* ------------------------------------------------------------------ meanings agree *)
Section WithTable2.
  Variable table : list func_info.
  Variable h : bool.

  Section Args.
    Variables (P : str -> nat -> pres) (rec : str -> option bool) (pos : nat) (fi : func_info).

    Lemma args_sound : forall sargl args poss i,
      (forall p q a, P p q = POK a -> rec p = Some (is_ref a)) ->
      parse_args_with P pos sargl = inl args -> check_kinds fi args poss i = None -> List.length poss = List.length args ->
      kinds_ok fi (map rec (map fst sargl)) i = true.
    Proof.
      induction sargl as [|[sa sp] r IH]; intros args poss i Hrec Ha Hk Hl; cbn [parse_args_with] in Ha; [reflexivity|].
      destruct (P sa (pos + sp)) as [a|] eqn:Ep; [|discriminate].
      destruct (parse_args_with P pos r) as [ar|] eqn:Er; [|discriminate]. injection Ha as <-.
      destruct poss as [|q poss]; [discriminate Hl|]. cbn [check_kinds] in Hk.
      destruct (Bool.eqb _ (is_ref a)) eqn:Eb; [|discriminate].
      cbn [map fst kinds_ok]. rewrite (Hrec _ _ _ Ep). rewrite (eqb_sym_true _ _ Eb). cbn [andb].
      apply (IH ar poss (S i) Hrec eq_refl Hk). cbn [List.length] in Hl. lia.
    Qed.

    Lemma args_complete : forall sargl i,
      kinds_ok fi (map rec (map fst sargl)) i = true ->
      (forall p b, In p (map fst sargl) -> rec p = Some b -> forall q, exists a, P p q = POK a /\ is_ref a = b) ->
      exists args, parse_args_with P pos sargl = inl args /\ List.length args = List.length sargl
                   /\ forall poss, List.length poss = List.length args -> check_kinds fi args poss i = None.
    Proof.
      induction sargl as [|[sa sp] r IH]; intros i Hk Hrec.
      - exists []. split; [reflexivity|]. split; [reflexivity|]. intros poss _. reflexivity.
      - cbn [map fst kinds_ok] in Hk. destruct (rec sa) as [b|] eqn:Er; [|discriminate].
        apply andb_true_iff in Hk. destruct Hk as [Eb Hk].
        destruct (Hrec sa b (or_introl eq_refl) Er (pos + sp)) as (a & Ha & Hisref).
        destruct (IH (S i) Hk) as (args & Hargs & Hlen & Hck).
        { intros p b' Hin. apply Hrec. right. exact Hin. }
        exists (a :: args). cbn [parse_args_with]. rewrite Ha, Hargs. split; [reflexivity|].
        split; [cbn [List.length]; lia|].
        intros poss Hl. destruct poss as [|q poss]; [discriminate Hl|]. cbn [check_kinds].
        rewrite Hisref, (eqb_sym_true _ _ Eb). apply Hck. cbn [List.length] in Hl. lia.
    Qed.
  End Args.

  Lemma sem_sound P rec pos name sargl e :
    (forall p q a, P p q = POK a -> rec p = Some (is_ref a)) ->
    fc_sem table h P pos name sargl = POK e -> call_sem table h rec name (map fst sargl) = Some (is_ref e).
  Proof.
    intros Hrec H. unfold fc_sem in H. unfold call_sem.
    destruct (first_bad is_name_char name 0) as [[c p]|] eqn:Ef; [discriminate|].
    rewrite (first_bad_none_inv _ _ _ Ef). cbn [negb].
    destruct (find_func (str_of name) table) as [fi|]; [|discriminate].
    destruct (negb (fi_enabled fi || h)); [discriminate|].
    rewrite map_length.
    destruct (match fi_min fi with Some m => _ | None => false end); [discriminate|].
    destruct (match fi_max fi with Some m => _ | None => false end); [discriminate|].
    destruct (parse_args_with P pos sargl) as [args|] eqn:Ea; [|discriminate].
    destruct (check_kinds fi args _ 0) as [[p num]|] eqn:Ek; [discriminate|]. injection H as <-.
    rewrite (args_sound P rec pos fi sargl args _ 0 Hrec Ea Ek); [reflexivity|].
    rewrite map_length. apply parse_args_with_inv in Ea. apply (length_Forall2 _ _ _ Ea).
  Qed.

  Lemma sem_complete P rec pos name sargl b :
    (forall p b', In p (map fst sargl) -> rec p = Some b' -> forall q, exists a, P p q = POK a /\ is_ref a = b') ->
    call_sem table h rec name (map fst sargl) = Some b ->
    exists e, fc_sem table h P pos name sargl = POK e /\ is_ref e = b.
  Proof.
    intros Hrec H. unfold call_sem in H. unfold fc_sem.
    destruct (forallb is_name_char name) eqn:Ef; cbn [negb] in H; [|discriminate].
    rewrite (first_bad_none _ _ 0 Ef).
    destruct (find_func (str_of name) table) as [fi|]; [|discriminate].
    destruct (negb (fi_enabled fi || h)); [discriminate|].
    rewrite map_length in H.
    destruct (match fi_min fi with Some m => _ | None => false end); [discriminate|].
    destruct (match fi_max fi with Some m => _ | None => false end); [discriminate|].
    destruct (kinds_ok fi (map rec (map fst sargl)) 0) eqn:Ek; [|discriminate]. injection H as <-.
    destruct (args_complete P rec pos fi sargl 0 Ek Hrec) as (args & Ha & Hlen & Hck).
    rewrite Ha, Hck by (rewrite map_length; symmetry; exact Hlen).
    eexists. split; reflexivity.
  Qed.

  Lemma kinds_ok_ext (rec1 rec2 : str -> option bool) fi : forall ps i,
    (forall p b, In p ps -> rec1 p = Some b -> rec2 p = Some b) ->
    kinds_ok fi (map rec1 ps) i = true -> kinds_ok fi (map rec2 ps) i = true.
  Proof.
    induction ps as [|p r IH]; intros i Hrec H; [reflexivity|]. cbn [map kinds_ok] in *.
    destruct (rec1 p) as [b|] eqn:E; [|discriminate]. rewrite (Hrec p b (or_introl eq_refl) E).
    apply andb_true_iff in H. destruct H as [-> H]. cbn [andb]. apply IH; [|exact H].
    intros q b' Hin. apply Hrec. right. exact Hin.
  Qed.

  Lemma kinds_ok_all (rec : str -> option bool) fi : forall ps i,
    kinds_ok fi (map rec ps) i = true -> forall p, In p ps -> exists b, rec p = Some b.
  Proof.
    induction ps as [|x r IH]; intros i H p Hin; [destruct Hin|]. cbn [map kinds_ok] in H.
    destruct (rec x) as [b|] eqn:E; [|discriminate]. apply andb_true_iff in H. destruct H as [_ H].
    destruct Hin as [<-|Hin]; [exists b; exact E|apply (IH (S i) H p Hin)].
  Qed.

  Lemma call_sem_ext rec1 rec2 name ps b :
    (forall p b', In p ps -> rec1 p = Some b' -> rec2 p = Some b') ->
    call_sem table h rec1 name ps = Some b -> call_sem table h rec2 name ps = Some b.
  Proof.
    intros Hrec. unfold call_sem.
    destruct (negb (forallb is_name_char name)); [trivial|].
    destruct (find_func (str_of name) table) as [fi|]; [|trivial].
    destruct (negb (fi_enabled fi || h)); [trivial|].
    destruct (match fi_min fi with Some m => _ | None => false end); [trivial|].
    destruct (match fi_max fi with Some m => _ | None => false end); [trivial|].
    destruct (kinds_ok fi (map rec1 ps) 0) eqn:Ek; [|discriminate].
    rewrite (kinds_ok_ext rec1 rec2 fi ps 0 Hrec Ek). trivial.
  Qed.

  Lemma call_sem_inv rec name ps b :
    call_sem table h rec name ps = Some b ->
    forallb is_name_char name = true /\ forall p, In p ps -> exists b', rec p = Some b'.
  Proof.
    unfold call_sem. intros H.
    destruct (forallb is_name_char name); cbn [negb] in H; [|discriminate]. split; [reflexivity|].
    destruct (find_func (str_of name) table) as [fi|]; [|discriminate].
    destruct (negb (fi_enabled fi || h)); [discriminate|].
    destruct (match fi_min fi with Some m => _ | None => false end); [discriminate|].
    destruct (match fi_max fi with Some m => _ | None => false end); [discriminate|].
    destruct (kinds_ok fi (map rec ps) 0) eqn:Ek; [|discriminate].
    apply (kinds_ok_all rec fi ps 0 Ek).
  Qed.

  Lemma dstep_ext rec1 rec2 t b :
    (forall name ps p b', call_shape t = Some (name, ps) -> In p ps -> rec1 p = Some b' -> rec2 p = Some b') ->
    dstep table h rec1 t = Some b -> dstep table h rec2 t = Some b.
  Proof.
    intros Hrec. unfold dstep. destruct t as [|c id]; [trivial|].
    destruct (aeqb c c_dollar || aeqb c c_at); [trivial|].
    destruct (has_paren (c :: id)); [|trivial].
    destruct (call_shape (c :: id)) as [[name ps]|]; [|trivial].
    apply call_sem_ext. intros p b' Hin. apply (Hrec name ps p b' eq_refl Hin).
  Qed.

  (* ---------------- literals and port references *)
  Lemma port_flag c (x y : pexpr) :
    aeqb c c_dollar || aeqb c c_at = true -> is_ref x = false -> is_ref y = true ->
    is_ref (if aeqb c c_dollar then x else y) = aeqb c c_at.
  Proof.
    intros H Hx Hy. destruct (aeqb c c_dollar) eqn:E.
    - apply aeqb_eq in E. subst c. rewrite Hx. reflexivity.
    - cbn [orb] in H. rewrite H. exact Hy.
  Qed.

  Lemma parse_literal_is_literal t pos e : parse_literal t pos = POK e -> is_literal t = true /\ is_ref e = false.
  Proof.
    unfold parse_literal, is_literal. destruct t as [|c0 r]; [discriminate|].
    destruct (str_eqb _ _); [intros H; injection H as <-; split; reflexivity|].
    destruct (str_eqb _ _); [intros H; injection H as <-; split; reflexivity|].
    destruct (str_eqb _ _); [intros H; injection H as <-; split; reflexivity|].
    destruct (parse_int_text _); [intros H; injection H as <-; split; reflexivity|].
    destruct (parse_float_text _); [intros H; injection H as <-; split; reflexivity|].
    destruct (literal_regex_end _); discriminate.
  Qed.

  Lemma is_literal_parse c0 r pos :
    is_literal (c0 :: r) = true -> exists e, parse_literal (c0 :: r) pos = POK e /\ is_ref e = false.
  Proof.
    unfold parse_literal, is_literal.
    destruct (str_eqb _ _); [intros _; eexists; split; reflexivity|].
    destruct (str_eqb _ _); [intros _; eexists; split; reflexivity|].
    destruct (str_eqb _ _); [intros _; eexists; split; reflexivity|].
    destruct (parse_int_text _); [intros _; eexists; split; reflexivity|].
    destruct (parse_float_text _); [intros _; eexists; split; reflexivity|].
    cbn [orb]. discriminate.
  Qed.

  Notation derives := (derives table h).
  Notation parse_fuel := (parse_fuel table h).
  Notation parse := (parse table h).

  Lemma derives_nonblank f p b : derives f p = Some b -> is_blank p = false.
  Proof.
    destruct f as [|f]; [discriminate|]. rewrite derives_S. intros H.
    destruct (is_blank p) eqn:E; [|reflexivity]. rewrite (blank_strip p E) in H. discriminate.
  Qed.

  (* ------------------------------------------------------------------ soundness: same fuel on both sides *)
  Theorem parse_derives : forall f s0 pos0 e, parse_fuel f tt s0 pos0 = POK e -> derives f s0 = Some (is_ref e).
  Proof.
    induction f as [|f IH]; intros s0 pos0 e H; [discriminate|].
    rewrite derives_S. rewrite parse_fuel_S in H. cbv zeta in H.
    pose proof (strip_head_ok s0) as Hhead. cbv zeta in Hhead. change (rstrip (fst (lstrip s0))) with (strip s0) in Hhead.
    set (pos := pos0 + snd (lstrip s0)) in *. clearbody pos.
    destruct (strip s0) as [|c id] eqn:Es; [discriminate|].
    destruct (Hhead ltac:(discriminate)) as [_ Hr]. clear Hhead.
    unfold dstep. unfold starts_port in H.
    destruct (aeqb c c_dollar || aeqb c c_at) eqn:Ep.
    { unfold parse_port in H. destruct id as [|c1 r1].
      - injection H as <-. cbn [forallb]. f_equal. symmetry. apply port_flag; [exact Ep|reflexivity|reflexivity].
      - destruct (first_bad is_id_char (c1 :: r1) 0) as [[c' p']|] eqn:Ef; [discriminate|].
        rewrite (first_bad_none_inv _ _ _ Ef). injection H as <-. f_equal. symmetry.
        apply port_flag; [exact Ep|reflexivity|reflexivity]. }
    destruct (has_paren (c :: id)).
    { destruct (scan (c :: id) pos (c :: id) 0 st0) as [st|] eqn:Esc; [|discriminate].
      rewrite finish_call_eq in H.
      destruct (fc_shape (c :: id) pos st) as [[name sargl]|] eqn:Efc; [|discriminate].
      rewrite (shape_sound _ _ _ _ _ Hr Esc Efc).
      apply (sem_sound _ _ _ _ _ _ IH H). }
    destruct (parse_literal_is_literal _ _ _ H) as [-> ->]. reflexivity.
  Qed.

  (* ------------------------------------------------------------------ completeness: same fuel on both sides *)
  Theorem derives_parse : forall f s0 b, derives f s0 = Some b ->
    forall pos0, exists e, parse_fuel f tt s0 pos0 = POK e /\ is_ref e = b.
  Proof.
    induction f as [|f IH]; intros s0 b H pos0; [discriminate|].
    rewrite derives_S in H. rewrite parse_fuel_S. cbv zeta.
    set (pos := pos0 + snd (lstrip s0)). clearbody pos.
    destruct (strip s0) as [|c id] eqn:Es; [discriminate|].
    unfold dstep in H. unfold starts_port.
    destruct (aeqb c c_dollar || aeqb c c_at) eqn:Ep.
    { destruct (forallb is_id_char id) eqn:Eid; [|discriminate]. injection H as <-.
      unfold parse_port. destruct id as [|c1 r1].
      - eexists. split; [reflexivity|]. apply port_flag; [exact Ep|reflexivity|reflexivity].
      - rewrite (first_bad_none _ _ 0 Eid). eexists. split; [reflexivity|].
        apply port_flag; [exact Ep|reflexivity|reflexivity]. }
    destruct (has_paren (c :: id)).
    { destruct (call_shape (c :: id)) as [[name ps]|] eqn:Ecs; [|discriminate].
      destruct (call_sem_inv _ _ _ _ H) as [Hname Hall].
      destruct (shape_complete (c :: id) pos name ps Ecs Hname) as (st & sargl & Hsc & Hfc & Hmap).
      { rewrite Forall_forall. intros p Hin. destruct (Hall p Hin) as [b' Hb']. apply (derives_nonblank f p b' Hb'). }
      rewrite Hsc, finish_call_eq, Hfc. subst ps.
      apply (sem_complete _ (derives f)); [|exact H].
      intros p b' _ Hd q. apply (IH p b' Hd q). }
    destruct (is_literal (c :: id)) eqn:El; [|discriminate]. injection H as <-.
    apply is_literal_parse. exact El.
  Qed.

  (* ------------------------------------------------------------------ the recogniser's fuel *)
  Theorem derives_mono : forall f s b, derives f s = Some b -> derives (S f) s = Some b.
  Proof.
    induction f as [|f IH]; intros s b H; [discriminate|].
    rewrite derives_S in H. rewrite derives_S.
    apply (dstep_ext (derives f)); [|exact H]. intros _ _ p b' _ _. apply IH.
  Qed.

  Lemma derives_le f f' s b : f <= f' -> derives f s = Some b -> derives f' s = Some b.
  Proof. intros Hle. induction Hle as [|m Hle IH]; intros Hd; [exact Hd|]. apply derives_mono. apply IH. exact Hd. Qed.

  Theorem derives_bound_gen : forall f s b, derives f s = Some b ->
    forall f2, List.length s < f2 -> derives f2 s = Some b.
  Proof.
    induction f as [|f IH]; intros s b H f2 Hlen; [discriminate|].
    destruct f2 as [|f2]; [lia|].
    rewrite derives_S in H. rewrite derives_S.
    apply (dstep_ext (derives f)); [|exact H]. intros name ps p b' Hcs Hin Hd.
    apply (IH p b' Hd). pose proof (call_shape_len _ _ _ _ Hcs Hin). pose proof (strip_len s). lia.
  Qed.

  Theorem derives_bound f s b : derives f s = Some b -> derives (S (List.length s)) s = Some b.
  Proof. intros H. apply (derives_bound_gen f s b H). lia. Qed.

  (* ------------------------------------------------------------------ the two directions at the entry point *)
  Theorem grammar_sound s e : parse s = POK e -> derives (S (List.length s)) s = Some (is_ref e).
  Proof. apply parse_derives. Qed.

  Theorem grammar_sound_ex s e : parse s = POK e -> exists fuel, derives fuel s = Some (is_ref e).
  Proof. intros H. exists (S (List.length s)). apply grammar_sound. exact H. Qed.

  Theorem grammar_complete fuel s b : derives fuel s = Some b -> exists e, parse s = POK e /\ is_ref e = b.
  Proof. intros H. apply (derives_parse _ _ _ (derives_bound _ _ _ H)). Qed.

  (* the oracle as the harness calls it (fixed fuel S (length s)) is exactly the parser's accept/reject *)
  Theorem accepts_exact s : accepts table h s = match parse s with POK _ => true | PErrR _ => false end.
  Proof.
    unfold accepts. destruct (parse s) as [e|err] eqn:E.
    - rewrite (grammar_sound s e E). reflexivity.
    - destruct (Grammar.derives table h (S (List.length s)) s) as [b|] eqn:D; [|reflexivity].
      destruct (grammar_complete _ _ _ D) as (e' & E' & _). rewrite E in E'. discriminate.
  Qed.

  (* the parser's own nesting budget is never the reason for a rejection of a text the grammar derives *)
  Theorem parse_fuel_exact f s pos e : parse_fuel f tt s pos = POK e -> exists e', parse s = POK e' /\ is_ref e' = is_ref e.
  Proof. intros H. apply (grammar_complete f). apply (parse_derives _ _ _ _ H). Qed.
End WithTable2.
