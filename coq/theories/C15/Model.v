(* C15 — the polling pass of core/main.py as an executable transition system over a list of ports.  Definitions only.

   What of the code is modelled (qtoggleserver/core/main.py, core/ports.py, utils/timedset.py):

   * [Pass outs] is one execution of main.update(): for every enabled port, in the iteration order of the port table,
       - heart_beat_second() when the wall-clock second changed (an exception is logged and contained: the hook's outcome
         [po_hb] influences nothing),
       - nothing more if the port is in _ports_with_read_error and was put there at most 10 s ago (TimedSet.__contains__:
         `time.time() - t > timeout` removes the entry, so the port is read again at the first pass *more than* 10 s later),
       - read_transformed_value(): the driver returns its value / raises SkipRead / raises any other Exception.  On an
         exception the port is parked (TimedSet.add) and keeps its last value; on SkipRead nothing happens; a value different
         from the last one is stored (set_last_read_value) and the port enters the changed set;
     then handle_value_changes(): a value-change event for every changed, non-internal port; every enabled port whose
     expression depends on a changed port (other than itself) gets push_eval(): a snapshot of the last values of all enabled
     ports is queued for its evaluation task.  Since an expression is a function of the snapshot, the model queues the result
     of the evaluation.
     [po_attr]: the port's attribute getters (is_internal / is_persisted) raise while its own value change is handled.  The
     model is the behaviour with fixes/C15-contain-value-change-handling.diff applied: the exception is contained per port
     (that port's own event is lost).  The behaviour before the fix is History/C15Old.v.
   * [Eval p]: the evaluation task of p takes the oldest queued evaluation and compares it with the port's *current* last value
     (BasePort._eval_and_write); if different it asks the driver to write it ([OEvalWrite]).
   * [Write p v r]: the driver's write_value(v) of port p completes with r (from an API write or from an evaluation).  An
     exception goes to the submitter's future (_write_value_loop); on success an echo driver reads back v.
   * [SourceSet p v]: the outside world changes what the driver of p reads.   * [Advance dt]: time passes.

   Fault alphabet: subclasses of Exception.  A driver raising asyncio.CancelledError (a BaseException) is indistinguishable
   from the shutdown of the polling task and is out of scope, as is a driver call that never returns (the pass holds the update
   lock while it awaits the read; see notes/C15.md).
   Not modelled: sequences, enabling/disabling and expression changes at run time, read/write transforms, the bound (1024) of
   the evaluation and write queues, persisted ports' save_asap (a flag on the port itself). *)
From QT Require Export Base.Prelude.
Open Scope Z_scope.

Definition pid := Z.
Definition value := option Z.                       (* None = unavailable *)
Definition value_eqb (a b : value) : bool := option_eqb Z.eqb a b.

Inductive eres := EVal (z : Z) | EUnavail | EFail.  (* value / ValueUnavailable / any other evaluation error *)
Inductive rd := RVal | RSkip | RErr.                (* what the driver does if it is asked to read now *)
Record pout := mkPout { po_hb : bool; po_rd : rd; po_attr : bool }.
Definition pout_ok : pout := mkPout false RVal false.
Inductive wres := WOk | WExc.

Definition retry_ms : Z := 10000.                   (* _PORT_READ_ERROR_RETRY_INTERVAL = 10 s *)

Inductive obs :=
| OHb (p : pid)                                     (* heart_beat_second() of p was called *)
| ORead (p : pid)                                   (* the driver of p was asked to read *)
| OChange (p : pid) (old new : value)               (* value-change event *)
| OPush (p : pid)                                   (* push_eval() *)
| OEvalWrite (p : pid) (v : value)                  (* the evaluation task of p asks for v to be written *)
| OWrite (p : pid) (v : value) (r : wres).          (* driver write and its result (what the submitter is told) *)

Definition obs_pid (o : obs) : pid :=
  match o with OHb p | ORead p | OChange p _ _ | OPush p | OEvalWrite p _ | OWrite p _ _ => p end.

Definition out_of (outs : list (pid * pout)) (p : pid) : pout :=
  match find (fun qo => fst qo =? p) outs with Some qo => snd qo | None => pout_ok end.

Section Hub.
  Variable eid : Type.                              (* expressions are abstract: *)
  Variable fdeps : eid -> list pid.                 (*   the ports an expression declares as dependencies *)
  Variable feval : eid -> (pid -> option value) -> eres.   (* its value on a snapshot (None = no such enabled port) *)

  Record port := mkPort {
    p_id : pid; p_enabled : bool; p_internal : bool; p_expr : option eid;
    p_drv : value;              (* what a successful driver read returns *)
    p_last : value;             (* _last_read_value *)
    p_parked : option Z;        (* Some t: in _ports_with_read_error since t (ms) *)
    p_evalq : list eres         (* queued evaluations *)
  }.
  Record state := mkState { st_ports : list port; st_now : Z; st_last_sec : Z }.

  Inductive event :=
  | Advance (dt : Z)
  | SourceSet (p : pid) (v : value)
  | Write (p : pid) (v : value) (r : wres)
  | Pass (outs : list (pid * pout))
  | Eval (p : pid).

  Definition set_drv (p : port) (v : value) : port :=
    mkPort (p_id p) (p_enabled p) (p_internal p) (p_expr p) v (p_last p) (p_parked p) (p_evalq p).
  Definition set_last (p : port) (v : value) : port :=
    mkPort (p_id p) (p_enabled p) (p_internal p) (p_expr p) (p_drv p) v (p_parked p) (p_evalq p).
  Definition set_parked (p : port) (t : option Z) : port :=
    mkPort (p_id p) (p_enabled p) (p_internal p) (p_expr p) (p_drv p) (p_last p) t (p_evalq p).
  Definition set_evalq (p : port) (q : list eres) : port :=
    mkPort (p_id p) (p_enabled p) (p_internal p) (p_expr p) (p_drv p) (p_last p) (p_parked p) q.

  (* ---- the polling loop, one port *)
  Definition is_parked (now : Z) (p : port) : bool :=
    match p_parked p with Some t => now - t <=? retry_ms | None => false end.

  Definition is_read (now : Z) (p : port) : bool := p_enabled p && negb (is_parked now p).

  Definition poll_st (now : Z) (o : pout) (p : port) : port :=
    if is_read now p then
      match po_rd o with
      | RSkip => set_parked p None
      | RErr => set_parked p (Some now)
      | RVal => if value_eqb (p_drv p) (p_last p) then set_parked p None else set_last (set_parked p None) (p_drv p)
      end
    else p.

  Definition poll_obs (sc : bool) (now : Z) (p : port) : list obs :=
    (if p_enabled p && sc then [OHb (p_id p)] else []) ++ (if is_read now p then [ORead (p_id p)] else []).

  Definition poll_changed (now : Z) (o : pout) (p : port) : bool :=
    is_read now p && match po_rd o with RVal => negb (value_eqb (p_drv p) (p_last p)) | _ => false end.

  (* ---- handle_value_changes *)
  Definition change_obs (outs : list (pid * pout)) (p : port) : list obs :=     (* p: a changed port, before the pass *)
    if p_internal p || po_attr (out_of outs (p_id p)) then [] else [OChange (p_id p) (p_last p) (p_drv p)].

  Definition port_of (ps : list port) (x : pid) : option port := find (fun p => p_id p =? x) ps.

  Definition snap (ps : list port) (x : pid) : option value :=
    match port_of ps x with Some p => if p_enabled p then Some (p_last p) else None | None => None end.

  Definition mem (x : pid) (l : list pid) : bool := existsb (Z.eqb x) l.

  Definition needs_eval (changed : list pid) (p : port) : bool :=
    match p_expr p with
    | Some e => p_enabled p && existsb (fun d => negb (d =? p_id p) && mem d changed) (fdeps e)
    | None => false
    end.

  Definition push_st (changed : list pid) (s : pid -> option value) (p : port) : port :=
    if needs_eval changed p
    then match p_expr p with Some e => set_evalq p (p_evalq p ++ [feval e s]) | None => p end
    else p.

  Definition push_obs (changed : list pid) (p : port) : list obs :=
    if needs_eval changed p then [OPush (p_id p)] else [].

  (* ---- one pass *)
  Definition second_changed (st : state) : bool := negb (st_now st / 1000 =? st_last_sec st).

  Definition pass_polled (st : state) (outs : list (pid * pout)) : list port :=
    map (fun p => poll_st (st_now st) (out_of outs (p_id p)) p) (st_ports st).
  Definition pass_changed (st : state) (outs : list (pid * pout)) : list port :=
    filter (fun p => poll_changed (st_now st) (out_of outs (p_id p)) p) (st_ports st).

  Definition pass_st (st : state) (outs : list (pid * pout)) : state :=
    let ps1 := pass_polled st outs in
    let ids := map p_id (pass_changed st outs) in
    mkState (map (push_st ids (snap ps1)) ps1) (st_now st) (st_now st / 1000).

  Definition pass_obs (st : state) (outs : list (pid * pout)) : list obs :=
    let ps1 := pass_polled st outs in
    let ch := pass_changed st outs in
    flat_map (poll_obs (second_changed st) (st_now st)) (st_ports st)
    ++ flat_map (change_obs outs) ch
    ++ flat_map (push_obs (map p_id ch)) ps1.

  (* ---- the evaluation task *)
  Definition eval_st (p : port) : port := set_evalq p (tl (p_evalq p)).
  Definition eval_obs (p : port) : list obs :=
    match p_evalq p with
    | EVal z :: _ => if value_eqb (Some z) (p_last p) then [] else [OEvalWrite (p_id p) (Some z)]
    | EUnavail :: _ => if value_eqb None (p_last p) then [] else [OEvalWrite (p_id p) None]
    | _ => []
    end.

  Definition at_port (x : pid) (f : port -> port) (ps : list port) : list port :=
    map (fun p => if p_id p =? x then f p else p) ps.

  Definition with_ports (st : state) (ps : list port) : state := mkState ps (st_now st) (st_last_sec st).

  Definition step_st (st : state) (ev : event) : state :=
    match ev with
    | Advance dt => mkState (st_ports st) (st_now st + dt) (st_last_sec st)
    | SourceSet x v => with_ports st (at_port x (fun p => set_drv p v) (st_ports st))
    | Write x v WOk => with_ports st (at_port x (fun p => set_drv p v) (st_ports st))
    | Write x v WExc => st
    | Pass outs => pass_st st outs
    | Eval x => with_ports st (at_port x eval_st (st_ports st))
    end.

  Definition step_obs (st : state) (ev : event) : list obs :=
    match ev with
    | Advance _ | SourceSet _ _ => []
    | Write x v r => [OWrite x v r]
    | Pass outs => pass_obs st outs
    | Eval x => flat_map (fun p => if p_id p =? x then eval_obs p else []) (st_ports st)
    end.

  Fixpoint run_st (st : state) (tr : list event) : state :=
    match tr with [] => st | ev :: r => run_st (step_st st ev) r end.
  Fixpoint run_obs (st : state) (tr : list event) : list obs :=
    match tr with [] => [] | ev :: r => step_obs st ev ++ run_obs (step_st st ev) r end.
  Definition run (st : state) (tr : list event) : state * list obs := (run_st st tr, run_obs st tr).

  (* the instants at which the passes of a trace take place *)
  Fixpoint pass_times (st : state) (tr : list event) : list Z :=
    match tr with
    | [] => []
    | ev :: r => (match ev with Pass _ => [st_now st] | _ => [] end) ++ pass_times (step_st st ev) r
    end.
End Hub.

Arguments mkPort {eid}. Arguments mkState {eid}.
Arguments p_id {eid}. Arguments p_enabled {eid}. Arguments p_internal {eid}. Arguments p_expr {eid}. Arguments p_drv {eid}.
Arguments p_last {eid}. Arguments p_parked {eid}. Arguments p_evalq {eid}.
Arguments st_ports {eid}. Arguments st_now {eid}. Arguments st_last_sec {eid}.
Arguments port_of {eid}. Arguments snap {eid}. Arguments is_parked {eid}. Arguments is_read {eid}.
Arguments set_drv {eid}. Arguments set_last {eid}. Arguments set_parked {eid}. Arguments set_evalq {eid}.
Arguments poll_st {eid}. Arguments poll_obs {eid}. Arguments poll_changed {eid}. Arguments change_obs {eid}.
Arguments second_changed {eid}. Arguments eval_st {eid}. Arguments eval_obs {eid}. Arguments at_port {eid}.
Arguments with_ports {eid}.

(* ---- the concrete expressions used by the tie: `$x` and `ADD($x, $y)` *)
Inductive cexpr := CPort (x : pid) | CAdd (a b : pid).

Definition cdeps (e : cexpr) : list pid := match e with CPort x => [x] | CAdd a b => [a; b] end.

(* PortValue._eval: unknown or disabled port -> error; last value None -> unavailable *)
Definition cget (s : pid -> option value) (x : pid) : eres :=
  match s x with None => EFail | Some None => EUnavail | Some (Some z) => EVal z end.

(* ADD evaluates both arguments (asyncio.gather); the first failing argument decides the kind of the failure *)
Definition ceval (e : cexpr) (s : pid -> option value) : eres :=
  match e with
  | CPort x => cget s x
  | CAdd a b => match cget s a, cget s b with
                | EVal x, EVal y => EVal (x + y)
                | EVal _, r => r
                | l, _ => l
                end
  end.
