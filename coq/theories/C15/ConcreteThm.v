(* C15 — the concrete expressions of the tie (`$x`, `ADD($x, $y)`) read nothing but their declared dependencies: this
   discharges the Section hypothesis [frame] of SimThm.v, so the instantiated theorem has no hypothesis about expressions. *)
From QT Require Import C15.Spec.
Open Scope Z_scope.

Lemma cframe : forall e s1 s2, (forall d, In d (cdeps e) -> s1 d = s2 d) -> ceval e s1 = ceval e s2.
Proof.
  intros [x|a b] s1 s2 Hd; simpl in *; unfold cget.
  - rewrite (Hd x) by (left; reflexivity). reflexivity.
  - rewrite (Hd a) by (left; reflexivity). rewrite (Hd b) by (right; left; reflexivity). reflexivity.
Qed.

(* the boolean closure test used by the generated case files and by the examples is sound *)
Lemma deps_closedb_sound {eid} (fdeps : eid -> list pid) (H : pid -> bool) (ps : list (port eid)) :
  deps_closedb fdeps H ps = true -> deps_closed fdeps H ps.
Proof.
  unfold deps_closedb, deps_closed. rewrite forallb_forall, Forall_forall.
  intros Hb p Hin Hx e d He Hd. specialize (Hb p Hin). rewrite Hx, He in Hb. simpl in Hb.
  rewrite forallb_forall in Hb. apply Hb. exact Hd.
Qed.
