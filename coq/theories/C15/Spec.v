(* C15 — specification: what "as if the failing ports were absent" means, independently of how the pass is coded.

   For a set H of ports (a boolean predicate on port ids):
     project H (state, observations)   what an observer of the ports in H can see: their state (last values, driver values,
                                       parked flags, queued evaluations, the clock) and the observations about them;
     erase_faulty H trace              the same history in a world where the other ports do not exist: events about them are
                                       dropped, and a pass carries no outcomes for them;
     proj_state H st                   the system without the other ports.
   The property:   project H (run st tr) = run (proj_state H st) (erase_faulty H tr)
   for every H closed under expression dependencies ([deps_closed]).  Everything here is executable, so the same equation is
   evaluated by vm_compute on the implementation's observed runs ([Run.bad_spec]). *)
From QT Require Export C15.Model.
Open Scope Z_scope.

Section Spec.
  Variable eid : Type.
  Variable fdeps : eid -> list pid.
  Variable H : pid -> bool.

  Definition proj_ports (ps : list (port eid)) : list (port eid) := filter (fun p => H (p_id p)) ps.
  Definition proj_state (st : state eid) : state eid := mkState (proj_ports (st_ports st)) (st_now st) (st_last_sec st).
  Definition proj_obs (os : list obs) : list obs := filter (fun o => H (obs_pid o)) os.
  Definition project (r : state eid * list obs) : state eid * list obs := (proj_state (fst r), proj_obs (snd r)).

  Definition erase_outs (outs : list (pid * pout)) : list (pid * pout) := filter (fun qo => H (fst qo)) outs.
  Definition erase_event (ev : event) : list event :=
    match ev with
    | Advance dt => [Advance dt]
    | SourceSet p v => if H p then [ev] else []
    | Write p v r => if H p then [ev] else []
    | Eval p => if H p then [ev] else []
    | Pass outs => [Pass (erase_outs outs)]
    end.
  Definition erase_faulty (tr : list event) : list event := flat_map erase_event tr.

  (* H is closed under dependencies: the expression of a port in H mentions only ports in H *)
  Definition closed_port (p : port eid) : Prop :=
    H (p_id p) = true -> forall e d, p_expr p = Some e -> In d (fdeps e) -> H d = true.
  Definition deps_closed (ps : list (port eid)) : Prop := Forall closed_port ps.

  Definition deps_closedb (ps : list (port eid)) : bool :=
    forallb (fun p => negb (H (p_id p)) || match p_expr p with Some e => forallb H (fdeps e) | None => true end) ps.

  (* the ports outside H are the ones allowed to misbehave: inside H every read returns a value, no hook, attribute getter or
     write raises (used only to state the corollary about healthy ports; non-interference itself needs no such hypothesis) *)
  Definition healthy_out (o : pout) : bool :=
    negb (po_hb o) && negb (po_attr o) && match po_rd o with RVal => true | _ => false end.
  Definition healthy_event (ev : event) : bool :=
    match ev with
    | Pass outs => forallb (fun qo => negb (H (fst qo)) || healthy_out (snd qo)) outs
    | Write p _ WExc => negb (H p)
    | _ => true
    end.
End Spec.

Arguments proj_ports {eid}. Arguments proj_state {eid}. Arguments project {eid}. Arguments deps_closed {eid}.
Arguments deps_closedb {eid}. Arguments closed_port {eid}.
