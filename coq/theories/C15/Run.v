(* C15 — dispatch used by the generated case files: the model instantiated with the concrete expressions `$x` / `ADD($x, $y)`,
   run on the trace logged from the real implementation, and the specification oracle evaluated on the implementation's own
   observations. *)
From QT Require Export C15.Spec.
Open Scope Z_scope.

Definition cport := port cexpr.
Definition cstate := state cexpr.

Definition crun_st := run_st cexpr cdeps ceval.
Definition crun_obs := run_obs cexpr cdeps ceval.

Definition wres_eqb (a b : wres) : bool := match a, b with WOk, WOk | WExc, WExc => true | _, _ => false end.

Definition obs_eqb (a b : obs) : bool :=
  match a, b with
  | OHb p, OHb q | ORead p, ORead q | OPush p, OPush q => p =? q
  | OChange p o n, OChange q o' n' => (p =? q) && value_eqb o o' && value_eqb n n'
  | OEvalWrite p v, OEvalWrite q w => (p =? q) && value_eqb v w
  | OWrite p v r, OWrite q w s => (p =? q) && value_eqb v w && wres_eqb r s
  | _, _ => false
  end.

(* what the implementation's state looks like at the end: (id, last value, driver value, parked?) *)
Definition pfinal := (pid * value * value * bool)%type.
Definition final_of (p : cport) : pfinal :=
  (p_id p, p_last p, p_drv p, match p_parked p with Some _ => true | None => false end).
Definition pfinal_eqb (a b : pfinal) : bool :=
  let '(p, l, d, k) := a in let '(q, l', d', k') := b in
  (p =? q) && value_eqb l l' && value_eqb d d' && Bool.eqb k k'.

Record case := mkCase {
  c_ports : list cport;          (* the settled start-up state *)
  c_now : Z; c_last_sec : Z;
  c_healthy : list pid;          (* H *)
  c_trace : list event;          (* what happened, as logged from the real run *)
  c_obs : list obs;              (* what the implementation did *)
  c_final : list pfinal          (* where the implementation ended up *)
}.

Definition c_init (c : case) : cstate := mkState (c_ports c) (c_now c) (c_last_sec c).
Definition c_H (c : case) : pid -> bool := fun x => mem x (c_healthy c).

(* the model, run on the logged trace, does what the implementation did *)
Definition model_ok (c : case) : bool :=
  list_eqb obs_eqb (crun_obs (c_init c) (c_trace c)) (c_obs c)
  && list_eqb pfinal_eqb (map final_of (st_ports (crun_st (c_init c) (c_trace c)))) (c_final c).

(* the implementation's observations about the ports of H, and their final state, are those of the system in which the other
   ports do not exist (run by the model on the erased history) *)
Definition spec_ok (c : case) : bool :=
  let H := c_H c in
  negb (deps_closedb cdeps H (c_ports c))
  || (list_eqb obs_eqb (proj_obs H (c_obs c)) (crun_obs (proj_state H (c_init c)) (erase_faulty H (c_trace c)))
      && list_eqb pfinal_eqb (filter (fun f => H (fst (fst (fst f)))) (c_final c))
                  (map final_of (st_ports (crun_st (proj_state H (c_init c)) (erase_faulty H (c_trace c)))))).

Definition bad_model (cases : list case) : list nat := mismatches model_ok cases 0.
Definition bad_spec (cases : list case) : list nat := mismatches spec_ok cases 0.

(* diagnostics for a failing case: index of the first observation that differs *)
Fixpoint first_diff (a b : list obs) (i : nat) : nat :=
  match a, b with
  | x :: a', y :: b' => if obs_eqb x y then first_diff a' b' (S i) else i
  | _, _ => i
  end.
Definition model_diff (cases : list case) : list nat :=
  map (fun c => first_diff (crun_obs (c_init c) (c_trace c)) (c_obs c) 0) cases.
