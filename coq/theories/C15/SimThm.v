(* C15 — non-interference: the ports of a dependency-closed set H behave exactly as in the system without the other ports,
   for every trace (induction over the trace; one simulation step per event). *)
From QT Require Import C15.Spec.
Open Scope Z_scope.

(* ---- list facts *)
Lemma filter_all {A} (P : A -> bool) l : (forall a, In a l -> P a = true) -> filter P l = l.
Proof.
  induction l as [|a l IH]; intros Hl; [reflexivity|]. simpl.
  rewrite (Hl a (or_introl eq_refl)). f_equal. apply IH. intros b Hb. apply Hl. right. exact Hb.
Qed.

Lemma filter_none {A} (P : A -> bool) l : (forall a, In a l -> P a = false) -> filter P l = [].
Proof.
  induction l as [|a l IH]; intros Hl; [reflexivity|]. simpl.
  rewrite (Hl a (or_introl eq_refl)). apply IH. intros b Hb. apply Hl. right. exact Hb.
Qed.

Lemma filter_map_comm {A} (P : A -> bool) (g : A -> A) l :
  (forall a, P (g a) = P a) -> filter P (map g l) = map g (filter P l).
Proof.
  intros Hg. induction l as [|a l IH]; [reflexivity|]. simpl. rewrite Hg. destruct (P a); simpl; rewrite IH; reflexivity.
Qed.

Lemma filter_map_gen {A B} (P : B -> bool) (f : A -> B) l : filter P (map f l) = map f (filter (fun a => P (f a)) l).
Proof. induction l as [|a l IH]; [reflexivity|]. simpl. destruct (P (f a)); simpl; rewrite IH; reflexivity. Qed.

Lemma filter_flat_map {A B} (P : B -> bool) (Q : A -> bool) (g : A -> list B) l :
  (forall a b, In b (g a) -> P b = Q a) -> filter P (flat_map g l) = flat_map g (filter Q l).
Proof.
  intros Hg. induction l as [|a l IH]; [reflexivity|]. simpl. rewrite filter_app, IH.
  destruct (Q a) eqn:HQ; simpl.
  - rewrite filter_all; [reflexivity|]. intros b Hb. rewrite (Hg a b Hb). exact HQ.
  - rewrite filter_none; [reflexivity|]. intros b Hb. rewrite (Hg a b Hb). exact HQ.
Qed.

Lemma filter_filter_comm {A} (P Q Q' : A -> bool) l :
  (forall a, P a = true -> Q a = Q' a) -> filter P (filter Q l) = filter Q' (filter P l).
Proof.
  intros HQ. induction l as [|a l IH]; [reflexivity|]. simpl.
  destruct (P a) eqn:HP; simpl.
  - rewrite <- (HQ a HP). destruct (Q a); simpl; rewrite ?HP, IH; reflexivity.
  - destruct (Q a); simpl; rewrite ?HP, IH; reflexivity.
Qed.

Lemma flat_map_ext_in' {A B} (f g : A -> list B) l : (forall a, In a l -> f a = g a) -> flat_map f l = flat_map g l.
Proof.
  induction l as [|a l IH]; intros Hl; [reflexivity|]. simpl. rewrite (Hl a (or_introl eq_refl)). f_equal.
  apply IH. intros b Hb. apply Hl. right. exact Hb.
Qed.

Lemma flat_map_nil {A B} (f : A -> list B) l : (forall a, In a l -> f a = []) -> flat_map f l = [].
Proof.
  induction l as [|a l IH]; intros Hl; [reflexivity|]. simpl. rewrite (Hl a (or_introl eq_refl)). simpl.
  apply IH. intros b Hb. apply Hl. right. exact Hb.
Qed.

Lemma map_id_in {A} (f : A -> A) l : (forall a, In a l -> f a = a) -> map f l = l.
Proof.
  induction l as [|a l IH]; intros Hl; [reflexivity|]. simpl. rewrite (Hl a (or_introl eq_refl)). f_equal.
  apply IH. intros b Hb. apply Hl. right. exact Hb.
Qed.

Lemma in_filter_H {A} (P : A -> bool) l a : In a (filter P l) -> In a l /\ P a = true.
Proof. intros Hin. apply filter_In in Hin. exact Hin. Qed.

Section Sim.
  Variable eid : Type.
  Variable fdeps : eid -> list pid.
  Variable feval : eid -> (pid -> option value) -> eres.
  (* an expression reads nothing but the ports it declares *)
  Hypothesis frame : forall e s1 s2, (forall d, In d (fdeps e) -> s1 d = s2 d) -> feval e s1 = feval e s2.
  Variable H : pid -> bool.

  Notation port := (port eid).
  Notation state := (state eid).
  Notation Hp := (fun p : port => H (p_id p)).
  Notation proj_state := (proj_state H).
  Notation proj_ports := (proj_ports H).
  Notation proj_obs := (proj_obs H).
  Notation closed_port := (closed_port fdeps H).
  Notation deps_closed := (deps_closed fdeps H).
  Notation step_st := (step_st eid fdeps feval).
  Notation step_obs := (step_obs eid fdeps).
  Notation run_st := (run_st eid fdeps feval).
  Notation run_obs := (run_obs eid fdeps feval).
  Notation pass_st := (pass_st eid fdeps feval).
  Notation pass_obs := (pass_obs eid fdeps).
  Notation push_st := (push_st eid fdeps feval).
  Notation push_obs := (push_obs eid fdeps).
  Notation needs_eval := (needs_eval eid fdeps).

  (* ---- the per-port functions keep the identity and the expression of a port *)
  Lemma poll_st_id now o (p : port) : p_id (poll_st now o p) = p_id p.
  Proof. unfold poll_st. destruct (is_read now p); [|reflexivity]. destruct (po_rd o); try reflexivity.
         destruct (value_eqb _ _); reflexivity. Qed.
  Lemma poll_st_expr now o (p : port) : p_expr (poll_st now o p) = p_expr p.
  Proof. unfold poll_st. destruct (is_read now p); [|reflexivity]. destruct (po_rd o); try reflexivity.
         destruct (value_eqb _ _); reflexivity. Qed.
  Lemma push_st_id ch s (p : port) : p_id (push_st ch s p) = p_id p.
  Proof. unfold Model.push_st. destruct (needs_eval ch p); [|reflexivity]. destruct (p_expr p); reflexivity. Qed.
  Lemma push_st_expr ch s (p : port) : p_expr (push_st ch s p) = p_expr p.
  Proof. unfold Model.push_st. destruct (needs_eval ch p); [|reflexivity]. destruct (p_expr p) eqn:E; simpl; congruence. Qed.

  Lemma closed_port_ext (p q : port) : p_id q = p_id p -> p_expr q = p_expr p -> closed_port p -> closed_port q.
  Proof. unfold Spec.closed_port. intros Hi He Hc. rewrite Hi, He. exact Hc. Qed.

  Lemma deps_closed_map (g : port -> port) (ps : list port) :
    (forall p, p_id (g p) = p_id p) -> (forall p, p_expr (g p) = p_expr p) -> deps_closed ps -> deps_closed (map g ps).
  Proof.
    intros Hi He Hc. unfold Spec.deps_closed in *. induction Hc as [|p ps Hp _ IH]; simpl; constructor; [|exact IH].
    eapply closed_port_ext; [apply Hi|apply He|exact Hp].
  Qed.

  Lemma at_port_id x (f : port -> port) p :
    (forall q, p_id (f q) = p_id q) -> p_id (if p_id p =? x then f p else p) = p_id p.
  Proof. intros Hf. destruct (p_id p =? x); [apply Hf|reflexivity]. Qed.

  Lemma deps_closed_step st ev : deps_closed (st_ports st) -> deps_closed (st_ports (step_st st ev)).
  Proof.
    intros Hc. destruct ev as [dt|x v|x v r|outs|x]; simpl.
    - exact Hc.
    - apply deps_closed_map; [| |exact Hc]; intros p; destruct (p_id p =? x); reflexivity.
    - destruct r; [|exact Hc]. simpl. apply deps_closed_map; [| |exact Hc]; intros p; destruct (p_id p =? x); reflexivity.
    - unfold Model.pass_st, pass_polled. simpl. apply deps_closed_map; [apply push_st_id|apply push_st_expr|].
      apply deps_closed_map; [intros; apply poll_st_id|intros; apply poll_st_expr|exact Hc].
    - apply deps_closed_map; [| |exact Hc]; intros p; destruct (p_id p =? x); reflexivity.
  Qed.

  (* ---- lookups in the projected system *)
  Lemma out_of_erase outs x : H x = true -> out_of (erase_outs H outs) x = out_of outs x.
  Proof.
    intros Hx. unfold out_of, erase_outs. induction outs as [|[q o] outs IH]; [reflexivity|]. simpl.
    destruct (H q) eqn:Hq; simpl.
    - destruct (q =? x); [reflexivity|exact IH].
    - destruct (q =? x) eqn:E; [|exact IH]. apply Z.eqb_eq in E. congruence.
  Qed.

  Lemma port_of_proj (ps : list port) x : H x = true -> port_of (proj_ports ps) x = port_of ps x.
  Proof.
    intros Hx. unfold port_of, Spec.proj_ports. induction ps as [|p ps IH]; [reflexivity|]. simpl.
    destruct (H (p_id p)) eqn:Hq; simpl.
    - destruct (p_id p =? x); [reflexivity|exact IH].
    - destruct (p_id p =? x) eqn:E; [|exact IH]. apply Z.eqb_eq in E. congruence.
  Qed.

  Lemma snap_proj (ps : list port) x : H x = true -> snap (proj_ports ps) x = snap ps x.
  Proof. intros Hx. unfold snap. rewrite port_of_proj by exact Hx. reflexivity. Qed.

  Lemma mem_filter x l : H x = true -> mem x (filter H l) = mem x l.
  Proof.
    intros Hx. unfold mem. induction l as [|a l IH]; [reflexivity|]. simpl.
    destruct (H a) eqn:Ha; simpl.
    - rewrite IH. reflexivity.
    - rewrite IH. destruct (x =? a) eqn:E; [|reflexivity]. apply Z.eqb_eq in E. congruence.
  Qed.

  Lemma needs_eval_proj ch (p : port) : closed_port p -> H (p_id p) = true -> needs_eval (filter H ch) p = needs_eval ch p.
  Proof.
    intros Hc Hx. unfold Model.needs_eval. destruct (p_expr p) as [e|] eqn:E; [|reflexivity]. f_equal.
    assert (Hd : forall d, In d (fdeps e) -> H d = true) by (intros d Hd; exact (Hc Hx e d E Hd)).
    induction (fdeps e) as [|d l IH]; [reflexivity|]. simpl.
    rewrite mem_filter by (apply Hd; left; reflexivity). f_equal. apply IH. intros d' Hd'. apply Hd. right. exact Hd'.
  Qed.

  Lemma push_st_proj ch (ps : list port) (p : port) :
    closed_port p -> H (p_id p) = true -> push_st (filter H ch) (snap (proj_ports ps)) p = push_st ch (snap ps) p.
  Proof.
    intros Hc Hx. unfold Model.push_st. rewrite needs_eval_proj by assumption.
    destruct (needs_eval ch p); [|reflexivity]. destruct (p_expr p) as [e|] eqn:E; [|reflexivity].
    f_equal. f_equal. f_equal. apply frame. intros d Hd. apply snap_proj. exact (Hc Hx e d E Hd).
  Qed.

  (* ---- one pass *)
  Lemma polled_proj st outs :
    pass_polled eid (proj_state st) (erase_outs H outs) = proj_ports (pass_polled eid st outs).
  Proof.
    unfold pass_polled, Spec.proj_ports, Spec.proj_state. simpl.
    rewrite (filter_map_comm Hp) by (intros p; rewrite poll_st_id; reflexivity).
    apply map_ext_in. intros p Hin. apply in_filter_H in Hin. destruct Hin as [_ Hx].
    rewrite out_of_erase by exact Hx. reflexivity.
  Qed.

  Lemma changed_proj st outs :
    pass_changed eid (proj_state st) (erase_outs H outs) = proj_ports (pass_changed eid st outs).
  Proof.
    unfold pass_changed, Spec.proj_ports, Spec.proj_state. simpl. symmetry.
    apply (filter_filter_comm Hp). intros p Hx. rewrite out_of_erase by exact Hx. reflexivity.
  Qed.

  Lemma changed_ids_proj st outs :
    map p_id (pass_changed eid (proj_state st) (erase_outs H outs)) = filter H (map p_id (pass_changed eid st outs)).
  Proof. rewrite changed_proj. unfold Spec.proj_ports. rewrite filter_map_gen. reflexivity. Qed.

  Lemma deps_closed_polled st outs : deps_closed (st_ports st) -> deps_closed (pass_polled eid st outs).
  Proof. intros Hc. unfold pass_polled. apply deps_closed_map; [intros; apply poll_st_id|intros; apply poll_st_expr|exact Hc]. Qed.

  Lemma pass_st_proj st outs :
    deps_closed (st_ports st) -> proj_state (pass_st st outs) = pass_st (proj_state st) (erase_outs H outs).
  Proof.
    intros Hc. unfold Model.pass_st. rewrite polled_proj, changed_ids_proj.
    unfold Spec.proj_state at 1. simpl. f_equal.
    unfold Spec.proj_ports at 1. rewrite (filter_map_comm Hp) by (intros p; rewrite push_st_id; reflexivity).
    apply map_ext_in. intros p Hin. apply in_filter_H in Hin. destruct Hin as [Hin Hx].
    symmetry. apply push_st_proj; [|exact Hx].
    pose proof (deps_closed_polled st outs Hc) as Hc1. unfold Spec.deps_closed in Hc1. rewrite Forall_forall in Hc1.
    apply Hc1. exact Hin.
  Qed.

  Lemma poll_obs_pid sc now (p : port) o : In o (poll_obs sc now p) -> obs_pid o = p_id p.
  Proof.
    unfold poll_obs. intros Hin. apply in_app_or in Hin. destruct Hin as [Hin|Hin].
    - destruct (p_enabled p && sc); [|contradiction]. destruct Hin as [<-|[]]. reflexivity.
    - destruct (is_read now p); [|contradiction]. destruct Hin as [<-|[]]. reflexivity.
  Qed.

  Lemma change_obs_pid outs (p : port) o : In o (change_obs outs p) -> obs_pid o = p_id p.
  Proof. unfold change_obs. destruct (_ || _); [contradiction|]. intros [<-|[]]. reflexivity. Qed.

  Lemma push_obs_pid ch (p : port) o : In o (push_obs ch p) -> obs_pid o = p_id p.
  Proof. unfold Model.push_obs. destruct (needs_eval ch p); [|contradiction]. intros [<-|[]]. reflexivity. Qed.

  Lemma eval_obs_pid (p : port) o : In o (eval_obs p) -> obs_pid o = p_id p.
  Proof.
    unfold eval_obs. destruct (p_evalq p) as [|[z| |] q]; try contradiction.
    - destruct (value_eqb _ _); [contradiction|]. intros [<-|[]]. reflexivity.
    - destruct (value_eqb _ _); [contradiction|]. intros [<-|[]]. reflexivity.
  Qed.

  Lemma pass_obs_proj st outs :
    deps_closed (st_ports st) -> proj_obs (pass_obs st outs) = pass_obs (proj_state st) (erase_outs H outs).
  Proof.
    intros Hc. unfold Model.pass_obs. rewrite polled_proj, changed_proj.
    unfold Spec.proj_obs. rewrite !filter_app. f_equal; [|f_equal].
    - rewrite (filter_flat_map _ Hp) by (intros p o Ho; rewrite (poll_obs_pid _ _ _ _ Ho); reflexivity). reflexivity.
    - rewrite (filter_flat_map _ Hp) by (intros p o Ho; rewrite (change_obs_pid _ _ _ Ho); reflexivity).
      apply flat_map_ext_in'. intros p Hin. apply in_filter_H in Hin. destruct Hin as [_ Hx].
      unfold change_obs. rewrite out_of_erase by exact Hx. reflexivity.
    - rewrite (filter_flat_map _ Hp) by (intros p o Ho; rewrite (push_obs_pid _ _ _ Ho); reflexivity).
      apply flat_map_ext_in'. intros p Hin. apply in_filter_H in Hin. destruct Hin as [Hin Hx].
      unfold Model.push_obs. fold (proj_ports (pass_changed eid st outs)).
      change (filter Hp (pass_changed eid st outs)) with (proj_ports (pass_changed eid st outs)).
      unfold Spec.proj_ports. rewrite <- (filter_map_gen H p_id).
      rewrite needs_eval_proj; [reflexivity| |exact Hx].
      pose proof (deps_closed_polled st outs Hc) as Hc1. unfold Spec.deps_closed in Hc1. rewrite Forall_forall in Hc1.
      apply Hc1. exact Hin.
  Qed.

  (* ---- events about one port *)
  Lemma at_port_proj_in x (f : port -> port) (ps : list port) :
    (forall q, p_id (f q) = p_id q) -> proj_ports (at_port x f ps) = at_port x f (proj_ports ps).
  Proof.
    intros Hf. unfold at_port, Spec.proj_ports. apply (filter_map_comm Hp).
    intros p. rewrite at_port_id by exact Hf. reflexivity.
  Qed.

  Lemma at_port_proj_out x (f : port -> port) (ps : list port) :
    (forall q, p_id (f q) = p_id q) -> H x = false -> proj_ports (at_port x f ps) = proj_ports ps.
  Proof.
    intros Hf Hx. rewrite at_port_proj_in by exact Hf. unfold at_port. apply map_id_in.
    intros p Hin. apply in_filter_H in Hin. destruct Hin as [_ Hpx].
    destruct (p_id p =? x) eqn:E; [|reflexivity]. apply Z.eqb_eq in E. congruence.
  Qed.

  Lemma step_sim st ev :
    deps_closed (st_ports st) ->
    proj_state (step_st st ev) = run_st (proj_state st) (erase_event H ev)
    /\ proj_obs (step_obs st ev) = run_obs (proj_state st) (erase_event H ev).
  Proof.
    intros Hc. destruct ev as [dt|x v|x v r|outs|x]; simpl.
    - split; reflexivity.
    - destruct (H x) eqn:Hx; simpl.
      + split; [|reflexivity]. unfold Spec.proj_state, with_ports. simpl. f_equal.
        apply at_port_proj_in. reflexivity.
      + split; [|reflexivity]. unfold Spec.proj_state, with_ports. simpl. f_equal.
        apply at_port_proj_out; [reflexivity|exact Hx].
    - unfold Spec.proj_obs. simpl. destruct (H x) eqn:Hx; simpl.
      + split; [|reflexivity]. destruct r; [|reflexivity]. unfold Spec.proj_state, with_ports. simpl. f_equal.
        apply at_port_proj_in. reflexivity.
      + split; [|reflexivity]. destruct r; [|reflexivity]. unfold Spec.proj_state, with_ports. simpl. f_equal.
        apply at_port_proj_out; [reflexivity|exact Hx].
    - split; [apply pass_st_proj; exact Hc|]. rewrite app_nil_r. apply pass_obs_proj. exact Hc.
    - unfold Spec.proj_obs.
      rewrite (filter_flat_map _ Hp)
        by (intros p o Ho; destruct (p_id p =? x); [rewrite (eval_obs_pid _ _ Ho); reflexivity|contradiction]).
      destruct (H x) eqn:Hx; simpl.
      + split; [|rewrite app_nil_r; reflexivity]. unfold Spec.proj_state, with_ports. simpl. f_equal.
        apply at_port_proj_in. reflexivity.
      + split.
        * unfold Spec.proj_state, with_ports. simpl. f_equal. apply at_port_proj_out; [reflexivity|exact Hx].
        * apply flat_map_nil. intros p Hin. apply in_filter_H in Hin. destruct Hin as [_ Hpx].
          destruct (p_id p =? x) eqn:E; [|reflexivity]. apply Z.eqb_eq in E. congruence.
  Qed.

  Lemma run_st_app st t1 t2 : run_st st (t1 ++ t2) = run_st (run_st st t1) t2.
  Proof. revert st. induction t1 as [|ev t1 IH]; intros st; [reflexivity|]. simpl. apply IH. Qed.

  Lemma run_obs_app st t1 t2 : run_obs st (t1 ++ t2) = run_obs st t1 ++ run_obs (run_st st t1) t2.
  Proof.
    revert st. induction t1 as [|ev t1 IH]; intros st; [reflexivity|]. simpl. rewrite IH, app_assoc. reflexivity.
  Qed.

  Theorem noninterference st tr :
    deps_closed (st_ports st) ->
    project H (run eid fdeps feval st tr) = run eid fdeps feval (proj_state st) (erase_faulty H tr).
  Proof.
    revert st. unfold project, run. simpl.
    induction tr as [|ev tr IH]; intros st Hc; [reflexivity|].
    simpl. destruct (step_sim st ev Hc) as [Hs Ho].
    specialize (IH (step_st st ev) (deps_closed_step st ev Hc)). injection IH as IHs IHo.
    unfold erase_faulty in *. simpl. rewrite run_st_app, run_obs_app. rewrite <- Hs, <- Ho.
    f_equal.
    - exact IHs.
    - unfold Spec.proj_obs in *. rewrite filter_app. f_equal. exact IHo.
  Qed.
End Sim.
