(* C15 — the failing port itself: it keeps its last good value, it is left alone for 10 s after a read error, it is read again at
   the first pass after that, and it takes the driver's value as soon as a read succeeds. *)
From QT Require Import C15.Spec.
Open Scope Z_scope.

Section Fault.
  Variable eid : Type.
  Variable fdeps : eid -> list pid.
  Variable feval : eid -> (pid -> option value) -> eres.

  Notation port := (port eid).
  Notation state := (state eid).
  Notation step_st := (step_st eid fdeps feval).
  Notation step_obs := (step_obs eid fdeps).
  Notation run_st := (run_st eid fdeps feval).
  Notation run_obs := (run_obs eid fdeps feval).
  Notation pass_times := (pass_times eid fdeps feval).
  Notation push_st := (push_st eid fdeps feval).
  Notation needs_eval := (needs_eval eid fdeps).

  Definition last_of (st : state) (x : pid) : option value := option_map p_last (port_of (st_ports st) x).
  Definition drv_of (st : state) (x : pid) : option value := option_map p_drv (port_of (st_ports st) x).
  Definition parked_since (st : state) (x : pid) (t : Z) : Prop :=
    exists p, port_of (st_ports st) x = Some p /\ p_enabled p = true /\ p_parked p = Some t.

  (* ---- lookups *)
  Lemma port_of_id (ps : list port) x p : port_of ps x = Some p -> p_id p = x.
  Proof. unfold port_of. intros Hf. apply find_some in Hf. destruct Hf as [_ E]. apply Z.eqb_eq in E. exact E. Qed.

  Lemma port_of_in (ps : list port) x p : port_of ps x = Some p -> In p ps.
  Proof. unfold port_of. intros Hf. apply find_some in Hf. tauto. Qed.

  Lemma port_of_map (g : port -> port) (ps : list port) x :
    (forall p, p_id (g p) = p_id p) -> port_of (map g ps) x = option_map g (port_of ps x).
  Proof.
    intros Hg. unfold port_of. induction ps as [|p ps IH]; [reflexivity|]. simpl. rewrite Hg.
    destruct (p_id p =? x); [reflexivity|exact IH].
  Qed.

  Lemma push_st_id ch s (p : port) : p_id (push_st ch s p) = p_id p.
  Proof. unfold Model.push_st. destruct (needs_eval ch p); [|reflexivity]. destruct (p_expr p); reflexivity. Qed.
  Lemma push_st_last ch s (p : port) : p_last (push_st ch s p) = p_last p.
  Proof. unfold Model.push_st. destruct (needs_eval ch p); [|reflexivity]. destruct (p_expr p); reflexivity. Qed.
  Lemma push_st_drv ch s (p : port) : p_drv (push_st ch s p) = p_drv p.
  Proof. unfold Model.push_st. destruct (needs_eval ch p); [|reflexivity]. destruct (p_expr p); reflexivity. Qed.
  Lemma push_st_enabled ch s (p : port) : p_enabled (push_st ch s p) = p_enabled p.
  Proof. unfold Model.push_st. destruct (needs_eval ch p); [|reflexivity]. destruct (p_expr p); reflexivity. Qed.
  Lemma push_st_parked ch s (p : port) : p_parked (push_st ch s p) = p_parked p.
  Proof. unfold Model.push_st. destruct (needs_eval ch p); [|reflexivity]. destruct (p_expr p); reflexivity. Qed.
  Lemma poll_st_id now o (p : port) : p_id (poll_st now o p) = p_id p.
  Proof. unfold poll_st. destruct (is_read now p); [|reflexivity]. destruct (po_rd o); try reflexivity.
         destruct (value_eqb _ _); reflexivity. Qed.

  (* the port found under x after a pass: the one found before, polled with its own outcome, then pushed *)
  Lemma port_of_pass st outs x :
    port_of (st_ports (pass_st eid fdeps feval st outs)) x
    = option_map (fun p => push_st (map p_id (pass_changed eid st outs)) (snap (pass_polled eid st outs))
                                   (poll_st (st_now st) (out_of outs x) p))
                 (port_of (st_ports st) x).
  Proof.
    unfold Model.pass_st. simpl. rewrite port_of_map by apply push_st_id.
    unfold pass_polled at 2. rewrite port_of_map by (intros; apply poll_st_id).
    destruct (port_of (st_ports st) x) as [p|] eqn:E; [|reflexivity]. simpl.
    rewrite (port_of_id _ _ _ E). reflexivity.
  Qed.

  Lemma port_of_at (f : port -> port) (ps : list port) y x :
    (forall p, p_id (f p) = p_id p) ->
    port_of (at_port y f ps) x = option_map (fun p => if p_id p =? y then f p else p) (port_of ps x).
  Proof. intros Hf. unfold at_port. apply port_of_map. intros p. destruct (p_id p =? y); [apply Hf|reflexivity]. Qed.

  (* ---- the last value is kept *)
  Lemma poll_st_last_kept now o (p : port) : po_rd o <> RVal -> p_last (poll_st now o p) = p_last p.
  Proof. intros Ho. unfold poll_st. destruct (is_read now p); [|reflexivity]. destruct (po_rd o); try reflexivity. congruence. Qed.

  Lemma poll_st_last_unread now o (p : port) : is_read now p = false -> poll_st now o p = p.
  Proof. intros Hr. unfold poll_st. rewrite Hr. reflexivity. Qed.

  Lemma last_of_step st ev x :
    (forall outs p, ev = Pass outs -> port_of (st_ports st) x = Some p ->
                    is_read (st_now st) p = false \/ po_rd (out_of outs x) <> RVal) ->
    last_of (step_st st ev) x = last_of st x.
  Proof.
    intros Hev. unfold last_of. destruct ev as [dt|y v|y v r|outs|y]; [simpl|simpl|simpl|cbn [Model.step_st]|simpl].
    - reflexivity.
    - rewrite port_of_at by reflexivity. destruct (port_of (st_ports st) x) as [p|]; [|reflexivity]. simpl.
      destruct (p_id p =? y); reflexivity.
    - destruct r; [|reflexivity]. simpl. rewrite port_of_at by reflexivity.
      destruct (port_of (st_ports st) x) as [p|]; [|reflexivity]. simpl. destruct (p_id p =? y); reflexivity.
    - rewrite port_of_pass. destruct (port_of (st_ports st) x) as [p|] eqn:E; [|reflexivity]. simpl.
      rewrite push_st_last. destruct (Hev outs p eq_refl eq_refl) as [Hr|Ho].
      + rewrite poll_st_last_unread by exact Hr. reflexivity.
      + rewrite poll_st_last_kept by exact Ho. reflexivity.
    - rewrite port_of_at by reflexivity. destruct (port_of (st_ports st) x) as [p|]; [|reflexivity]. simpl.
      destruct (p_id p =? y); reflexivity.
  Qed.

  Lemma last_of_step_other st ev x :
    (forall outs, ev = Pass outs -> po_rd (out_of outs x) <> RVal) -> last_of (step_st st ev) x = last_of st x.
  Proof. intros Hev. apply last_of_step. intros outs p -> _. right. apply Hev. reflexivity. Qed.

  (* whatever else happens (writes, source changes, evaluations, passes, for any length of time): as long as the reads of x
     raise or report skip, x keeps its last value *)
  Theorem last_good_value_kept st tr x :
    (forall outs, In (Pass outs) tr -> po_rd (out_of outs x) <> RVal) -> last_of (run_st st tr) x = last_of st x.
  Proof.
    revert st. induction tr as [|ev tr IH]; intros st Htr; [reflexivity|]. simpl.
    rewrite IH by (intros outs Hin; apply Htr; right; exact Hin).
    apply last_of_step_other. intros outs ->. apply Htr. left. reflexivity.
  Qed.

  (* ---- parked after a read error, left alone for 10 s *)
  Lemma read_error_parks st outs x p :
    port_of (st_ports st) x = Some p -> is_read (st_now st) p = true -> po_rd (out_of outs x) = RErr ->
    parked_since (step_st st (Pass outs)) x (st_now st).
  Proof.
    intros Hp Hr Ho. unfold parked_since. cbn [Model.step_st]. rewrite port_of_pass, Hp. simpl. eexists. split; [reflexivity|].
    rewrite push_st_enabled, push_st_parked. unfold poll_st. rewrite Hr, Ho. simpl.
    unfold is_read in Hr. apply andb_prop in Hr. tauto.
  Qed.

  Lemma parked_not_read now t (p : port) : p_parked p = Some t -> now - t <= retry_ms -> is_read now p = false.
  Proof.
    intros Hp Hle. unfold is_read, is_parked. rewrite Hp. apply Z.leb_le in Hle. rewrite Hle. apply andb_false_r.
  Qed.

  Lemma parked_since_step st ev x t :
    parked_since st x t -> (forall outs, ev = Pass outs -> st_now st - t <= retry_ms) -> parked_since (step_st st ev) x t.
  Proof.
    intros (p & Hp & He & Hk) Hev. unfold parked_since.
    destruct ev as [dt|y v|y v r|outs|y]; [simpl|simpl|simpl|cbn [Model.step_st]|simpl].
    - exists p. tauto.
    - rewrite port_of_at by reflexivity. rewrite Hp. simpl. eexists. split; [reflexivity|].
      destruct (p_id p =? y); simpl; tauto.
    - destruct r; [|exists p; tauto]. simpl. rewrite port_of_at by reflexivity. rewrite Hp. simpl. eexists.
      split; [reflexivity|]. destruct (p_id p =? y); simpl; tauto.
    - rewrite port_of_pass, Hp. simpl. eexists. split; [reflexivity|].
      rewrite push_st_enabled, push_st_parked. unfold poll_st.
      rewrite (parked_not_read _ _ _ Hk (Hev outs eq_refl)). tauto.
    - rewrite port_of_at by reflexivity. rewrite Hp. simpl. eexists. split; [reflexivity|].
      destruct (p_id p =? y); simpl; tauto.
  Qed.

  Lemma ids_step st ev : map p_id (st_ports (step_st st ev)) = map p_id (st_ports st).
  Proof.
    destruct ev as [dt|y v|y v r|outs|y]; simpl.
    - reflexivity.
    - unfold at_port. rewrite map_map. apply map_ext. intros p. destruct (p_id p =? y); reflexivity.
    - destruct r; [|reflexivity]. simpl. unfold at_port. rewrite map_map. apply map_ext. intros p.
      destruct (p_id p =? y); reflexivity.
    - unfold Model.pass_st, pass_polled. simpl. rewrite !map_map. apply map_ext. intros p.
      rewrite push_st_id, poll_st_id. reflexivity.
    - unfold at_port. rewrite map_map. apply map_ext. intros p. destruct (p_id p =? y); reflexivity.
  Qed.

  Lemma nodup_id_inj (ps : list port) p q :
    NoDup (map p_id ps) -> In p ps -> In q ps -> p_id p = p_id q -> p = q.
  Proof.
    induction ps as [|a ps IH]; intros Hn Hp Hq E; [contradiction|].
    simpl in Hn. inversion Hn as [|? ? Hna Hn']; subst.
    destruct Hp as [<-|Hp], Hq as [<-|Hq].
    - reflexivity.
    - exfalso. apply Hna. rewrite E. apply in_map. exact Hq.
    - exfalso. apply Hna. rewrite <- E. apply in_map. exact Hp.
    - apply IH; assumption.
  Qed.

  Lemma no_read_while_parked st ev x t :
    NoDup (map p_id (st_ports st)) -> parked_since st x t ->
    (forall outs, ev = Pass outs -> st_now st - t <= retry_ms) -> ~ In (ORead x) (step_obs st ev).
  Proof.
    intros Hn (p & Hp & He & Hk) Hev Hin. destruct ev as [dt|y v|y v r|outs|y]; simpl in Hin.
    - contradiction.
    - contradiction.
    - destruct Hin as [Hin|[]]. discriminate.
    - unfold Model.pass_obs in Hin. apply in_app_or in Hin. destruct Hin as [Hin|Hin].
      + apply in_flat_map in Hin. destruct Hin as (q & Hq & Hin). unfold poll_obs in Hin.
        apply in_app_or in Hin. destruct Hin as [Hin|Hin].
        * destruct (p_enabled q && second_changed st); [|contradiction]. destruct Hin as [Hin|[]]. discriminate.
        * destruct (is_read (st_now st) q) eqn:Hr; [|contradiction]. destruct Hin as [Hin|[]].
          injection Hin as Hid.
          assert (q = p).
          { apply (nodup_id_inj (st_ports st)); [exact Hn|exact Hq|exact (port_of_in _ _ _ Hp)|].
            rewrite Hid. symmetry. exact (port_of_id _ _ _ Hp). }
          subst q. rewrite (parked_not_read _ _ _ Hk (Hev outs eq_refl)) in Hr. discriminate.
      + apply in_app_or in Hin. destruct Hin as [Hin|Hin].
        * apply in_flat_map in Hin. destruct Hin as (q & _ & Hin). unfold change_obs in Hin.
          destruct (_ || _); [contradiction|]. destruct Hin as [Hin|[]]. discriminate.
        * apply in_flat_map in Hin. destruct Hin as (q & _ & Hin). unfold Model.push_obs in Hin.
          destruct (needs_eval _ q); [|contradiction]. destruct Hin as [Hin|[]]. discriminate.
    - apply in_flat_map in Hin. destruct Hin as (q & _ & Hin). destruct (p_id q =? y); [|contradiction].
      unfold eval_obs in Hin. destruct (p_evalq q) as [|[z| |] l]; try contradiction;
        (destruct (value_eqb _ _); [contradiction|]; destruct Hin as [Hin|[]]; discriminate).
  Qed.

  Lemma left_alone_while_parked st tr x t :
    NoDup (map p_id (st_ports st)) -> parked_since st x t ->
    Forall (fun u => u - t <= retry_ms) (pass_times st tr) ->
    ~ In (ORead x) (run_obs st tr) /\ parked_since (run_st st tr) x t /\ last_of (run_st st tr) x = last_of st x.
  Proof.
    revert st. induction tr as [|ev tr IH]; intros st Hn Hp Ht; [simpl; tauto|].
    simpl in *. apply Forall_app in Ht. destruct Ht as [Ht1 Ht2].
    assert (Hev : forall outs, ev = Pass outs -> st_now st - t <= retry_ms).
    { intros outs ->. inversion Ht1. assumption. }
    pose proof (parked_since_step st ev x t Hp Hev) as Hp'.
    assert (Hn' : NoDup (map p_id (st_ports (step_st st ev)))) by (rewrite ids_step; exact Hn).
    destruct (IH _ Hn' Hp' Ht2) as (I1 & I2 & I3). split; [|split].
    - intros Hin. apply in_app_or in Hin. destruct Hin as [Hin|Hin]; [|exact (I1 Hin)].
      exact (no_read_while_parked st ev x t Hn Hp Hev Hin).
    - exact I2.
    - rewrite I3. apply last_of_step. intros outs q -> Hq. left.
      destruct Hp as (p & Hp & He & Hk). rewrite Hp in Hq. injection Hq as <-.
      apply (parked_not_read _ t); [exact Hk|]. apply Hev with outs. reflexivity.
  Qed.

  (* ---- retried at the first pass after the interval; recovers when the driver does *)
  Lemma retried_after_interval st outs x t :
    parked_since st x t -> st_now st - t > retry_ms ->
    In (ORead x) (step_obs st (Pass outs))
    /\ (po_rd (out_of outs x) = RVal ->
        last_of (step_st st (Pass outs)) x = drv_of st x /\ ~ (exists u, parked_since (step_st st (Pass outs)) x u)).
  Proof.
    intros (p & Hp & He & Hk) Hgt.
    assert (Hr : is_read (st_now st) p = true).
    { unfold is_read, is_parked. rewrite He, Hk. simpl. destruct (Z.leb_spec (st_now st - t) retry_ms); [lia|reflexivity]. }
    split.
    - simpl. unfold Model.pass_obs. apply in_or_app. left. apply in_flat_map. exists p. split; [exact (port_of_in _ _ _ Hp)|].
      unfold poll_obs. apply in_or_app. right. rewrite Hr. left. rewrite (port_of_id _ _ _ Hp). reflexivity.
    - intros Ho. unfold last_of, drv_of, parked_since. cbn [Model.step_st]. rewrite port_of_pass, Hp. simpl. split.
      + rewrite push_st_last. unfold poll_st. rewrite Hr, Ho.
        destruct (value_eqb (p_drv p) (p_last p)) eqn:E; simpl; [|reflexivity].
        unfold value_eqb, option_eqb in E. destruct (p_drv p), (p_last p); try discriminate; [|reflexivity].
        apply Z.eqb_eq in E. subst. reflexivity.
      + intros (u & q & Hq & _ & Hku). injection Hq as <-. rewrite push_st_parked in Hku.
        unfold poll_st in Hku. rewrite Hr, Ho in Hku. destruct (value_eqb _ _); discriminate.
  Qed.

  Theorem retry_and_recover st x p outs tr outs' :
    NoDup (map p_id (st_ports st)) ->
    port_of (st_ports st) x = Some p -> is_read (st_now st) p = true ->        (* x is polled at this pass ... *)
    po_rd (out_of outs x) = RErr ->                                            (* ... and its driver raises *)
    let t := st_now st in
    let st1 := step_st st (Pass outs) in
    Forall (fun u => u - t <= retry_ms) (pass_times st1 tr) ->                 (* whatever happens within the next 10 s *)
    let st2 := run_st st1 tr in
    ~ In (ORead x) (run_obs st1 tr)                                            (* the driver is not asked again *)
    /\ last_of st2 x = last_of st x                                            (* the last good value stays *)
    /\ (st_now st2 - t > retry_ms ->                                           (* at the first pass after the interval *)
        In (ORead x) (step_obs st2 (Pass outs'))                               (*   the port is read again *)
        /\ (po_rd (out_of outs' x) = RVal ->                                   (*   and if the driver has recovered *)
            last_of (step_st st2 (Pass outs')) x = drv_of st2 x                (*   the port takes the driver's value *)
            /\ ~ (exists u, parked_since (step_st st2 (Pass outs')) x u))).    (*   and is polled normally from then on *)
  Proof.
    intros Hn Hp Hr Ho t st1 Ht st2.
    pose proof (read_error_parks st outs x p Hp Hr Ho) as Hpk. fold st1 in Hpk. fold t in Hpk.
    assert (Hn1 : NoDup (map p_id (st_ports st1))) by (unfold st1; rewrite ids_step; exact Hn).
    destruct (left_alone_while_parked st1 tr x t Hn1 Hpk Ht) as (I1 & I2 & I3). fold st2 in I2, I3.
    split; [exact I1|]. split.
    - rewrite I3. unfold st1. apply last_of_step_other. intros o Ho'. injection Ho' as <-. rewrite Ho. discriminate.
    - intros Hgt. exact (retried_after_interval st2 outs' x t I2 Hgt).
  Qed.
End Fault.
