(* C06 — the string codec round-trips: reading back the escaped text of a str of Unicode scalar values yields the str.
   Also: the snapshot's fast path (quote + s + quote, no escaping) is correct on plain text and refuted on the three characters a, double quote, b. *)
From QT Require Import C06.JsonStr.
From Coq Require Import ZifyBool.
Open Scope Z_scope.

Ltac Zify.zify_post_hook ::= Z.to_euclidean_division_equations.

(* ------------------------------------------------------------------------------------------------------------ *)
(* one-step lemmas about [scan] *)

Lemma scan_plain : forall c r pend acc,
  32 <= c -> c <> 34 -> c <> 92 -> scan (c :: r) pend acc = scan r None (c :: flush pend acc).
Proof.
  intros c r pend acc H32 H34 H92. cbn [scan].
  destruct (c =? 34) eqn:E1; [apply Z.eqb_eq in E1; contradiction|].
  destruct (c =? 92) eqn:E2; [apply Z.eqb_eq in E2; contradiction|].
  destruct (c <? 32) eqn:E3; [apply Z.ltb_lt in E3; lia|].
  reflexivity.
Qed.

Lemma scan_bs : forall e r pend acc,
  scan (92 :: e :: r) pend acc =
  if e =? 117 then
    match r with
    | a :: b :: c' :: d :: r'' =>
        match parse4 a b c' d with
        | Some u => let '(p, acc') := push_u pend acc u in scan r'' p acc'
        | None => None
        end
    | _ => None
    end
  else match simple_escape e with
       | Some x => scan r None (x :: flush pend acc)
       | None => None
       end.
Proof. reflexivity. Qed.

Lemma scan_simple : forall e x r pend acc,
  simple_escape e = Some x -> e <> 117 -> scan (92 :: e :: r) pend acc = scan r None (x :: flush pend acc).
Proof.
  intros e x r pend acc H Hn. rewrite scan_bs.
  destruct (e =? 117) eqn:E; [apply Z.eqb_eq in E; contradiction|].
  rewrite H. reflexivity.
Qed.

Lemma scan_u : forall a b c d u r pend acc,
  parse4 a b c d = Some u ->
  scan (92 :: 117 :: a :: b :: c :: d :: r) pend acc = let '(p, acc') := push_u pend acc u in scan r p acc'.
Proof.
  intros a b c d u r pend acc H. rewrite scan_bs.
  change (117 =? 117) with true. cbv iota. rewrite H. reflexivity.
Qed.

(* ------------------------------------------------------------------------------------------------------------ *)
(* hexadecimal digits *)

Lemma hexv_hexd : forall d, 0 <= d < 16 -> hexv (hexd d) = Some d.
Proof.
  intros d H.
  assert (H' : d = 0 \/ d = 1 \/ d = 2 \/ d = 3 \/ d = 4 \/ d = 5 \/ d = 6 \/ d = 7 \/ d = 8 \/ d = 9 \/
               d = 10 \/ d = 11 \/ d = 12 \/ d = 13 \/ d = 14 \/ d = 15) by lia.
  repeat (destruct H' as [H'|H']; [subst d; reflexivity|]).
  subst d; reflexivity.
Qed.

Lemma parse4_hex4 : forall n, 0 <= n < 65536 ->
  parse4 (hexd (n / 4096)) (hexd (n / 256 mod 16)) (hexd (n / 16 mod 16)) (hexd (n mod 16)) = Some n.
Proof.
  intros n H. unfold parse4.
  rewrite (hexv_hexd (n / 4096)) by lia.
  rewrite (hexv_hexd (n / 256 mod 16)) by lia.
  rewrite (hexv_hexd (n / 16 mod 16)) by lia.
  rewrite (hexv_hexd (n mod 16)) by lia.
  f_equal. lia.
Qed.

Lemma scan_uesc : forall n r pend acc, 0 <= n < 65536 ->
  scan (uesc n ++ r) pend acc = let '(p, acc') := push_u pend acc n in scan r p acc'.
Proof.
  intros n r pend acc H. unfold uesc, hex4. cbn [app].
  apply scan_u. apply parse4_hex4. exact H.
Qed.

(* ------------------------------------------------------------------------------------------------------------ *)
(* surrogates *)

Lemma is_high_false : forall c, ~ (55296 <= c <= 57343) -> is_high c = false.
Proof.
  intros c H. unfold is_high.
  destruct (55296 <=? c) eqn:A; destruct (c <=? 56319) eqn:B; try reflexivity.
  apply Z.leb_le in A. apply Z.leb_le in B. exfalso. apply H. lia.
Qed.

Lemma is_high_true : forall u, 55296 <= u <= 56319 -> is_high u = true.
Proof.
  intros u [A B]. unfold is_high. apply Z.leb_le in A. apply Z.leb_le in B. rewrite A, B. reflexivity.
Qed.

Lemma is_low_true : forall u, 56320 <= u <= 57343 -> is_low u = true.
Proof.
  intros u [A B]. unfold is_low. apply Z.leb_le in A. apply Z.leb_le in B. rewrite A, B. reflexivity.
Qed.

(* ------------------------------------------------------------------------------------------------------------ *)
(* one source character *)

Lemma scan_esc_char : forall c r acc, scalar_cp c -> scan (esc_char c ++ r) None acc = scan r None (c :: acc).
Proof.
  intros c r acc [Hr Hs]. unfold esc_char.
  destruct (c =? 34) eqn:E1; [apply Z.eqb_eq in E1; subst c; reflexivity|].
  destruct (c =? 92) eqn:E2; [apply Z.eqb_eq in E2; subst c; reflexivity|].
  destruct (c =? 10) eqn:E3; [apply Z.eqb_eq in E3; subst c; reflexivity|].
  destruct (c =? 13) eqn:E4; [apply Z.eqb_eq in E4; subst c; reflexivity|].
  destruct (c =? 9) eqn:E5; [apply Z.eqb_eq in E5; subst c; reflexivity|].
  destruct (c =? 8) eqn:E6; [apply Z.eqb_eq in E6; subst c; reflexivity|].
  destruct (c =? 12) eqn:E7; [apply Z.eqb_eq in E7; subst c; reflexivity|].
  apply Z.eqb_neq in E1. apply Z.eqb_neq in E2.
  destruct ((32 <=? c) && (c <=? 126)) eqn:E8.
  - apply andb_true_iff in E8. destruct E8 as [A B]. apply Z.leb_le in A.
    change ([c] ++ r) with (c :: r).
    rewrite scan_plain by assumption. reflexivity.
  - destruct (c <? 65536) eqn:E9.
    + apply Z.ltb_lt in E9.
      rewrite scan_uesc by lia.
      unfold push_u. rewrite (is_high_false c Hs). reflexivity.
    + apply Z.ltb_ge in E9.
      assert (Hhi : 55296 <= 55296 + (c - 65536) / 1024 <= 56319) by lia.
      assert (Hlo : 56320 <= 56320 + (c - 65536) mod 1024 <= 57343) by lia.
      assert (Hc : 65536 + ((55296 + (c - 65536) / 1024) - 55296) * 1024
                   + ((56320 + (c - 65536) mod 1024) - 56320) = c) by lia.
      set (hi := 55296 + (c - 65536) / 1024) in *.
      set (lo := 56320 + (c - 65536) mod 1024) in *.
      clearbody hi lo.
      rewrite <- app_assoc.
      rewrite scan_uesc by lia.
      unfold push_u at 1. rewrite (is_high_true hi Hhi).
      rewrite scan_uesc by lia.
      unfold push_u. rewrite (is_low_true lo Hlo).
      rewrite Hc. reflexivity.
Qed.

(* ------------------------------------------------------------------------------------------------------------ *)
(* the round trip *)

Lemma scan_esc_chars : forall s acc,
  Forall scalar_cp s -> scan (esc_chars s ++ [34]) None acc = Some (rev acc ++ s).
Proof.
  induction s as [|c s IH]; intros acc H.
  - rewrite app_nil_r. reflexivity.
  - inversion H as [|c' s' Hc Hs]; subst.
    cbn [esc_chars]. rewrite <- app_assoc.
    rewrite scan_esc_char by assumption.
    rewrite IH by assumption.
    cbn [rev]. rewrite <- app_assoc. reflexivity.
Qed.

Theorem json_string_roundtrip : forall s : str, Forall scalar_cp s -> read_str (escape s) = Some s.
Proof.
  intros s H. unfold escape. cbn [read_str].
  rewrite scan_esc_chars by assumption. reflexivity.
Qed.

(* ------------------------------------------------------------------------------------------------------------ *)
(* the snapshot's fast path *)

Lemma scan_plain_chars : forall s acc,
  Forall (fun c => 32 <= c /\ c <> 34 /\ c <> 92) s -> scan (s ++ [34]) None acc = Some (rev acc ++ s).
Proof.
  induction s as [|c s IH]; intros acc H.
  - rewrite app_nil_r. reflexivity.
  - inversion H as [|c' s' Hc Hs]; subst. destruct Hc as [A [B C]].
    change ((c :: s) ++ [34]) with (c :: (s ++ [34])).
    rewrite scan_plain by assumption.
    cbn [flush]. rewrite IH by assumption.
    cbn [rev]. rewrite <- app_assoc. reflexivity.
Qed.

Lemma fastpath_plain_ok : forall s : str,
  Forall (fun c => 32 <= c /\ c <> 34 /\ c <> 92) s -> read_str (dumps_fast s) = Some s.
Proof.
  intros s H. unfold dumps_fast. cbn [read_str].
  rewrite scan_plain_chars by assumption. reflexivity.
Qed.

Lemma fastpath_refuted : exists s : str, Forall scalar_cp s /\ read_str (dumps_fast s) <> Some s.
Proof.
  exists [97; 34; 98]. split.
  - repeat apply Forall_cons; try apply Forall_nil; unfold scalar_cp; lia.
  - vm_compute. intro H. discriminate H.
Qed.

Print Assumptions json_string_roundtrip.
Print Assumptions fastpath_plain_ok.
Print Assumptions fastpath_refuted.
