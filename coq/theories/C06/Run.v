(* C06 — dispatch used by the generated case files.
   A case is one operation sequence run against one real driver: every step carries the operation, the output the
   implementation produced, and (unordered drivers, queries) the order in which the driver's id set was iterated.
     bad_spec  cases : 1000 * case + step  of the first step where the implementation contradicts the reference store
     bad_model cases : 1000 * case + step  of the first step where the driver model differs from the implementation *)
From QT Require Export C06.RefStore C06.JsonStr C06.JsonDriver C06.RedisDriver C06.MongoXlate.
Open Scope Z_scope.

Definition fields_eqb (a b : fields) : bool :=
  list_eqb (fun x y => str_eqb (fst x) (fst y) && jv_eqb (snd x) (snd y)) a b.

Definition out_eqb (a b : out) : bool :=
  match a, b with
  | OId x, OId y => str_eqb x y
  | ODup, ODup => true
  | OCount x, OCount y => x =? y
  | OBool x, OBool y => Bool.eqb x y
  | ORecs x, ORecs y => list_eqb fields_eqb x y
  | OErr, OErr => true
  | _, _ => false
  end.

Fixpoint nodupb (l : list str) : bool :=
  match l with [] => true | x :: t => negb (existsb (str_eqb x) t) && nodupb t end.

(* the collection listed in the order [perm] (which must name exactly its records) *)
Definition reorder (perm : list str) (l : list record) : option (list record) :=
  if Nat.eqb (List.length perm) (List.length l) && nodupb perm && forallb (fun i => id_used i l) perm
  then Some (flat_map (fun i => filter (has_id i) l) perm)
  else None.

Definition stepc := (op * out * option (list str))%type.

(* specification oracle: the reference store follows the implementation's choices (automatic ids, iteration order),
   checks they are legal, and compares every output *)
Fixpoint spec_bad (s : store) (steps : list stepc) (i : nat) : option nat :=
  match steps with
  | [] => None
  | (o, x, hint) :: r =>
      let c := op_coll o in
      let s1 := match hint with
                | None => Some s
                | Some perm => match reorder perm (get_coll c s) with Some l' => Some (set_coll c l' s) | None => None end
                end in
      match s1 with
      | None => Some i
      | Some s1 =>
          let fresh := match x with OId j => j | _ => [] end in
          let '(s2, y, ok) := ref_step fresh s1 o in
          if ok && out_eqb y x then spec_bad s2 r (S i) else Some i
      end
  end.

Fixpoint first_diff (a b : list out) (i : nat) : option nat :=
  match a, b with
  | [], [] => None
  | x :: a', y :: b' => if out_eqb x y then first_diff a' b' (S i) else Some i
  | _, _ => Some i
  end.

(* driver kinds: 0 JSON driver, 1 Redis driver, 2 Mongo driver (its model is the reference store behind MongoXlate;
   the translation functions are compared separately by [bad_xlate]) *)
Definition model_bad (kind : Z) (steps : list stepc) : option nat :=
  let ops := map (fun t => fst (fst t)) steps in
  let outs := map (fun t => snd (fst t)) steps in
  match kind with
  | 0 => first_diff (json_run true [] ops) outs 0
  | 1 => first_diff (redis_run false true rempty (map (fun t => (fst (fst t), snd t)) steps)) outs 0
  | _ => None
  end.

Fixpoint collect (f : Z * list stepc -> option nat) (cases : list (Z * list stepc)) (k : Z) : list Z :=
  match cases with
  | [] => []
  | c :: r => match f c with
              | Some i => (1000 * k + Z.of_nat i) :: collect f r (k + 1)
              | None => collect f r (k + 1)
              end
  end.

Definition bad_spec (cases : list (Z * list stepc)) : list Z := collect (fun c => spec_bad [] (snd c) 0) cases 0.
Definition bad_model (cases : list (Z * list stepc)) : list Z := collect (fun c => model_bad (fst c) (snd c)) cases 0.

(* the translation functions of the Mongo driver: (id, is ObjectId?) and (operator, translated name) pairs observed on
   the real _id_to_db / _filt_to_db *)
Definition bad_xlate (ids : list (str * bool)) (ops : list (fop * str)) : list nat :=
  mismatches (fun ib => Bool.eqb (match id_to_db (fst ib) with DOid _ => true | DStr _ => false end) (snd ib)
                        && str_eqb (id_from_db (id_to_db (fst ib))) (fst ib)) ids 0
  ++ mismatches (fun on => str_eqb (op_name (fst on)) (snd on)) ops 1000.

(* string codec cases: (s, text written by _value_to_db, what _value_from_db returned: Some s' / None = raised) *)
Definition bad_codec (fast : bool) (cases : list (str * list Z * option str)) : list nat :=
  mismatches (fun c => let '(s, t, back) := c in
                       list_eqb Z.eqb (dumps_str fast s) t && option_eqb str_eqb (read_str t) back) cases 0.
