(* C06 — the JSON driver model refines the reference store: simulation invariant over the operation list. *)
From QT Require Import C06.RefStore C06.JsonDriver C06.Lemmas C06.SortThm C06.OrderThm.
Open Scope Z_scope.
Local Arguments str_eqb : simpl never.
Local Arguments lookup : simpl never.

(* ------------------------------------------------------------------------------------------------------------ *)
(* decimal identifiers: int(str(n)) = n, so 1 + max is a new key *)

Lemma digit_ok : forall d, 0 <= d <= 9 -> digit (48 + d) = Some d.
Proof.
  intros d H. unfold digit.
  destruct (48 <=? 48 + d) eqn:A; [|apply Z.leb_gt in A; lia].
  destruct (48 + d <=? 57) eqn:B; [|apply Z.leb_gt in B; lia].
  cbn [andb]. f_equal. lia.
Qed.

Lemma parse_dec_fuel : forall fuel n acc, 0 <= n < 10 ^ Z.of_nat fuel ->
  exists k, forall a, parse_digits (dec_fuel fuel n acc) a = parse_digits acc (a * k + n).
Proof.
  induction fuel as [|f IH]; intros n acc H.
  - exists 1. intro a. cbn [dec_fuel]. change (10 ^ Z.of_nat 0) with 1 in H. f_equal. lia.
  - cbn [dec_fuel]. assert (D : 0 <= n mod 10 <= 9) by (pose proof (Z.mod_pos_bound n 10); lia).
    destruct (n <? 10) eqn:E.
    + apply Z.ltb_lt in E. exists 10. intro a. cbn [parse_digits]. rewrite digit_ok by assumption.
      f_equal. rewrite Z.mod_small by lia. reflexivity.
    + apply Z.ltb_ge in E.
      assert (Hn : 0 <= n / 10 < 10 ^ Z.of_nat f).
      { rewrite Nat2Z.inj_succ, Z.pow_succ_r in H by lia. split; [apply Z.div_pos; lia|].
        apply Z.div_lt_upper_bound; lia. }
      destruct (IH (n / 10) ((48 + n mod 10) :: acc) Hn) as [k Hk].
      exists (k * 10). intro a. rewrite Hk. cbn [parse_digits]. rewrite digit_ok by assumption.
      f_equal. pose proof (Z.div_mod n 10). lia.
Qed.

Lemma dec_fuel_head : forall fuel n acc, 0 <= n -> (0 < fuel)%nat ->
  exists d rest, dec_fuel fuel n acc = d :: rest /\ 48 <= d <= 57.
Proof.
  induction fuel as [|f IH]; intros n acc Hn Hf; [lia|].
  cbn [dec_fuel]. assert (D : 0 <= n mod 10 <= 9) by (pose proof (Z.mod_pos_bound n 10); lia).
  destruct (n <? 10).
  - exists (48 + n mod 10), acc. split; [reflexivity|lia].
  - destruct f as [|f'].
    + cbn [dec_fuel]. exists (48 + n mod 10), acc. split; [reflexivity|lia].
    + apply IH; [apply Z.div_pos; lia|lia].
Qed.

Lemma parse_int_dec : forall n, 0 <= n -> parse_int (dec n) = Some n.
Proof.
  intros n Hn. unfold dec. destruct (n <? 0) eqn:E; [apply Z.ltb_lt in E; lia|].
  set (fuel := S (Z.to_nat (Z.log2 n))).
  assert (B : 0 <= n < 10 ^ Z.of_nat fuel).
  { split; [assumption|]. unfold fuel. rewrite Nat2Z.inj_succ, Z2Nat.id by apply Z.log2_nonneg.
    destruct (Z.eq_dec n 0) as [->|N0]; [cbn; lia|].
    assert (n < 2 ^ Z.succ (Z.log2 n)) by (apply Z.log2_spec; lia).
    assert (2 ^ Z.succ (Z.log2 n) <= 10 ^ Z.succ (Z.log2 n)).
    { apply Z.pow_le_mono_l. lia. }
    lia. }
  destruct (parse_dec_fuel fuel n [] B) as [k Hk].
  destruct (dec_fuel_head fuel n [] Hn) as [d [rest [Hd Rd]]]; [unfold fuel; lia|].
  assert (P : parse_digits (dec_fuel fuel n []) 0 = Some n) by (rewrite Hk; cbn; f_equal; lia).
  rewrite Hd in *. unfold parse_int.
  destruct (Z.eq_dec d 45); [lia|]. destruct (Z.eq_dec d 43); [lia|].
  destruct d as [|p|p]; try lia.
  repeat (destruct p as [p|p|]; try lia; try exact P).
Qed.

(* ------------------------------------------------------------------------------------------------------------ *)
(* the invariant of one collection: keys are distinct and each record carries its key as "id" *)

Definition jinv (jl : jcoll) : Prop :=
  NoDup (map fst jl) /\ Forall (fun kr => lookup ID (snd kr) = Some (JStr (fst kr))) jl.

Lemma has_id_of : forall i k r, lookup ID r = Some (JStr k) -> has_id i r = str_eqb i k.
Proof. unfold has_id, rec_id. intros i k r H. rewrite H. reflexivity. Qed.

Lemma dget_none : forall i jl, dget i jl = None <-> ~ In i (map fst jl).
Proof.
  intros i jl. induction jl as [|[k r] t IH]; cbn; [tauto|].
  destruct (str_eqb i k) eqn:E.
  - apply str_eqb_eq in E. subst. split; [discriminate|]. intro H. exfalso. apply H. left. reflexivity.
  - apply str_eqb_neq in E. rewrite IH. split; intro H; [intros [A|A]; [congruence|tauto]|tauto].
Qed.

Lemma id_used_dget : forall i jl, Forall (fun kr => lookup ID (snd kr) = Some (JStr (fst kr))) jl ->
  id_used i (map snd jl) = match dget i jl with Some _ => true | None => false end.
Proof.
  intros i jl H. unfold id_used. induction H as [|[k r] t Hk _ IH]; cbn; [reflexivity|].
  cbn in Hk. rewrite (has_id_of i k r Hk). destruct (str_eqb i k); cbn; [reflexivity|exact IH].
Qed.

Lemma dset_new : forall i x jl, dget i jl = None -> dset i x jl = jl ++ [(i, x)].
Proof.
  intros i x jl. induction jl as [|[k r] t IH]; cbn; intro H; [reflexivity|].
  destruct (str_eqb i k); [discriminate|]. rewrite IH by assumption. reflexivity.
Qed.

(* one key, a property of its record *)
Section ByKey.
  Variable i : str.
  Variable P : record -> bool.
  Definition khit (kr : str * record) : bool := str_eqb (fst kr) i && P (snd kr).

  Lemma khit_notin : forall jl, ~ In i (map fst jl) -> forall kr, In kr jl -> khit kr = false.
  Proof.
    intros jl N [k r] H. unfold khit. cbn. destruct (str_eqb k i) eqn:E; [|reflexivity].
    apply str_eqb_eq in E. subst. exfalso. apply N. apply in_map_iff. exists (i, r). split; [reflexivity|assumption].
  Qed.

  Lemma filter_none : forall (q : str * record -> bool) jl, (forall kr, In kr jl -> q kr = false) -> filter q jl = [].
  Proof.
    intros q jl H. induction jl as [|a t IH]; cbn; [reflexivity|].
    rewrite (H a) by (left; reflexivity). apply IH. intros kr Hk. apply H. right. assumption.
  Qed.

  Lemma filter_all : forall (q : str * record -> bool) jl, (forall kr, In kr jl -> q kr = true) -> filter q jl = jl.
  Proof.
    intros q jl H. induction jl as [|a t IH]; cbn; [reflexivity|].
    rewrite (H a) by (left; reflexivity). f_equal. apply IH. intros kr Hk. apply H. right. assumption.
  Qed.

  Lemma filter_khit : forall jl, NoDup (map fst jl) ->
    filter khit jl = match dget i jl with Some r => if P r then [(i, r)] else [] | None => [] end.
  Proof.
    induction jl as [|[k r] t IH]; cbn; intro ND; [reflexivity|].
    inversion ND as [|? ? Nk ND']; subst. unfold khit at 1. cbn. rewrite (str_eqb_sym i k).
    destruct (str_eqb k i) eqn:E; cbn.
    - apply str_eqb_eq in E. subst k. rewrite (filter_none khit t (khit_notin t Nk)). destruct (P r); reflexivity.
    - apply IH. assumption.
  Qed.

  Lemma map_khit : forall (g : record -> record) jl, NoDup (map fst jl) ->
    map (fun kr => if khit kr then (fst kr, g (snd kr)) else kr) jl
    = match dget i jl with Some r => if P r then dset i (g r) jl else jl | None => jl end.
  Proof.
    intros g. induction jl as [|[k r] t IH]; cbn; intro ND; [reflexivity|].
    inversion ND as [|? ? Nk ND']; subst. unfold khit at 1. cbn. rewrite (str_eqb_sym i k).
    destruct (str_eqb k i) eqn:E; cbn.
    - apply str_eqb_eq in E. subst k.
      assert (T : map (fun kr => if khit kr then (fst kr, g (snd kr)) else kr) t = t).
      { rewrite <- (map_id t) at 2. apply map_ext_in. intros kr Hk. rewrite (khit_notin t Nk kr Hk). reflexivity. }
      rewrite T. destruct (P r); reflexivity.
    - rewrite (IH ND'). destruct (dget i t) as [r'|]; [|reflexivity]. destruct (P r'); reflexivity.
  Qed.

  Lemma filter_not_khit : forall jl, NoDup (map fst jl) ->
    filter (fun kr => negb (khit kr)) jl
    = match dget i jl with Some r => if P r then dpop i jl else jl | None => jl end.
  Proof.
    induction jl as [|[k r] t IH]; cbn; intro ND; [reflexivity|].
    inversion ND as [|? ? Nk ND']; subst. unfold khit at 1. cbn. rewrite (str_eqb_sym i k).
    destruct (str_eqb k i) eqn:E; cbn.
    - apply str_eqb_eq in E. subst k.
      assert (T : filter (fun kr => negb (khit kr)) t = t).
      { apply filter_all. intros kr Hk. rewrite (khit_notin t Nk kr Hk). reflexivity. }
      rewrite T. destruct (P r); reflexivity.
    - rewrite (IH ND'). destruct (dget i t) as [r'|]; [|reflexivity]. destruct (P r'); reflexivity.
  Qed.
End ByKey.

(* ------------------------------------------------------------------------------------------------------------ *)
(* every path of the driver selects exactly the records the specification's [matches] selects *)

Definition jhit (f : filt) (kr : str * record) : bool := matches f (snd kr).

Lemma py_eq_str : forall a b, py_eq (JStr a) (JStr b) = str_eqb a b.
Proof. reflexivity. Qed.

Lemma fast_id_spec : forall f i, fast_id f = Some i -> fget ID f = Some (FEq (JStr i)).
Proof.
  unfold fast_id. intros f i H. destruct (fget ID f) as [[v|l]|]; try discriminate.
  destruct v; try discriminate. inversion H; subst. reflexivity.
Qed.

Lemma jhit_fast : forall f i jl, fast_id f = Some i ->
  Forall (fun kr => lookup ID (snd kr) = Some (JStr (fst kr))) jl ->
  forall kr, In kr jl -> jhit f kr = khit i (fun r => filter_matches r (fpop ID f)) kr.
Proof.
  intros f i jl H Inv kr Hk. rewrite Forall_forall in Inv. specialize (Inv kr Hk).
  unfold jhit, khit. pose proof (matches_fpop ID f _ (snd kr) (fast_id_spec f i H)) as Q.
  rewrite Inv in Q. cbn [cond_holds] in Q. rewrite py_eq_str in Q. rewrite filter_matches_spec. exact Q.
Qed.

Lemma jhit_scan : forall f jl, Forall (fun kr => lookup ID (snd kr) = Some (JStr (fst kr))) jl ->
  forall kr, In kr jl -> jhit f kr = filter_matches (with_id (fst kr) (snd kr)) f.
Proof.
  intros f jl Inv kr Hk. rewrite Forall_forall in Inv. specialize (Inv kr Hk).
  unfold jhit. rewrite filter_matches_spec. symmetry. apply matches_same_lookups. apply with_id_same_lookups. assumption.
Qed.

Lemma filter_ext_in' : forall (A : Type) (p q : A -> bool) l, (forall x, In x l -> p x = q x) -> filter p l = filter q l.
Proof.
  intros A p q l H. induction l as [|a t IH]; cbn; [reflexivity|].
  rewrite (H a) by (left; reflexivity). rewrite IH; [reflexivity|]. intros x Hx. apply H. right. assumption.
Qed.

Lemma filter_map_snd : forall (p : record -> bool) (jl : jcoll),
  filter p (map snd jl) = map snd (filter (fun kr => p (snd kr)) jl).
Proof.
  intros p jl. induction jl as [|[k r] t IH]; cbn; [reflexivity|]. destruct (p r); cbn; rewrite IH; reflexivity.
Qed.

Lemma count_map_snd : forall (p : record -> bool) (jl : jcoll), count p (map snd jl) = count (fun kr => p (snd kr)) jl.
Proof. intros. unfold count. rewrite filter_map_snd, map_length. reflexivity. Qed.

Lemma json_select_spec : forall f jl, jinv jl -> json_select f jl = filter (matches f) (map snd jl).
Proof.
  intros f jl [ND Inv]. rewrite filter_map_snd. fold (jhit f). unfold json_select.
  destruct (fast_id f) as [i|] eqn:F.
  - rewrite (filter_ext_in' _ _ _ jl (jhit_fast f i jl F Inv)), filter_khit by assumption.
    destruct (dget i jl) as [r|]; [|reflexivity]. destruct (filter_matches r (fpop ID f)); reflexivity.
  - f_equal. symmetry. apply filter_ext_in'. apply jhit_scan. assumption.
Qed.

(* ------------------------------------------------------------------------------------------------------------ *)
(* sorting: the passes of list.sort, last key first, are the specification's single lexicographic stable sort *)

Definition no_id_key (srt : list (str * bool)) : bool := forallb (fun fd => negb (str_eqb (fst fd) ID)) srt.

Definition pass_key (fd : str * bool) : (record -> record -> bool) * bool :=
  (fun a b => py_leb (fkey (fst fd) a) (fkey (fst fd) b), snd fd).

Lemma sort_pass_spec : forall fd l, str_eqb (fst fd) ID = false ->
  sort_pass fd l = Some (py_sort (fst (pass_key fd)) (snd (pass_key fd)) l).
Proof.
  intros fd l H. unfold sort_pass, sort_key, key_or_null, sort_key. rewrite H.
  assert (A : forallb (fun _ : record => true) l = true) by (induction l; cbn; auto).
  rewrite A. reflexivity.
Qed.

Lemma sort_passes_spec : forall rs l, no_id_key rs = true ->
  sort_passes rs l = Some (fold_left (fun acc k => py_sort (fst k) (snd k) acc) (map pass_key rs) l).
Proof.
  induction rs as [|fd t IH]; intros l H; cbn; [reflexivity|].
  cbn in H. apply andb_true_iff in H. destruct H as [H1 H2]. apply negb_true_iff in H1.
  rewrite sort_pass_spec by assumption. apply IH. assumption.
Qed.

Lemma no_id_key_rev : forall s, no_id_key s = true -> no_id_key (rev s) = true.
Proof.
  intros s H. unfold no_id_key in *. rewrite forallb_forall in *. intros x Hx. apply H. apply in_rev. assumption.
Qed.

Lemma ins_ext : forall (A : Type) (le le' : A -> A -> bool) x l, (forall a b, le a b = le' a b) -> ins le x l = ins le' x l.
Proof. intros A le le' x l H. induction l as [|y t IH]; cbn; [reflexivity|]. rewrite H, IH. reflexivity. Qed.

Lemma isort_ext : forall (A : Type) (le le' : A -> A -> bool) l, (forall a b, le a b = le' a b) -> isort le l = isort le' l.
Proof. intros A le le' l H. induction l as [|y t IH]; cbn; [reflexivity|]. rewrite IH. apply ins_ext. assumption. Qed.

Lemma lexs_directed : forall s (a b : record), lexs (map directed (map pass_key s)) a b = lexs (map key_le s) a b.
Proof.
  induction s as [|[f r] t IH]; intros a b; cbn; [reflexivity|].
  unfold lex2. rewrite !IH. unfold directed, pass_key, key_le, flip. cbn. destruct r; reflexivity.
Qed.

Lemma json_sort_spec : forall s l, no_id_key s = true -> json_sort s l = Some (sort_spec s l).
Proof.
  intros s l H. unfold json_sort, sort_spec.
  rewrite sort_passes_spec by (apply no_id_key_rev; assumption). f_equal.
  rewrite map_rev, py_sorts_compose.
  - apply isort_ext. apply lexs_directed.
  - apply Forall_forall. intros k Hk. apply in_map_iff in Hk. destruct Hk as [fd [<- _]]. cbn.
    apply (py_leb_preorder_on record (fkey (fst fd))).
Qed.

(* ------------------------------------------------------------------------------------------------------------ *)
(* the automatic identifier is new *)

Lemma max_int_id_ge : forall (jl : jcoll) m0 k n, In k (map fst jl) -> parse_int k = Some n ->
  n <= fold_left (fun m kr => match parse_int (fst kr) with Some n => Z.max m n | None => m end) jl m0.
Proof.
  induction jl as [|[k' r] t IH]; intros m0 k n H P; [destruct H|].
  cbn [fold_left]. destruct H as [H|H].
  - cbn in H. subst k'. cbn [fst]. rewrite P.
    assert (G : forall (l : jcoll) m, m <= fold_left (fun m kr => match parse_int (fst kr) with Some n => Z.max m n | None => m end) l m).
    { clear. induction l as [|a l IH]; intro m; cbn; [lia|]. destruct (parse_int (fst a)); [|apply IH].
      etransitivity; [|apply IH]. lia. }
    etransitivity; [|apply G]. lia.
  - eapply IH; eassumption.
Qed.

Lemma max_int_id_nonneg : forall jl, 0 <= max_int_id jl.
Proof.
  intro jl. unfold max_int_id.
  assert (G : forall (l : jcoll) m, m <= fold_left (fun m kr => match parse_int (fst kr) with Some n => Z.max m n | None => m end) l m).
  { induction l as [|a l IH]; intro m; cbn; [lia|]. destruct (parse_int (fst a)); [|apply IH].
    etransitivity; [|apply IH]. lia. }
  apply G.
Qed.

Theorem find_next_id_fresh : forall jl, dget (find_next_id jl) jl = None.
Proof.
  intro jl. apply dget_none. intro H. unfold find_next_id in H.
  pose proof (max_int_id_nonneg jl) as N.
  pose proof (max_int_id_ge jl 0 _ _ H (parse_int_dec (max_int_id jl + 1) ltac:(lia))) as G.
  fold (max_int_id jl) in G. lia.
Qed.

(* ------------------------------------------------------------------------------------------------------------ *)
(* the simulation *)

Definition R (js : jstore) (rs : store) : Prop := forall c, jinv (jget c js) /\ get_coll c rs = map snd (jget c js).

Lemma R_update : forall js rs c jl, R js rs -> jinv jl -> R (jset c jl js) (set_coll c (map snd jl) rs).
Proof.
  intros js rs c jl H I c'. rewrite jget_jset, get_set_coll. destruct (str_eqb c' c); [split; [assumption|reflexivity]|apply H].
Qed.

Lemma NoDup_app_single : forall (l : list str) x, NoDup l -> ~ In x l -> NoDup (l ++ [x]).
Proof.
  intros l x ND. induction ND as [|a l Na ND IH]; cbn; intro H.
  - constructor; [intros []|constructor].
  - constructor.
    + intro I. apply in_app_or in I. destruct I as [I|[I|[]]]; [contradiction|]. apply H. left. symmetry. assumption.
    + apply IH. intro I. apply H. right. assumption.
Qed.

Lemma R_noop : forall js rs c, R js rs -> R js (set_coll c (map snd (jget c js)) rs).
Proof.
  intros js rs c H c'. rewrite get_set_coll. destruct (str_eqb c' c) eqn:E; [|apply H].
  apply str_eqb_eq in E. subst c'. split; [apply H|reflexivity].
Qed.

Lemma jinv_app : forall jl i x, jinv jl -> dget i jl = None -> lookup ID x = Some (JStr i) -> jinv (jl ++ [(i, x)]).
Proof.
  intros jl i x [ND Inv] H L. split.
  - rewrite map_app. cbn. apply NoDup_app_single; [assumption|]. apply dget_none. assumption.
  - apply Forall_app. split; [assumption|]. constructor; [exact L|constructor].
Qed.

Definition wf_op (o : op) : bool :=
  match o with
  | Update _ part _ => match lookup ID part with None => true | Some _ => false end
  | Query _ _ _ srt _ => no_id_key srt
  | _ => true
  end.

Lemma in_keys_filter : forall (q : str * record -> bool) jl x, In x (map fst (filter q jl)) -> In x (map fst jl).
Proof.
  intros q jl x H. apply in_map_iff in H. destruct H as [kr [E H]]. apply filter_In in H.
  apply in_map_iff. exists kr. tauto.
Qed.

Lemma jinv_filter : forall jl q, jinv jl -> jinv (filter q jl).
Proof.
  intros jl q [ND Inv]. split.
  - induction jl as [|[k r] t IH]; cbn; [constructor|].
    inversion ND as [|? ? Nk ND']; subst. inversion Inv; subst.
    destruct (q (k, r)); cbn; [|apply IH; assumption].
    constructor; [|apply IH; assumption]. intro H. apply Nk. eapply in_keys_filter. eassumption.
  - rewrite Forall_forall in *. intros kr H. apply filter_In in H. apply Inv. tauto.
Qed.

Lemma jinv_map : forall jl (h : str * record -> bool) (g : str * record -> record), jinv jl ->
  (forall kr, In kr jl -> h kr = true -> lookup ID (g kr) = Some (JStr (fst kr))) ->
  jinv (map (fun kr => if h kr then (fst kr, g kr) else kr) jl).
Proof.
  intros jl h g [ND Inv] H. split.
  - rewrite map_map. erewrite map_ext; [exact ND|]. intro kr. cbn. destruct (h kr); reflexivity.
  - rewrite Forall_forall in *. intros kr' Hk. apply in_map_iff in Hk. destruct Hk as [kr [<- Hk]].
    destruct (h kr) eqn:E; cbn; [apply H; assumption|apply Inv; assumption].
Qed.

Lemma dset_as_map : forall i x jl r0, NoDup (map fst jl) -> dget i jl = Some r0 ->
  dset i x jl = map (fun kr => if khit i (fun _ => true) kr then (fst kr, x) else kr) jl.
Proof.
  intros i x jl r0 ND H. rewrite (map_khit i (fun _ => true) (fun _ => x) jl ND), H. reflexivity.
Qed.

Lemma khit_true_key : forall i P kr, khit i P kr = true -> fst kr = i.
Proof. intros i P kr H. unfold khit in H. apply andb_true_iff in H. apply str_eqb_eq. tauto. Qed.

Lemma map_snd_upd : forall (h : str * record -> bool) (g : record -> record) (jl : jcoll),
  map snd (map (fun kr => if h kr then (fst kr, g (snd kr)) else kr) jl)
  = map (fun kr => if h kr then g (snd kr) else snd kr) jl.
Proof. intros. rewrite map_map. apply map_ext. intro kr. destruct (h kr); reflexivity. Qed.

Ltac fin := split; [reflexivity|split; [reflexivity|]].

(* one step of the driver is one step of the reference store that uses the driver's choice of identifier *)
Lemma json_step_sim : forall js rs o, R js rs -> wf_op o = true ->
  let '(js', x) := json_step true js o in
  let '(rs', y, ok) := ref_step (choice_of x) rs o in
  y = x /\ ok = true /\ R js' rs'.
Proof.
  intros js rs o HR W. destruct o as [c [i|] r | c part f | c i r | c f | c p f srt n]; cbn [json_step ref_step];
    destruct (HR c) as [[ND Inv] Hl]; set (jl := jget c js) in *; rewrite Hl.
  - (* insert with an explicit id *)
    rewrite (id_used_dget i jl Inv). destruct (dget i jl) as [r0|] eqn:D; cbn [choice_of].
    + fin; assumption.
    + rewrite (dset_new _ _ _ D).
      replace (map snd jl ++ [set_field ID (JStr i) r]) with (map snd (jl ++ [(i, with_id i r)]))
        by (rewrite map_app; reflexivity).
      fin. apply R_update; [assumption|]. apply jinv_app; [split; assumption|assumption|].
      unfold with_id. apply lookup_set_field_same.
  - (* insert with an automatic id *)
    cbn [choice_of]. pose proof (find_next_id_fresh jl) as D. set (i := find_next_id jl) in *.
    rewrite (id_used_dget i jl Inv), D. rewrite (dset_new _ _ _ D).
    replace (map snd jl ++ [set_field ID (JStr i) r]) with (map snd (jl ++ [(i, with_id i r)]))
      by (rewrite map_app; reflexivity).
    fin. apply R_update; [assumption|]. apply jinv_app; [split; assumption|assumption|].
    unfold with_id. apply lookup_set_field_same.
  - (* update *)
    cbn [wf_op] in W. destruct (lookup ID part) eqn:LP; [discriminate|].
    assert (G : forall (h : str * record -> bool), (forall kr, In kr jl -> jhit f kr = h kr) ->
              let jl' := map (fun kr => if h kr then (fst kr, merge (snd kr) part) else kr) jl in
              map (fun r0 => if matches f r0 then merge r0 part else r0) (map snd jl) = map snd jl'
              /\ count (matches f) (map snd jl) = count h jl /\ jinv jl').
    { intros h Hh jl'. split; [|split].
      - unfold jl'. rewrite (map_snd_upd h (fun r0 => merge r0 part)), map_map. apply map_ext_in.
        intros kr Hk. rewrite <- (Hh kr Hk). reflexivity.
      - rewrite count_map_snd. unfold count. f_equal. f_equal. apply filter_ext_in'. exact Hh.
      - apply (jinv_map jl h (fun kr => merge (snd kr) part)); [split; assumption|].
        intros kr Hk _. rewrite lookup_merge_other by assumption. rewrite Forall_forall in Inv. apply Inv. assumption. }
    destruct (fast_id f) as [i|] eqn:F.
    + destruct (G _ (jhit_fast f i jl F Inv)) as [G1 [G2 G3]].
      rewrite G1, G2. rewrite (map_khit i _ (fun r0 => merge r0 part) jl ND) in G3 |- *.
      unfold count. rewrite (filter_khit i _ jl ND).
      destruct (dget i jl) as [r0|] eqn:D; cbn [negb orb].
      * destruct (filter_matches r0 (fpop ID f)); cbn [choice_of List.length Z.of_nat];
          (fin; first [apply R_update; assumption|apply R_noop; assumption]).
      * cbn [choice_of List.length Z.of_nat]. fin. first [apply R_update; assumption|apply R_noop; assumption].
    + destruct (G _ (jhit_scan f jl Inv)) as [G1 [G2 G3]]. rewrite G1, G2. cbn [choice_of].
      fin. apply R_update; assumption.
  - (* replace *)
    rewrite (id_used_dget i jl Inv). destruct (dget i jl) as [r0|] eqn:D; cbn [choice_of].
    + rewrite (dset_as_map i _ jl r0 ND D).
      assert (E : map (fun x => if has_id i x then set_field ID (JStr i) r else x) (map snd jl)
                  = map snd (map (fun kr => if khit i (fun _ => true) kr then (fst kr, with_id i r) else kr) jl)).
      { rewrite (map_snd_upd _ (fun _ => with_id i r)), map_map. apply map_ext_in. intros kr Hk.
        rewrite Forall_forall in Inv. rewrite (has_id_of i (fst kr) (snd kr) (Inv kr Hk)).
        unfold khit. rewrite (str_eqb_sym i), andb_true_r. reflexivity. }
      rewrite E. fin. apply R_update; [assumption|].
      apply (jinv_map jl _ (fun _ => with_id i r)); [split; assumption|].
      intros kr _ Hh. rewrite (khit_true_key _ _ _ Hh). unfold with_id. apply lookup_set_field_same.
    + fin; assumption.
  - (* remove *)
    assert (G : forall (h : str * record -> bool), (forall kr, In kr jl -> jhit f kr = h kr) ->
              let jl' := filter (fun kr => negb (h kr)) jl in
              filter (fun r0 => negb (matches f r0)) (map snd jl) = map snd jl'
              /\ count (matches f) (map snd jl) = count h jl /\ jinv jl').
    { intros h Hh jl'. split; [|split].
      - unfold jl'. rewrite filter_map_snd. f_equal. apply filter_ext_in'. intros kr Hk.
        rewrite <- (Hh kr Hk). reflexivity.
      - rewrite count_map_snd. unfold count. f_equal. f_equal. apply filter_ext_in'. exact Hh.
      - apply jinv_filter. split; assumption. }
    destruct (fast_id f) as [i|] eqn:F.
    + destruct (G _ (jhit_fast f i jl F Inv)) as [G1 [G2 G3]].
      rewrite G1, G2. rewrite (filter_not_khit i _ jl ND) in G3 |- *.
      unfold count. rewrite (filter_khit i _ jl ND).
      destruct (dget i jl) as [r0|] eqn:D.
      * destruct (filter_matches r0 (fpop ID f)); cbn [choice_of List.length Z.of_nat];
          (fin; first [apply R_update; assumption|apply R_noop; assumption]).
      * cbn [choice_of List.length Z.of_nat]. fin. first [apply R_update; assumption|apply R_noop; assumption].
    + destruct (G _ (jhit_scan f jl Inv)) as [G1 [G2 G3]]. rewrite G1, G2. cbn [choice_of].
      fin. apply R_update; assumption.
  - (* query *)
    cbn [wf_op] in W. unfold json_query, query_spec.
    rewrite (json_select_spec f jl (conj ND Inv)), (json_sort_spec srt _ W). cbn [choice_of].
    fin; assumption.
Qed.

Definition wf_ops (ops : list op) : bool := forallb wf_op ops.

Lemma json_run_sim : forall ops js rs, R js rs -> wf_ops ops = true ->
  let outs := json_run true js ops in
  ref_outs rs (with_choices ops outs) = outs /\ ref_legal rs (with_choices ops outs) = true.
Proof.
  induction ops as [|o ops IH]; intros js rs HR W; [split; reflexivity|].
  cbn in W. apply andb_true_iff in W. destruct W as [W1 W2].
  pose proof (json_step_sim js rs o HR W1) as S.
  cbn [json_run]. destruct (json_step true js o) as [js' x].
  unfold with_choices. cbn [map combine ref_outs ref_legal].
  destruct (ref_step (choice_of x) rs o) as [[rs' y] ok]. destruct S as [-> [-> HR']].
  destruct (IH js' rs' HR' W2) as [I1 I2]. unfold with_choices in I1, I2.
  split; [f_equal; exact I1|exact I2].
Qed.

(* The JSON driver, from the empty store, on any sequence of operations that respects the contract limits
   (update parts do not rewrite "id"; no sort by "id"): its outputs are the reference store's outputs for the
   identifiers the driver chose, and every such choice was an unused identifier. *)
Theorem json_refines : forall ops, wf_ops ops = true ->
  let outs := json_run true [] ops in
  ref_outs [] (with_choices ops outs) = outs /\ ref_legal [] (with_choices ops outs) = true.
Proof.
  intros ops W. apply json_run_sim; [|assumption].
  intro c. split; [split; [constructor|constructor]|reflexivity].
Qed.
