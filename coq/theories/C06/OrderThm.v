(* C06 — the value ordering used for sorting (RefStore.py_leb) is a total preorder, on all values. *)
From QT Require Import C06.RefStore C06.JsonDriver C06.SortThm.
Open Scope Z_scope.

Lemma str_cmp_antisym : forall a b, str_cmp b a = CompOpp (str_cmp a b).
Proof.
  induction a as [|x a IH]; destruct b as [|y b]; cbn; try reflexivity.
  rewrite (Z.compare_antisym x y). destruct (x ?= y); cbn; [apply IH|reflexivity|reflexivity].
Qed.

Definition str_le (a b : str) : Prop := str_cmp a b <> Gt.

Lemma str_le_total : forall a b, str_le a b \/ str_le b a.
Proof.
  intros a b. unfold str_le. rewrite (str_cmp_antisym a b). destruct (str_cmp a b); cbn; [left|left|right]; congruence.
Qed.

Lemma str_le_trans : forall a b c, str_le a b -> str_le b c -> str_le a c.
Proof.
  unfold str_le. induction a as [|x a IH]; intros [|y b] [|z c]; cbn; try congruence.
  destruct (Z.compare_spec x y), (Z.compare_spec y z); subst; try congruence.
  - rewrite Z.compare_refl. apply IH.
  - intros _ _. destruct (Z.compare_spec y z); try lia. congruence.
  - intros _ _. destruct (Z.compare_spec x z); try lia. congruence.
  - intros _ _. destruct (Z.compare_spec x z); try lia. congruence.
Qed.

Lemma py_leb_spec : forall a b, py_leb a b = true <->
  (kind a < kind b \/ (kind a = kind b /\ (zkey a < zkey b \/ (zkey a = zkey b /\ str_le (skey a) (skey b))))).
Proof.
  intros a b. unfold py_leb, py_cmp, str_le.
  destruct (Z.compare_spec (kind a) (kind b)) as [Ek|Ek|Ek].
  - destruct (Z.compare_spec (zkey a) (zkey b)) as [Ez|Ez|Ez].
    + destruct (str_cmp (skey a) (skey b)) eqn:Es; split; intro H; try reflexivity; try discriminate.
      * right. split; [assumption|]. right. split; [assumption|]. congruence.
      * right. split; [assumption|]. right. split; [assumption|]. congruence.
      * destruct H as [H|[_ [H|[_ H]]]]; try lia. congruence.
    + split; intro H; [|reflexivity]. right. split; [assumption|]. left. assumption.
    + split; intro H; [discriminate|]. destruct H as [H|[_ [H|[H _]]]]; lia.
  - split; intro; [left; assumption|reflexivity].
  - split; intro H; [discriminate|]. destruct H as [H|[H _]]; lia.
Qed.

Lemma py_leb_preorder_on : forall (B : Type) (key : B -> jval), preorder (fun a b => py_leb (key a) (key b)).
Proof.
  intros B key. split.
  - intros x y. rewrite !py_leb_spec.
    destruct (Z.lt_trichotomy (kind (key x)) (kind (key y))) as [K|[K|K]]; [left; left; exact K| |right; left; exact K].
    destruct (Z.lt_trichotomy (zkey (key x)) (zkey (key y))) as [Z|[Z|Z]].
    + left. right. split; [exact K|]. left. exact Z.
    + destruct (str_le_total (skey (key x)) (skey (key y))) as [S|S].
      * left. right. split; [exact K|]. right. split; [exact Z|exact S].
      * right. right. split; [symmetry; exact K|]. right. split; [symmetry; exact Z|exact S].
    + right. right. split; [symmetry; exact K|]. left. exact Z.
  - intros x y z. rewrite !py_leb_spec. intros H1 H2.
    assert (T := str_le_trans (skey (key x)) (skey (key y)) (skey (key z))).
    destruct H1 as [H1|[E1 [H1|[F1 H1]]]]; destruct H2 as [H2|[E2 [H2|[F2 H2]]]];
      try (left; lia); try (right; split; [lia|]; left; lia).
    right. split; [lia|]. right. split; [lia|]. auto.
Qed.
