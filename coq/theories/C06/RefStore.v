(* C06 — SPECIFICATION: the reference record store.

   Written independently of the drivers' control flow: a store maps a collection name to the list of its records in
   insertion order; a query is  projection ∘ firstn limit ∘ (one stable sort by the lexicographic comparator) ∘ filter.

   No aliasing.  The store holds VALUES (immutable terms): what a caller later does to a record it was given back, or to a
   record it handed over, cannot change any later answer.  "Returns the same records as a plain in-memory reference store
   for any sequence of operations" therefore includes the caller's own in-place edits between two operations; the harness
   performs such edits after every call (harness/props/c06.py: vandalise) and the outputs must still be [ref_outs].

   Values.  The JSON value space plus the two calendar atoms the persistence layer supports.  The harness canonicalises
   Python values into this term language (documented in harness/props/c06.py):
     - str      -> list of code points;
     - int      -> JInt z (unbounded);   bool -> JBool;   None -> JNull;
     - float    -> JFloat m e, the exact dyadic value m * 2^e with m odd (0.0 is JFloat 0 0, -0.0 is JFloat 0 1), so that
                   identity is structural equality and Python's exact int/float comparison is [num_key];
     - date     -> JDate (proleptic ordinal);  datetime -> JDateTime (microseconds since 0001-01-01);
     - dict     -> JObj with keys sorted by code points (Python dict equality ignores order; dicts are not orderable);
     - a record is a dict: an association list sorted by field name, one of the fields being "id" (a JStr). *)
From QT Require Export Base.Prelude.
Open Scope Z_scope.

Definition str := list Z.

Inductive jval :=
| JNull
| JBool (b : bool)
| JInt (z : Z)
| JFloat (m e : Z)
| JStr (s : str)
| JList (l : list jval)
| JObj (l : list (str * jval))
| JDate (d : Z)
| JDateTime (us : Z).

Definition fields := list (str * jval).       (* a record: association list, unique keys, sorted by key *)
Notation record := fields (only parsing).

(* ------------------------------------------------------------------------------------------------------------ *)
(* strings *)

Definition str_eqb (a b : str) : bool := list_eqb Z.eqb a b.

Fixpoint str_cmp (a b : str) : comparison :=
  match a, b with
  | [], [] => Eq
  | [], _ => Lt
  | _, [] => Gt
  | x :: a', y :: b' => match x ?= y with Eq => str_cmp a' b' | c => c end
  end.

Definition str_leb (a b : str) : bool := match str_cmp a b with Gt => false | _ => true end.

Definition ID : str := [105; 100].           (* "id" *)

(* ------------------------------------------------------------------------------------------------------------ *)
(* Python's == on values (numbers compare by value across bool/int/float; everything else structurally) *)

(* exact numeric value scaled by 2^1100 (binary64 exponents are >= -1074) *)
Definition num_key (v : jval) : option Z :=
  match v with
  | JBool b => Some ((if b then 1 else 0) * 2 ^ 1100)
  | JInt z => Some (z * 2 ^ 1100)
  | JFloat m e => Some (if m =? 0 then 0 else m * 2 ^ (e + 1100))
  | _ => None
  end.

Fixpoint py_eq (a b : jval) {struct a} : bool :=
  match num_key a, num_key b with
  | Some x, Some y => x =? y
  | Some _, None | None, Some _ => false
  | None, None =>
      match a, b with
      | JNull, JNull => true
      | JStr s, JStr t => str_eqb s t
      | JDate d, JDate d' => d =? d'
      | JDateTime d, JDateTime d' => d =? d'
      | JList l, JList l' =>
          (fix go (l : list jval) (l' : list jval) {struct l} : bool :=
             match l, l' with
             | [], [] => true
             | x :: r, y :: r' => py_eq x y && go r r'
             | _, _ => false
             end) l l'
      | JObj l, JObj l' =>
          (fix go (l : list (str * jval)) (l' : list (str * jval)) {struct l} : bool :=
             match l, l' with
             | [], [] => true
             | (k, x) :: r, (k', y) :: r' => str_eqb k k' && py_eq x y && go r r'
             | _, _ => false
             end) l l'
      | _, _ => false
      end
  end.

(* identity: what "read back equal to what was written" means (1, 1.0 and True are different values) *)
Fixpoint jv_eqb (a b : jval) {struct a} : bool :=
  match a, b with
  | JNull, JNull => true
  | JBool x, JBool y => Bool.eqb x y
  | JInt x, JInt y => x =? y
  | JFloat m e, JFloat m' e' => (m =? m') && (e =? e')
  | JStr s, JStr t => str_eqb s t
  | JDate d, JDate d' => d =? d'
  | JDateTime d, JDateTime d' => d =? d'
  | JList l, JList l' =>
      (fix go (l : list jval) (l' : list jval) {struct l} : bool :=
         match l, l' with
         | [], [] => true
         | x :: r, y :: r' => jv_eqb x y && go r r'
         | _, _ => false
         end) l l'
  | JObj l, JObj l' =>
      (fix go (l : list (str * jval)) (l' : list (str * jval)) {struct l} : bool :=
         match l, l' with
         | [], [] => true
         | (k, x) :: r, (k', y) :: r' => str_eqb k k' && jv_eqb x y && go r r'
         | _, _ => false
         end) l l'
  | _, _ => false
  end.

(* ------------------------------------------------------------------------------------------------------------ *)
(* Python's ordering, completed to a total preorder.  Inside the contract (fields of one scalar kind: numbers, strings,
   dates, datetimes) it is Python's <; across kinds, and on null / lists / objects, Python raises (or orders lists
   lexicographically) — outside the contract; here kinds are ranked and such values tie. *)

Definition kind (v : jval) : Z :=
  match v with
  | JNull => 0 | JBool _ | JInt _ | JFloat _ _ => 1 | JStr _ => 2 | JDate _ => 3 | JDateTime _ => 4
  | JList _ => 5 | JObj _ => 6
  end.

Definition zkey (v : jval) : Z :=
  match num_key v with
  | Some x => x
  | None => match v with JDate d => d | JDateTime d => d | _ => 0 end
  end.

Definition skey (v : jval) : str := match v with JStr s => s | _ => [] end.

Definition py_cmp (a b : jval) : comparison :=
  match kind a ?= kind b with
  | Eq => match zkey a ?= zkey b with Eq => str_cmp (skey a) (skey b) | c => c end
  | c => c
  end.

Definition py_leb (a b : jval) : bool := match py_cmp a b with Gt => false | _ => true end.

(* ------------------------------------------------------------------------------------------------------------ *)
(* records *)

Fixpoint lookup (k : str) (r : fields) : option jval :=
  match r with
  | [] => None
  | (k', v) :: t => if str_eqb k k' then Some v else lookup k t
  end.

(* dict assignment r[k] = v on the canonical (key-sorted) representation *)
Fixpoint set_field (k : str) (v : jval) (r : fields) : fields :=
  match r with
  | [] => [(k, v)]
  | (k', v') :: t =>
      match str_cmp k k' with
      | Lt => (k, v) :: r
      | Eq => (k, v) :: t
      | Gt => (k', v') :: set_field k v t
      end
  end.

(* r.update(part) *)
Definition merge (r part : fields) : fields := fold_left (fun acc kv => set_field (fst kv) (snd kv) acc) part r.

Definition rec_id (r : record) : option str :=
  match lookup ID r with Some (JStr i) => Some i | _ => None end.

Definition has_id (i : str) (r : record) : bool :=
  match rec_id r with Some j => str_eqb i j | None => false end.

(* ------------------------------------------------------------------------------------------------------------ *)
(* filters *)

Inductive fop := Gt_ | Ge_ | Lt_ | Le_ | In_.
Inductive fcond := FEq (v : jval) | FOps (l : list (fop * jval)).
Definition filt := list (str * fcond).

Definition op_holds (o : fop) (a b : jval) : bool :=
  match o with
  | Gt_ => match py_cmp a b with Gt => true | _ => false end
  | Ge_ => match py_cmp a b with Lt => false | _ => true end
  | Lt_ => match py_cmp a b with Lt => true | _ => false end
  | Le_ => match py_cmp a b with Gt => false | _ => true end
  | In_ => match b with JList l => existsb (py_eq a) l | _ => false end
  end.

Definition cond_holds (a : jval) (c : fcond) : bool :=
  match c with
  | FEq v => py_eq a v
  | FOps l => forallb (fun ov => op_holds (fst ov) a (snd ov)) l
  end.

(* a record matches when every criterion names a field the record has and the field satisfies it *)
Definition matches (f : filt) (r : record) : bool :=
  forallb (fun kc => match lookup (fst kc) r with Some a => cond_holds a (snd kc) | None => false end) f.

(* ------------------------------------------------------------------------------------------------------------ *)
(* stable sort by a comparator (insertion sort: the simplest stable sort) *)

Section Sort.
  Context {A : Type}.
  Fixpoint ins (le : A -> A -> bool) (x : A) (l : list A) : list A :=
    match l with
    | [] => [x]
    | y :: t => if le x y then x :: y :: t else y :: ins le x t
    end.
  Fixpoint isort (le : A -> A -> bool) (l : list A) : list A :=
    match l with
    | [] => []
    | x :: t => ins le x (isort le t)
    end.
  (* x before y under the first comparator that separates them *)
  Definition lex2 (le1 le2 : A -> A -> bool) (x y : A) : bool := le1 x y && (negb (le1 y x) || le2 x y).
  Fixpoint lexs (les : list (A -> A -> bool)) : A -> A -> bool :=
    match les with
    | [] => fun _ _ => true
    | le :: r => lex2 le (lexs r)
    end.
End Sort.

(* sort key of a record for one (field, descending) pair; a missing field sorts as null (Python: r.get(field)) *)
Definition fkey (f : str) (r : record) : jval := match lookup f r with Some v => v | None => JNull end.

Definition key_le (fd : str * bool) (a b : record) : bool :=
  if snd fd then py_leb (fkey (fst fd) b) (fkey (fst fd) a) else py_leb (fkey (fst fd) a) (fkey (fst fd) b).

Definition sort_spec (s : list (str * bool)) (l : list record) : list record := isort (lexs (map key_le s)) l.

(* ------------------------------------------------------------------------------------------------------------ *)
(* projection, limit *)

Definition project (p : option (list str)) (r : record) : record :=
  match p with
  | None => r
  | Some fs => filter (fun kv => existsb (str_eqb (fst kv)) fs) r
  end.

Definition limit_to {A} (n : option Z) (l : list A) : list A :=
  match n with None => l | Some k => firstn (Z.to_nat k) l end.

Definition query_spec (p : option (list str)) (f : filt) (s : list (str * bool)) (n : option Z) (c : list record)
  : list record :=
  map (project p) (limit_to n (sort_spec s (filter (matches f) c))).

(* ------------------------------------------------------------------------------------------------------------ *)
(* the store and its operations *)

Definition store := list (str * list record).     (* collection name -> records, insertion order *)

Fixpoint get_coll (c : str) (s : store) : list record :=
  match s with
  | [] => []
  | (c', l) :: t => if str_eqb c c' then l else get_coll c t
  end.

Fixpoint set_coll (c : str) (l : list record) (s : store) : store :=
  match s with
  | [] => [(c, l)]
  | (c', l') :: t => if str_eqb c c' then (c, l) :: t else (c', l') :: set_coll c l t
  end.

Inductive op :=
| Insert (c : str) (id : option str) (r : fields)            (* r without "id" *)
| Update (c : str) (part : fields) (f : filt)                (* part without "id" *)
| Replace (c : str) (id : str) (r : fields)
| Remove (c : str) (f : filt)
| Query (c : str) (p : option (list str)) (f : filt) (s : list (str * bool)) (n : option Z).

Inductive out :=
| OId (i : str)            (* insert: the id of the new record *)
| ODup                     (* insert with an explicit id already in use: refused, store unchanged *)
| OCount (n : Z)           (* update / remove *)
| OBool (b : bool)         (* replace *)
| ORecs (l : list record)  (* query *)
| OErr.                    (* the implementation raised something else *)

Definition id_used (i : str) (c : list record) : bool := existsb (has_id i) c.

Definition count {A} (p : A -> bool) (l : list A) : Z := Z.of_nat (List.length (filter p l)).

(* One step.  [fresh] is the identifier to use when the operation asks for an automatic one: the specification accepts
   ANY unused identifier, so the step is parameterised by the choice and reports whether the choice was legal. *)
Definition ref_step (fresh : str) (s : store) (o : op) : store * out * bool :=
  match o with
  | Insert c None r =>
      let l := get_coll c s in
      (set_coll c (l ++ [set_field ID (JStr fresh) r]) s, OId fresh, negb (id_used fresh l))
  | Insert c (Some i) r =>
      let l := get_coll c s in
      if id_used i l then (s, ODup, true)
      else (set_coll c (l ++ [set_field ID (JStr i) r]) s, OId i, true)
  | Update c part f =>
      let l := get_coll c s in
      (set_coll c (map (fun r => if matches f r then merge r part else r) l) s, OCount (count (matches f) l), true)
  | Replace c i r =>
      let l := get_coll c s in
      if id_used i l
      then (set_coll c (map (fun x => if has_id i x then set_field ID (JStr i) r else x) l) s, OBool true, true)
      else (s, OBool false, true)
  | Remove c f =>
      let l := get_coll c s in
      (set_coll c (filter (fun r => negb (matches f r)) l) s, OCount (count (matches f) l), true)
  | Query c p f srt n => (s, ORecs (query_spec p f srt n (get_coll c s)), true)
  end.

Definition op_coll (o : op) : str :=
  match o with Insert c _ _ | Update c _ _ | Replace c _ _ | Remove c _ | Query c _ _ _ _ => c end.

(* A run: every operation comes with the identifier to use should it ask for an automatic one (ignored otherwise).
   [ref_outs] are the outputs, [ref_legal] says that every automatic identifier used was unused at that point.
   An implementation refines the reference store when its outputs are the reference outputs for SOME legal choices —
   "equal up to the naming of automatic ids". *)
Fixpoint ref_outs (s : store) (l : list (op * str)) : list out :=
  match l with
  | [] => []
  | (o, ch) :: r => let '(s', x, _) := ref_step ch s o in x :: ref_outs s' r
  end.

Fixpoint ref_legal (s : store) (l : list (op * str)) : bool :=
  match l with
  | [] => true
  | (o, ch) :: r => let '(s', _, ok) := ref_step ch s o in ok && ref_legal s' r
  end.

(* the choices an implementation made, read off its outputs *)
Definition choice_of (x : out) : str := match x with OId i => i | _ => [] end.
Definition with_choices (ops : list op) (outs : list out) : list (op * str) := combine ops (map choice_of outs).
