(* C06 — basic facts shared by the refinement proofs: string equality/ordering, dict lookup/assignment,
   the drivers' early-return filter loop = the specification's forallb, collection get/set. *)
From QT Require Import C06.RefStore C06.JsonDriver.
Open Scope Z_scope.

Lemma str_eqb_eq : forall a b : str, str_eqb a b = true <-> a = b.
Proof.
  unfold str_eqb. induction a as [|x a IH]; destruct b as [|y b]; cbn; split; intro H; try reflexivity; try discriminate.
  - apply andb_true_iff in H. destruct H as [H1 H2]. apply Z.eqb_eq in H1. apply IH in H2. congruence.
  - inversion H; subst. rewrite Z.eqb_refl. cbn. apply IH. reflexivity.
Qed.

Lemma str_eqb_refl : forall a, str_eqb a a = true.
Proof. intro a. apply str_eqb_eq. reflexivity. Qed.

Lemma str_eqb_neq : forall a b : str, str_eqb a b = false <-> a <> b.
Proof.
  intros a b. split; intro H.
  - intro E. apply str_eqb_eq in E. congruence.
  - destruct (str_eqb a b) eqn:E; [|reflexivity]. apply str_eqb_eq in E. contradiction.
Qed.

Lemma str_eqb_sym : forall a b, str_eqb a b = str_eqb b a.
Proof.
  intros a b. destruct (str_eqb a b) eqn:E.
  - apply str_eqb_eq in E. subst. symmetry. apply str_eqb_refl.
  - symmetry. apply str_eqb_neq. apply str_eqb_neq in E. congruence.
Qed.

Lemma str_cmp_eq : forall a b : str, str_cmp a b = Eq <-> a = b.
Proof.
  induction a as [|x a IH]; destruct b as [|y b]; cbn; split; intro H; try reflexivity; try discriminate.
  - destruct (x ?= y) eqn:E; try discriminate. apply Z.compare_eq_iff in E. apply IH in H. congruence.
  - inversion H; subst. rewrite Z.compare_refl. apply IH. reflexivity.
Qed.

Lemma str_cmp_eqb : forall a b, str_eqb a b = match str_cmp a b with Eq => true | _ => false end.
Proof.
  intros a b. destruct (str_cmp a b) eqn:C.
  - apply str_cmp_eq in C. subst. apply str_eqb_refl.
  - apply str_eqb_neq. intro E. apply str_cmp_eq in E. congruence.
  - apply str_eqb_neq. intro E. apply str_cmp_eq in E. congruence.
Qed.

(* ------------------------------------------------------------------------------------------------------------ *)
(* dict assignment *)

Lemma lookup_set_field_same : forall k v r, lookup k (set_field k v r) = Some v.
Proof.
  intros k v r. induction r as [|[k' v'] t IH]; cbn.
  - rewrite str_eqb_refl. reflexivity.
  - destruct (str_cmp k k') eqn:C; cbn.
    + rewrite str_eqb_refl. reflexivity.
    + rewrite str_eqb_refl. reflexivity.
    + rewrite str_cmp_eqb, C. exact IH.
Qed.

Lemma lookup_set_field_other : forall k k' v r, k' <> k -> lookup k' (set_field k v r) = lookup k' r.
Proof.
  intros k k' v r N. induction r as [|[k2 v2] t IH]; cbn.
  - apply str_eqb_neq in N. rewrite N. reflexivity.
  - destruct (str_cmp k k2) eqn:C; cbn.
    + apply str_cmp_eq in C. subst k2. apply str_eqb_neq in N. rewrite N. reflexivity.
    + apply str_eqb_neq in N. rewrite N. reflexivity.
    + rewrite IH. reflexivity.
Qed.

Lemma lookup_set_field : forall k k' v r,
  lookup k' (set_field k v r) = if str_eqb k' k then Some v else lookup k' r.
Proof.
  intros. destruct (str_eqb k' k) eqn:E.
  - apply str_eqb_eq in E. subst. apply lookup_set_field_same.
  - apply str_eqb_neq in E. apply lookup_set_field_other. assumption.
Qed.

(* records that answer every lookup alike are indistinguishable for filters and sort keys *)
Definition same_lookups (r r' : fields) : Prop := forall k, lookup k r = lookup k r'.

Lemma with_id_same_lookups : forall i r, lookup ID r = Some (JStr i) -> same_lookups (with_id i r) r.
Proof.
  intros i r H k. unfold with_id. rewrite lookup_set_field. destruct (str_eqb k ID) eqn:E; [|reflexivity].
  apply str_eqb_eq in E. subst. symmetry. assumption.
Qed.

Lemma rec_id_with_id : forall i r, rec_id (with_id i r) = Some i.
Proof. intros. unfold rec_id, with_id. rewrite lookup_set_field_same. reflexivity. Qed.

Lemma lookup_merge_other : forall part r k, lookup k part = None -> lookup k (merge r part) = lookup k r.
Proof.
  unfold merge. induction part as [|[k' v'] t IH]; intros r k H; cbn; [reflexivity|].
  cbn in H. destruct (str_eqb k k') eqn:E; [discriminate|].
  rewrite IH by assumption. apply lookup_set_field_other. apply str_eqb_neq. assumption.
Qed.

(* ------------------------------------------------------------------------------------------------------------ *)
(* _filter_matches (loops with early return) = the specification's conjunction *)

Lemma ops_match_forallb : forall a l, ops_match a l = forallb (fun ov => op_holds (fst ov) a (snd ov)) l.
Proof.
  intros a l. induction l as [|[o v] t IH]; cbn; [reflexivity|]. destruct (op_holds o a v); cbn; [exact IH|reflexivity].
Qed.

Lemma filter_value_matches_spec : forall a c, filter_value_matches a c = cond_holds a c.
Proof. intros a [v|l]; cbn; [reflexivity|apply ops_match_forallb]. Qed.

Lemma filter_matches_spec : forall r f, filter_matches r f = matches f r.
Proof.
  intros r f. unfold matches. induction f as [|[k c] t IH]; cbn; [reflexivity|].
  destruct (lookup k r) as [a|]; cbn; [|reflexivity].
  rewrite filter_value_matches_spec. destruct (cond_holds a c); cbn; [exact IH|reflexivity].
Qed.

Lemma matches_same_lookups : forall f r r', same_lookups r r' -> matches f r = matches f r'.
Proof.
  intros f r r' H. unfold matches. induction f as [|[k c] t IH]; cbn; [reflexivity|]. rewrite H, IH. reflexivity.
Qed.

(* popping the id criterion: the whole filter = the id criterion and the rest *)
Lemma matches_fpop : forall k f c r, fget k f = Some c ->
  matches f r = (match lookup k r with Some a => cond_holds a c | None => false end) && matches (fpop k f) r.
Proof.
  intros k f c r. unfold matches. induction f as [|[k' c'] t IH]; cbn; intro H; [discriminate|].
  destruct (str_eqb k k') eqn:E.
  - apply str_eqb_eq in E. subst k'. inversion H; subst. reflexivity.
  - cbn. rewrite (IH H).
    destruct (match lookup k' r with Some a => cond_holds a c' | None => false end);
    destruct (match lookup k r with Some a => cond_holds a c | None => false end); reflexivity.
Qed.

(* ------------------------------------------------------------------------------------------------------------ *)
(* collection get / set (the two stores have the same shape) *)

Lemma get_set_coll : forall c c' l s, get_coll c (set_coll c' l s) = if str_eqb c c' then l else get_coll c s.
Proof.
  intros c c' l s. induction s as [|[c2 l2] t IH]; cbn.
  - destruct (str_eqb c c'); reflexivity.
  - destruct (str_eqb c' c2) eqn:E2; cbn.
    + apply str_eqb_eq in E2. subst c2. destruct (str_eqb c c'); reflexivity.
    + destruct (str_eqb c c2) eqn:E.
      * apply str_eqb_eq in E. subst c2. rewrite str_eqb_sym, E2. reflexivity.
      * exact IH.
Qed.

Lemma jget_jset : forall c c' l s, jget c (jset c' l s) = if str_eqb c c' then l else jget c s.
Proof.
  intros c c' l s. induction s as [|[c2 l2] t IH]; cbn.
  - destruct (str_eqb c c'); reflexivity.
  - destruct (str_eqb c' c2) eqn:E2; cbn.
    + apply str_eqb_eq in E2. subst c2. destruct (str_eqb c c'); reflexivity.
    + destruct (str_eqb c c2) eqn:E.
      * apply str_eqb_eq in E. subst c2. rewrite str_eqb_sym, E2. reflexivity.
      * exact IH.
Qed.
