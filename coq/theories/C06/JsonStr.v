(* C06 — MODEL of the text codec used by the Redis driver for every field value:
     _value_to_db   = utils/json.py:dumps(value, extra_types=EXTENDED)
     _value_from_db = utils/json.py:loads(text,  extra_types=EXTENDED)
   Modelled exactly: the scalar fast paths of [dumps] (str, bool, None) and, for str, the standard library's string
   escaping (json.dumps, ensure_ascii=True) and string-literal scanner (json.decoder.py_scanstring, strict=True).
   Numbers, dates and containers go through the standard encoder; they are kept as opaque atoms here (correspondence only).

   [dumps_str fast s]: fast = true is utils/json.py as it stands at the snapshot ('"' + obj + '"', no escaping);
                        fast = false is the repaired code (str routed through json.dumps). *)
From QT Require Export C06.RefStore.
Open Scope Z_scope.

(* ------------------------------------------------------------------------------------------------------------ *)
(* json.dumps(str): ESCAPE_ASCII = ([\\"]|[^\ -~]) ; \" \\ \n \r \t \b \f, otherwise \uXXXX (astral: surrogate pair) *)

Definition hexd (d : Z) : Z := if d <? 10 then 48 + d else 87 + d.          (* '0'..'9' 'a'..'f' *)
Definition hex4 (n : Z) : list Z := [hexd (n / 4096); hexd (n / 256 mod 16); hexd (n / 16 mod 16); hexd (n mod 16)].
Definition uesc (n : Z) : list Z := 92 :: 117 :: hex4 n.                      (* \uXXXX *)

Definition esc_char (c : Z) : list Z :=
  if c =? 34 then [92; 34]
  else if c =? 92 then [92; 92]
  else if c =? 10 then [92; 110]
  else if c =? 13 then [92; 114]
  else if c =? 9 then [92; 116]
  else if c =? 8 then [92; 98]
  else if c =? 12 then [92; 102]
  else if (32 <=? c) && (c <=? 126) then [c]
  else if c <? 65536 then uesc c
  else uesc (55296 + (c - 65536) / 1024) ++ uesc (56320 + (c - 65536) mod 1024).

Fixpoint esc_chars (s : str) : list Z :=
  match s with
  | [] => []
  | c :: r => esc_char c ++ esc_chars r
  end.

Definition escape (s : str) : list Z := 34 :: esc_chars s ++ [34].           (* json.dumps(s) *)
Definition dumps_fast (s : str) : list Z := 34 :: s ++ [34].                  (* '"' + s + '"' *)

Definition dumps_str (fast : bool) (s : str) : list Z := if fast then dumps_fast s else escape s.

(* ------------------------------------------------------------------------------------------------------------ *)
(* json.loads of a text that must be exactly one string literal *)

Definition hexv (c : Z) : option Z :=
  if (48 <=? c) && (c <=? 57) then Some (c - 48)
  else if (97 <=? c) && (c <=? 102) then Some (c - 87)
  else if (65 <=? c) && (c <=? 70) then Some (c - 55)
  else None.

Definition parse4 (a b c d : Z) : option Z :=
  match hexv a, hexv b, hexv c, hexv d with
  | Some x, Some y, Some z, Some w => Some (x * 4096 + y * 256 + z * 16 + w)
  | _, _, _, _ => None
  end.

Definition simple_escape (e : Z) : option Z :=
  if e =? 34 then Some 34 else if e =? 92 then Some 92 else if e =? 47 then Some 47
  else if e =? 98 then Some 8 else if e =? 102 then Some 12 else if e =? 110 then Some 10
  else if e =? 114 then Some 13 else if e =? 116 then Some 9 else None.

Definition is_high (u : Z) : bool := (55296 <=? u) && (u <=? 56319).
Definition is_low (u : Z) : bool := (56320 <=? u) && (u <=? 57343).

Definition flush (pend : option Z) (acc : list Z) : list Z := match pend with Some h => h :: acc | None => acc end.

(* a \uXXXX escape with value u arrives while [pend] holds an unpaired high surrogate (or nothing) *)
Definition push_u (pend : option Z) (acc : list Z) (u : Z) : option Z * list Z :=
  match pend with
  | Some h => if is_low u then (None, (65536 + (h - 55296) * 1024 + (u - 56320)) :: acc)
              else if is_high u then (Some u, h :: acc) else (None, u :: h :: acc)
  | None => if is_high u then (Some u, acc) else (None, u :: acc)
  end.

(* after the opening quote; acc is reversed *)
Fixpoint scan (l : list Z) (pend : option Z) (acc : list Z) : option str :=
  match l with
  | [] => None                                              (* unterminated *)
  | c :: r =>
      if c =? 34 then match r with [] => Some (rev (flush pend acc)) | _ :: _ => None end    (* "Extra data" *)
      else if c =? 92 then
        match r with
        | [] => None
        | e :: r' =>
            if e =? 117 then
              match r' with
              | a :: b :: c' :: d :: r'' =>
                  match parse4 a b c' d with
                  | Some u => let '(p, acc') := push_u pend acc u in scan r'' p acc'
                  | None => None
                  end
              | _ => None
              end
            else match simple_escape e with
                 | Some x => scan r' None (x :: flush pend acc)
                 | None => None
                 end
        end
      else if c <? 32 then None                             (* "Invalid control character" (strict) *)
      else scan r None (c :: flush pend acc)
  end.

Definition read_str (t : list Z) : option str :=
  match t with
  | 34 :: r => scan r None []
  | _ => None
  end.

(* Unicode scalar values: what a str holds when it is text (no lone surrogates) *)
Definition scalar_cp (c : Z) : Prop := 0 <= c < 1114112 /\ ~ (55296 <= c <= 57343).
Definition scalar_cpb (c : Z) : bool := (0 <=? c) && (c <? 1114112) && negb ((55296 <=? c) && (c <=? 57343)).

(* ------------------------------------------------------------------------------------------------------------ *)
(* the per-field codec of the Redis driver *)

Inductive dbval :=
| DText (t : list Z)       (* the stored text, modelled exactly (strings) *)
| DTrue | DFalse | DNull   (* 'true' 'false' 'null' *)
| DJson (v : jval).        (* text produced / read by the standard encoder for numbers and containers: opaque *)

Definition to_db (fast : bool) (v : jval) : dbval :=
  match v with
  | JStr s => DText (dumps_str fast s)
  | JBool true => DTrue
  | JBool false => DFalse
  | JNull => DNull
  | _ => DJson v
  end.

Definition from_db (d : dbval) : option jval :=
  match d with
  | DText t => match read_str t with Some s => Some (JStr s) | None => None end      (* None = JSONDecodeError *)
  | DTrue => Some (JBool true)
  | DFalse => Some (JBool false)
  | DNull => Some JNull
  | DJson v => Some v
  end.
