(* C06 — successive stable sorts in reverse key order = one stable sort by the lexicographic comparator.
   Abstract element type, comparators that are total preorders (Section hypotheses / explicit premises).
   Also: Python's list.sort(reverse=True) (reverse, stable sort, reverse) is the stable sort by the flipped comparator,
   i.e. it keeps equal elements in their original order. *)
From Coq Require Import Sorting.Sorted.
From QT Require Import C06.RefStore C06.JsonDriver.

Section StableSort.
  Context {A : Type}.
  Implicit Types le : A -> A -> bool.

  Definition total le := forall x y, le x y = true \/ le y x = true.
  Definition transitive le := forall x y z, le x y = true -> le y z = true -> le x z = true.
  Definition preorder le := total le /\ transitive le.

  Definition eqv le (x y : A) : bool := le x y && le y x.
  Definition sorted le (l : list A) := StronglySorted (fun x y => le x y = true) l.
  Definition flip le : A -> A -> bool := fun x y => le y x.

  Lemma eqv_refl : forall le x, total le -> eqv le x x = true.
  Proof. intros le x T. unfold eqv. destruct (T x x) as [H|H]; rewrite H; reflexivity. Qed.

  (* ---------------------------------------------------------------------------------------------------------- *)
  (* filters *)

  Lemma filter_ext' : forall (p q : A -> bool) l, (forall x, p x = q x) -> filter p l = filter q l.
  Proof. intros p q l H. induction l as [|a l IH]; cbn; [reflexivity|]. rewrite H, IH. reflexivity. Qed.

  Lemma filter_andb : forall (p q : A -> bool) l, filter (fun x => p x && q x) l = filter p (filter q l).
  Proof.
    intros p q l. induction l as [|a l IH]; cbn; [reflexivity|].
    destruct (q a); cbn; destruct (p a); cbn; rewrite IH; reflexivity.
  Qed.

  Lemma filter_comm : forall (p q : A -> bool) l, filter p (filter q l) = filter q (filter p l).
  Proof.
    intros. rewrite <- !filter_andb. apply filter_ext'. intro x. apply andb_comm.
  Qed.

  Lemma filter_rev' : forall (p : A -> bool) l, filter p (rev l) = rev (filter p l).
  Proof.
    intros p l. induction l as [|a l IH]; cbn; [reflexivity|].
    rewrite filter_app, IH. cbn. destruct (p a); cbn; [reflexivity|apply app_nil_r].
  Qed.

  (* ---------------------------------------------------------------------------------------------------------- *)
  (* insertion sort is sorted and stable *)

  Lemma ins_In : forall le x l y, In y (ins le x l) -> y = x \/ In y l.
  Proof.
    intros le x l. induction l as [|a l IH]; cbn; intros y H.
    - destruct H as [H|[]]; left; symmetry; exact H.
    - destruct (le x a).
      + destruct H as [H|H]; [left; symmetry; exact H|right; exact H].
      + destruct H as [H|H]; [right; left; exact H|]. destruct (IH _ H) as [->|H']; [left; reflexivity|right; right; exact H'].
  Qed.

  Lemma ins_sorted : forall le x l, preorder le -> sorted le l -> sorted le (ins le x l).
  Proof.
    intros le x l [T Tr]. induction l as [|a l IH]; cbn; intros S.
    - constructor; constructor.
    - inversion S as [|? ? S' F]; subst. destruct (le x a) eqn:E.
      + constructor; [assumption|]. constructor; [exact E|].
        rewrite Forall_forall in *. intros y Hy. eapply Tr; [exact E|]. apply F. exact Hy.
      + constructor; [apply IH; assumption|].
        rewrite Forall_forall in *. intros y Hy. apply ins_In in Hy. destruct Hy as [->|Hy].
        * destruct (T x a) as [H|H]; [congruence|exact H].
        * apply F. exact Hy.
  Qed.

  Lemma isort_sorted : forall le l, preorder le -> sorted le (isort le l).
  Proof.
    intros le l P. induction l as [|a l IH]; cbn; [constructor|]. apply ins_sorted; assumption.
  Qed.

  Lemma filter_ins : forall le z x l, transitive le -> filter (eqv le z) (ins le x l) = filter (eqv le z) (x :: l).
  Proof.
    intros le z x l Tr. induction l as [|a l IH]; [reflexivity|].
    cbn [ins]. destruct (le x a) eqn:E; [reflexivity|].
    cbn [filter]. rewrite IH. cbn [filter].
    destruct (eqv le z x) eqn:Ex; destruct (eqv le z a) eqn:Ea; try reflexivity.
    exfalso. unfold eqv in *. apply andb_true_iff in Ex, Ea. destruct Ex as [_ Hxz], Ea as [Hza _].
    rewrite (Tr _ _ _ Hxz Hza) in E. discriminate.
  Qed.

  Lemma filter_isort : forall le z l, transitive le -> filter (eqv le z) (isort le l) = filter (eqv le z) l.
  Proof.
    intros le z l Tr. induction l as [|a l IH]; [reflexivity|].
    cbn [isort]. rewrite filter_ins by assumption. cbn [filter]. rewrite IH. reflexivity.
  Qed.

  (* ---------------------------------------------------------------------------------------------------------- *)
  (* a sorted list is determined by its classes of equivalent elements (each in its own order) *)

  Lemma sorted_unique : forall le r1 r2, total le ->
    sorted le r1 -> sorted le r2 -> (forall z, filter (eqv le z) r1 = filter (eqv le z) r2) -> r1 = r2.
  Proof.
    intros le r1. induction r1 as [|a r1 IH]; intros r2 T S1 S2 H.
    - destruct r2 as [|b r2]; [reflexivity|]. specialize (H b). cbn in H. rewrite eqv_refl in H by assumption. discriminate.
    - destruct r2 as [|b r2].
      { specialize (H a). cbn in H. rewrite eqv_refl in H by assumption. discriminate. }
      inversion S1 as [|? ? S1' F1]; subst. inversion S2 as [|? ? S2' F2]; subst.
      rewrite Forall_forall in F1, F2.
      assert (Hab : eqv le a b = true).
      { assert (Ia : In a (b :: r2)).
        { pose proof (H a) as Ha. cbn [filter] in Ha. rewrite eqv_refl in Ha by assumption.
          assert (I : In a (filter (eqv le a) (b :: r2))) by (cbn [filter]; rewrite <- Ha; left; reflexivity).
          apply filter_In in I. tauto. }
        assert (Ib : In b (a :: r1)).
        { pose proof (H b) as Hb. cbn [filter] in Hb. rewrite (eqv_refl le b) in Hb by assumption.
          assert (I : In b (filter (eqv le b) (a :: r1))) by (cbn [filter]; rewrite Hb; left; reflexivity).
          apply filter_In in I. tauto. }
        destruct Ia as [<-|Ia]; [apply eqv_refl; assumption|].
        destruct Ib as [<-|Ib]; [apply eqv_refl; assumption|].
        unfold eqv. rewrite (F1 _ Ib), (F2 _ Ia). reflexivity. }
      assert (a = b /\ forall z, filter (eqv le z) r1 = filter (eqv le z) r2) as [-> Ht].
      { assert (a = b) as ->.
        { specialize (H a). cbn [filter] in H. rewrite eqv_refl, Hab in H by assumption. congruence. }
        split; [reflexivity|]. intro z. specialize (H z). cbn [filter] in H. destruct (eqv le z b); congruence. }
      f_equal. apply IH; assumption.
  Qed.

  (* ---------------------------------------------------------------------------------------------------------- *)
  (* two keys *)

  Lemma lex2_preorder : forall le1 le2, preorder le1 -> preorder le2 -> preorder (lex2 le1 le2).
  Proof.
    intros le1 le2 [T1 R1] [T2 R2]. split.
    - intros x y. unfold lex2.
      destruct (le1 x y) eqn:A1, (le1 y x) eqn:A2; cbn; auto.
      destruct (T1 x y); congruence.
    - intros x y z. unfold lex2. intros H1 H2.
      apply andb_true_iff in H1, H2. destruct H1 as [Hxy H1], H2 as [Hyz H2].
      rewrite (R1 _ _ _ Hxy Hyz). cbn.
      destruct (le1 z x) eqn:Hzx; cbn; [|reflexivity].
      (* z <= x: all three equivalent under le1, so both steps were decided by le2 *)
      rewrite (R1 _ _ _ Hyz Hzx) in H1. rewrite (R1 _ _ _ Hzx Hxy) in H2. cbn in H1, H2.
      eapply R2; eassumption.
  Qed.

  Lemma eqv_lex2 : forall le1 le2 z x, eqv (lex2 le1 le2) z x = eqv le1 z x && eqv le2 z x.
  Proof.
    intros. unfold eqv, lex2.
    destruct (le1 z x), (le1 x z), (le2 z x), (le2 x z); reflexivity.
  Qed.

  Lemma sorted_filter : forall le (p : A -> bool) l, sorted le l -> sorted le (filter p l).
  Proof.
    intros le p l S. induction S as [|a l S IH F]; cbn; [constructor|].
    destruct (p a); [|assumption]. constructor; [assumption|].
    rewrite Forall_forall in *. intros y Hy. apply filter_In in Hy. apply F. tauto.
  Qed.

  Lemma lex_sorted : forall le1 le2 r, total le1 ->
    sorted le1 r -> (forall x, sorted le2 (filter (eqv le1 x) r)) -> sorted (lex2 le1 le2) r.
  Proof.
    intros le1 le2 r T1 S. induction S as [|a t S IH F]; intros H; [constructor|].
    constructor.
    - apply IH. intro x. specialize (H x). cbn [filter] in H. destruct (eqv le1 x a); [|assumption].
      inversion H; assumption.
    - specialize (H a). cbn [filter] in H. rewrite eqv_refl in H by assumption.
      inversion H as [|? ? _ F2]; subst. rewrite Forall_forall in *.
      intros y Hy. unfold lex2. rewrite (F _ Hy). cbn.
      destruct (le1 y a) eqn:E; cbn; [|reflexivity].
      apply F2. apply filter_In. split; [assumption|]. unfold eqv. rewrite (F _ Hy), E. reflexivity.
  Qed.

  Theorem two_stable_sorts : forall le1 le2 l, preorder le1 -> preorder le2 ->
    isort le1 (isort le2 l) = isort (lex2 le1 le2) l.
  Proof.
    intros le1 le2 l P1 P2. pose proof (lex2_preorder _ _ P1 P2) as PL.
    apply (sorted_unique (lex2 le1 le2)); [apply PL| | |].
    - apply lex_sorted; [apply P1|apply isort_sorted; assumption|].
      intro x. rewrite filter_isort by apply P1. apply sorted_filter. apply isort_sorted. assumption.
    - apply isort_sorted. assumption.
    - intro z. rewrite (filter_isort (lex2 le1 le2)) by apply PL.
      rewrite !(filter_ext' _ _ _ (eqv_lex2 le1 le2 z)), !filter_andb.
      rewrite (filter_comm (eqv le1 z)). rewrite (filter_isort le1) by apply P1.
      rewrite (filter_comm (eqv le2 z)). rewrite (filter_isort le2) by apply P2. reflexivity.
  Qed.

  (* ---------------------------------------------------------------------------------------------------------- *)
  (* any number of keys: sorting by the last key first *)

  Lemma lexs_preorder : forall les, Forall preorder les -> preorder (lexs les).
  Proof.
    intros les H. induction H as [|le r P _ IH]; cbn.
    - split; [intros x y; left; reflexivity|intros x y z _ _; reflexivity].
    - apply lex2_preorder; assumption.
  Qed.

  Lemma isort_trivial : forall l : list A, isort (fun _ _ => true) l = l.
  Proof. induction l as [|a l IH]; cbn; [reflexivity|]. rewrite IH. destruct l; reflexivity. Qed.

  Theorem stable_sorts_compose : forall les l, Forall preorder les ->
    fold_right (fun le acc => isort le acc) l les = isort (lexs les) l.
  Proof.
    intros les l H. induction H as [|le r P Pr IH]; cbn.
    - symmetry. apply isort_trivial.
    - rewrite IH. apply two_stable_sorts; [assumption|apply lexs_preorder; assumption].
  Qed.

  (* ---------------------------------------------------------------------------------------------------------- *)
  (* reverse=True *)

  Lemma flip_preorder : forall le, preorder le -> preorder (flip le).
  Proof.
    intros le [T R]. split.
    - intros x y. unfold flip. destruct (T x y); auto.
    - intros x y z. unfold flip. intros H1 H2. eapply R; eassumption.
  Qed.

  Lemma sorted_app : forall le l1 l2, sorted le l1 -> sorted le l2 ->
    (forall x y, In x l1 -> In y l2 -> le x y = true) -> sorted le (l1 ++ l2).
  Proof.
    intros le l1 l2 S1 S2 H. induction S1 as [|a l1 S1 IH F]; cbn; [assumption|].
    constructor.
    - apply IH. intros x y Hx Hy. apply H; [right; assumption|assumption].
    - rewrite Forall_forall in *. intros y Hy. apply in_app_or in Hy. destruct Hy as [Hy|Hy].
      + apply F. assumption.
      + apply H; [left; reflexivity|assumption].
  Qed.

  Lemma sorted_rev : forall le l, sorted le l -> sorted (flip le) (rev l).
  Proof.
    intros le l S. induction S as [|a l S IH F]; cbn; [constructor|].
    apply sorted_app; [assumption|constructor; constructor|].
    intros x y Hx [<-|[]]. unfold flip. rewrite Forall_forall in F. apply F. apply in_rev. assumption.
  Qed.

  Theorem py_sort_reverse_stable : forall le l, preorder le -> py_sort le true l = isort (flip le) l.
  Proof.
    intros le l P. pose proof (flip_preorder _ P) as PF. unfold py_sort.
    apply (sorted_unique (flip le)); [apply PF| | |].
    - apply sorted_rev. apply isort_sorted. assumption.
    - apply isort_sorted. assumption.
    - intro z. rewrite (filter_isort (flip le)) by apply PF.
      assert (E : forall x, eqv (flip le) z x = eqv le z x) by (intro x; unfold eqv, flip; apply andb_comm).
      rewrite !(filter_ext' _ _ _ E). rewrite filter_rev', (filter_isort le) by apply P.
      rewrite filter_rev', rev_involutive. reflexivity.
  Qed.

  Definition directed (k : (A -> A -> bool) * bool) : A -> A -> bool := if snd k then flip (fst k) else fst k.

  Lemma py_sort_directed : forall k l, preorder (fst k) -> py_sort (fst k) (snd k) l = isort (directed k) l.
  Proof.
    intros [le r] l P. cbn in *. unfold directed. cbn. destruct r; [apply py_sort_reverse_stable; assumption|reflexivity].
  Qed.

  (* for (key, rev) in reversed(keys): l.sort(key, reverse=rev)    =    one stable sort, first key most significant *)
  Theorem py_sorts_compose : forall (keys : list ((A -> A -> bool) * bool)) l,
    Forall (fun k => preorder (fst k)) keys ->
    fold_left (fun acc k => py_sort (fst k) (snd k) acc) (rev keys) l = isort (lexs (map directed keys)) l.
  Proof.
    intros keys l H.
    rewrite <- fold_left_rev_right, rev_involutive.
    rewrite <- (stable_sorts_compose (map directed keys)).
    - induction H as [|k r P _ IH]; cbn; [reflexivity|].
      rewrite IH. apply py_sort_directed. assumption.
    - induction H as [|k r P _ IH]; cbn; constructor; [|assumption].
      destruct k as [le b]; unfold directed; cbn in *. destruct b; [apply flip_preorder|]; assumption.
  Qed.
End StableSort.
