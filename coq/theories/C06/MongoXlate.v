(* C06 — MODEL of the translation layer of drivers/persist/mongo.py: the driver is MongoDB behind
     _id_to_db / _id_from_db   (ids that look like an ObjectId are stored as ObjectId, others as plain strings),
     _id_to_db_rec             (the same inside an `id` criterion: plain value, {'in': [...]}, other operators),
     _filt_to_db               (gt ge lt le in  ->  $gt $gte $lt $lte $in),
     the projection dict       ({f: 1 ...} plus '_id': 1 iff 'id' is requested; `if fields:` — an empty list means "all").
   MongoDB's own query semantics are NOT modelled (trusted: pymongo / mongomock); [db_matches] below is the reference
   semantics read through the translated names, which is what "homomorphic" means in C06_mongo_xlate. *)
From QT Require Export C06.RefStore.
Open Scope Z_scope.

Inductive dbid := DOid (hex : str) | DStr (s : str).

Definition is_lhex (c : Z) : bool := ((48 <=? c) && (c <=? 57)) || ((97 <=? c) && (c <=? 102)).
Definition is_oid (s : str) : bool := (Nat.eqb (List.length s) 24) && forallb is_lhex s.       (* ^[0-9a-f]{24}$ *)

Definition id_to_db (i : str) : dbid := if is_oid i then DOid i else DStr i.
Definition id_from_db (d : dbid) : str := match d with DOid h => h | DStr s => s end.     (* str(ObjectId) = its hex *)

Definition dbid_eqb (a b : dbid) : bool :=
  match a, b with
  | DOid x, DOid y => str_eqb x y
  | DStr x, DStr y => str_eqb x y
  | _, _ => false
  end.

(* a stored document: _id + the other fields *)
Definition doc := (dbid * fields)%type.
Definition doc_of (r : record) : option doc :=
  match rec_id r with
  | Some i => Some (id_to_db i, filter (fun kv => negb (str_eqb (fst kv) ID)) r)
  | None => None
  end.

(* translated filter: field criteria keep their values, operator names are mapped; the id criterion becomes one on _id *)
Definition S_GT : str := [36; 103; 116].
Definition S_GTE : str := [36; 103; 116; 101].
Definition S_LT : str := [36; 108; 116].
Definition S_LTE : str := [36; 108; 116; 101].
Definition S_IN : str := [36; 105; 110].

Definition op_name (o : fop) : str :=
  match o with Gt_ => S_GT | Ge_ => S_GTE | Lt_ => S_LT | Le_ => S_LTE | In_ => S_IN end.

Inductive dbcond :=
| DEq (v : jval)
| DOps (l : list (str * jval))
| DIdEq (d : dbid)
| DIdOps (l : list (str * list dbid)).          (* only $in is meaningful on _id *)

Definition dbfilt := list (option str * dbcond).   (* None = the _id key *)

Definition ids_of (v : jval) : list dbid :=
  match v with
  | JList l => flat_map (fun x => match x with JStr i => [id_to_db i] | _ => [] end) l
  | _ => []
  end.

Definition filt_to_db (f : filt) : dbfilt :=
  map (fun kc =>
         if str_eqb (fst kc) ID then
           (None, match snd kc with
                  | FEq (JStr i) => DIdEq (id_to_db i)
                  | FEq v => DEq v
                  | FOps l => DIdOps (map (fun ov => (op_name (fst ov), ids_of (snd ov))) l)
                  end)
         else
           (Some (fst kc), match snd kc with
                           | FEq v => DEq v
                           | FOps l => DOps (map (fun ov => (op_name (fst ov), snd ov)) l)
                           end)) f.

(* the reference semantics, read through the translated names *)
Definition db_op (n : str) : option fop :=
  if str_eqb n S_GT then Some Gt_ else if str_eqb n S_GTE then Some Ge_ else if str_eqb n S_LT then Some Lt_
  else if str_eqb n S_LTE then Some Le_ else if str_eqb n S_IN then Some In_ else None.

Definition db_cond_holds (d : doc) (k : option str) (c : dbcond) : bool :=
  match k, c with
  | Some k, DEq v => match lookup k (snd d) with Some a => py_eq a v | None => false end
  | Some k, DOps l =>
      match lookup k (snd d) with
      | Some a => forallb (fun nv => match db_op (fst nv) with Some o => op_holds o a (snd nv) | None => false end) l
      | None => false
      end
  | None, DIdEq x => dbid_eqb (fst d) x
  | None, DIdOps l =>
      forallb (fun nv => match db_op (fst nv) with Some In_ => existsb (dbid_eqb (fst d)) (snd nv) | _ => false end) l
  | _, _ => false
  end.

Definition db_matches (f : dbfilt) (d : doc) : bool := forallb (fun kc => db_cond_holds d (fst kc) (snd kc)) f.

(* projection dict: (requested fields, whether _id is included); None = no projection *)
Definition proj_to_db (p : option (list str)) : option (list str * bool) :=
  match p with
  | None | Some [] => None
  | Some fs => Some (filter (fun f => negb (str_eqb f ID)) fs, existsb (str_eqb ID) fs)
  end.

(* what comes back through _query_gen_wrapper: '_id' (when present) renamed to 'id' via _id_from_db *)
Definition db_project (p : option (list str * bool)) (d : doc) : record :=
  match p with
  | None => set_field ID (JStr (id_from_db (fst d))) (snd d)
  | Some (fs, with_id) =>
      let r := filter (fun kv => existsb (str_eqb (fst kv)) fs) (snd d) in
      if with_id then set_field ID (JStr (id_from_db (fst d))) r else r
  end.
