(* C06 — THEOREMS about the model of the MongoDB translation layer (MongoXlate.v):
     ids survive the round trip and are translated injectively, operator names are translated injectively,
     the translated filter is homomorphic on id-simple filters, and the translated projection agrees with the reference
     projection on key-sorted records. *)
From QT Require Import C06.MongoXlate.
Open Scope Z_scope.

(* ------------------------------------------------------------------------------------------------------------ *)
(* strings *)

(* str_eqb is equality *)
Lemma str_eqb_eq : forall a b : str, str_eqb a b = true <-> a = b.
Proof.
  unfold str_eqb. induction a as [|x a IH]; destruct b as [|y b]; cbn [list_eqb]; split; intros H;
    try reflexivity; try discriminate.
  - apply andb_true_iff in H as [H1 H2]. apply Z.eqb_eq in H1. apply IH in H2. subst. reflexivity.
  - injection H as -> ->. apply andb_true_iff. split; [apply Z.eqb_refl | apply IH; reflexivity].
Qed.

Lemma str_eqb_refl : forall a : str, str_eqb a a = true.
Proof. intros a. apply str_eqb_eq. reflexivity. Qed.

Lemma str_eqb_neq : forall a b : str, str_eqb a b = false <-> a <> b.
Proof.
  intros a b. split.
  - intros H E. apply str_eqb_eq in E. congruence.
  - intros H. destruct (str_eqb a b) eqn:E; [|reflexivity]. apply str_eqb_eq in E. contradiction.
Qed.

Lemma str_eqb_sym : forall a b : str, str_eqb a b = str_eqb b a.
Proof.
  intros a b. destruct (str_eqb a b) eqn:E.
  - apply str_eqb_eq in E. subst. symmetry. apply str_eqb_refl.
  - symmetry. apply str_eqb_neq. apply str_eqb_neq in E. congruence.
Qed.

(* ------------------------------------------------------------------------------------------------------------ *)
(* ids *)

(* ids survive the round trip; the translation is injective *)
Lemma id_roundtrip : forall i : str, id_from_db (id_to_db i) = i.
Proof. intros i. unfold id_to_db. destruct (is_oid i); reflexivity. Qed.

Lemma id_to_db_inj : forall i j : str, id_to_db i = id_to_db j -> i = j.
Proof. intros i j H. apply (f_equal id_from_db) in H. rewrite !id_roundtrip in H. exact H. Qed.

Lemma dbid_eqb_ids : forall i j : str, dbid_eqb (id_to_db i) (id_to_db j) = str_eqb i j.
Proof.
  intros i j. unfold id_to_db. destruct (is_oid i) eqn:Ei; destruct (is_oid j) eqn:Ej; cbn [dbid_eqb]; try reflexivity;
    symmetry; apply str_eqb_neq; intros E; subst; congruence.
Qed.

(* operator names are translated injectively and read back *)
Lemma db_op_name : forall o : fop, db_op (op_name o) = Some o.
Proof. destruct o; reflexivity. Qed.

Lemma op_name_inj : forall o o' : fop, op_name o = op_name o' -> o = o'.
Proof.
  intros o o' H. apply (f_equal db_op) in H. rewrite !db_op_name in H. injection H as ->. reflexivity.
Qed.

(* ------------------------------------------------------------------------------------------------------------ *)
(* filters *)

(* a filter is "id-simple" when every criterion on "id" is either equality with a string or a list of `in` operators
   over lists of strings — the forms _id_to_db_rec is written for *)
Definition id_value_ok (v : jval) : bool :=
  match v with JList l => forallb (fun x => match x with JStr _ => true | _ => false end) l | _ => false end.
Definition id_cond_ok (c : fcond) : bool :=
  match c with
  | FEq (JStr _) => true
  | FEq _ => false
  | FOps l => forallb (fun ov => match fst ov with In_ => id_value_ok (snd ov) | _ => false end) l
  end.
Definition filt_ok (f : filt) : bool :=
  forallb (fun kc => if str_eqb (fst kc) ID then id_cond_ok (snd kc) else true) f.

Definition not_id (kv : str * jval) : bool := negb (str_eqb (fst kv) ID).

Lemma lookup_filter_not_id : forall (k : str) (r : fields),
  str_eqb k ID = false -> lookup k (filter not_id r) = lookup k r.
Proof.
  intros k r Hk. induction r as [|[k' v] t IH]; [reflexivity|].
  cbn [filter lookup]. unfold not_id at 1. cbn [fst].
  destruct (str_eqb k' ID) eqn:E; cbn [negb].
  - apply str_eqb_eq in E. subst k'. rewrite Hk. exact IH.
  - cbn [lookup]. destruct (str_eqb k k'); [reflexivity | exact IH].
Qed.

Lemma py_eq_str : forall i j : str, py_eq (JStr i) (JStr j) = str_eqb i j.
Proof. reflexivity. Qed.

Lemma in_ids : forall (i : str) (l : list jval),
  id_value_ok (JList l) = true ->
  existsb (py_eq (JStr i)) l = existsb (dbid_eqb (id_to_db i)) (ids_of (JList l)).
Proof.
  intros i l. cbn [id_value_ok ids_of].
  induction l as [|x t IH]; intros H; [reflexivity|].
  cbn [forallb] in H. apply andb_true_iff in H as [H1 H2].
  destruct x; try discriminate.
  cbn [flat_map app existsb]. rewrite py_eq_str, dbid_eqb_ids, (IH H2). reflexivity.
Qed.

Lemma id_ops_hom : forall (i : str) (l : list (fop * jval)),
  forallb (fun ov => match fst ov with In_ => id_value_ok (snd ov) | _ => false end) l = true ->
  forallb (fun nv => match db_op (fst nv) with
                     | Some In_ => existsb (dbid_eqb (id_to_db i)) (snd nv)
                     | _ => false
                     end) (map (fun ov => (op_name (fst ov), ids_of (snd ov))) l)
  = forallb (fun ov => op_holds (fst ov) (JStr i) (snd ov)) l.
Proof.
  intros i. induction l as [|[o v] t IH]; intros H; [reflexivity|].
  cbn [forallb map fst snd] in *. apply andb_true_iff in H as [H1 H2].
  rewrite db_op_name, (IH H2). f_equal.
  destruct o; try discriminate. destruct v; try discriminate.
  cbn [op_holds]. symmetry. apply in_ids. exact H1.
Qed.

Lemma ops_hom : forall (a : jval) (l : list (fop * jval)),
  forallb (fun nv => match db_op (fst nv) with Some o => op_holds o a (snd nv) | None => false end)
          (map (fun ov => (op_name (fst ov), snd ov)) l)
  = forallb (fun ov => op_holds (fst ov) a (snd ov)) l.
Proof.
  intros a. induction l as [|[o v] t IH]; [reflexivity|].
  cbn [forallb map fst snd]. rewrite db_op_name, IH. reflexivity.
Qed.

(* the translated filter selects, on the stored document, exactly what the filter selects on the record *)
Theorem filt_to_db_homomorphic :
  forall (f : filt) (r : record) (d : doc),
    filt_ok f = true -> doc_of r = Some d -> db_matches (filt_to_db f) d = matches f r.
Proof.
  intros f r d Hok Hd. unfold doc_of, rec_id in Hd.
  destruct (lookup ID r) as [v0|] eqn:HL; [|discriminate].
  destruct v0 as [| | | |i| | | |]; try discriminate.
  injection Hd as <-. fold not_id.
  unfold db_matches, matches, filt_to_db, filt_ok in *.
  induction f as [|[k c] t IH]; [reflexivity|].
  cbn [forallb map fst snd] in *. apply andb_true_iff in Hok as [H1 H2].
  rewrite (IH H2). f_equal. clear IH H2.
  destruct (str_eqb k ID) eqn:E; cbn [fst snd db_cond_holds].
  - apply str_eqb_eq in E. subst k. rewrite HL.
    destruct c as [v|l].
    + destruct v; try discriminate. cbn [cond_holds]. rewrite py_eq_str. apply dbid_eqb_ids.
    + cbn [cond_holds id_cond_ok] in *. apply id_ops_hom. exact H1.
  - rewrite (lookup_filter_not_id k r E).
    destruct (lookup k r) as [a|]; destruct c as [v|l]; try reflexivity.
    cbn [cond_holds]. apply ops_hom.
Qed.

(* ------------------------------------------------------------------------------------------------------------ *)
(* projection *)

(* records are association lists strictly sorted by str_cmp on the keys (what set_field maintains) *)
Fixpoint sorted_keys (r : fields) : Prop :=
  match r with
  | [] => True
  | kv :: t => Forall (fun kv' => str_cmp (fst kv) (fst kv') = Lt) t /\ sorted_keys t
  end.

Lemma str_cmp_refl : forall a : str, str_cmp a a = Eq.
Proof. induction a as [|x a IH]; [reflexivity|]. cbn [str_cmp]. rewrite Z.compare_refl. exact IH. Qed.

Lemma str_cmp_antisym : forall a b : str, str_cmp b a = CompOpp (str_cmp a b).
Proof.
  induction a as [|x a IH]; destruct b as [|y b]; try reflexivity.
  cbn [str_cmp]. rewrite (Z.compare_antisym y x). destruct (y ?= x); cbn [CompOpp]; try reflexivity. apply IH.
Qed.

Lemma lookup_In : forall (k : str) (v : jval) (r : fields), lookup k r = Some v -> In (k, v) r.
Proof.
  intros k v. induction r as [|[k' v'] t IH]; [discriminate|].
  cbn [lookup]. destruct (str_eqb k k') eqn:E; intros H.
  - apply str_eqb_eq in E. injection H as ->. subst. left. reflexivity.
  - right. apply IH. exact H.
Qed.

Lemma set_field_above : forall (k : str) (v : jval) (l : fields),
  Forall (fun kv => str_cmp k (fst kv) = Lt) l -> set_field k v l = (k, v) :: l.
Proof.
  intros k v l H. destruct l as [|[k' v'] t]; [reflexivity|].
  inversion H as [|x y Hx Hy]; subst. cbn [fst] in Hx. cbn [set_field]. rewrite Hx. reflexivity.
Qed.

Lemma Forall_filter : forall {A} (P : A -> Prop) (f : A -> bool) (l : list A), Forall P l -> Forall P (filter f l).
Proof.
  intros A P f l H. induction H as [|x t Hx Ht IH]; [constructor|].
  cbn [filter]. destruct (f x); [constructor; assumption | assumption].
Qed.

Definition no_id (fs : list str) : list str := filter (fun f => negb (str_eqb f ID)) fs.
Definition keep (fs : list str) (kv : str * jval) : bool := existsb (str_eqb (fst kv)) fs.

Lemma keep_pair : forall (fs : list str) (k : str) (v : jval), keep fs (k, v) = existsb (str_eqb k) fs.
Proof. reflexivity. Qed.

Lemma existsb_no_id : forall (fs : list str) (k : str),
  str_eqb k ID = false -> existsb (str_eqb k) (no_id fs) = existsb (str_eqb k) fs.
Proof.
  intros fs k Hk. unfold no_id. induction fs as [|x t IH]; [reflexivity|].
  cbn [filter existsb]. destruct (str_eqb x ID) eqn:E; cbn [negb existsb].
  - apply str_eqb_eq in E. subst x. rewrite Hk. exact IH.
  - rewrite IH. reflexivity.
Qed.

(* away from the id key both projections keep the same fields *)
Lemma filter_no_id : forall (fs : list str) (r : fields),
  Forall (fun kv => str_eqb (fst kv) ID = false) r -> filter (keep (no_id fs)) (filter not_id r) = filter (keep fs) r.
Proof.
  intros fs r H. induction H as [|[k v] t Hk Ht IH]; [reflexivity|].
  cbn [fst] in Hk. cbn [filter]. unfold not_id at 1. cbn [fst]. rewrite Hk. cbn [negb filter].
  rewrite !keep_pair. rewrite (existsb_no_id fs k Hk), IH. reflexivity.
Qed.

Lemma filter_with_id : forall (fs : list str) (v : jval) (r : fields),
  existsb (str_eqb ID) fs = true -> sorted_keys r -> lookup ID r = Some v ->
  set_field ID v (filter (keep (no_id fs)) (filter not_id r)) = filter (keep fs) r.
Proof.
  intros fs v r Hid. induction r as [|[k' v'] t IH]; intros Hs HL; [discriminate|].
  cbn [sorted_keys fst] in Hs. destruct Hs as [Hall Hs].
  cbn [lookup] in HL. destruct (str_eqb ID k') eqn:E.
  - apply str_eqb_eq in E. subst k'. injection HL as ->.
    assert (Hne : Forall (fun kv => str_eqb (fst kv) ID = false) t).
    { eapply Forall_impl; [|exact Hall]. cbn beta. intros kv Hlt. apply str_eqb_neq. intros Heq.
      rewrite Heq, str_cmp_refl in Hlt. discriminate. }
    cbn [filter]. unfold not_id at 1. cbn [fst]. rewrite str_eqb_refl. cbn [negb].
    rewrite !keep_pair. rewrite Hid. rewrite (filter_no_id fs t Hne).
    apply set_field_above. apply Forall_filter. exact Hall.
  - specialize (IH Hs HL).
    assert (Hgt : str_cmp ID k' = Gt).
    { apply lookup_In in HL. rewrite Forall_forall in Hall. specialize (Hall _ HL). cbn [fst] in Hall.
      rewrite (str_cmp_antisym k' ID), Hall. reflexivity. }
    assert (Ek : str_eqb k' ID = false) by (rewrite str_eqb_sym; exact E).
    cbn [filter]. unfold not_id at 1. cbn [fst]. rewrite Ek. cbn [negb filter].
    rewrite !keep_pair. rewrite (existsb_no_id fs k' Ek).
    destruct (existsb (str_eqb k') fs).
    + cbn [set_field]. rewrite Hgt. rewrite IH. reflexivity.
    + exact IH.
Qed.

Lemma filter_without_id : forall (fs : list str) (r : fields),
  existsb (str_eqb ID) fs = false -> filter (keep (no_id fs)) (filter not_id r) = filter (keep fs) r.
Proof.
  intros fs r Hid. induction r as [|[k v] t IH]; [reflexivity|].
  cbn [filter]. unfold not_id at 1. cbn [fst]. destruct (str_eqb k ID) eqn:E; cbn [negb filter].
  - apply str_eqb_eq in E. subst k. rewrite !keep_pair. rewrite Hid. exact IH.
  - rewrite !keep_pair. rewrite (existsb_no_id fs k E), IH. reflexivity.
Qed.

(* the translated projection returns what the reference projection returns *)
Lemma db_project_spec : forall (fs : list str) (r : record) (d : doc),
  fs <> [] -> doc_of r = Some d -> sorted_keys r -> db_project (proj_to_db (Some fs)) d = project (Some fs) r.
Proof.
  intros fs r d Hne Hd Hs. unfold doc_of, rec_id in Hd.
  destruct (lookup ID r) as [v0|] eqn:HL; [|discriminate].
  destruct v0 as [| | | |i| | | |]; try discriminate.
  injection Hd as <-. fold not_id.
  destruct fs as [|f0 ft]; [contradiction|].
  unfold proj_to_db. set (fs := f0 :: ft) in *. cbn [db_project project fst snd]. rewrite id_roundtrip.
  destruct (existsb (str_eqb ID) fs) eqn:Hid.
  - apply (filter_with_id fs); assumption.
  - apply (filter_without_id fs); assumption.
Qed.

Print Assumptions filt_to_db_homomorphic.
Print Assumptions db_project_spec.
