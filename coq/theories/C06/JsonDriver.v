(* C06 — MODEL of drivers/persist/json.py (JSONDriver), following the code's control flow:
     _data : dict collection -> dict id -> record      (Python dicts keep insertion order; assigning to an existing key
                                                         keeps its position)
     query : the `id` fast path (coll.get(id) then the remaining criteria) or a scan with _filter_matches on
             dict(record, id=id_); successive list.sort calls over reversed(sort), each with reverse=rev; slice; projection
     insert: _find_next_id = str(max([0] + [int(k) for numeric keys]) + 1), duplicate check only for explicit ids
     update / remove: the same fast path / scan;  replace: coll.get(id) is None -> False.
   Records are dicts: modelled by their canonical key-sorted association list (RefStore.set_field).

   [upd_fast_checks]: at the snapshot, update()'s id fast path does NOT apply the remaining criteria (false);
   the repaired code does (true).  See History/C06Old.v. *)
From QT Require Export C06.RefStore.
Open Scope Z_scope.

Definition jcoll := list (str * record).            (* dict id -> record, insertion order *)
Definition jstore := list (str * jcoll).

Fixpoint jget (c : str) (s : jstore) : jcoll :=
  match s with [] => [] | (c', l) :: t => if str_eqb c c' then l else jget c t end.
Fixpoint jset (c : str) (l : jcoll) (s : jstore) : jstore :=
  match s with
  | [] => [(c, l)]
  | (c', l') :: t => if str_eqb c c' then (c, l) :: t else (c', l') :: jset c l t
  end.

(* dict operations on the id index *)
Fixpoint dget (i : str) (l : jcoll) : option record :=
  match l with [] => None | (k, r) :: t => if str_eqb i k then Some r else dget i t end.
Fixpoint dset (i : str) (r : record) (l : jcoll) : jcoll :=         (* coll[i] = r *)
  match l with
  | [] => [(i, r)]
  | (k, r') :: t => if str_eqb i k then (k, r) :: t else (k, r') :: dset i r t
  end.
Fixpoint dpop (i : str) (l : jcoll) : jcoll :=
  match l with [] => [] | (k, r) :: t => if str_eqb i k then t else (k, r) :: dpop i t end.

(* ------------------------------------------------------------------------------------------------------------ *)
(* _filter_value_matches / _filter_matches: loops with early return *)

Fixpoint ops_match (a : jval) (l : list (fop * jval)) : bool :=
  match l with
  | [] => true
  | (o, v) :: t => if op_holds o a v then ops_match a t else false
  end.

Definition filter_value_matches (a : jval) (c : fcond) : bool :=
  match c with FOps l => ops_match a l | FEq v => py_eq a v end.

Fixpoint filter_matches (r : record) (f : filt) : bool :=
  match f with
  | [] => true
  | (k, c) :: t =>
      match lookup k r with
      | None => false                                                   (* KeyError *)
      | Some a => if filter_value_matches a c then filter_matches r t else false
      end
  end.

(* filt is a dict: filt.get('id') / filt.pop('id') *)
Fixpoint fget (k : str) (f : filt) : option fcond :=
  match f with [] => None | (k', c) :: t => if str_eqb k k' then Some c else fget k t end.
Fixpoint fpop (k : str) (f : filt) : filt :=
  match f with [] => [] | (k', c) :: t => if str_eqb k k' then t else (k', c) :: fpop k t end.

(* isinstance(filt.get('id'), str) *)
Definition fast_id (f : filt) : option str :=
  match fget ID f with Some (FEq (JStr i)) => Some i | _ => None end.

(* ------------------------------------------------------------------------------------------------------------ *)
(* int(id_) and str(n) on identifiers (ASCII digits with an optional sign; other forms int() accepts — blanks,
   underscores, non-ASCII digits — are not generated) *)

Definition digit (c : Z) : option Z := if (48 <=? c) && (c <=? 57) then Some (c - 48) else None.
Fixpoint parse_digits (l : str) (acc : Z) : option Z :=
  match l with
  | [] => Some acc
  | c :: r => match digit c with Some d => parse_digits r (acc * 10 + d) | None => None end
  end.
Definition parse_int (s : str) : option Z :=
  match s with
  | [] => None
  | 45 :: [] | 43 :: [] => None
  | 45 :: t => option_map Z.opp (parse_digits t 0)
  | 43 :: t => parse_digits t 0
  | _ => parse_digits s 0
  end.

Fixpoint dec_fuel (fuel : nat) (n : Z) (acc : str) : str :=
  match fuel with
  | O => acc
  | S f => let acc' := (48 + n mod 10) :: acc in if n <? 10 then acc' else dec_fuel f (n / 10) acc'
  end.
Definition dec (n : Z) : str :=
  if n <? 0 then 45 :: dec_fuel (S (Z.to_nat (Z.log2 (- n)))) (- n) [] else dec_fuel (S (Z.to_nat (Z.log2 n))) n [].

(* _find_next_id *)
Definition max_int_id (l : jcoll) : Z :=
  fold_left (fun m kr => match parse_int (fst kr) with Some n => Z.max m n | None => m end) l 0.
Definition find_next_id (l : jcoll) : str := dec (max_int_id l + 1).

(* ------------------------------------------------------------------------------------------------------------ *)
(* list.sort(key=..., reverse=rev): CPython reverses the list, sorts stably, reverses again *)

Definition py_sort {A} (le : A -> A -> bool) (rev_ : bool) (l : list A) : list A :=
  if rev_ then rev (isort le (rev l)) else isort le l.

(* key=lambda r: int(r['id'])  /  key=lambda r: r.get(field) ; None = the key function raises *)
Definition sort_key (f : str) (r : record) : option jval :=
  if str_eqb f ID then
    match rec_id r with
    | Some i => match parse_int i with Some n => Some (JInt n) | None => None end
    | None => None
    end
  else Some (fkey f r).

Definition key_or_null (f : str) (r : record) : jval := match sort_key f r with Some v => v | None => JNull end.

Definition sort_pass (fd : str * bool) (l : list record) : option (list record) :=
  if forallb (fun r => match sort_key (fst fd) r with Some _ => true | None => false end) l
  then Some (py_sort (fun a b => py_leb (key_or_null (fst fd) a) (key_or_null (fst fd) b)) (snd fd) l)
  else None.

(* for field, rev in reversed(sort): records.sort(...) *)
Fixpoint sort_passes (rs : list (str * bool)) (l : list record) : option (list record) :=
  match rs with
  | [] => Some l
  | fd :: t => match sort_pass fd l with Some l' => sort_passes t l' | None => None end
  end.

Definition json_sort (s : list (str * bool)) (l : list record) : option (list record) := sort_passes (rev s) l.

(* ------------------------------------------------------------------------------------------------------------ *)

Definition with_id (k : str) (r : record) : record := set_field ID (JStr k) r.        (* dict(record, id=id_) *)

Definition json_select (f : filt) (l : jcoll) : list record :=
  match fast_id f with
  | Some i =>
      match dget i l with
      | Some r => if filter_matches r (fpop ID f) then [r] else []
      | None => []
      end
  | None => map snd (filter (fun kr => filter_matches (with_id (fst kr) (snd kr)) f) l)
  end.

Definition json_query (p : option (list str)) (f : filt) (s : list (str * bool)) (n : option Z) (l : jcoll) : out :=
  match json_sort s (json_select f l) with
  | Some rs => ORecs (map (project p) (limit_to n rs))
  | None => OErr
  end.

Definition json_step (upd_fast_checks : bool) (s : jstore) (o : op) : jstore * out :=
  match o with
  | Insert c None r =>
      let l := jget c s in
      let i := find_next_id l in
      (jset c (dset i (with_id i r) l) s, OId i)
  | Insert c (Some i) r =>
      let l := jget c s in
      match dget i l with
      | Some _ => (s, ODup)
      | None => (jset c (dset i (with_id i r) l) s, OId i)
      end
  | Update c part f =>
      let l := jget c s in
      match fast_id f with
      | Some i =>
          match dget i l with
          | Some r =>
              if negb upd_fast_checks || filter_matches r (fpop ID f)
              then (jset c (dset i (merge r part) l) s, OCount 1)
              else (s, OCount 0)
          | None => (s, OCount 0)
          end
      | None =>
          let hit kr := filter_matches (with_id (fst kr) (snd kr)) f in
          (jset c (map (fun kr => if hit kr then (fst kr, merge (snd kr) part) else kr) l) s, OCount (count hit l))
      end
  | Replace c i r =>
      let l := jget c s in
      match dget i l with
      | None => (s, OBool false)
      | Some _ => (jset c (dset i (with_id i r) l) s, OBool true)
      end
  | Remove c f =>
      let l := jget c s in
      match fast_id f with
      | Some i =>
          match dget i l with
          | Some r => if filter_matches r (fpop ID f) then (jset c (dpop i l) s, OCount 1) else (s, OCount 0)
          | None => (s, OCount 0)
          end
      | None =>
          let hit kr := filter_matches (with_id (fst kr) (snd kr)) f in
          (jset c (filter (fun kr => negb (hit kr)) l) s, OCount (count hit l))
      end
  | Query c p f srt n => (s, json_query p f srt n (jget c s))
  end.

Fixpoint json_run (upd_fast_checks : bool) (s : jstore) (ops : list op) : list out :=
  match ops with
  | [] => []
  | o :: r => let '(s', x) := json_step upd_fast_checks s o in x :: json_run upd_fast_checks s' r
  end.
