(* C06 — MODEL of drivers/persist/redis.py (RedisDriver), following the code's control flow:
     one hash  "<coll>:<id>"  per record (fields -> _value_to_db(value)); nothing is stored for a record without fields;
     one set   "<coll>-id-set" of ids;  one counter "<coll>-id-sequence" (INCR) for automatic ids;
     every field value goes through the codec (JsonStr.to_db / from_db) on the way in and on every read, filter and sort.
   The iteration order of a Redis set (SSCAN) is unspecified: the model takes it as an input of each step ([scan]).

   Parameters:  [fast]  the codec's str fast path (true at the snapshot, false once repaired — JsonStr.v);
                [fx]    false = the id fast paths as they stand at the snapshot:
                                  - a record without fields is invisible to query/update/remove by id (`if db_record and ..`);
                                  - remove(id + other criteria) takes the id out of the set even when the criteria fail;
                                  - update(..., {}) on the scan path deletes the matching records' hashes;
                        true  = repaired (fixes/C06-redis-id-paths.diff).
   A codec failure (JSONDecodeError) aborts the operation: OErr (the harness stops a sequence there). *)
From QT Require Export C06.JsonStr C06.JsonDriver.
Open Scope Z_scope.

Definition hash := list (str * dbval).               (* field -> stored text; canonical: sorted by field *)

Record rstate := { r_hash : list (str * hash);       (* key -> hash; absent = empty *)
                   r_set : list (str * list str);    (* collection -> ids *)
                   r_seq : list (str * Z) }.         (* collection -> counter *)

Definition rempty : rstate := {| r_hash := []; r_set := []; r_seq := [] |}.

Section Assoc.
  Context {V : Type}.
  Fixpoint aget (k : str) (l : list (str * V)) : option V :=
    match l with [] => None | (k', v) :: t => if str_eqb k k' then Some v else aget k t end.
  Fixpoint aput (k : str) (v : V) (l : list (str * V)) : list (str * V) :=
    match l with
    | [] => [(k, v)]
    | (k', v') :: t => if str_eqb k k' then (k, v) :: t else (k', v') :: aput k v t
    end.
  Fixpoint adel (k : str) (l : list (str * V)) : list (str * V) :=
    match l with [] => [] | (k', v') :: t => if str_eqb k k' then t else (k', v') :: adel k t end.
  (* sorted insertion (dict / hash as a canonical association list) *)
  Fixpoint sput (k : str) (v : V) (l : list (str * V)) : list (str * V) :=
    match l with
    | [] => [(k, v)]
    | (k', v') :: t =>
        match str_cmp k k' with
        | Lt => (k, v) :: l
        | Eq => (k, v) :: t
        | Gt => (k', v') :: sput k v t
        end
    end.
End Assoc.

Definition record_key (c i : str) : str := match i with [] => c | _ => c ++ 58 :: i end.      (* f'{c}:{i}' or c *)

Definition hgetall (st : rstate) (c i : str) : hash := match aget (record_key c i) (r_hash st) with Some h => h | None => [] end.
Definition smembers (st : rstate) (c : str) : list str := match aget c (r_set st) with Some l => l | None => [] end.
Definition sismember (st : rstate) (c i : str) : bool := existsb (str_eqb i) (smembers st c).

Definition hset (st : rstate) (c i : str) (part : hash) : rstate :=
  {| r_hash := aput (record_key c i) (fold_left (fun h kv => sput (fst kv) (snd kv) h) part (hgetall st c i)) (r_hash st);
     r_set := r_set st; r_seq := r_seq st |}.
Definition hdelete (st : rstate) (c i : str) : rstate :=
  {| r_hash := adel (record_key c i) (r_hash st); r_set := r_set st; r_seq := r_seq st |}.
Definition sadd (st : rstate) (c i : str) : rstate :=
  if sismember st c i then st
  else {| r_hash := r_hash st; r_set := aput c (smembers st c ++ [i]) (r_set st); r_seq := r_seq st |}.
Definition srem (st : rstate) (c i : str) : rstate :=
  {| r_hash := r_hash st; r_set := aput c (filter (fun j => negb (str_eqb i j)) (smembers st c)) (r_set st);
     r_seq := r_seq st |}.
Definition incr (st : rstate) (c : str) : rstate * Z :=
  let n := (match aget c (r_seq st) with Some n => n | None => 0 end) + 1 in
  ({| r_hash := r_hash st; r_set := r_set st; r_seq := aput c n (r_seq st) |}, n).

Section Driver.
  Variable fast : bool.
  Variable fx : bool.

  Definition record_to_db (r : fields) : hash := map (fun kv => (fst kv, to_db fast (snd kv))) r.

  (* _record_from_db (without projection): decode every field, add the id *)
  Fixpoint decode (h : hash) : option fields :=
    match h with
    | [] => Some []
    | (k, d) :: t =>
        match from_db d, decode t with
        | Some v, Some t' => Some ((k, v) :: t')
        | _, _ => None
        end
    end.

  (* _filter_matches on (id, hash); None = the codec raised *)
  Fixpoint rmatches (i : option str) (h : hash) (f : filt) : option bool :=
    match f with
    | [] => Some true
    | (k, c) :: t =>
        let continue_with (a : jval) := if filter_value_matches a c then rmatches i h t else Some false in
        match (if str_eqb k ID then i else None) with
        | Some i' => continue_with (JStr i')
        | None =>
            match aget k h with
            | None => Some false                                        (* KeyError *)
            | Some d => match from_db d with Some a => continue_with a | None => None end
            end
        end
    end.

  (* the records selected by a filter, as (id, hash), in scan order *)
  Fixpoint rselect_scan (st : rstate) (c : str) (f : filt) (ids : list str) : option (list (str * hash)) :=
    match ids with
    | [] => Some []
    | i :: t =>
        let h := hgetall st c i in
        match rmatches (Some i) h f, rselect_scan st c f t with
        | Some true, Some r => Some ((i, h) :: r)
        | Some false, Some r => Some r
        | _, _ => None
        end
    end.

  (* `if db_record and ...` (snapshot)  /  `if (db_record or sismember) and ...` (repaired) *)
  Definition present (st : rstate) (c i : str) (h : hash) : bool :=
    match h with _ :: _ => true | [] => fx && sismember st c i end.

  Definition rselect (st : rstate) (c : str) (f : filt) (scan : list str) : option (list (str * hash)) :=
    match fast_id f with
    | Some i =>
        let h := hgetall st c i in
        if present st c i h then
          match rmatches None h (fpop ID f) with
          | Some true => Some [(i, h)]
          | Some false => Some []
          | None => None
          end
        else Some []
    | None => rselect_scan st c f scan
    end.

  (* key=lambda r: int(r['id'])  /  self._value_from_db(r.get(field)) — a missing field makes json.loads(None) raise *)
  Definition rsort_key (fld : str) (ih : str * hash) : option jval :=
    if str_eqb fld ID then match parse_int (fst ih) with Some n => Some (JInt n) | None => None end
    else match aget fld (snd ih) with Some d => from_db d | None => None end.

  Definition rkey_or_null (fld : str) (ih : str * hash) : jval := match rsort_key fld ih with Some v => v | None => JNull end.

  Definition rsort_pass (fd : str * bool) (l : list (str * hash)) : option (list (str * hash)) :=
    if forallb (fun r => match rsort_key (fst fd) r with Some _ => true | None => false end) l
    then Some (py_sort (fun a b => py_leb (rkey_or_null (fst fd) a) (rkey_or_null (fst fd) b)) (snd fd) l)
    else None.

  Fixpoint rsort_passes (rs : list (str * bool)) (l : list (str * hash)) : option (list (str * hash)) :=
    match rs with
    | [] => Some l
    | fd :: t => match rsort_pass fd l with Some l' => rsort_passes t l' | None => None end
    end.

  Fixpoint rdecode_all (p : option (list str)) (l : list (str * hash)) : option (list record) :=
    match l with
    | [] => Some []
    | (i, h) :: t =>
        match decode h, rdecode_all p t with
        | Some r, Some t' => Some (project p (with_id i r) :: t')
        | _, _ => None
        end
    end.

  Definition redis_query (st : rstate) (c : str) (p : option (list str)) (f : filt) (s : list (str * bool)) (n : option Z)
             (scan : list str) : out :=
    match rselect st c f scan with
    | None => OErr
    | Some sel =>
        match rsort_passes (rev s) sel with
        | None => OErr
        | Some sorted => match rdecode_all p (limit_to n sorted) with Some rs => ORecs rs | None => OErr end
        end
    end.

  Definition redis_step (st : rstate) (o : op) (scan : list str) : rstate * out :=
    match o with
    | Insert c io r =>
        let '(st1, i) := match io with Some i => (st, i) | None => let '(s', n) := incr st c in (s', dec n) end in
        if sismember st1 c i then (st1, ODup)
        else
          let h := record_to_db r in
          let st2 := match h with [] => st1 | _ => hset st1 c i h end in
          (sadd st2 c i, OId i)
    | Update c part f =>
        let hp := record_to_db part in
        match fast_id f with
        | Some i =>
            let h := hgetall st c i in
            if present st c i h then
              match rmatches None h (fpop ID f) with
              | Some true => ((match hp with [] => if fx then st else hset st c i hp | _ => hset st c i hp end), OCount 1)
              | Some false => (st, OCount 0)
              | None => (st, OErr)
              end
            else (st, OCount 0)
        | None =>
            match rselect_scan st c f scan with
            | None => (st, OErr)
            | Some sel =>
                (fold_left (fun s ih => match hp with
                                        | [] => if fx then s else hdelete s c (fst ih)
                                        | _ => hset s c (fst ih) hp
                                        end) sel st,
                 OCount (Z.of_nat (List.length sel)))
            end
        end
    | Replace c i r =>
        if sismember st c i then
          let st1 := hdelete st c i in
          let h := record_to_db r in
          ((match h with [] => st1 | _ => hset st1 c i h end), OBool true)
        else (st, OBool false)
    | Remove c f =>
        match fast_id f with
        | Some i =>
            let h := hgetall st c i in
            if present st c i h then
              match rmatches None h (fpop ID f) with
              | Some true => (srem (hdelete st c i) c i, OCount 1)
              | Some false => ((if fx then st else srem st c i), OCount 0)
              | None => (st, OErr)
              end
            else ((if fx then st else srem st c i), OCount 0)
        | None =>
            match rselect_scan st c f scan with
            | None => (st, OErr)
            | Some sel => (fold_left (fun s ih => srem (hdelete s c (fst ih)) c (fst ih)) sel st,
                           OCount (Z.of_nat (List.length sel)))
            end
        end
    | Query c p f s n => (st, redis_query st c p f s n scan)
    end.

  (* a run: every step comes with the scan order the set iteration produced (None: the model's own set order) *)
  Fixpoint redis_run (st : rstate) (ops : list (op * option (list str))) : list out :=
    match ops with
    | [] => []
    | (o, sc) :: r =>
        let scan := match sc with Some l => l | None => smembers st (op_coll o) end in
        let '(st', x) := redis_step st o scan in
        x :: redis_run st' r
    end.
End Driver.
