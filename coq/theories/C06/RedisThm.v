(* C06 — THEOREMS: the repaired (fx = true) Redis driver model refines the reference record store, with the id set
   iterated in the model's own order (insertion order: sadd appends, srem filters).

     redis_refines_gen / redis_refines_sorted_gen   any [fast], relative to a class [okv] of field values on which the
                                                    codec round-trips; written values must be in the class
     redis_refines_repaired / .._sorted_repaired    fast = false, NO hypothesis: string field values are text
                                                    (Unicode scalar values), everything else unconstrained
     redis_refines / redis_refines_sorted           the statement under "the codec round-trips on every value"
                                                    (an unsatisfiable premise: codec_ok_unsatisfiable)
   The *_sorted variants allow sort lists (no key id) under the run-time condition that the driver did not raise
   (a sort pass raises when a selected record lacks the field; the reference sorts a missing field as null);
   the plain variants restrict queries to empty sort lists and have no run-time condition.
   Contract limits ([wf_op_gen]): collection names without ':' ; explicit ids non-empty and not parsing as an integer
   (an explicit id equal to a later counter value would make the automatic id a duplicate: a real limit of the
   driver); inserted / replacing records in canonical dict form ([canonical], implied by key-sortedness:
   [sorted_canonical]); update parts without the key id; filters with at most one id criterion.
   Also: [parse_dec] int(str(n)) = n for n > 0 (hence [dec_inj]), proved, not assumed.

   Simulation invariant [Inv st s]: for every collection name c without ':'
     - the reference collection is  map (recof st c) (smembers st c)  where recof decodes the hash of an id and adds the id;
     - the ids of the set are pairwise distinct and non-empty, their hashes are images of the codec;
     - an id that is not in the set has no hash;
     - an id that is the decimal form of a positive number is at most the collection's counter;
   plus: the hash table has unique keys and counters are non-negative. *)
From Coq Require Import ZArith List Bool Lia.
From QT Require Import C06.RefStore C06.JsonStr C06.JsonDriver C06.RedisDriver C06.Lemmas C06.SortThm C06.OrderThm C06.JsonStrThm.
Import ListNotations.
Open Scope Z_scope.

(* ------------------------------------------------------------------------------------------------------------ *)
(* the codec *)

Lemma decode_record_to_db : forall fast, (forall v, from_db (to_db fast v) = Some v) ->
  forall r, decode (record_to_db fast r) = Some r.
Proof.
  intros fast H r. unfold record_to_db. induction r as [|[k v] t IH]; cbn [map decode fst snd]; [reflexivity|].
  rewrite H, IH. reflexivity.
Qed.

Lemma codec_ok_repaired_on_scalar_strings : forall s, Forall scalar_cp s -> from_db (to_db false (JStr s)) = Some (JStr s).
Proof.
  intros s H. cbn [to_db from_db dumps_str]. rewrite json_string_roundtrip by assumption. reflexivity.
Qed.

Lemma codec_not_ok_at_snapshot : ~ (forall v, from_db (to_db true v) = Some v).
Proof.
  intro H. specialize (H (JStr [97; 34; 98])). vm_compute in H. discriminate H.
Qed.

(* ------------------------------------------------------------------------------------------------------------ *)
(* generic list facts *)

Lemma filter_map_comm : forall {A B} (g : A -> B) (q : B -> bool) l, filter q (map g l) = map g (filter (fun x => q (g x)) l).
Proof.
  intros A B g q l. induction l as [|a l IH]; cbn [map filter]; [reflexivity|].
  destruct (q (g a)); cbn [map]; rewrite IH; reflexivity.
Qed.

Lemma filter_ext_in' : forall {A} (p q : A -> bool) l, (forall x, In x l -> p x = q x) -> filter p l = filter q l.
Proof.
  intros A p q l. induction l as [|a l IH]; intro H; cbn [filter]; [reflexivity|].
  rewrite (H a (or_introl eq_refl)), IH; [reflexivity|]. intros x Hx. apply H. right. exact Hx.
Qed.

Lemma In_firstn : forall {A} n (l : list A) x, In x (firstn n l) -> In x l.
Proof.
  intros A n. induction n as [|n IH]; intros l x H; cbn in H; [contradiction|].
  destruct l as [|a l]; [contradiction|]. destruct H as [H|H]; [left; exact H|right; apply IH; exact H].
Qed.

Lemma limit_to_map : forall {A B} (g : A -> B) n l, limit_to n (map g l) = map g (limit_to n l).
Proof. intros A B g [k|] l; cbn [limit_to]; [apply firstn_map|reflexivity]. Qed.

Lemma In_limit_to : forall {A} n (l : list A) x, In x (limit_to n l) -> In x l.
Proof. intros A [k|] l x H; cbn [limit_to] in H; [eapply In_firstn; exact H|exact H]. Qed.

Lemma nodup_snoc : forall {A} (l : list A) x, NoDup l -> ~ In x l -> NoDup (l ++ [x]).
Proof.
  intros A l x ND NI. induction ND as [|a l Na ND IH]; cbn [app].
  - constructor; [intros []|constructor].
  - constructor.
    + intro H. apply in_app_or in H. destruct H as [H|H]; [contradiction|].
      destruct H as [H|[]]. apply NI. left. symmetry. exact H.
    + apply IH. intro H. apply NI. right. exact H.
Qed.

Lemma fold_left_map' : forall {A B C} (F : A -> C -> A) (g : B -> C) l a,
  fold_left (fun s x => F s (g x)) l a = fold_left F (map g l) a.
Proof. intros A B C F g l. induction l as [|x l IH]; intro a; cbn [fold_left map]; [reflexivity|apply IH]. Qed.

Lemma fold_left_id : forall {A B} (l : list B) (a : A), fold_left (fun s _ => s) l a = a.
Proof. intros A B l. induction l as [|x l IH]; intro a; cbn [fold_left]; [reflexivity|apply IH]. Qed.

Lemma existsb_str_In : forall i l, existsb (str_eqb i) l = true <-> In i l.
Proof.
  intros i l. rewrite existsb_exists. split.
  - intros [x [Hx E]]. apply str_eqb_eq in E. subst. exact Hx.
  - intro H. exists i. split; [exact H|apply str_eqb_refl].
Qed.

Lemma existsb_str_notIn : forall i l, existsb (str_eqb i) l = false <-> ~ In i l.
Proof.
  intros i l. split.
  - intros H I. apply existsb_str_In in I. congruence.
  - intro H. destruct (existsb (str_eqb i) l) eqn:E; [|reflexivity]. apply existsb_str_In in E. contradiction.
Qed.

Lemma filter_id_nodup : forall (N : str -> bool) l i, NoDup l ->
  filter (fun j => str_eqb j i && N j) l = if existsb (str_eqb i) l && N i then [i] else [].
Proof.
  intros N l i ND. induction ND as [|a t NI ND IH]; cbn [filter existsb]; [reflexivity|].
  rewrite IH. destruct (str_eqb a i) eqn:E.
  - apply str_eqb_eq in E. subst a. rewrite str_eqb_refl. cbn [orb andb].
    apply existsb_str_notIn in NI. rewrite NI. cbn [andb]. destruct (N i); reflexivity.
  - cbn [andb]. rewrite (str_eqb_sym i a), E. cbn [orb]. reflexivity.
Qed.

(* ------------------------------------------------------------------------------------------------------------ *)
(* association lists *)

Section AssocFacts.
  Context {V : Type}.
  Implicit Types l : list (str * V).

  Lemma aget_aput : forall k k' (v : V) l, aget k' (aput k v l) = if str_eqb k' k then Some v else aget k' l.
  Proof.
    intros k k' v l. induction l as [|[k2 v2] t IH]; cbn [aput aget].
    - reflexivity.
    - destruct (str_eqb k k2) eqn:E; cbn [aget].
      + apply str_eqb_eq in E. subst k2. destruct (str_eqb k' k); reflexivity.
      + destruct (str_eqb k' k2) eqn:E2.
        * apply str_eqb_eq in E2. subst k2. rewrite str_eqb_sym, E. reflexivity.
        * exact IH.
  Qed.

  Lemma aget_adel_other : forall k k' l, k' <> k -> aget k' (adel k l) = aget k' l.
  Proof.
    intros k k' l N. induction l as [|[k2 v2] t IH]; cbn [adel aget]; [reflexivity|].
    destruct (str_eqb k k2) eqn:E.
    - apply str_eqb_eq in E. subst k2. apply str_eqb_neq in N. rewrite N. reflexivity.
    - cbn [aget]. rewrite IH. reflexivity.
  Qed.

  Lemma aget_notin : forall k l, ~ In k (map fst l) -> aget k l = None.
  Proof.
    intros k l. induction l as [|[k2 v2] t IH]; intro N; cbn [aget]; [reflexivity|].
    destruct (str_eqb k k2) eqn:E.
    - apply str_eqb_eq in E. subst k2. exfalso. apply N. left. reflexivity.
    - apply IH. intro H. apply N. right. exact H.
  Qed.

  Lemma aget_adel_same : forall k l, NoDup (map fst l) -> aget k (adel k l) = None.
  Proof.
    intros k l. induction l as [|[k2 v2] t IH]; intro ND; cbn [adel]; [reflexivity|].
    cbn [map fst] in ND. inversion ND as [|? ? NI ND']; subst.
    destruct (str_eqb k k2) eqn:E.
    - apply str_eqb_eq in E. subst k2. apply aget_notin. exact NI.
    - cbn [aget]. rewrite E. apply IH. exact ND'.
  Qed.

  Lemma in_keys_aput : forall x k (v : V) l, In x (map fst (aput k v l)) -> x = k \/ In x (map fst l).
  Proof.
    intros x k v l. induction l as [|[k2 v2] t IH]; cbn [aput map fst]; intro H.
    - destruct H as [H|[]]. left. symmetry. exact H.
    - destruct (str_eqb k k2) eqn:E; cbn [map fst] in H.
      + destruct H as [H|H]; [left; symmetry; exact H|right; right; exact H].
      + destruct H as [H|H]; [right; left; exact H|]. destruct (IH H) as [H'|H']; [left; exact H'|right; right; exact H'].
  Qed.

  Lemma in_keys_adel : forall x k l, In x (map fst (adel k l)) -> In x (map fst l).
  Proof.
    intros x k l. induction l as [|[k2 v2] t IH]; cbn [adel map fst]; intro H; [exact H|].
    destruct (str_eqb k k2) eqn:E; cbn [map fst] in H.
    - right. exact H.
    - destruct H as [H|H]; [left; exact H|right; apply IH; exact H].
  Qed.

  Lemma nodup_aput : forall k (v : V) l, NoDup (map fst l) -> NoDup (map fst (aput k v l)).
  Proof.
    intros k v l. induction l as [|[k2 v2] t IH]; intro ND; cbn [aput].
    - cbn. constructor; [intros []|constructor].
    - cbn [map fst] in ND. inversion ND as [|? ? NI ND']; subst.
      destruct (str_eqb k k2) eqn:E; cbn [map fst].
      + apply str_eqb_eq in E. subst k2. constructor; assumption.
      + constructor; [|apply IH; exact ND'].
        intro H. apply in_keys_aput in H. destruct H as [H|H]; [|contradiction].
        subst k2. rewrite str_eqb_refl in E. discriminate.
  Qed.

  Lemma nodup_adel : forall k l, NoDup (map fst l) -> NoDup (map fst (adel k l)).
  Proof.
    intros k l. induction l as [|[k2 v2] t IH]; intro ND; cbn [adel]; [exact ND|].
    cbn [map fst] in ND. inversion ND as [|? ? NI ND']; subst.
    destruct (str_eqb k k2) eqn:E; cbn [map fst]; [exact ND'|].
    constructor; [|apply IH; exact ND'].
    intro H. apply in_keys_adel in H. contradiction.
  Qed.
End AssocFacts.

(* ------------------------------------------------------------------------------------------------------------ *)
(* record keys: "<coll>:<id>" is injective on collection names without ':' and non-empty ids *)

Definition nocolon (c : str) : Prop := ~ In 58 c.

Lemma app_colon_inj : forall c c' t t' : str, nocolon c -> nocolon c' -> c' ++ 58 :: t' = c ++ 58 :: t -> c' = c /\ t' = t.
Proof.
  unfold nocolon. induction c as [|y c IH]; intros [|x c'] t t' Hc Hc' H; cbn [app] in H.
  - inversion H. split; reflexivity.
  - inversion H; subst. exfalso. apply Hc'. left. reflexivity.
  - inversion H; subst. exfalso. apply Hc. left. reflexivity.
  - inversion H; subst. destruct (IH c' t t') as [-> ->]; try assumption.
    + intro I. apply Hc. right. exact I.
    + intro I. apply Hc'. right. exact I.
    + split; reflexivity.
Qed.

Lemma record_key_inj : forall c c' i i', nocolon c -> nocolon c' -> i <> [] ->
  record_key c' i' = record_key c i -> c' = c /\ i' = i.
Proof.
  intros c c' i i' Hc Hc' Hi H. unfold record_key in H.
  destruct i as [|a i]; [contradiction|]. destruct i' as [|a' i'].
  - exfalso. apply Hc'. rewrite H. apply in_or_app. right. left. reflexivity.
  - destruct (app_colon_inj c c' (a :: i) (a' :: i') Hc Hc' H) as [-> H']. inversion H'. split; reflexivity.
Qed.

Lemma record_key_eqb : forall c c' i i', nocolon c -> nocolon c' -> i <> [] ->
  str_eqb (record_key c' i') (record_key c i) = str_eqb c' c && str_eqb i' i.
Proof.
  intros c c' i i' Hc Hc' Hi. destruct (str_eqb (record_key c' i') (record_key c i)) eqn:E.
  - apply str_eqb_eq in E. apply record_key_inj in E; try assumption. destruct E as [-> ->].
    rewrite !str_eqb_refl. reflexivity.
  - destruct (str_eqb c' c) eqn:E1; [|reflexivity]. destruct (str_eqb i' i) eqn:E2; [|reflexivity].
    apply str_eqb_eq in E1. apply str_eqb_eq in E2. subst. rewrite str_eqb_refl in E. discriminate.
Qed.

(* ------------------------------------------------------------------------------------------------------------ *)
(* the Redis primitives *)

Definition seqv (st : rstate) (c : str) : Z := match aget c (r_seq st) with Some n => n | None => 0 end.
Definition hkeys_ok (st : rstate) : Prop := NoDup (map fst (r_hash st)).

Definition sput_all (part h : hash) : hash := fold_left (fun h kv => sput (fst kv) (snd kv) h) part h.

Lemma hgetall_hset : forall st c i part c' i',
  hgetall (hset st c i part) c' i' =
  if str_eqb (record_key c' i') (record_key c i) then sput_all part (hgetall st c i) else hgetall st c' i'.
Proof.
  intros. unfold hset, hgetall, sput_all. cbn [r_hash]. rewrite aget_aput.
  destruct (str_eqb (record_key c' i') (record_key c i)); reflexivity.
Qed.

Lemma hgetall_hdelete_other : forall st c i c' i', record_key c' i' <> record_key c i ->
  hgetall (hdelete st c i) c' i' = hgetall st c' i'.
Proof. intros. unfold hdelete, hgetall. cbn [r_hash]. rewrite aget_adel_other by assumption. reflexivity. Qed.

Lemma hgetall_hdelete_same : forall st c i, hkeys_ok st -> hgetall (hdelete st c i) c i = [].
Proof. intros. unfold hdelete, hgetall. cbn [r_hash]. rewrite aget_adel_same by assumption. reflexivity. Qed.

Lemma hkeys_hset : forall st c i part, hkeys_ok st -> hkeys_ok (hset st c i part).
Proof. intros. unfold hkeys_ok, hset. cbn [r_hash]. apply nodup_aput. assumption. Qed.

Lemma hkeys_hdelete : forall st c i, hkeys_ok st -> hkeys_ok (hdelete st c i).
Proof. intros. unfold hkeys_ok, hdelete. cbn [r_hash]. apply nodup_adel. assumption. Qed.

Lemma sadd_hash : forall st c i, r_hash (sadd st c i) = r_hash st.
Proof. intros. unfold sadd. destruct (sismember st c i); reflexivity. Qed.

Lemma sadd_seq : forall st c i, r_seq (sadd st c i) = r_seq st.
Proof. intros. unfold sadd. destruct (sismember st c i); reflexivity. Qed.

Lemma smembers_sadd : forall st c i c',
  smembers (sadd st c i) c' =
  if str_eqb c' c then (if sismember st c i then smembers st c else smembers st c ++ [i]) else smembers st c'.
Proof.
  intros. unfold sadd. destruct (sismember st c i) eqn:E.
  - destruct (str_eqb c' c) eqn:E2; [apply str_eqb_eq in E2; subst|]; reflexivity.
  - unfold smembers at 1. cbn [r_set]. rewrite aget_aput. destruct (str_eqb c' c); reflexivity.
Qed.

Lemma smembers_srem : forall st c i c',
  smembers (srem st c i) c' =
  if str_eqb c' c then filter (fun j => negb (str_eqb i j)) (smembers st c) else smembers st c'.
Proof.
  intros. unfold srem. unfold smembers at 1. cbn [r_set]. rewrite aget_aput. destruct (str_eqb c' c); reflexivity.
Qed.

Lemma sismember_In : forall st c i, sismember st c i = true <-> In i (smembers st c).
Proof. intros. unfold sismember. apply existsb_str_In. Qed.

Lemma sismember_notIn : forall st c i, sismember st c i = false <-> ~ In i (smembers st c).
Proof. intros. unfold sismember. apply existsb_str_notIn. Qed.

(* ------------------------------------------------------------------------------------------------------------ *)
(* str(n) read back by int(): the decimal form of a positive number parses to that number (so it is injective and
   never empty) *)

Fixpoint pw (ds : str) : Z := match ds with [] => 1 | _ :: t => 10 * pw t end.

Lemma pw_snoc : forall ds d, pw (ds ++ [d]) = pw ds * 10.
Proof. induction ds as [|x t IH]; intro d; cbn [app pw]; [reflexivity|]. rewrite IH. lia. Qed.

Lemma digit_ok : forall r, 0 <= r < 10 -> digit (48 + r) = Some r.
Proof.
  intros r H. unfold digit.
  destruct (48 <=? 48 + r) eqn:A; [|apply Z.leb_gt in A; lia].
  destruct (48 + r <=? 57) eqn:B; [|apply Z.leb_gt in B; lia].
  cbn [andb]. f_equal. lia.
Qed.

Lemma dec_fuel_spec : forall fuel n acc, 0 <= n < 2 ^ Z.of_nat fuel ->
  exists ds, dec_fuel fuel n acc = ds ++ acc /\ Forall (fun d => 48 <= d <= 57) ds /\ (fuel <> O -> ds <> []) /\
             forall a rest, parse_digits (ds ++ rest) a = parse_digits rest (a * pw ds + n).
Proof.
  induction fuel as [|f IH]; intros n acc Hn.
  - exists []. change (2 ^ Z.of_nat 0) with 1 in Hn. assert (n = 0) by lia. subst n.
    split; [reflexivity|]. split; [constructor|]. split; [congruence|].
    intros a rest. cbn [app pw]. f_equal. lia.
  - cbn [dec_fuel]. cbv zeta. destruct (n <? 10) eqn:L.
    + apply Z.ltb_lt in L. exists [48 + n mod 10]. split; [reflexivity|].
      split; [constructor; [lia|constructor]|]. split; [discriminate|].
      intros a rest. cbn [app parse_digits pw]. rewrite digit_ok by lia. f_equal. lia.
    + apply Z.ltb_ge in L.
      assert (Hq : 0 <= n / 10 < 2 ^ Z.of_nat f).
      { rewrite Nat2Z.inj_succ, Z.pow_succ_r in Hn by apply Nat2Z.is_nonneg. lia. }
      destruct (IH (n / 10) ((48 + n mod 10) :: acc) Hq) as [ds [E [F [NE P]]]].
      exists (ds ++ [48 + n mod 10]). split; [rewrite E, <- app_assoc; reflexivity|].
      split; [apply Forall_app; split; [exact F|constructor; [lia|constructor]]|].
      split; [intros _ X; apply app_eq_nil in X; destruct X; discriminate|].
      intros a rest. rewrite <- app_assoc. cbn [app]. rewrite P. cbn [parse_digits].
      rewrite digit_ok by lia. rewrite pw_snoc. f_equal. lia.
Qed.

Lemma parse_dec : forall n, 0 < n -> parse_int (dec n) = Some n.
Proof.
  intros n Hn. unfold dec. destruct (n <? 0) eqn:L; [apply Z.ltb_lt in L; lia|].
  assert (Hb : 0 <= n < 2 ^ Z.of_nat (S (Z.to_nat (Z.log2 n)))).
  { rewrite Nat2Z.inj_succ, Z2Nat.id by apply Z.log2_nonneg. pose proof (Z.log2_spec n Hn). lia. }
  destruct (dec_fuel_spec _ n [] Hb) as [ds [E [F [NE P]]]]. rewrite E, app_nil_r.
  destruct ds as [|d t]; [exfalso; apply NE; [discriminate|reflexivity]|].
  inversion F as [|? ? Hd _]; subst.
  assert (PI : parse_int (d :: t) = parse_digits (d :: t) 0).
  { assert (H' : d = 48 \/ d = 49 \/ d = 50 \/ d = 51 \/ d = 52 \/ d = 53 \/ d = 54 \/ d = 55 \/ d = 56 \/ d = 57) by lia.
    repeat (destruct H' as [H'|H']; [subst d; reflexivity|]). subst d; reflexivity. }
  rewrite PI. specialize (P 0 []). rewrite app_nil_r in P. rewrite P. cbn [parse_digits]. f_equal; lia.
Qed.

Lemma dec_inj : forall a b, 0 < a -> 0 < b -> dec a = dec b -> a = b.
Proof.
  intros a b Ha Hb E. pose proof (parse_dec a Ha) as P. rewrite E, (parse_dec b Hb) in P. inversion P. reflexivity.
Qed.

(* ------------------------------------------------------------------------------------------------------------ *)

Lemma matches_cons : forall k c t r,
  matches ((k, c) :: t) r = (match lookup k r with Some a => cond_holds a c | None => false end) && matches t r.
Proof. reflexivity. Qed.

(* The codec hypothesis is relative to a class [okv] of field values: NO codec round-trips on all of [jval] (see
   [codec_ok_unsatisfiable] at the end: the snapshot's fast path breaks on the double quote, the repaired one merges a surrogate
   pair written as two code points), so the written values are required to be in the class ([okf] in [wf_op_gen]). *)
Section RedisGen.
  Variable fast : bool.
  Variable okv : jval -> Prop.
  Hypothesis codec_ok : forall v : jval, okv v -> from_db (to_db fast v) = Some v.

  Definition okf (flds : fields) : Prop := Forall (fun kv => okv (snd kv)) flds.

  Lemma lookup_okf : forall k flds a, okf flds -> lookup k flds = Some a -> okv a.
  Proof.
    intros k flds a H. induction H as [|[k2 v2] t Hv Ht IH]; cbn [lookup]; intro L; [discriminate|].
    destruct (str_eqb k k2); [|exact (IH L)]. inversion L; subst. exact Hv.
  Qed.

  Lemma okf_set_field : forall k v flds, okv v -> okf flds -> okf (set_field k v flds).
  Proof.
    intros k v flds Hv H. induction H as [|[k2 v2] t Hv2 Ht IH]; cbn [set_field].
    - constructor; [exact Hv|constructor].
    - destruct (str_cmp k k2).
      + constructor; [exact Hv|exact Ht].
      + constructor; [exact Hv|]. constructor; [exact Hv2|exact Ht].
      + constructor; [exact Hv2|exact IH].
  Qed.

  Lemma okf_merge : forall part flds, okf flds -> okf part -> okf (merge flds part).
  Proof.
    unfold merge. induction part as [|[k v] t IH]; intros flds Hf Hp; cbn [fold_left fst snd]; [exact Hf|].
    inversion Hp as [|? ? Hv Ht]; subst. apply IH; [|exact Ht]. apply okf_set_field; assumption.
  Qed.

  Lemma decode_rtd : forall flds, okf flds -> decode (record_to_db fast flds) = Some flds.
  Proof.
    intros flds H. unfold record_to_db. induction H as [|[k v] t Hv Ht IH]; cbn [map decode fst snd]; [reflexivity|].
    cbn [snd] in Hv. rewrite (codec_ok v Hv), IH. reflexivity.
  Qed.

  (* total decoding of a hash (the codec never fails on the hashes the driver wrote) *)
  Definition undb (h : hash) : fields :=
    map (fun kd => (fst kd, match from_db (snd kd) with Some v => v | None => JNull end)) h.

  Lemma undb_rtd : forall flds, okf flds -> undb (record_to_db fast flds) = flds.
  Proof.
    intros flds H. unfold undb, record_to_db. induction H as [|[k v] t Hv Ht IH]; cbn [map fst snd]; [reflexivity|].
    cbn [snd] in Hv. rewrite (codec_ok v Hv), IH. reflexivity.
  Qed.

  Lemma aget_rtd : forall k flds, aget k (record_to_db fast flds) = option_map (to_db fast) (lookup k flds).
  Proof.
    unfold record_to_db. induction flds as [|[k2 v2] t IH]; cbn [map aget lookup fst snd option_map]; [reflexivity|].
    destruct (str_eqb k k2); [reflexivity|exact IH].
  Qed.

  Lemma sput_rtd : forall k v flds,
    sput k (to_db fast v) (record_to_db fast flds) = record_to_db fast (set_field k v flds).
  Proof.
    unfold record_to_db. induction flds as [|[k2 v2] t IH]; cbn [map sput set_field fst snd]; [reflexivity|].
    destruct (str_cmp k k2); cbn [map fst snd]; [reflexivity|reflexivity|rewrite IH; reflexivity].
  Qed.

  Lemma sput_all_rtd : forall part flds,
    sput_all (record_to_db fast part) (record_to_db fast flds) = record_to_db fast (merge flds part).
  Proof.
    unfold sput_all, merge. induction part as [|[k v] t IH]; intro flds; [reflexivity|].
    change (record_to_db fast ((k, v) :: t)) with ((k, to_db fast v) :: record_to_db fast t).
    cbn [fold_left fst snd]. rewrite sput_rtd. apply IH.
  Qed.

  Definition good (h : hash) : Prop := exists flds, h = record_to_db fast flds /\ okf flds.
  Definition recof (st : rstate) (c i : str) : record := with_id i (undb (hgetall st c i)).
  Definition idok (st : rstate) (c i : str) : Prop := forall m, 0 < m -> i = dec m -> m <= seqv st c.

  Record Rc (st : rstate) (s : store) (c : str) : Prop := {
    rc_coll : get_coll c s = map (recof st c) (smembers st c);
    rc_nodup : NoDup (smembers st c);
    rc_mem : forall i, In i (smembers st c) -> i <> [] /\ good (hgetall st c i) /\ idok st c i;
    rc_non : forall i, ~ In i (smembers st c) -> hgetall st c i = [] }.

  Definition Inv (st : rstate) (s : store) : Prop :=
    hkeys_ok st /\ (forall c, 0 <= seqv st c) /\ forall c, nocolon c -> Rc st s c.

  (* -------------------------------------------------------------------------------------------------------- *)
  (* filters *)

  Lemma rmatches_scan : forall i flds f, okf flds ->
    rmatches (Some i) (record_to_db fast flds) f = Some (matches f (with_id i flds)).
  Proof.
    intros i flds f Hok. induction f as [|[k c] t IH]; [reflexivity|].
    rewrite matches_cons. cbn [rmatches]. unfold with_id at 1. rewrite lookup_set_field.
    destruct (str_eqb k ID) eqn:E; cbv beta iota zeta.
    - rewrite filter_value_matches_spec. destruct (cond_holds (JStr i) c); cbn [andb]; [exact IH|reflexivity].
    - rewrite aget_rtd. destruct (lookup k flds) as [a|] eqn:L; cbn [option_map]; [|reflexivity].
      rewrite (codec_ok a (lookup_okf _ _ _ Hok L)), filter_value_matches_spec.
      destruct (cond_holds a c); cbn [andb]; [exact IH|reflexivity].
  Qed.

  Definition id_free (f : filt) : bool := forallb (fun kc => negb (str_eqb (fst kc) ID)) f.

  Lemma rmatches_fast : forall i flds f, okf flds -> id_free f = true ->
    rmatches None (record_to_db fast flds) f = Some (matches f (with_id i flds)).
  Proof.
    intros i flds f Hok. induction f as [|[k c] t IH]; intro H; [reflexivity|].
    unfold id_free in H. cbn [forallb fst] in H. apply andb_true_iff in H. destruct H as [H1 H2].
    apply negb_true_iff in H1.
    rewrite matches_cons. cbn [rmatches]. unfold with_id at 1. rewrite lookup_set_field. rewrite H1.
    cbv beta iota zeta.
    rewrite aget_rtd. destruct (lookup k flds) as [a|] eqn:L; cbn [option_map]; [|reflexivity].
    rewrite (codec_ok a (lookup_okf _ _ _ Hok L)), filter_value_matches_spec.
    destruct (cond_holds a c); cbn [andb]; [exact (IH H2)|reflexivity].
  Qed.

  (* a filter is a dict: "id" occurs at most once *)
  Definition filt_ok (f : filt) : Prop := id_free (fpop ID f) = true.

  Section Select.
    Variables (st : rstate) (s : store) (c : str).
    Hypothesis HR : Rc st s c.

    Definition sel_ids (f : filt) : list str := filter (fun i => matches f (recof st c i)) (smembers st c).
    Definition with_hash (i : str) : str * hash := (i, hgetall st c i).

    Lemma rselect_scan_spec : forall f ids, (forall i, In i ids -> good (hgetall st c i)) ->
      rselect_scan st c f ids = Some (map with_hash (filter (fun i => matches f (recof st c i)) ids)).
    Proof.
      intros f ids. induction ids as [|a t IH]; intro G; cbn [rselect_scan filter map]; [reflexivity|].
      destruct (G a (or_introl eq_refl)) as [flds [Hf Ho]].
      rewrite IH by (intros; apply G; right; assumption).
      assert (E : rmatches (Some a) (hgetall st c a) f = Some (matches f (recof st c a))).
      { unfold recof. rewrite Hf, (undb_rtd _ Ho). apply rmatches_scan. exact Ho. }
      rewrite E. destruct (matches f (recof st c a)); reflexivity.
    Qed.

    Lemma rselect_spec : forall f, filt_ok f -> rselect true st c f (smembers st c) = Some (map with_hash (sel_ids f)).
    Proof.
      intros f Hf. destruct HR as [Hcoll Hnd Hmem Hnon]. unfold rselect, sel_ids.
      destruct (fast_id f) as [i|] eqn:F.
      - unfold fast_id in F. destruct (fget ID f) as [[v|l]|] eqn:G; try discriminate.
        destruct v; try discriminate. inversion F; subst s0. clear F.
        rewrite (filter_ext' _ (fun j => str_eqb j i && matches (fpop ID f) (recof st c j))).
        2:{ intro j. rewrite (matches_fpop ID f _ (recof st c j) G). unfold recof at 1. unfold with_id.
            rewrite lookup_set_field_same. reflexivity. }
        rewrite filter_id_nodup by assumption. fold (sismember st c i).
        destruct (sismember st c i) eqn:M.
        + apply sismember_In in M. destruct (Hmem i M) as [_ [[flds [Hg Ho]] _]].
          assert (P : present true st c i (hgetall st c i) = true).
          { unfold present. destruct (hgetall st c i); [|reflexivity]. cbn [andb]. apply sismember_In. exact M. }
          rewrite P. unfold recof. rewrite Hg, (undb_rtd _ Ho). rewrite (rmatches_fast i flds _ Ho Hf). cbn [andb].
          destruct (matches (fpop ID f) (with_id i flds)); [|reflexivity].
          unfold with_hash. cbn [map]. rewrite Hg. reflexivity.
        + assert (P : present true st c i (hgetall st c i) = false).
          { apply sismember_notIn in M. rewrite (Hnon i M). unfold present. cbn [andb]. apply sismember_notIn. exact M. }
          rewrite P. reflexivity.
      - apply rselect_scan_spec. intros i Hi. apply Hmem. exact Hi.
    Qed.

    Lemma rdecode_all_spec : forall p ids, (forall i, In i ids -> good (hgetall st c i)) ->
      rdecode_all p (map with_hash ids) = Some (map (fun i => project p (recof st c i)) ids).
    Proof.
      intros p ids. induction ids as [|a t IH]; intro G; cbn [map rdecode_all]; [reflexivity|].
      destruct (G a (or_introl eq_refl)) as [flds [Hf Ho]].
      unfold with_hash at 1. rewrite IH by (intros; apply G; right; assumption).
      unfold recof. rewrite Hf. rewrite (decode_rtd _ Ho), (undb_rtd _ Ho). reflexivity.
    Qed.

    Lemma sel_ids_mem : forall f i, In i (sel_ids f) -> In i (smembers st c).
    Proof. intros f i H. unfold sel_ids in H. apply filter_In in H. tauto. Qed.

    Lemma ref_filter : forall f, filter (matches f) (get_coll c s) = map (recof st c) (sel_ids f).
    Proof. intro f. rewrite (rc_coll _ _ _ HR). apply filter_map_comm. Qed.

    Lemma ref_count : forall f, count (matches f) (get_coll c s) = Z.of_nat (List.length (map with_hash (sel_ids f))).
    Proof. intro f. unfold count. rewrite ref_filter, !map_length. reflexivity. Qed.

    Lemma query_ok : forall p f n, filt_ok f ->
      redis_query true st c p f [] n (smembers st c) = ORecs (query_spec p f [] n (get_coll c s)).
    Proof.
      intros p f n Hf. unfold redis_query. rewrite (rselect_spec f Hf). cbn [rev rsort_passes].
      rewrite limit_to_map. rewrite rdecode_all_spec.
      - unfold query_spec, sort_spec. cbn [map lexs]. rewrite isort_trivial. rewrite ref_filter.
        rewrite limit_to_map, map_map. reflexivity.
      - intros i Hi. apply In_limit_to in Hi. apply sel_ids_mem in Hi. apply (rc_mem _ _ _ HR). exact Hi.
    Qed.

    Lemma id_used_spec : forall i, id_used i (get_coll c s) = sismember st c i.
    Proof.
      intro i. rewrite (rc_coll _ _ _ HR). unfold id_used, sismember.
      induction (smembers st c) as [|j t IH]; cbn [map existsb]; [reflexivity|].
      rewrite IH. f_equal. unfold has_id, recof. rewrite rec_id_with_id. reflexivity.
    Qed.
  End Select.

  (* -------------------------------------------------------------------------------------------------------- *)
  (* framing *)

  Lemma Rc_ext : forall st s st' s' c, Rc st s c ->
    smembers st' c = smembers st c -> (forall i, hgetall st' c i = hgetall st c i) ->
    seqv st c <= seqv st' c -> get_coll c s' = get_coll c s -> Rc st' s' c.
  Proof.
    intros st s st' s' c [Hcoll Hnd Hmem Hnon] Hs Hh Hq Hg. constructor.
    - rewrite Hg, Hs, Hcoll. apply map_ext. intro i. unfold recof. rewrite Hh. reflexivity.
    - rewrite Hs. exact Hnd.
    - rewrite Hs. intros i Hi. destruct (Hmem i Hi) as [A [B C]]. split; [exact A|]. split; [rewrite Hh; exact B|].
      intros m Hm E. specialize (C m Hm E). lia.
    - rewrite Hs. intros i Hi. rewrite Hh. apply Hnon. exact Hi.
  Qed.

  Definition only_at (c : str) (st st' : rstate) : Prop :=
    (hkeys_ok st -> hkeys_ok st') /\ (forall c', seqv st' c' = seqv st c') /\
    forall c', c' <> c -> nocolon c' ->
      smembers st' c' = smembers st c' /\ forall i', hgetall st' c' i' = hgetall st c' i'.

  Lemma Inv_step : forall st s st' c l, Inv st s -> nocolon c -> only_at c st st' ->
    Rc st' (set_coll c l s) c -> Inv st' (set_coll c l s).
  Proof.
    intros st s st' c l [HK [HQ HR]] Hc [A [B C]] H. split; [apply A; exact HK|].
    split; [intro c'; rewrite B; apply HQ|]. intros c' Hc'. destruct (str_eqb c' c) eqn:E.
    - apply str_eqb_eq in E. subst c'. exact H.
    - assert (N : c' <> c) by (apply str_eqb_neq; exact E). destruct (C c' N Hc') as [C1 C2].
      apply (Rc_ext st s); [apply HR; exact Hc'|exact C1|exact C2|rewrite B; lia|].
      rewrite get_set_coll, E. reflexivity.
  Qed.

  Lemma only_at_refl : forall c st, only_at c st st.
  Proof. intros. split; [tauto|]. split; [reflexivity|]. intros. split; reflexivity. Qed.

  Lemma only_at_trans : forall c st st1 st2, only_at c st st1 -> only_at c st1 st2 -> only_at c st st2.
  Proof.
    intros c st st1 st2 [A [B C]] [A' [B' C']]. split; [tauto|]. split; [intro c'; rewrite B', B; reflexivity|].
    intros c' N Hc'. destruct (C c' N Hc') as [C1 C2]. destruct (C' c' N Hc') as [C1' C2'].
    split; [rewrite C1', C1; reflexivity|]. intro i'. rewrite C2', C2. reflexivity.
  Qed.

  Lemma only_at_hset : forall c st i part, nocolon c -> i <> [] -> only_at c st (hset st c i part).
  Proof.
    intros c st i part Hc Hi. split; [apply hkeys_hset|]. split; [reflexivity|]. intros c' N Hc'. split; [reflexivity|].
    intro i'. rewrite hgetall_hset, record_key_eqb by assumption. apply str_eqb_neq in N. rewrite N. reflexivity.
  Qed.

  Lemma only_at_hdelete : forall c st i, nocolon c -> i <> [] -> only_at c st (hdelete st c i).
  Proof.
    intros c st i Hc Hi. split; [apply hkeys_hdelete|]. split; [reflexivity|]. intros c' N Hc'. split; [reflexivity|].
    intro i'. apply hgetall_hdelete_other. intro E. apply record_key_inj in E; try assumption. destruct E as [E _]. contradiction.
  Qed.

  Lemma hgetall_sadd : forall st c i c' i', hgetall (sadd st c i) c' i' = hgetall st c' i'.
  Proof. intros. unfold hgetall. rewrite sadd_hash. reflexivity. Qed.

  Lemma seqv_sadd : forall st c i c', seqv (sadd st c i) c' = seqv st c'.
  Proof. intros. unfold seqv. rewrite sadd_seq. reflexivity. Qed.

  Lemma only_at_sadd : forall c st i, only_at c st (sadd st c i).
  Proof.
    intros c st i. split; [unfold hkeys_ok; rewrite sadd_hash; tauto|]. split; [intro; apply seqv_sadd|].
    intros c' N Hc'. split; [|intro; apply hgetall_sadd]. rewrite smembers_sadd. apply str_eqb_neq in N. rewrite N. reflexivity.
  Qed.

  Lemma only_at_srem : forall c st i, only_at c st (srem st c i).
  Proof.
    intros c st i. split; [tauto|]. split; [reflexivity|].
    intros c' N Hc'. split; [|reflexivity]. rewrite smembers_srem. apply str_eqb_neq in N. rewrite N. reflexivity.
  Qed.

  (* -------------------------------------------------------------------------------------------------------- *)
  (* insert *)

  (* r is the canonical form of a dict: the association list obtained by assigning its items to an empty dict
     (true of any list strictly sorted by key, which is what the harness supplies) *)
  Definition canonical (r : fields) : Prop := merge [] r = r.

  Lemma insert_core : forall st s c i r, Inv st s -> nocolon c -> canonical r -> okf r -> i <> [] -> idok st c i ->
    sismember st c i = false ->
    Inv (sadd (match record_to_db fast r with [] => st | _ :: _ => hset st c i (record_to_db fast r) end) c i)
        (set_coll c (get_coll c s ++ [set_field ID (JStr i) r]) s).
  Proof.
    intros st s c i r HI Hc Hcan Hor Hi Hok M.
    pose proof HI as [HK [HQ HR]]. destruct (HR c Hc) as [Hcoll Hnd Hmem Hnon].
    apply sismember_notIn in M.
    remember (record_to_db fast r) as h eqn:Eh.
    set (st2 := match h with [] => st | _ :: _ => hset st c i h end).
    assert (H2 : only_at c st st2).
    { subst st2. destruct h; [apply only_at_refl|apply only_at_hset; assumption]. }
    assert (Hh : forall j, hgetall st2 c j = if str_eqb j i then h else hgetall st c j).
    { intro j. subst st2. destruct h as [|kv h'].
      - destruct (str_eqb j i) eqn:E; [|reflexivity]. apply str_eqb_eq in E. subst j. apply Hnon. exact M.
      - rewrite hgetall_hset, record_key_eqb by assumption. rewrite str_eqb_refl. cbn [andb].
        destruct (str_eqb j i); [|reflexivity]. rewrite (Hnon i M). rewrite Eh.
        change (@nil (str * dbval)) with (record_to_db fast []). rewrite sput_all_rtd, Hcan. reflexivity. }
    assert (Hs2 : smembers st2 c = smembers st c) by (subst st2; destruct h; reflexivity).
    assert (Hq2 : seqv st2 c = seqv st c) by (subst st2; destruct h; reflexivity).
    clearbody st2.
    assert (Hs' : smembers (sadd st2 c i) c = smembers st c ++ [i]).
    { rewrite smembers_sadd, str_eqb_refl. unfold sismember. rewrite Hs2.
      apply existsb_str_notIn in M. rewrite M. reflexivity. }
    apply (Inv_step st); [exact HI|exact Hc|eapply only_at_trans; [exact H2|apply only_at_sadd]|].
    constructor.
    - rewrite get_set_coll, str_eqb_refl, Hs', map_app. cbn [map]. f_equal.
      + rewrite Hcoll. apply map_ext_in. intros j Hj. unfold recof. rewrite hgetall_sadd, Hh.
        destruct (str_eqb j i) eqn:E; [|reflexivity]. apply str_eqb_eq in E. subst j. contradiction.
      + unfold recof. rewrite hgetall_sadd, Hh, str_eqb_refl, Eh, (undb_rtd _ Hor). reflexivity.
    - rewrite Hs'. apply nodup_snoc; assumption.
    - rewrite Hs'. intros j Hj. apply in_app_or in Hj. destruct Hj as [Hj|[<-|[]]].
      + destruct (Hmem j Hj) as [A [B C]]. split; [exact A|]. split.
        * rewrite hgetall_sadd, Hh. destruct (str_eqb j i) eqn:E; [|exact B]. apply str_eqb_eq in E. subst j. contradiction.
        * intros m Hm E. rewrite seqv_sadd, Hq2. apply C; assumption.
      + split; [exact Hi|]. split.
        * rewrite hgetall_sadd, Hh, str_eqb_refl. exists r. split; [exact Eh|exact Hor].
        * intros m Hm E. rewrite seqv_sadd, Hq2. apply Hok; assumption.
    - rewrite Hs'. intros j Hj. rewrite hgetall_sadd, Hh. destruct (str_eqb j i) eqn:E.
      + apply str_eqb_eq in E. subst j. exfalso. apply Hj. apply in_or_app. right. left. reflexivity.
      + apply Hnon. intro I. apply Hj. apply in_or_app. left. exact I.
  Qed.

  Lemma seqv_incr : forall st c c', seqv (fst (incr st c)) c' = if str_eqb c' c then seqv st c + 1 else seqv st c'.
  Proof.
    intros. unfold incr. cbn [fst]. unfold seqv at 1. cbn [r_seq]. rewrite aget_aput.
    destruct (str_eqb c' c); reflexivity.
  Qed.

  Lemma Inv_incr : forall st s c, Inv st s -> Inv (fst (incr st c)) s.
  Proof.
    intros st s c [HK [HQ HR]]. split; [exact HK|]. split.
    - intro c'. rewrite seqv_incr. destruct (str_eqb c' c); [specialize (HQ c); lia|apply HQ].
    - intros c' Hc'. apply (Rc_ext st s); [apply HR; exact Hc'|reflexivity|reflexivity| |reflexivity].
      rewrite seqv_incr. destruct (str_eqb c' c) eqn:E; [|lia]. apply str_eqb_eq in E. subst c'. lia.
  Qed.

  Lemma insert_ok : forall st s c io r st' x, Inv st s -> nocolon c -> canonical r -> okf r ->
    (match io with Some i => i <> [] /\ parse_int i = None | None => True end) ->
    redis_step fast true st (Insert c io r) (smembers st c) = (st', x) ->
    exists s', ref_step (choice_of x) s (Insert c io r) = (s', x, true) /\ Inv st' s'.
  Proof.
    intros st s c io r st' x HI Hc Hcan Hor Hio H. cbn [redis_step] in H. destruct io as [i|].
    - destruct Hio as [Hi Hp]. pose proof HI as [_ [_ HR]]. specialize (HR c Hc).
      destruct (sismember st c i) eqn:M; inversion H; subst st' x; clear H.
      + exists s. cbn [choice_of ref_step]. rewrite (id_used_spec st s c HR), M. split; [reflexivity|exact HI].
      + eexists. cbn [choice_of ref_step]. rewrite (id_used_spec st s c HR), M. split; [reflexivity|].
        apply insert_core; try assumption.
        intros m Hm E. subst i. rewrite (parse_dec m Hm) in Hp. discriminate.
    - set (st1 := fst (incr st c)) in *. set (n := seqv st c + 1) in *.
      change (incr st c) with (st1, n) in H. cbv beta iota zeta in H.
      pose proof (Inv_incr st s c HI) as HI1. fold st1 in HI1.
      pose proof HI as [_ [HQ HR]]. specialize (HR c Hc).
      pose proof HI1 as [_ [_ HR1]]. specialize (HR1 c Hc).
      assert (Hn : 0 < n) by (specialize (HQ c); subst n; lia).
      assert (M : sismember st1 c (dec n) = false).
      { apply sismember_notIn. intro I. change (smembers st1 c) with (smembers st c) in I.
        destruct (rc_mem _ _ _ HR _ I) as [_ [_ C]]. specialize (C n Hn eq_refl). subst n. lia. }
      rewrite M in H. inversion H; subst st' x; clear H.
      eexists. cbn [choice_of ref_step]. rewrite (id_used_spec st1 s c HR1), M. cbn [negb]. split; [reflexivity|].
      apply insert_core; try assumption.
      + intro E. pose proof (parse_dec n Hn) as P. rewrite E in P. discriminate.
      + intros m Hm E. assert (m = n).
        { pose proof (parse_dec m Hm) as P. rewrite <- E, (parse_dec n Hn) in P. inversion P. reflexivity. }
        subst m. unfold st1. rewrite seqv_incr, str_eqb_refl. subst n. lia.
  Qed.

  (* -------------------------------------------------------------------------------------------------------- *)
  (* str_cmp is a strict total order; dict assignments to different keys commute *)

  Lemma str_cmp_refl : forall a : str, str_cmp a a = Eq.
  Proof. induction a as [|x a IH]; [reflexivity|]. cbn [str_cmp]. rewrite Z.compare_refl. exact IH. Qed.

  Lemma str_cmp_antisym : forall a b : str, str_cmp b a = CompOpp (str_cmp a b).
  Proof.
    induction a as [|x a IH]; destruct b as [|y b]; try reflexivity.
    cbn [str_cmp]. rewrite (Z.compare_antisym y x). destruct (y ?= x); cbn [CompOpp]; try reflexivity. apply IH.
  Qed.

  Lemma str_cmp_lt_trans : forall a b c, str_cmp a b = Lt -> str_cmp b c = Lt -> str_cmp a c = Lt.
  Proof.
    induction a as [|x a IH]; intros [|y b] [|z c]; cbn [str_cmp]; intros H1 H2; try discriminate; try reflexivity.
    destruct (x ?= y) eqn:E1; try discriminate; destruct (y ?= z) eqn:E2; try discriminate.
    - apply Z.compare_eq_iff in E1. apply Z.compare_eq_iff in E2. subst. rewrite Z.compare_refl. eapply IH; eassumption.
    - apply Z.compare_eq_iff in E1. subst. rewrite E2. reflexivity.
    - apply Z.compare_eq_iff in E2. subst. rewrite E1. reflexivity.
    - assert (E : (x ?= z) = Lt).
      { apply Z.compare_lt_iff. apply Z.compare_lt_iff in E1. apply Z.compare_lt_iff in E2. eapply Z.lt_trans; eassumption. }
      rewrite E. reflexivity.
  Qed.

  Lemma str_cmp_gt_lt : forall a b, str_cmp a b = Gt -> str_cmp b a = Lt.
  Proof. intros a b H. rewrite str_cmp_antisym, H. reflexivity. Qed.

  Lemma str_cmp_lt_asym : forall a b, str_cmp a b = Lt -> str_cmp b a = Lt -> False.
  Proof. intros a b H1 H2. rewrite str_cmp_antisym, H1 in H2. discriminate. Qed.

  Ltac ord_contra :=
    exfalso;
    repeat match goal with H : str_cmp ?a ?b = Gt |- _ => apply str_cmp_gt_lt in H end;
    match goal with
    | H : str_cmp ?a ?a = Lt |- _ => rewrite str_cmp_refl in H; discriminate H
    | H1 : str_cmp ?a ?b = Lt, H2 : str_cmp ?b ?a = Lt |- _ => exact (str_cmp_lt_asym _ _ H1 H2)
    | H1 : str_cmp ?a ?b = Lt, H2 : str_cmp ?b ?c = Lt, H3 : str_cmp ?c ?a = Lt |- _ =>
        exact (str_cmp_lt_asym _ _ (str_cmp_lt_trans _ _ _ H1 H2) H3)
    end.

  Lemma set_field_comm : forall k1 v1 k2 v2 l, k1 <> k2 ->
    set_field k1 v1 (set_field k2 v2 l) = set_field k2 v2 (set_field k1 v1 l).
  Proof.
    intros k1 v1 k2 v2 l N. induction l as [|[k' v'] t IH].
    - cbn [set_field]. rewrite (str_cmp_antisym k1 k2). destruct (str_cmp k1 k2) eqn:C; cbn [CompOpp]; try reflexivity.
      apply str_cmp_eq in C. contradiction.
    - pose proof (str_cmp_antisym k1 k2) as A.
      cbn [set_field].
      destruct (str_cmp k1 k') eqn:C1; destruct (str_cmp k2 k') eqn:C2; destruct (str_cmp k1 k2) eqn:C12;
        cbn [CompOpp] in A;
        try (apply str_cmp_eq in C12; contradiction);
        try (apply str_cmp_eq in C1; subst k'); try (apply str_cmp_eq in C2; subst k');
        try contradiction;
        repeat (cbn [set_field]; rewrite ?A, ?C1, ?C2, ?C12, ?str_cmp_refl);
        try reflexivity; try (rewrite IH; reflexivity); try congruence; try ord_contra.
  Qed.

  Lemma merge_with_id : forall part i flds, lookup ID part = None ->
    merge (with_id i flds) part = with_id i (merge flds part).
  Proof.
    unfold merge. induction part as [|[k v] t IH]; intros i flds H; cbn [fold_left fst snd]; [reflexivity|].
    cbn [lookup] in H. destruct (str_eqb ID k) eqn:E; [discriminate|].
    rewrite <- (IH i _ H). f_equal. unfold with_id. apply set_field_comm.
    intro X. subst k. rewrite str_eqb_refl in E. discriminate.
  Qed.

  (* -------------------------------------------------------------------------------------------------------- *)
  (* the loops of remove and update over the selected ids *)

  Lemma filter_all : forall {A} (p : A -> bool) l, (forall x, p x = true) -> filter p l = l.
  Proof. intros A p l H. induction l as [|a l IH]; cbn [filter]; [reflexivity|]. rewrite H, IH. reflexivity. Qed.

  Lemma existsb_filter_self : forall (M : str -> bool) l j, In j l -> existsb (str_eqb j) (filter M l) = M j.
  Proof.
    intros M l j Hj. destruct (M j) eqn:E.
    - apply existsb_str_In. apply filter_In. split; assumption.
    - apply existsb_str_notIn. intro H. apply filter_In in H. destruct H as [_ H]. congruence.
  Qed.

  Definition rem_all (c : str) (ids : list str) (st : rstate) : rstate :=
    fold_left (fun s i => srem (hdelete s c i) c i) ids st.
  Definition upd_all (c : str) (hp : hash) (ids : list str) (st : rstate) : rstate :=
    fold_left (fun s i => hset s c i hp) ids st.

  Lemma rem_all_spec : forall c ids st, nocolon c -> (forall i, In i ids -> i <> []) -> hkeys_ok st ->
    only_at c st (rem_all c ids st) /\
    smembers (rem_all c ids st) c = filter (fun j => negb (existsb (str_eqb j) ids)) (smembers st c) /\
    forall i', hgetall (rem_all c ids st) c i' = if existsb (str_eqb i') ids then [] else hgetall st c i'.
  Proof.
    intros c ids. induction ids as [|a t IH]; intros st Hc Hne HK.
    - cbn [rem_all fold_left existsb]. split; [apply only_at_refl|]. split; [|reflexivity].
      symmetry. apply filter_all. reflexivity.
    - assert (Ha : a <> []) by (apply Hne; left; reflexivity).
      set (st1 := srem (hdelete st c a) c a).
      assert (O1 : only_at c st st1).
      { apply (only_at_trans c st (hdelete st c a)); [apply only_at_hdelete; assumption|apply only_at_srem]. }
      assert (HK1 : hkeys_ok st1) by (apply O1; exact HK).
      destruct (IH st1 Hc (fun i Hi => Hne i (or_intror Hi)) HK1) as [O2 [S2 H2]].
      change (rem_all c (a :: t) st) with (rem_all c t st1).
      split; [eapply only_at_trans; eassumption|]. split.
      + rewrite S2. unfold st1. rewrite smembers_srem, str_eqb_refl.
        change (smembers (hdelete st c a) c) with (smembers st c).
        rewrite <- filter_andb. apply filter_ext'. intro j. cbn [existsb].
        rewrite negb_orb, (str_eqb_sym a j). apply andb_comm.
      + intro i'. rewrite H2. cbn [existsb]. unfold st1.
        change (hgetall (srem (hdelete st c a) c a) c i') with (hgetall (hdelete st c a) c i').
        destruct (str_eqb i' a) eqn:E.
        * apply str_eqb_eq in E. subst i'. rewrite hgetall_hdelete_same by assumption. cbn [orb].
          destruct (existsb (str_eqb a) t); reflexivity.
        * cbn [orb]. rewrite hgetall_hdelete_other; [reflexivity|].
          intro X. apply record_key_inj in X; try assumption. destruct X as [_ X]. subst i'.
          rewrite str_eqb_refl in E. discriminate.
  Qed.

  Lemma upd_all_spec : forall c hp ids st, nocolon c -> (forall i, In i ids -> i <> []) -> NoDup ids ->
    only_at c st (upd_all c hp ids st) /\
    smembers (upd_all c hp ids st) c = smembers st c /\
    forall i', hgetall (upd_all c hp ids st) c i' =
               if existsb (str_eqb i') ids then sput_all hp (hgetall st c i') else hgetall st c i'.
  Proof.
    intros c hp ids. induction ids as [|a t IH]; intros st Hc Hne ND.
    - cbn [upd_all fold_left existsb]. split; [apply only_at_refl|]. split; reflexivity.
    - assert (Ha : a <> []) by (apply Hne; left; reflexivity).
      inversion ND as [|? ? NI ND']; subst.
      set (st1 := hset st c a hp).
      assert (O1 : only_at c st st1) by (apply only_at_hset; assumption).
      destruct (IH st1 Hc (fun i Hi => Hne i (or_intror Hi)) ND') as [O2 [S2 H2]].
      change (upd_all c hp (a :: t) st) with (upd_all c hp t st1).
      split; [eapply only_at_trans; eassumption|]. split; [rewrite S2; reflexivity|].
      intro i'. rewrite H2. cbn [existsb]. unfold st1. rewrite !hgetall_hset, record_key_eqb by assumption.
      rewrite str_eqb_refl. cbn [andb]. destruct (str_eqb i' a) eqn:E.
      + apply str_eqb_eq in E. subst i'. cbn [orb]. apply existsb_str_notIn in NI. rewrite NI. reflexivity.
      + cbn [orb]. reflexivity.
  Qed.

  Lemma map_fst_with_hash : forall st c ids, map fst (map (with_hash st c) ids) = ids.
  Proof. intros. rewrite map_map. cbn [with_hash fst]. apply map_id. Qed.

  (* -------------------------------------------------------------------------------------------------------- *)
  (* remove *)

  Lemma remove_eq : forall st c f scan,
    redis_step fast true st (Remove c f) scan =
    match rselect true st c f scan with
    | None => (st, OErr)
    | Some sel => (fold_left (fun s ih => srem (hdelete s c (fst ih)) c (fst ih)) sel st, OCount (Z.of_nat (List.length sel)))
    end.
  Proof.
    intros. cbn [redis_step]. unfold rselect. destruct (fast_id f) as [i|]; [|reflexivity].
    destruct (present true st c i (hgetall st c i)); [|reflexivity].
    destruct (rmatches None (hgetall st c i) (fpop ID f)) as [[|]|]; reflexivity.
  Qed.

  Lemma remove_ok : forall st s c f st' x, Inv st s -> nocolon c -> filt_ok f ->
    redis_step fast true st (Remove c f) (smembers st c) = (st', x) ->
    exists s', ref_step (choice_of x) s (Remove c f) = (s', x, true) /\ Inv st' s'.
  Proof.
    intros st s c f st' x HI Hc Hf H. pose proof HI as [HK [HQ HR]]. specialize (HR c Hc).
    rewrite remove_eq, (rselect_spec st s c HR f Hf) in H.
    pose proof (fold_left_map' (fun s0 i => srem (hdelete s0 c i) c i) fst (map (with_hash st c) (sel_ids st c f)) st) as FM.
    cbv beta in FM. rewrite FM, map_fst_with_hash in H. clear FM.
    inversion H; subst st' x; clear H.
    eexists. cbn [ref_step choice_of]. rewrite (ref_count st s c HR f). split; [reflexivity|].
    fold (rem_all c (sel_ids st c f) st).
    pose proof HR as [Hcoll Hnd Hmem Hnon].
    assert (Hne : forall i, In i (sel_ids st c f) -> i <> []).
    { intros i Hi. apply sel_ids_mem in Hi. apply Hmem. exact Hi. }
    destruct (rem_all_spec c (sel_ids st c f) st Hc Hne HK) as [O [S' H']].
    assert (Hx : forall j, In j (smembers st c) ->
                 existsb (str_eqb j) (sel_ids st c f) = matches f (recof st c j)).
    { intros j Hj. unfold sel_ids. apply (existsb_filter_self (fun i => matches f (recof st c i))). exact Hj. }
    assert (S'' : smembers (rem_all c (sel_ids st c f) st) c
                  = filter (fun j => negb (matches f (recof st c j))) (smembers st c)).
    { rewrite S'. apply filter_ext_in'. intros j Hj. rewrite (Hx j Hj). reflexivity. }
    apply (Inv_step st); [exact HI|exact Hc|exact O|]. destruct O as [_ [Q _]].
    constructor.
    - rewrite get_set_coll, str_eqb_refl, Hcoll, filter_map_comm, S''. apply map_ext_in. intros j Hj.
      apply filter_In in Hj. destruct Hj as [Hj Mj]. unfold recof at 2. rewrite H', (Hx j Hj).
      apply negb_true_iff in Mj. rewrite Mj. reflexivity.
    - rewrite S''. apply NoDup_filter. exact Hnd.
    - rewrite S''. intros j Hj. apply filter_In in Hj. destruct Hj as [Hj Mj]. apply negb_true_iff in Mj.
      destruct (Hmem j Hj) as [A [B C]]. split; [exact A|]. split.
      + rewrite H', (Hx j Hj), Mj. exact B.
      + intros m Hm E. rewrite Q. apply C; assumption.
    - rewrite S''. intros j Hj. rewrite H'. destruct (existsb (str_eqb j) (sel_ids st c f)) eqn:E; [reflexivity|].
      apply Hnon. intro I. apply Hj. apply filter_In. split; [exact I|]. rewrite <- (Hx j I), E. reflexivity.
  Qed.

  (* -------------------------------------------------------------------------------------------------------- *)
  (* update *)

  Lemma update_eq : forall st c part f scan,
    redis_step fast true st (Update c part f) scan =
    match rselect true st c f scan with
    | None => (st, OErr)
    | Some sel =>
        (fold_left (fun s ih => match record_to_db fast part with
                                | [] => s
                                | _ :: _ => hset s c (fst ih) (record_to_db fast part)
                                end) sel st,
         OCount (Z.of_nat (List.length sel)))
    end.
  Proof.
    intros. cbn [redis_step]. unfold rselect. destruct (fast_id f) as [i|]; [|reflexivity].
    destruct (present true st c i (hgetall st c i)); [|reflexivity].
    destruct (rmatches None (hgetall st c i) (fpop ID f)) as [[|]|]; try reflexivity.
  Qed.

  Lemma update_ok : forall st s c part f st' x, Inv st s -> nocolon c -> lookup ID part = None -> okf part -> filt_ok f ->
    redis_step fast true st (Update c part f) (smembers st c) = (st', x) ->
    exists s', ref_step (choice_of x) s (Update c part f) = (s', x, true) /\ Inv st' s'.
  Proof.
    intros st s c part f st' x HI Hc Hp Hpo Hf H. pose proof HI as [HK [HQ HR]]. specialize (HR c Hc).
    rewrite update_eq, (rselect_spec st s c HR f Hf) in H.
    inversion H; subst st' x; clear H.
    eexists. cbn [ref_step choice_of]. rewrite (ref_count st s c HR f). split; [reflexivity|].
    pose proof HR as [Hcoll Hnd Hmem Hnon].
    remember (record_to_db fast part) as hp eqn:Eh. destruct hp as [|kv hp']; cbv iota.
    - assert (part = []) by (destruct part; [reflexivity|discriminate]). subst part.
      rewrite fold_left_id.
      apply (Inv_step st); [exact HI|exact Hc|apply only_at_refl|].
      apply (Rc_ext st s); [exact HR|reflexivity|reflexivity|lia|].
      rewrite get_set_coll, str_eqb_refl. rewrite <- (map_id (get_coll c s)) at 2.
      apply map_ext. intro r. destruct (matches f r); reflexivity.
    - set (hp := kv :: hp') in *.
      pose proof (fold_left_map' (fun s0 i => hset s0 c i hp) fst (map (with_hash st c) (sel_ids st c f)) st) as FM.
      cbv beta in FM. rewrite FM, map_fst_with_hash. clear FM.
      fold (upd_all c hp (sel_ids st c f) st).
      assert (Hne : forall i, In i (sel_ids st c f) -> i <> []).
      { intros i Hi. apply sel_ids_mem in Hi. apply Hmem. exact Hi. }
      assert (NDs : NoDup (sel_ids st c f)) by (unfold sel_ids; apply NoDup_filter; exact Hnd).
      destruct (upd_all_spec c hp (sel_ids st c f) st Hc Hne NDs) as [O [S' H']].
      assert (Hx : forall j, In j (smembers st c) ->
                   existsb (str_eqb j) (sel_ids st c f) = matches f (recof st c j)).
      { intros j Hj. unfold sel_ids. apply (existsb_filter_self (fun i => matches f (recof st c i))). exact Hj. }
      apply (Inv_step st); [exact HI|exact Hc|exact O|]. destruct O as [_ [Q _]].
      constructor.
      + rewrite get_set_coll, str_eqb_refl, Hcoll, map_map, S'. apply map_ext_in. intros j Hj. cbv beta.
        assert (Hrj : recof (upd_all c hp (sel_ids st c f) st) c j =
                      if matches f (recof st c j) then with_id j (merge (undb (hgetall st c j)) part) else recof st c j).
        { unfold recof at 1. rewrite H', (Hx j Hj). destruct (matches f (recof st c j)); [|reflexivity].
          destruct (Hmem j Hj) as [_ [[flds [Hg Ho]] _]].
          rewrite Hg, Eh, sput_all_rtd, (undb_rtd _ Ho), (undb_rtd _ (okf_merge _ _ Ho Hpo)). reflexivity. }
        rewrite Hrj. destruct (matches f (recof st c j)); [|reflexivity].
        unfold recof. apply merge_with_id. exact Hp.
      + rewrite S'. exact Hnd.
      + rewrite S'. intros j Hj. destruct (Hmem j Hj) as [A [B C]]. split; [exact A|]. split.
        * rewrite H'. destruct (existsb (str_eqb j) (sel_ids st c f)); [|exact B].
          destruct B as [flds [Hg Ho]]. exists (merge flds part).
          split; [rewrite Hg, Eh, sput_all_rtd; reflexivity|apply okf_merge; assumption].
        * intros m Hm E. rewrite Q. apply C; assumption.
      + rewrite S'. intros j Hj. rewrite H'.
        assert (X : existsb (str_eqb j) (sel_ids st c f) = false).
        { apply existsb_str_notIn. intro I. apply Hj. apply sel_ids_mem in I. exact I. }
        rewrite X. apply Hnon. exact Hj.
  Qed.

  (* -------------------------------------------------------------------------------------------------------- *)
  (* replace *)

  Lemma has_id_recof : forall st c i j, has_id i (recof st c j) = str_eqb i j.
  Proof. intros. unfold has_id, recof. rewrite rec_id_with_id. reflexivity. Qed.

  Lemma replace_ok : forall st s c i r st' x, Inv st s -> nocolon c -> canonical r -> okf r ->
    redis_step fast true st (Replace c i r) (smembers st c) = (st', x) ->
    exists s', ref_step (choice_of x) s (Replace c i r) = (s', x, true) /\ Inv st' s'.
  Proof.
    intros st s c i r st' x HI Hc Hcan Hor H. pose proof HI as [HK [HQ HR]]. specialize (HR c Hc).
    cbn [redis_step] in H. cbn [ref_step choice_of]. rewrite (id_used_spec st s c HR).
    destruct (sismember st c i) eqn:M; inversion H; subst st' x; clear H.
    2:{ exists s. split; [reflexivity|exact HI]. }
    eexists. split; [reflexivity|].
    pose proof HR as [Hcoll Hnd Hmem Hnon]. apply sismember_In in M. destruct (Hmem i M) as [Hi _].
    remember (record_to_db fast r) as h eqn:Eh.
    set (st1 := hdelete st c i).
    set (st2 := match h with [] => st1 | _ :: _ => hset st1 c i h end).
    assert (O : only_at c st st2).
    { apply (only_at_trans c st st1); [apply only_at_hdelete; assumption|].
      subst st2. destruct h; [apply only_at_refl|apply only_at_hset; assumption]. }
    assert (H1 : forall j, hgetall st1 c j = if str_eqb j i then [] else hgetall st c j).
    { intro j. unfold st1. destruct (str_eqb j i) eqn:E.
      - apply str_eqb_eq in E. subst j. apply hgetall_hdelete_same. exact HK.
      - apply hgetall_hdelete_other. intro X. apply record_key_inj in X; try assumption.
        destruct X as [_ X]. subst j. rewrite str_eqb_refl in E. discriminate. }
    assert (Hh : forall j, hgetall st2 c j = if str_eqb j i then h else hgetall st c j).
    { intro j. subst st2. destruct h as [|kv h'].
      - rewrite H1. reflexivity.
      - rewrite hgetall_hset, record_key_eqb by assumption. rewrite str_eqb_refl. cbn [andb].
        rewrite !H1, str_eqb_refl. destruct (str_eqb j i); [|reflexivity]. rewrite Eh.
        change (@nil (str * dbval)) with (record_to_db fast []). rewrite sput_all_rtd, Hcan. reflexivity. }
    assert (S2 : smembers st2 c = smembers st c) by (subst st2; destruct h; reflexivity).
    clearbody st2.
    apply (Inv_step st); [exact HI|exact Hc|exact O|]. destruct O as [_ [Q _]].
    constructor.
    - rewrite get_set_coll, str_eqb_refl, Hcoll, map_map, S2. apply map_ext_in. intros j Hj. cbv beta.
      assert (Hrj : recof st2 c j = if str_eqb i j then with_id i r else recof st c j).
      { unfold recof at 1. rewrite Hh, (str_eqb_sym j i). destruct (str_eqb i j) eqn:E; [|reflexivity].
        apply str_eqb_eq in E. subst j. rewrite Eh, (undb_rtd _ Hor). reflexivity. }
      rewrite Hrj, has_id_recof. reflexivity.
    - rewrite S2. exact Hnd.
    - rewrite S2. intros j Hj. destruct (Hmem j Hj) as [A [B C]]. split; [exact A|]. split.
      + rewrite Hh. destruct (str_eqb j i); [exists r; split; [exact Eh|exact Hor]|exact B].
      + intros m Hm E. rewrite Q. apply C; assumption.
    - rewrite S2. intros j Hj. rewrite Hh. destruct (str_eqb j i) eqn:E; [|apply Hnon; exact Hj].
      apply str_eqb_eq in E. subst j. contradiction.
  Qed.

  (* -------------------------------------------------------------------------------------------------------- *)
  (* sorting: when no pass raises, the passes of list.sort (last key first) are the specification's single
     lexicographic stable sort.  A pass raises exactly when a selected record lacks the field (json.loads(None)),
     where the reference sorts the missing field as null: that is a run-time condition, see [redis_refines_sorted]. *)

  Lemma ins_map : forall {A B} (g : A -> B) (le : A -> A -> bool) (le' : B -> B -> bool) x l,
    (forall a b, le' (g a) (g b) = le a b) -> ins le' (g x) (map g l) = map g (ins le x l).
  Proof.
    intros A B g le le' x l H. induction l as [|y t IH]; cbn [map ins]; [reflexivity|].
    rewrite H. destruct (le x y); cbn [map]; [reflexivity|rewrite IH; reflexivity].
  Qed.

  Lemma isort_map : forall {A B} (g : A -> B) (le : A -> A -> bool) (le' : B -> B -> bool) l,
    (forall a b, le' (g a) (g b) = le a b) -> isort le' (map g l) = map g (isort le l).
  Proof.
    intros A B g le le' l H. induction l as [|y t IH]; cbn [map isort]; [reflexivity|].
    rewrite IH. apply ins_map. exact H.
  Qed.

  Lemma isort_In : forall {A} (le : A -> A -> bool) l x, In x (isort le l) -> In x l.
  Proof.
    intros A le l. induction l as [|y t IH]; cbn [isort]; intros x H; [exact H|].
    apply ins_In in H. destruct H as [->|H]; [left; reflexivity|right; apply IH; exact H].
  Qed.

  Definition no_id_key (srt : list (str * bool)) : bool := forallb (fun fd => negb (str_eqb (fst fd) ID)) srt.

  Definition rpass_key (fd : str * bool) : ((str * hash) -> (str * hash) -> bool) * bool :=
    (fun a b => py_leb (rkey_or_null (fst fd) a) (rkey_or_null (fst fd) b), snd fd).

  Lemma rsort_passes_some : forall rs l l', rsort_passes rs l = Some l' ->
    l' = fold_left (fun acc k => py_sort (fst k) (snd k) acc) (map rpass_key rs) l.
  Proof.
    induction rs as [|fd t IH]; intros l l' H; cbn [rsort_passes map fold_left] in *.
    - inversion H. reflexivity.
    - unfold rsort_pass in H. destruct (forallb _ l); [|discriminate]. apply IH in H. exact H.
  Qed.

  Lemma lookup_undb : forall k h,
    lookup k (undb h) = option_map (fun d => match from_db d with Some v => v | None => JNull end) (aget k h).
  Proof.
    unfold undb. induction h as [|[k2 d2] t IH]; cbn [map lookup aget fst snd option_map]; [reflexivity|].
    destruct (str_eqb k k2); [reflexivity|exact IH].
  Qed.

  Lemma rkey_fkey : forall fld st c i, str_eqb fld ID = false ->
    rkey_or_null fld (with_hash st c i) = fkey fld (recof st c i).
  Proof.
    intros fld st c i H. unfold rkey_or_null, rsort_key, fkey, recof, with_hash, with_id. rewrite H. cbn [snd].
    rewrite lookup_set_field, H, lookup_undb.
    destruct (aget fld (hgetall st c i)) as [d|]; cbn [option_map]; [|reflexivity]. destruct (from_db d); reflexivity.
  Qed.

  Lemma lexs_rkeys : forall st c srt a b, no_id_key srt = true ->
    lexs (map directed (map rpass_key srt)) (with_hash st c a) (with_hash st c b)
    = lexs (map key_le srt) (recof st c a) (recof st c b).
  Proof.
    intros st c srt a b. induction srt as [|[f r] t IH]; intro H; [reflexivity|].
    unfold no_id_key in H. cbn [forallb fst] in H. apply andb_true_iff in H. destruct H as [H1 H2].
    apply negb_true_iff in H1.
    cbn [map lexs]. unfold lex2. rewrite (IH H2).
    destruct r; unfold directed, rpass_key, key_le, flip; cbn [fst snd]; rewrite !(rkey_fkey f st c _ H1); reflexivity.
  Qed.

  Lemma rsort_spec : forall st c srt ids sorted, no_id_key srt = true ->
    rsort_passes (rev srt) (map (with_hash st c) ids) = Some sorted ->
    sorted = map (with_hash st c) (isort (fun a b => lexs (map key_le srt) (recof st c a) (recof st c b)) ids).
  Proof.
    intros st c srt ids sorted H E. apply rsort_passes_some in E. rewrite map_rev, py_sorts_compose in E.
    - rewrite E. apply isort_map. intros a b. apply lexs_rkeys. exact H.
    - apply Forall_forall. intros k Hk. apply in_map_iff in Hk. destruct Hk as [fd [<- _]].
      unfold rpass_key. cbn [fst]. apply (py_leb_preorder_on (str * hash) (rkey_or_null (fst fd))).
  Qed.

  Lemma ref_sort : forall st c srt ids,
    sort_spec srt (map (recof st c) ids)
    = map (recof st c) (isort (fun a b => lexs (map key_le srt) (recof st c a) (recof st c b)) ids).
  Proof. intros. unfold sort_spec. apply isort_map. reflexivity. Qed.

  Lemma query_ok_s : forall st s c p f srt n, Rc st s c -> filt_ok f -> no_id_key srt = true ->
    redis_query true st c p f srt n (smembers st c) <> OErr ->
    redis_query true st c p f srt n (smembers st c) = ORecs (query_spec p f srt n (get_coll c s)).
  Proof.
    intros st s c p f srt n HR Hf Hs NE. unfold redis_query in *. rewrite (rselect_spec st s c HR f Hf) in *.
    destruct (rsort_passes (rev srt) (map (with_hash st c) (sel_ids st c f))) as [sorted|] eqn:E;
      [|exfalso; apply NE; reflexivity].
    apply rsort_spec in E; [|exact Hs]. subst sorted. rewrite limit_to_map. rewrite (rdecode_all_spec st c).
    - unfold query_spec. rewrite (ref_filter st s c HR), ref_sort, limit_to_map, map_map. reflexivity.
    - intros i Hi. apply In_limit_to in Hi. apply isort_In in Hi. apply sel_ids_mem in Hi.
      apply (rc_mem _ _ _ HR). exact Hi.
  Qed.

  (* -------------------------------------------------------------------------------------------------------- *)
  (* runs *)

  Definition wf_op_gen (o : op) : Prop :=
    nocolon (op_coll o) /\
    match o with
    | Insert _ io r => canonical r /\ okf r /\ match io with Some i => i <> [] /\ parse_int i = None | None => True end
    | Update _ part f => lookup ID part = None /\ okf part /\ filt_ok f
    | Replace _ _ r => canonical r /\ okf r
    | Remove _ f => filt_ok f
    | Query _ _ f srt _ => filt_ok f /\ srt = []
    end.

  Definition wf_ops_gen (ops : list op) : Prop := Forall wf_op_gen ops.

  Lemma step_ok : forall st s o st' x, Inv st s -> wf_op_gen o ->
    redis_step fast true st o (smembers st (op_coll o)) = (st', x) ->
    exists s', ref_step (choice_of x) s o = (s', x, true) /\ Inv st' s'.
  Proof.
    intros st s o st' x HI [Hc Hw] H. destruct o as [c io r|c part f|c i r|c f|c p f srt n]; cbn [op_coll] in *.
    - destruct Hw as [Hcan [Hor Hio]]. eapply insert_ok; eassumption.
    - destruct Hw as [Hp [Hpo Hf]]. eapply update_ok; eassumption.
    - destruct Hw as [Hcan Hor]. eapply replace_ok; eassumption.
    - eapply remove_ok; eassumption.
    - destruct Hw as [Hf ->]. pose proof HI as [_ [_ HR]]. specialize (HR c Hc).
      cbn [redis_step] in H. inversion H; subst st' x; clear H.
      exists s. cbn [ref_step]. rewrite (query_ok st s c HR p f n Hf). split; [reflexivity|exact HI].
  Qed.

  Lemma Inv_empty : Inv rempty [].
  Proof.
    split; [constructor|]. split; [intro c; cbn; lia|]. intros c Hc. constructor.
    - reflexivity.
    - constructor.
    - intros i [].
    - reflexivity.
  Qed.

  Lemma run_ok : forall ops st s, Inv st s -> wf_ops_gen ops ->
    ref_outs s (with_choices ops (redis_run fast true st (map (fun o => (o, None)) ops)))
      = redis_run fast true st (map (fun o => (o, None)) ops)
    /\ ref_legal s (with_choices ops (redis_run fast true st (map (fun o => (o, None)) ops))) = true.
  Proof.
    induction ops as [|o ops IH]; intros st s HI Hwf; [split; reflexivity|].
    inversion Hwf as [|? ? Ho Hops]; subst.
    cbn [map redis_run]. destruct (redis_step fast true st o (smembers st (op_coll o))) as [st' x] eqn:E.
    destruct (step_ok st s o st' x HI Ho E) as [s' [Hs HI']].
    unfold with_choices. cbn [map combine ref_outs ref_legal]. rewrite Hs.
    destruct (IH st' s' HI' Hops) as [A B]. unfold with_choices in A, B. rewrite A, B. split; reflexivity.
  Qed.

  Theorem redis_refines_gen : forall ops : list op, wf_ops_gen ops ->
    let outs := redis_run fast true rempty (map (fun o => (o, None)) ops) in
    ref_outs [] (with_choices ops outs) = outs /\ ref_legal [] (with_choices ops outs) = true.
  Proof. intros ops Hwf outs. subst outs. apply run_ok; [apply Inv_empty|exact Hwf]. Qed.
  (* the same with sort lists (no key "id"), as long as the driver does not raise *)
  Definition wf_op_s_gen (o : op) : Prop :=
    nocolon (op_coll o) /\
    match o with
    | Insert _ io r => canonical r /\ okf r /\ match io with Some i => i <> [] /\ parse_int i = None | None => True end
    | Update _ part f => lookup ID part = None /\ okf part /\ filt_ok f
    | Replace _ _ r => canonical r /\ okf r
    | Remove _ f => filt_ok f
    | Query _ _ f srt _ => filt_ok f /\ no_id_key srt = true
    end.

  Definition wf_ops_s_gen (ops : list op) : Prop := Forall wf_op_s_gen ops.

  Lemma step_ok_s : forall st s o st' x, Inv st s -> wf_op_s_gen o ->
    redis_step fast true st o (smembers st (op_coll o)) = (st', x) -> x <> OErr ->
    exists s', ref_step (choice_of x) s o = (s', x, true) /\ Inv st' s'.
  Proof.
    intros st s o st' x HI Hwf H NE. destruct o as [c io r|c part f|c i r|c f|c p f srt n].
    - exact (step_ok st s _ st' x HI Hwf H).
    - exact (step_ok st s _ st' x HI Hwf H).
    - exact (step_ok st s _ st' x HI Hwf H).
    - exact (step_ok st s _ st' x HI Hwf H).
    - destruct Hwf as [Hc [Hf Hs]]. cbn [op_coll] in *. pose proof HI as [_ [_ HR]]. specialize (HR c Hc).
      cbn [redis_step] in H. inversion H; subst st' x; clear H.
      exists s. cbn [ref_step]. rewrite (query_ok_s st s c p f srt n HR Hf Hs NE). split; [reflexivity|exact HI].
  Qed.

  Lemma run_ok_s : forall ops st s, Inv st s -> wf_ops_s_gen ops ->
    ~ In OErr (redis_run fast true st (map (fun o => (o, None)) ops)) ->
    ref_outs s (with_choices ops (redis_run fast true st (map (fun o => (o, None)) ops)))
      = redis_run fast true st (map (fun o => (o, None)) ops)
    /\ ref_legal s (with_choices ops (redis_run fast true st (map (fun o => (o, None)) ops))) = true.
  Proof.
    induction ops as [|o ops IH]; intros st s HI Hwf NE; [split; reflexivity|].
    inversion Hwf as [|? ? Ho Hops]; subst.
    cbn [map redis_run] in *. destruct (redis_step fast true st o (smembers st (op_coll o))) as [st' x] eqn:E.
    assert (NE1 : x <> OErr) by (intro X; apply NE; left; exact X).
    assert (NE2 : ~ In OErr (redis_run fast true st' (map (fun o => (o, None)) ops))) by (intro X; apply NE; right; exact X).
    destruct (step_ok_s st s o st' x HI Ho E NE1) as [s' [Hs HI']].
    unfold with_choices. cbn [map combine ref_outs ref_legal]. rewrite Hs.
    destruct (IH st' s' HI' Hops NE2) as [A B]. unfold with_choices in A, B. rewrite A, B. split; reflexivity.
  Qed.

  Theorem redis_refines_sorted_gen : forall ops : list op, wf_ops_s_gen ops ->
    let outs := redis_run fast true rempty (map (fun o => (o, None)) ops) in
    ~ In OErr outs ->
    ref_outs [] (with_choices ops outs) = outs /\ ref_legal [] (with_choices ops outs) = true.
  Proof. intros ops Hwf outs NE. subst outs. apply run_ok_s; [apply Inv_empty|exact Hwf|exact NE]. Qed.
End RedisGen.

(* key-sorted records (what the harness supplies) are canonical *)
Fixpoint sorted_keys (r : fields) : Prop :=
  match r with
  | [] => True
  | kv :: t => Forall (fun kv' => str_cmp (fst kv) (fst kv') = Lt) t /\ sorted_keys t
  end.

Lemma set_field_last : forall k v acc, (forall kv, In kv acc -> str_cmp (fst kv) k = Lt) ->
  set_field k v acc = acc ++ [(k, v)].
Proof.
  intros k v acc. induction acc as [|[k' v'] a IH]; intro H; cbn [set_field app]; [reflexivity|].
  assert (C : str_cmp k k' = Gt).
  { pose proof (H (k', v') (or_introl eq_refl)) as X. cbn [fst] in X. rewrite str_cmp_antisym, X. reflexivity. }
  rewrite C, IH; [reflexivity|]. intros kv Hkv. apply H. right. exact Hkv.
Qed.

Lemma sorted_canonical : forall r, sorted_keys r -> canonical r.
Proof.
  intros r S. unfold canonical, merge.
  enough (G : forall r acc, sorted_keys r ->
              (forall kv kv', In kv acc -> In kv' r -> str_cmp (fst kv) (fst kv') = Lt) ->
              fold_left (fun a kv => set_field (fst kv) (snd kv) a) r acc = acc ++ r).
  { apply (G r []); [exact S|]. intros kv kv' []. }
  clear r S. induction r as [|[k v] t IH]; intros acc S H; cbn [fold_left fst snd].
  - rewrite app_nil_r. reflexivity.
  - cbn [sorted_keys fst] in S. destruct S as [F S].
    rewrite set_field_last.
    + rewrite IH; [rewrite <- app_assoc; reflexivity|exact S|].
      intros kv kv' Hkv Hkv'. apply in_app_or in Hkv. destruct Hkv as [Hkv|[<-|[]]].
      * apply H; [exact Hkv|right; exact Hkv'].
      * rewrite Forall_forall in F. apply F. exact Hkv'.
    + intros kv Hkv. apply (H kv (k, v)); [exact Hkv|left; reflexivity].
Qed.


(* ------------------------------------------------------------------------------------------------------------ *)
(* the statement for a codec that round-trips on every value (see the remark [codec_ok_unsatisfiable] below: the
   hypothesis holds for neither value of [fast]; the usable instances are [redis_refines_gen] and
   [redis_refines_repaired]) *)

Section Redis.
  Variable fast : bool.
  Hypothesis codec_ok : forall v : jval, from_db (to_db fast v) = Some v.

  Definition wf_ops (ops : list op) : Prop := wf_ops_gen (fun _ => True) ops.
  Definition wf_ops_s (ops : list op) : Prop := wf_ops_s_gen (fun _ => True) ops.

  Theorem redis_refines : forall ops : list op, wf_ops ops ->
    let outs := redis_run fast true rempty (map (fun o => (o, None)) ops) in
    ref_outs [] (with_choices ops outs) = outs /\ ref_legal [] (with_choices ops outs) = true.
  Proof. intros ops Hwf. exact (redis_refines_gen fast (fun _ => True) (fun v _ => codec_ok v) ops Hwf). Qed.

  Theorem redis_refines_sorted : forall ops : list op, wf_ops_s ops ->
    let outs := redis_run fast true rempty (map (fun o => (o, None)) ops) in
    ~ In OErr outs ->
    ref_outs [] (with_choices ops outs) = outs /\ ref_legal [] (with_choices ops outs) = true.
  Proof. intros ops Hwf. exact (redis_refines_sorted_gen fast (fun _ => True) (fun v _ => codec_ok v) ops Hwf). Qed.
End Redis.

(* ------------------------------------------------------------------------------------------------------------ *)
(* the repaired driver (fast = false, fx = true), with no hypothesis: field values that are strings hold Unicode
   scalar values (text); every other value is unconstrained *)

Definition scalar_val (v : jval) : Prop := match v with JStr s => Forall scalar_cp s | _ => True end.

Lemma codec_ok_repaired : forall v, scalar_val v -> from_db (to_db false v) = Some v.
Proof.
  intros v H. destruct v as [|[|]| | |s| | | |]; try reflexivity.
  apply codec_ok_repaired_on_scalar_strings. exact H.
Qed.

Definition wf_ops_repaired (ops : list op) : Prop := wf_ops_gen scalar_val ops.
Definition wf_ops_s_repaired (ops : list op) : Prop := wf_ops_s_gen scalar_val ops.

Theorem redis_refines_repaired : forall ops : list op, wf_ops_repaired ops ->
  let outs := redis_run false true rempty (map (fun o => (o, None)) ops) in
  ref_outs [] (with_choices ops outs) = outs /\ ref_legal [] (with_choices ops outs) = true.
Proof. intros ops Hwf. exact (redis_refines_gen false scalar_val codec_ok_repaired ops Hwf). Qed.

Theorem redis_refines_sorted_repaired : forall ops : list op, wf_ops_s_repaired ops ->
  let outs := redis_run false true rempty (map (fun o => (o, None)) ops) in
  ~ In OErr outs ->
  ref_outs [] (with_choices ops outs) = outs /\ ref_legal [] (with_choices ops outs) = true.
Proof. intros ops Hwf. exact (redis_refines_sorted_gen false scalar_val codec_ok_repaired ops Hwf). Qed.

(* a sort-free run is a run with sorts *)
Lemma wf_ops_gen_s : forall okv ops, wf_ops_gen okv ops -> wf_ops_s_gen okv ops.
Proof.
  intros okv ops H. induction H as [|o t Ho Ht IH]; constructor; [|exact IH].
  destruct o; try exact Ho. destruct Ho as [Hc [Hf ->]]. split; [exact Hc|]. split; [exact Hf|reflexivity].
Qed.

(* REMARK: the universal codec hypothesis of [Section Redis] is false for both values of [fast]:
   the snapshot's fast path does not escape the double quote; the repaired codec reads a surrogate pair written as two code points
   back as one astral character (such a str is not text). *)
Lemma codec_ok_unsatisfiable : forall fast, ~ (forall v, from_db (to_db fast v) = Some v).
Proof.
  intros [|] H.
  - exact (codec_not_ok_at_snapshot H).
  - specialize (H (JStr [55296; 56320])). vm_compute in H. discriminate H.
Qed.

Print Assumptions redis_refines_gen.
Print Assumptions redis_refines_sorted_gen.
Print Assumptions redis_refines.
Print Assumptions redis_refines_sorted.
Print Assumptions redis_refines_repaired.
Print Assumptions redis_refines_sorted_repaired.
