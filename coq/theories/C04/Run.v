(* C04 — dispatch used by the generated case files.
   A case is one history: the initial port ids and a list of observed steps
      (operation, outcome observed on the implementation, str(port.get_expression()) of the target port afterwards).
   bad_model: the histories on which Model.step disagrees with the observation   (code = 1000 * history index + step index)
   bad_spec : the histories on which the observation contradicts the specification (Spec.closes_cycle_b / acyclic_b). *)
From QT Require Export C04.Spec.
Open Scope string_scope.
Open Scope list_scope.
Open Scope nat_scope.

(* the target port's expression afterwards: ANew = its text is exactly the canonical text of the expression requested by this
   operation (compared by the harness, which saves sending the text twice); AText s = its text is s ("" = no expression) *)
Inductive after := ANew | AText (s : string).
Definition obs := (op * outcome * after)%type.

Definition after_text (o : op) (a : after) : string :=
  match a, o with
  | AText s, _ => s
  | ANew, OSet _ (TExpr e) => print e
  | ANew, _ => "<ANew without requested expression>"
  end.
(* a step of a history: one operation, or several issued concurrently (each with its own outcome and the text of its
   target's expression after the whole step) *)
Inductive hstep := HOne (x : obs) | HPar (l : list obs) | HX (x : xop) (out : outcome) (a : after).
Definition hist := (list string * list hstep)%type.

Definition target (o : op) : string := match o with OSet p _ | OAdd p | ORemove p => p end.

Definition init_graph (ids : list string) : graph := fold_left add_port ids [].

Definition texts_ok (g : graph) (l : list obs) : bool :=
  forallb (fun '(o, _, a) => String.eqb (after_text o a) (print_opt (lookup g (target o)))) l.

(* some order of serving the concurrent requests one after the other explains every outcome and every resulting text *)
Definition serial_match (stepf : graph -> op -> graph * outcome) (g : graph) (l : list obs) : option graph :=
  let try (p : list obs) :=
    match follows stepf g (map (fun '(o, out, _) => (o, out)) p) with
    | Some g1 => if texts_ok g1 l then Some g1 else None
    | None => None
    end in
  fold_right (fun p acc => match try p with Some g1 => Some g1 | None => acc end) None (perms l).

Definition xtarget (x : xop) : string := match x with XSave p | XUnplug p | XPlug p | XProbe p | XReset p => p | XRestart => "" end.

(* one step of a history on (registry, persisted store); None = the observation is not explained *)
Definition hstep_match (stepf : graph -> op -> graph * outcome) (st : graph * store) (h : hstep) : option (graph * store) :=
  let '(g, s) := st in
  match h with
  | HX x out a =>
      let '((g', s'), out') := xstep stepf st x in
      let text := match a with AText t => t | ANew => "<ANew on an operation without request>" end in
      if outcome_eqb out out' && match x with XRestart => true | _ => String.eqb text (print_opt (lookup g' (xtarget x))) end
      then Some (g', s') else None
  | HOne x =>
      match serial_match stepf g [x] with
      | Some g' => let '(o, out, _) := x in Some (g', store_after_op g s o out)
      | None => None
      end
  | HPar l =>
      match serial_match stepf g l with
      | Some g' => Some (g', fold_left (fun s '(o, out, _) => store_after_op g s o out) l s)
      | None => None
      end
  end.

(* first step at which the model and the implementation differ *)
Fixpoint model_bad (st : graph * store) (steps : list hstep) (k : N) : option N :=
  match steps with
  | [] => None
  | h :: r => match hstep_match step st h with Some st' => model_bad st' r (N.succ k) | None => Some k end
  end.

(* first step at which the observation contradicts the specification (Spec.spec_step for a single operation, Spec.par_allowed
   for concurrent ones, the load path = checked assignments of the persisted expressions).  The state is the one implied by
   the observations so far.  After the last step the whole graph must be acyclic; with every := true also after each step. *)
Fixpoint spec_bad (every : bool) (st : graph * store) (steps : list hstep) (k : N) : option N :=
  match steps with
  | [] => if acyclic_b (fst st) then None else Some k
  | h :: r =>
      match hstep_match spec_step st h with
      | Some st' => if every && negb (acyclic_b (fst st')) then Some k else spec_bad every st' r (N.succ k)
      | None => Some k
      end
  end.

(* codes are binary numbers (N): a unary nat of this size cannot even be printed *)
Fixpoint collect (f : hist -> option N) (l : list hist) (i : N) : list N :=
  match l with
  | [] => []
  | h :: r => match f h with Some k => (1000 * i + k)%N :: collect f r (N.succ i) | None => collect f r (N.succ i) end
  end.

Definition bad_model (cases : list hist) : list N :=
  collect (fun '(ids, steps) => model_bad (init_graph ids, []) steps 0%N) cases 0%N.
Definition bad_spec (every : bool) (cases : list hist) : list N :=
  collect (fun '(ids, steps) => spec_bad every (init_graph ids, []) steps 0%N) cases 0%N.
