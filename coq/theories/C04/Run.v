(* C04 — dispatch used by the generated case files.
   A case is one history: the initial port ids and a list of observed steps
      (operation, outcome observed on the implementation, str(port.get_expression()) of the target port afterwards).
   bad_model: the histories on which Model.step disagrees with the observation   (code = 1000 * history index + step index)
   bad_spec : the histories on which the observation contradicts the specification (Spec.closes_cycle_b / acyclic_b). *)
From QT Require Export C04.Spec.
Open Scope string_scope.
Open Scope list_scope.
Open Scope nat_scope.

(* the target port's expression afterwards: ANew = its text is exactly the canonical text of the expression requested by this
   operation (compared by the harness, which saves sending the text twice); AText s = its text is s ("" = no expression) *)
Inductive after := ANew | AText (s : string).
Definition obs := (op * outcome * after)%type.

Definition after_text (o : op) (a : after) : string :=
  match a, o with
  | AText s, _ => s
  | ANew, OSet _ (TExpr e) => print e
  | ANew, _ => "<ANew without requested expression>"
  end.
Definition hist := (list string * list obs)%type.

Definition target (o : op) : string := match o with OSet p _ | OAdd p | ORemove p => p end.

Definition outcome_eqb (a b : outcome) : bool :=
  match a, b with
  | Accepted, Accepted | Circular, Circular | ParseError, ParseError | NoPort, NoPort => true
  | _, _ => false
  end.

Definition init_graph (ids : list string) : graph := fold_left add_port ids [].

(* first step at which the model and the implementation differ *)
Fixpoint model_bad (g : graph) (steps : list obs) (k : N) : option N :=
  match steps with
  | [] => None
  | (o, out, a) :: r =>
      let s := after_text o a in
      let '(g', out') := step g o in
      if outcome_eqb out out' && String.eqb s (print_opt (lookup g' (target o))) then model_bad g' r (N.succ k) else Some k
  end.

(* first step at which the observation contradicts the specification.  g is the graph implied by the observations so far
   (it is the observed graph as long as no step has been flagged).  After the last step the whole graph must be acyclic;
   with every := true this is also required after each step. *)
Definition obs_is (out want : outcome) (s wants : string) : bool := outcome_eqb out want && String.eqb s wants.

Fixpoint spec_bad (every : bool) (g : graph) (steps : list obs) (k : N) : option N :=
  match steps with
  | [] => if acyclic_b g then None else Some k
  | (o, out, a) :: r =>
      let s := after_text o a in
      let continue g' := if every && negb (acyclic_b g') then Some k else spec_bad every g' r (N.succ k) in
      match o with
      | OSet p t =>
          match lookup g p with
          | None => if outcome_eqb out NoPort then continue g else Some k
          | Some old =>
              let olds := print_opt (Some old) in
              match t with
              | TEmpty => if obs_is out Accepted s "" then continue (update g p None) else Some k
              | TBad => if obs_is out ParseError s olds then continue g else Some k
              | TExpr e =>
                  if closes_cycle_b g p e
                  then (if obs_is out Circular s olds then continue g else Some k)            (* must be rejected, old kept *)
                  else (if obs_is out Accepted s (print e) then continue (update g p (Some e)) else Some k)  (* must be accepted *)
              end
          end
      | OAdd p =>
          match lookup g p with
          | Some _ => if outcome_eqb out NoPort then continue g else Some k
          | None => if obs_is out Accepted s "" then continue (add_port g p) else Some k
          end
      | ORemove p =>
          match lookup g p with
          | Some _ => if obs_is out Accepted s "" then continue (remove_port g p) else Some k
          | None => if outcome_eqb out NoPort then continue g else Some k
          end
      end
  end.

(* codes are binary numbers (N): a unary nat of this size cannot even be printed *)
Fixpoint collect (f : hist -> option N) (l : list hist) (i : N) : list N :=
  match l with
  | [] => []
  | h :: r => match f h with Some k => (1000 * i + k)%N :: collect f r (N.succ i) | None => collect f r (N.succ i) end
  end.

Definition bad_model (cases : list hist) : list N :=
  collect (fun '(ids, steps) => model_bad (init_graph ids) steps 0%N) cases 0%N.
Definition bad_spec (every : bool) (cases : list hist) : list N :=
  collect (fun '(ids, steps) => spec_bad every (init_graph ids) steps 0%N) cases 0%N.
