(* C04 — persisted data and the load path.  Saving, a port going away with its persisted data kept, a port (re)created and
   loaded, a restart: each is, on the registry, a sequence of operations of the base model (removal, addition, CHECKED
   assignment of the persisted expression), so the invariant theorem covers histories over all of them. *)
From QT Require Import C04.Spec C04.CheckThm C04.InvThm C04.ParThm.
Open Scope string_scope.
Open Scope list_scope.

Lemma run_ops_fold g l : run_ops step g l = fold_left apply l g.
Proof. reflexivity. Qed.

Theorem happly_is_base_ops st h : exists l, fst (happly st h) = fold_left apply l (fst st).
Proof.
  destruct st as [g s]. destruct h as [o|x]; cbn [happly fst snd].
  - exists [o]. cbn [fold_left]. unfold apply. destruct (step g o). reflexivity.
  - exists (xexpand g s x). reflexivity.
Qed.

Theorem happly_acyclic st h : acyclic_distinct (fst st) -> acyclic_distinct (fst (happly st h)).
Proof. intros Hac. destruct (happly_is_base_ops st h) as (l & ->). apply acyclic_invariant. exact Hac. Qed.

Theorem acyclic_invariant_persist : forall hs st, acyclic_distinct (fst st) -> acyclic_distinct (fst (fold_left happly hs st)).
Proof.
  induction hs as [|h hs IH]; intros st Hac; cbn [fold_left]; [exact Hac|]. apply IH. apply happly_acyclic. exact Hac.
Qed.

(* the load path by the model and by the specification are the same function *)
Theorem xstep_spec st x : xstep step st x = xstep spec_step st x.
Proof.
  destruct st as [g s]. unfold xstep. f_equal. f_equal. unfold run_ops.
  generalize (xexpand g s x) as l. intros l. revert g. induction l as [|o l IH]; intros g; cbn [fold_left]; [reflexivity|].
  rewrite step_spec_step. apply IH.
Qed.

(* a port that comes back gets its persisted expression unless that would close a cycle; then it has none *)
Theorem plug_checked g s p e :
  lookup g p = None -> lookup s p = Some (Some e) ->
  fst (fst (xstep step (g, s) (XPlug p)))
  = if closes_cycle_b (add_port g p) p e then add_port g p else update (add_port g p) p (Some e).
Proof.
  intros Hg Hs. cbn [xstep fst]. unfold run_ops, xexpand, persisted_ops. rewrite Hg, Hs. cbn [fold_left step]. rewrite Hg. cbn [fst].
  unfold set_expression.
  assert (Hl : lookup (add_port g p) p <> None).
  { unfold add_port. rewrite Hg. rewrite lookup_app_fresh by exact Hg. rewrite String.eqb_refl. discriminate. }
  destruct (lookup (add_port g p) p); [|congruence]. rewrite check_loops_eq_b.
  destruct (closes_cycle_b (add_port g p) p e); reflexivity.
Qed.
