(* C04 — model of the code that decides whether an expression may be installed on a port.
     core/expressions/__init__.py : check_loops            (the recursive walk with the shared `seen_ports` set)
     core/ports.py                : attr_set_expression    (empty text clears; parse; check_loops; install only on success)
     core/ports.py / vports.py    : load_one / remove      (a port is added without expression; removal drops the registry entry)
   Definitions only (total, computable).  Proofs are in C04/*Thm.v. *)
From QT Require Export Expr.Syntax.
From Coq Require Import DecimalString.
Open Scope string_scope.
Open Scope list_scope.
Open Scope nat_scope.

(* The port registry `_ports_by_id` together with every port's `_expression`:
   id -> present with optional expression.  An id that is not a key is a dangling reference (`core_ports.get` returns None). *)
Definition graph := list (string * option expr).

Fixpoint lookup (g : graph) (id : string) : option (option expr) :=
  match g with
  | [] => None
  | (k, v) :: r => if String.eqb id k then Some v else lookup r id
  end.

Fixpoint mem (x : string) (l : list string) : bool :=
  match l with [] => false | y :: r => String.eqb x y || mem x r end.

(* ---------------------------------------------------------------------------------------------------- check_loops
   async def check_loops(port, expression):
       seen_ports = {port}
       async def check_loops_rec(level, e) -> int: ...
       if await check_loops_rec(1, expression) > 1: raise CircularDependency(port.get_id())

   The walk is a function  level -> owner -> e -> seen -> (returned level, seen afterwards) :  `seen` is threaded through
   because the Python set is shared by all branches of the recursion.  `owner` is the id of the port whose expression is
   being walked: a `$` (SelfPortValue) is a PortValue whose port_id is the owner's id. *)
Section Walk.
  Variable descend : nat -> string -> expr -> list string -> nat * list string.   (* the recursive call on p.get_expression() *)
  Variable g : graph.
  Variable p : string.                                                             (* the port being assigned *)

  (* isinstance(e, PortValue) branch, with q = e.port_id *)
  Definition visit (level : nat) (q : string) (seen : list string) : nat * list string :=
    match lookup g q with
    | None => (0, seen)                                              (* p = e.get_port(); if not p: return 0 *)
    | Some oe =>
        if String.eqb q p && Nat.ltb 1 level then (level, seen)      (* if port is p and level > 1: return level *)
        else if mem q seen then (0, seen)                            (* if p in seen_ports: return 0 *)
        else
          match oe with                                              (* seen_ports.add(p); expr = p.get_expression() *)
          | None => (0, q :: seen)
          | Some e' => descend (S level) q e' (q :: seen)            (* lv = rec(level + 1, expr); return lv (or 0) *)
          end
    end.

  (* for arg in e.args: lv = rec(level, arg); if lv: return lv *)
  Definition walk_list (w : expr -> list string -> nat * list string) : list expr -> list string -> nat * list string :=
    fix go (l : list expr) (seen : list string) : nat * list string :=
      match l with
      | [] => (0, seen)
      | a :: r => let '(lv, s1) := w a seen in if Nat.eqb lv 0 then go r s1 else (lv, s1)
      end.

  Fixpoint walk (level : nat) (owner : string) (e : expr) (seen : list string) : nat * list string :=
    match e with
    | PortVal q => visit level q seen
    | SelfVal => visit level owner seen
    | Call _ args => walk_list (walk level owner) args seen
    | _ => (0, seen)                                                 (* literals, @id, @ *)
    end.
End Walk.

(* Python's recursion made structural: one unit of fuel per descent into another port's expression.  Every descent adds a
   port that was not yet in `seen_ports`, so (number of ports + 1) units are never used up (CheckThm.check_loops_fuel_enough). *)
Fixpoint check_loops_rec (fuel : nat) (g : graph) (p : string) (level : nat) (owner : string) (e : expr)
  (seen : list string) : nat * list string :=
  match fuel with
  | O => (0, seen)
  | S f => walk (check_loops_rec f g p) g p level owner e seen
  end.

Definition check_loops_fuel (fuel : nat) (g : graph) (p : string) (e : expr) : bool :=
  Nat.ltb 1 (fst (check_loops_rec fuel g p 1 p e [p])).

(* true = CircularDependency is raised *)
Definition check_loops (g : graph) (p : string) (e : expr) : bool := check_loops_fuel (S (length g)) g p e.

(* ------------------------------------------------------------------------------------------- attr_set_expression *)
(* what the text of the assignment is, after `core_expressions.parse` (the parser itself is C03's subject) *)
Inductive parsed := TEmpty | TBad | TExpr (e : expr).

Inductive outcome := Accepted | Circular | ParseError | NoPort.

Fixpoint update (g : graph) (id : string) (v : option expr) : graph :=
  match g with
  | [] => []
  | (k, old) :: r => if String.eqb id k then (k, v) :: r else (k, old) :: update r id v
  end.

Definition set_expression (g : graph) (p : string) (t : parsed) : graph * outcome :=
  match lookup g p with
  | None => (g, NoPort)
  | Some _ =>
      match t with
      | TEmpty => (update g p None, Accepted)                        (* if not sexpression: self._expression = None; return *)
      | TBad => (g, ParseError)                                      (* parse raises: nothing assigned *)
      | TExpr e =>
          if check_loops g p e then (g, Circular)                    (* check_loops raises before the assignment *)
          else (update g p (Some e), Accepted)                       (* self._expression = expression *)
      end
  end.

(* ------------------------------------------------------------------------------------------- ports come and go *)
Fixpoint remove_port (g : graph) (id : string) : graph :=
  match g with
  | [] => []
  | (k, v) :: r => if String.eqb id k then remove_port r id else (k, v) :: remove_port r id
  end.

(* core_ports.load refuses an id that already exists; a new port has no expression *)
Definition add_port (g : graph) (id : string) : graph :=
  match lookup g id with Some _ => g | None => g ++ [(id, None)] end.

Inductive op := OSet (p : string) (t : parsed) | OAdd (p : string) | ORemove (p : string).

Definition step (g : graph) (o : op) : graph * outcome :=
  match o with
  | OSet p t => set_expression g p t
  | OAdd p => match lookup g p with Some _ => (g, NoPort) | None => (add_port g p, Accepted) end
  | ORemove p => match lookup g p with Some _ => (remove_port g p, Accepted) | None => (g, NoPort) end
  end.

Definition apply (g : graph) (o : op) : graph := fst (step g o).

(* ------------------------------------------------------------------------------------------- str(expression)
   Only what the correspondence needs: `$id`, `$`, `@id`, `@`, NAME(a, b), non-negative integer literals, `unavailable`. *)
Definition print_lit (v : option pyval) : string :=
  match v with
  | Some (VInt z) => NilEmpty.string_of_uint (N.to_uint (Z.to_N z))
  | Some (VBool true) => "true"
  | Some (VBool false) => "false"
  | Some (VFloat _) => "?"
  | None => "unavailable"
  end.

Fixpoint join (sep : string) (l : list string) : string :=
  match l with
  | [] => ""
  | [x] => x
  | x :: r => x ++ sep ++ join sep r
  end.

Fixpoint print (e : expr) : string :=
  match e with
  | Lit v => print_lit v
  | PortVal id => "$" ++ id
  | SelfVal => "$"
  | PortRef id => "@" ++ id
  | SelfRef => "@"
  | Call f args => f ++ "(" ++ join ", " (map print args) ++ ")"
  end.

Definition print_opt (oe : option (option expr)) : string :=
  match oe with Some (Some e) => print e | _ => "" end.

(* ------------------------------------------------------------------------------------------- concurrent requests
   Several set_attr / remove coroutines in flight on one event loop.  A request first passes some suspension points that do
   not touch the registry (`await self.get_attr(name)`, `await self.is_writable()`, `await self._sequence.cancel()`), then
   runs parse + check_loops, then -- after `gap` further suspension points -- stores the expression, then continues with
   code that no longer touches `_expression` (main.update(), trigger_update()).  In the source `gap` is 0: between the
   `await core_expressions.check_loops(...)` (which awaits only its own recursion) and `self._expression = expression` there
   is no await; Gen/C04Gen.v is regenerated from the source with the number found there.  A schedule is the sequence of task
   indices the event loop resumes. *)
Inductive pc := Pre (k : nat) | Mid (ok : bool) (j : nat) | Fin.

Definition task := (op * pc)%type.

(* the store of a request whose check was made earlier, on whatever the registry is now *)
Definition late_store (g : graph) (o : op) (ok : bool) : graph :=
  match o with
  | OSet p (TExpr e) => if ok then update g p (Some e) else g
  | _ => g
  end.

Definition task_step (gap : nat) (g : graph) (t : task) : graph * task :=
  let '(o, c) := t in
  match c with
  | Pre (S k) => (g, (o, Pre k))
  | Pre O =>
      match gap, o with
      | S j, OSet p (TExpr e) =>
          match lookup g p with
          | Some _ => (g, (o, Mid (negb (check_loops g p e)) j))     (* checked now, stored later *)
          | None => (g, (o, Fin))
          end
      | _, _ => (apply g o, (o, Fin))                                 (* check and store in one piece *)
      end
  | Mid ok (S j) => (g, (o, Mid ok j))
  | Mid ok O => (late_store g o ok, (o, Fin))
  | Fin => (g, t)
  end.

Fixpoint set_nth {A} (l : list A) (i : nat) (x : A) : list A :=
  match l, i with
  | [], _ => []
  | _ :: r, O => x :: r
  | y :: r, S k => y :: set_nth r k x
  end.

Fixpoint run_sched (gap : nat) (g : graph) (ts : list task) (sched : list nat) : graph * list task :=
  match sched with
  | [] => (g, ts)
  | i :: rest =>
      match nth_error ts i with
      | None => run_sched gap g ts rest
      | Some t => let '(g', t') := task_step gap g t in run_sched gap g' (set_nth ts i t') rest
      end
  end.

Definition fresh (t : task) : bool := match snd t with Pre _ => true | _ => false end.

(* ------------------------------------------------------------------------------------------- persisted data, load path
   `port.save()` writes the port's attributes (the expression text among them) to the store; `port.remove(persisted_data=False)`
   (a peripheral port going away, server shutdown) keeps them; `port.load()` -- called for every port that core_ports.load
   creates: a virtual port added through the API, a peripheral port coming back, every port at start-up -- hands each
   persisted attribute to set_attr, the expression last: `load_from_data` -> `set_attr('expression', text)` ->
   `attr_set_expression`, i.e. THE SAME parse + check_loops + store as a PATCH (a refusal is logged and the port stays
   without expression).  So each of these operations is a sequence of the operations above: *)
Definition store := list (string * option expr).          (* persisted expression per port id *)

Inductive xop :=
| XSave (p : string)       (* port.save() *)
| XUnplug (p : string)     (* port.remove(persisted_data=False) *)
| XPlug (p : string)       (* core_ports.load_one(...) : create + load() *)
| XRestart                 (* every port removed with its persisted data kept, then core_ports.load(all of them): all created
                              first (no expressions), then loaded one after the other in the same order *)
| XReset (p : string)      (* port.reset() (PUT /ports restore): forget the expression, load_from_data({}) *)
| XProbe (p : string).     (* observe a port's expression; also enable() / disable(): enable() re-parses the port's own expression
                              text and stores the copy at once (no suspension point in between, Gen/C04Gen.v), so neither
                              changes what the port reads *)

Definition persisted_ops (s : store) (p : string) : list op :=
  match lookup s p with Some (Some e) => [OSet p (TExpr e)] | _ => [] end.

Definition xexpand (g : graph) (s : store) (x : xop) : list op :=
  match x with
  | XSave _ | XProbe _ => []
  | XUnplug p => [ORemove p]
  | XReset p => [OSet p TEmpty]
  | XPlug p => match lookup g p with Some _ => [] | None => OAdd p :: persisted_ops s p end
  | XRestart => map (fun k => OSet k TEmpty) (map fst g) ++ flat_map (persisted_ops s) (map fst g)
  end.

Fixpoint sput (s : store) (p : string) (v : option expr) : store :=
  match s with
  | [] => [(p, v)]
  | (k, old) :: r => if String.eqb p k then (k, v) :: r else (k, old) :: sput r p v
  end.

Definition xstore (g : graph) (s : store) (x : xop) : store :=
  match x with
  | XSave p => match lookup g p with Some v => sput s p v | None => s end
  | _ => s
  end.

(* port.remove() of the API deletes the persisted data with the port *)
Definition store_after_op (g : graph) (s : store) (o : op) (out : outcome) : store :=
  match o, out with
  | ORemove p, Accepted => remove_port s p
  | _, _ => s
  end.

Definition xoutcome (g : graph) (x : xop) : outcome :=
  match x with
  | XSave p | XUnplug p | XProbe p | XReset p => match lookup g p with Some _ => Accepted | None => NoPort end
  | XPlug p => match lookup g p with Some _ => NoPort | None => Accepted end
  | XRestart => Accepted
  end.

Definition run_ops (stepf : graph -> op -> graph * outcome) (g : graph) (l : list op) : graph :=
  fold_left (fun g o => fst (stepf g o)) l g.

Definition xstep (stepf : graph -> op -> graph * outcome) (st : graph * store) (x : xop) : (graph * store) * outcome :=
  let '(g, s) := st in ((run_ops stepf g (xexpand g s x), xstore g s x), xoutcome g x).

(* histories over both kinds of operations *)
Inductive hop := HBase (o : op) | HExt (x : xop).

Definition happly (st : graph * store) (h : hop) : graph * store :=
  match h with
  | HBase o => let '(g', out) := step (fst st) o in (g', store_after_op (fst st) (snd st) o out)
  | HExt x => fst (xstep step st x)
  end.
