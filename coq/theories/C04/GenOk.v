(* C04 — the atomicity the concurrent model assumes, re-proved on every run against the file regenerated from the source
   (Gen/C04Gen.v, harness/translate/exprstore.py): no suspension point between the loop check and the store of the new
   expression, and check_loops awaits nothing but its own recursion. *)
From QT Require Import C04.Spec C04.ParThm Gen.C04Gen.

Lemma enable_reparse_is_atomic : enable_reparse_awaits = 0.
Proof. reflexivity. Qed.

Lemma check_is_unconditional : check_loops_conditions = 0.
Proof. reflexivity. Qed.

Lemma store_is_atomic : awaits_between_check_and_store = 0 /\ check_loops_foreign_awaits = 0.
Proof. split; reflexivity. Qed.

Theorem concurrent_serializable_gen : forall sched g ts,
  quiet ts ->
  exists l, fst (run_sched awaits_between_check_and_store g ts sched) = fold_left apply l g
            /\ Permutation (l ++ pending (snd (run_sched awaits_between_check_and_store g ts sched))) (pending ts)
            /\ quiet (snd (run_sched awaits_between_check_and_store g ts sched)).
Proof. destruct store_is_atomic as [-> _]. exact run_sched_serializable. Qed.

Theorem concurrent_acyclic_gen : forall sched g ts,
  quiet ts -> acyclic_distinct g -> acyclic_distinct (fst (run_sched awaits_between_check_and_store g ts sched)).
Proof. destruct store_is_atomic as [-> _]. exact run_sched_acyclic. Qed.
