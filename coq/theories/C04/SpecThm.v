(* C04 — the executable oracle of Spec.v (saturation of the successor relation) decides the declarative specification.
   Saturation is complete after (number of ports) rounds: a round that adds nothing leaves a closed set, a round that adds
   something adds a registered port that was not there (same counting argument as for check_loops' fuel). *)
From QT Require Import C04.Spec C04.CheckThm.
From Coq Require Import Lia.
Open Scope string_scope.
Open Scope list_scope.
Open Scope nat_scope.

Lemma present_true g id : present g id = true <-> lookup g id <> None.
Proof. unfold present. destruct (lookup g id); split; intros; congruence. Qed.

Lemma succs_edge g q r : In r (succs g q) <-> edge g q r.
Proof.
  unfold succs, edge. destruct (lookup g q) as [[e|]|] eqn:Hl.
  - rewrite filter_In, present_true. split.
    + intros [H1 H2]. exists e. auto.
    + intros (e0 & He & H1 & H2). injection He as <-. auto.
  - split; [intros []|intros (e0 & He & _); discriminate].
  - split; [intros []|intros (e0 & He & _); discriminate].
Qed.

Lemma add_new_In l : forall R x, In x (add_new l R) <-> In x l \/ In x R.
Proof.
  induction l as [|a l IH]; intros R x; cbn [add_new In]; [tauto|].
  destruct (mem a R) eqn:Hm.
  - rewrite IH. apply mem_In in Hm. split; [tauto|]. intros [[<-|H]|H]; auto.
  - rewrite IH. cbn [In]. tauto.
Qed.

Lemma expand_In g R x : In x (expand g R) <-> In x R \/ exists y, In y R /\ edge g y x.
Proof.
  unfold expand. rewrite add_new_In, in_flat_map. split.
  - intros [(y & Hy & Hs)|H]; [right; exists y; split; [exact Hy|apply succs_edge; exact Hs]|left; exact H].
  - intros [H|(y & Hy & He)]; [right; exact H|left; exists y; split; [exact Hy|apply succs_edge; exact He]].
Qed.

Lemma reaches_snoc g q y x : reaches g q y -> edge g y x -> reaches g q x.
Proof. intros H He. eapply reaches_trans; [exact H|]. eapply reaches_step; [exact He|apply reaches_refl]. Qed.

Lemma add_new_length l : forall R, length R <= length (add_new l R).
Proof.
  induction l as [|a l IH]; intros R; cbn [add_new]; [lia|].
  destruct (mem a R); [apply IH|]. specialize (IH (a :: R)). cbn [length] in IH. lia.
Qed.

Lemma add_new_grows l : forall R, (exists x, In x l /\ ~ In x R) -> length R < length (add_new l R).
Proof.
  induction l as [|a l IH]; intros R (x & Hx & Hn); [destruct Hx|]. cbn [add_new].
  destruct (mem a R) eqn:Hm.
  - apply IH. exists x. split; [|exact Hn]. destruct Hx as [<-|Hx]; [|exact Hx]. apply mem_In in Hm. contradiction.
  - pose proof (add_new_length l (a :: R)) as H. cbn [length] in H. lia.
Qed.

Lemma add_new_same l : forall R, (forall x, In x l -> In x R) -> add_new l R = R.
Proof.
  induction l as [|a l IH]; intros R Hall; cbn [add_new]; [reflexivity|].
  assert (Ha : mem a R = true) by (apply mem_In; apply Hall; left; reflexivity).
  rewrite Ha. apply IH. intros x Hx. apply Hall. right. exact Hx.
Qed.

Lemma sat_sound g (P : string -> Prop) :
  (forall y x, P y -> edge g y x -> P x) ->
  forall n R, (forall x, In x R -> P x) -> forall x, In x (sat n g R) -> P x.
Proof.
  intros Hstep. induction n as [|n IH]; intros R HR x Hx; cbn [sat] in Hx; [apply HR; exact Hx|].
  destruct (Nat.eqb (length (expand g R)) (length R)); [apply HR; exact Hx|].
  apply (IH (expand g R)); [|exact Hx]. intros z Hz. apply expand_In in Hz.
  destruct Hz as [Hz|(y & Hy & He)]; [apply HR; exact Hz|]. eapply Hstep; [apply HR; exact Hy|exact He].
Qed.

Lemma sat_incl g n : forall R, incl R (sat n g R).
Proof.
  induction n as [|n IH]; intros R; cbn [sat]; [apply incl_refl|].
  destruct (Nat.eqb (length (expand g R)) (length R)); [apply incl_refl|].
  intros x Hx. apply IH. apply expand_In. left. exact Hx.
Qed.

Definition closed (g : graph) (R : list string) : Prop := forall y, In y R -> forall x, edge g y x -> In x R.

Definition closed_b (g : graph) (R : list string) : bool := forallb (fun y => forallb (fun x => mem x R) (succs g y)) R.

Lemma closed_b_true g R : closed_b g R = true -> closed g R.
Proof.
  unfold closed_b. rewrite forallb_forall. intros H y Hy x He. specialize (H y Hy). rewrite forallb_forall in H.
  apply mem_In. apply H. apply succs_edge. exact He.
Qed.

Lemma forallb_false_ex {A} (f : A -> bool) l : forallb f l = false -> exists x, In x l /\ f x = false.
Proof.
  induction l as [|a l IH]; cbn [forallb]; [discriminate|].
  destruct (f a) eqn:Ef; cbn [andb].
  - intros H. destruct (IH H) as (x & Hx & Hf). exists x. split; [right; exact Hx|exact Hf].
  - intros _. exists a. split; [left; reflexivity|exact Ef].
Qed.

Lemma closed_b_false g R : closed_b g R = false -> exists y x, In y R /\ edge g y x /\ ~ In x R.
Proof.
  unfold closed_b. intros H. apply forallb_false_ex in H. destruct H as (y & Hy & H).
  apply forallb_false_ex in H. destruct H as (x & Hx & Hm). exists y, x.
  split; [exact Hy|]. split; [apply succs_edge; exact Hx|apply mem_false; exact Hm].
Qed.

(* a round that does not make the list longer added nothing: the set was closed *)
Lemma same_length_closed g R : length (expand g R) = length R -> closed g R.
Proof.
  intros Hlen y Hy x He. destruct (in_dec string_dec x R) as [Hin|Hn]; [exact Hin|]. exfalso.
  assert (Hlt : length R < length (expand g R)); [|lia].
  unfold expand. apply add_new_grows. exists x. split; [|exact Hn].
  apply in_flat_map. exists y. split; [exact Hy|apply succs_edge; exact He].
Qed.

Lemma closed_same_length g R : closed g R -> length (expand g R) = length R.
Proof.
  intros Hc. unfold expand. rewrite add_new_same; [reflexivity|].
  intros x Hx. apply in_flat_map in Hx. destruct Hx as (y & Hy & Hs). apply (Hc y Hy x). apply succs_edge. exact Hs.
Qed.

Lemma sat_closed g n : forall R, unseen g R <= n -> closed g (sat n g R).
Proof.
  induction n as [|n IH]; intros R Hn.
  - cbn [sat]. destruct (closed_b g R) eqn:Hc; [apply closed_b_true; exact Hc|].
    exfalso. destruct (closed_b_false g R Hc) as (y & x & Hy & (e & _ & _ & Hex) & Hx).
    pose proof (unseen_cons_lt g R x Hex Hx). lia.
  - cbn [sat]. destruct (Nat.eqb (length (expand g R)) (length R)) eqn:Hlen.
    + apply same_length_closed. apply Nat.eqb_eq. exact Hlen.
    + apply Nat.eqb_neq in Hlen. destruct (closed_b g R) eqn:Hc.
      * exfalso. apply Hlen. apply closed_same_length. apply closed_b_true. exact Hc.
      * destruct (closed_b_false g R Hc) as (y & x & Hy & He & Hx). apply IH.
        assert (Hex : lookup g x <> None) by (destruct He as (e & _ & _ & Hex); exact Hex).
        pose proof (unseen_cons_lt g R x Hex Hx) as Hlt.
        assert (Hi : incl (x :: R) (expand g R)).
        { intros z [<-|Hz]; apply expand_In; [right; exists y; auto|left; exact Hz]. }
        pose proof (unseen_mono g (x :: R) (expand g R) Hi). lia.
Qed.

Lemma reach_from_closed g D : closed g (reach_from g D).
Proof. unfold reach_from. apply sat_closed. apply unseen_le_length. Qed.

Lemma closed_complete g R q x : closed g R -> In q R -> reaches g q x -> In x R.
Proof. intros Hc Hq H. induction H as [q|q z x He _ IH]; [exact Hq|]. apply IH. exact (Hc q Hq z He). Qed.

Theorem reach_from_spec g D x : In x (reach_from g D) <-> exists q, In q D /\ reaches g q x.
Proof.
  split.
  - unfold reach_from. apply (sat_sound g (fun x => exists q, In q D /\ reaches g q x)).
    + intros y z (q & Hq & Hr) He. exists q. split; [exact Hq|]. eapply reaches_snoc; eassumption.
    + intros z Hz. exists z. split; [exact Hz|apply reaches_refl].
  - intros (q & Hq & Hr). eapply closed_complete; [apply reach_from_closed| |exact Hr].
    unfold reach_from. apply sat_incl. exact Hq.
Qed.

Theorem reaches_b_spec g q p : reaches_b g q p = true <-> reaches g q p.
Proof.
  unfold reaches_b. rewrite mem_In, reach_from_spec. split.
  - intros (q0 & [<-|[]] & Hr). exact Hr.
  - intros Hr. exists q. split; [left; reflexivity|exact Hr].
Qed.

Theorem closes_cycle_b_spec g p e : closes_cycle_b g p e = true <-> closes_cycle g p e.
Proof.
  unfold closes_cycle_b, closes_cycle. rewrite mem_In, reach_from_spec. split.
  - intros (q & Hq & Hr). apply filter_In in Hq. destruct Hq as [Hq Hne]. exists q. split; [exact Hq|]. split; [|exact Hr].
    intros ->. rewrite String.eqb_refl in Hne. discriminate.
  - intros (q & Hq & Hne & Hr). exists q. split; [|exact Hr]. apply filter_In. split; [exact Hq|].
    apply negb_true_iff. apply String.eqb_neq. exact Hne.
Qed.

Lemma first_proper_edge g r q : reaches g r q -> r <> q -> exists z, z <> r /\ edge g r z /\ reaches g z q.
Proof.
  intros H. induction H as [r|r z q He Hr IH]; intros Hne; [congruence|].
  destruct (string_dec z r) as [->|Hz]; [apply IH; exact Hne|]. exists z. auto.
Qed.

Theorem acyclic_b_spec g : acyclic_b g = true <-> acyclic_distinct g.
Proof.
  unfold acyclic_b. fold (keys g). rewrite forallb_forall. split.
  - intros H q r Hne H1 H2.
    destruct (first_proper_edge g q r H1 Hne) as (z & Hz & He & Hzr).
    assert (Hq : In q (keys g)) by (apply lookup_in_keys; eapply reaches_exists; eassumption).
    specialize (H q Hq). destruct He as (e & Hl & Hin & Hex). rewrite Hl in H.
    apply negb_true_iff in H.
    assert (Hcc : closes_cycle_b g q e = true); [|congruence].
    apply closes_cycle_b_spec. exists z. split; [exact Hin|]. split; [exact Hz|]. eapply reaches_trans; eassumption.
  - intros Hac q _. destruct (lookup g q) as [[e|]|] eqn:Hl; try reflexivity.
    apply negb_true_iff. destruct (closes_cycle_b g q e) eqn:Hcc; [|reflexivity]. exfalso.
    apply closes_cycle_b_spec in Hcc. destruct Hcc as (d & Hin & Hne & Hr).
    apply (Hac q d); [congruence| |exact Hr].
    eapply reaches_step; [|apply reaches_refl]. exists e. split; [exact Hl|]. split; [exact Hin|].
    eapply reaches_exists; eassumption.
Qed.

(* ------------------------------------------------------------------------------------------------ cycles, spelled out *)
Lemma chain_reaches g l : forall q r, chain g q l r -> reaches g q r.
Proof.
  induction l as [|z l IH]; intros q r H; cbn [chain] in H; [subst; apply reaches_refl|].
  destruct H as [He Hc]. eapply reaches_step; [exact He|apply IH; exact Hc].
Qed.

Lemma reaches_chain g q r : reaches g q r -> exists l, chain g q l r.
Proof.
  intros H. induction H as [q|q z r He _ (l & Hl)]; [exists []; reflexivity|].
  exists (z :: l). split; assumption.
Qed.

Theorem acyclic_iff_no_cycle g : acyclic_distinct g <-> (forall q l r, ~ simple_cycle g q l r).
Proof.
  split.
  - intros Hac q l r (Hne & Hc & He). apply (Hac q r Hne); [eapply chain_reaches; exact Hc|].
    eapply reaches_step; [exact He|apply reaches_refl].
  - intros Hno q r Hne H1 H2.
    destruct (first_proper_edge g r q H2 ltac:(congruence)) as (z & Hz & He & Hzq).
    destruct (reaches_chain g z r (reaches_trans g z q r Hzq H1)) as (l & Hl).
    apply (Hno z l r). split; [exact Hz|]. split; assumption.
Qed.
