(* C04 — concurrent requests.
   (1) Model.step and Spec.spec_step are the same function (the walk decides the specification).
   (2) The event-loop model of Model.v with gap = 0 (no suspension point between check_loops and the store): whatever the
       schedule, the resulting registry is the result of serving, one after the other, the requests that have got to their
       check, in the order in which they got there -- a serialization; the others are still pending.  Hence (invariant
       theorem) acyclicity is preserved under every interleaving.
   (3) `perms` enumerates exactly the permutations, so the oracle of the case files (Run.serial_match) decides
       Spec.par_allowed up to the comparison of the resulting texts. *)
From QT Require Import C04.Spec C04.CheckThm C04.SpecThm C04.InvThm.
From Coq Require Import Lia.
Open Scope string_scope.
Open Scope list_scope.
Open Scope nat_scope.

(* ------------------------------------------------------------------------------------------------ model = specification *)
Lemma check_loops_eq_b g p e : check_loops g p e = closes_cycle_b g p e.
Proof.
  pose proof (check_loops_iff_any g p e) as H1. pose proof (closes_cycle_b_spec g p e) as H2.
  destruct (check_loops g p e), (closes_cycle_b g p e); try reflexivity.
  - symmetry. apply H2. apply H1. reflexivity.
  - apply H1. apply H2. reflexivity.
Qed.

Theorem step_spec_step g o : step g o = spec_step g o.
Proof.
  destruct o as [p t|p|p]; cbn [step spec_step]; try reflexivity.
  unfold set_expression. destruct (lookup g p); [|reflexivity]. destruct t as [| |e]; try reflexivity.
  rewrite check_loops_eq_b. reflexivity.
Qed.

Lemma follows_ext f1 f2 : (forall g o, f1 g o = f2 g o) -> forall res g, follows f1 g res = follows f2 g res.
Proof.
  intros H. induction res as [|[o out] r IH]; intros g; cbn [follows]; [reflexivity|].
  rewrite H. destruct (f2 g o) as [g1 out1]. destruct (outcome_eqb out out1); [apply IH|reflexivity].
Qed.

Lemma follows_fold res : forall g g', follows step g res = Some g' -> g' = fold_left apply (map fst res) g.
Proof.
  induction res as [|[o out] r IH]; intros g g' H; cbn [follows] in H; cbn [map fst fold_left].
  - congruence.
  - unfold apply at 2. destruct (step g o) as [g1 out1]. cbn [fst].
    destruct (outcome_eqb out out1); [apply IH; exact H|discriminate].
Qed.

(* a concurrent step that the specification allows keeps the registry acyclic *)
Theorem par_allowed_acyclic g res g' : acyclic_distinct g -> par_allowed g res g' -> acyclic_distinct g'.
Proof.
  intros Hac (res' & _ & Hf). rewrite <- (follows_ext step spec_step step_spec_step) in Hf.
  apply follows_fold in Hf. subst g'. apply acyclic_invariant. exact Hac.
Qed.

(* ------------------------------------------------------------------------------------------------ permutations *)
Lemma inserts_perm {A} (x : A) l p : In p (inserts x l) -> Permutation (x :: l) p.
Proof.
  revert p. induction l as [|y r IH]; intros p Hp; cbn [inserts In] in Hp.
  - destruct Hp as [<-|[]]. apply Permutation_refl.
  - destruct Hp as [<-|Hp]; [apply Permutation_refl|].
    apply in_map_iff in Hp. destruct Hp as (q & <- & Hq).
    eapply perm_trans; [apply perm_swap|]. apply perm_skip. apply IH. exact Hq.
Qed.

Lemma inserts_mid {A} (x : A) p1 p2 : In (p1 ++ x :: p2) (inserts x (p1 ++ p2)).
Proof.
  induction p1 as [|y r IH]; cbn [app inserts].
  - destruct p2; left; reflexivity.
  - right. apply in_map. exact IH.
Qed.

Theorem perms_spec {A} (l p : list A) : In p (perms l) <-> Permutation l p.
Proof.
  split.
  - revert p. induction l as [|x r IH]; intros p Hp; cbn [perms] in Hp.
    + destruct Hp as [<-|[]]. apply perm_nil.
    + apply in_flat_map in Hp. destruct Hp as (q & Hq & Hp).
      eapply perm_trans; [apply perm_skip; apply IH; exact Hq|]. apply inserts_perm. exact Hp.
  - revert p. induction l as [|x r IH]; intros p Hp; cbn [perms].
    + apply Permutation_nil in Hp. subst. left. reflexivity.
    + assert (Hin : In x p) by (eapply Permutation_in; [exact Hp|left; reflexivity]).
      apply in_split in Hin. destruct Hin as (p1 & p2 & ->).
      apply Permutation_cons_app_inv in Hp.
      apply in_flat_map. exists (p1 ++ p2). split; [apply IH; exact Hp|apply inserts_mid].
Qed.

(* ------------------------------------------------------------------------------------------------ the event loop, gap = 0 *)
Definition quiet (ts : list task) : Prop := Forall (fun t => match snd t with Mid _ _ => False | _ => True end) ts.

(* the requests that have not yet got to their check *)
Definition pending (ts : list task) : list op := map fst (filter fresh ts).

Lemma set_nth_same {A} (l : list A) i x : nth_error l i = Some x -> set_nth l i x = l.
Proof.
  revert i. induction l as [|y r IH]; intros [|i] H; cbn in *; try discriminate.
  - congruence.
  - rewrite IH by exact H. reflexivity.
Qed.

Lemma quiet_set_nth ts i t : quiet ts -> match snd t with Mid _ _ => False | _ => True end -> quiet (set_nth ts i t).
Proof.
  intros Hq Ht. revert i. induction Hq as [|y r Hy Hr IH]; intros i.
  - destruct i; constructor.
  - destruct i as [|i]; cbn [set_nth]; constructor; try assumption. apply IH.
Qed.

Lemma quiet_nth ts i t : quiet ts -> nth_error ts i = Some t -> match snd t with Mid _ _ => False | _ => True end.
Proof. intros Hq H. unfold quiet in Hq. rewrite Forall_forall in Hq. apply Hq. eapply nth_error_In. exact H. Qed.

Lemma pending_tick ts i o k : nth_error ts i = Some (o, Pre (S k)) -> pending (set_nth ts i (o, Pre k)) = pending ts.
Proof.
  revert i. induction ts as [|y r IH]; intros [|i] H; cbn in H; try discriminate.
  - injection H as ->. reflexivity.
  - unfold pending in *. cbn [set_nth filter]. destruct (fresh y); cbn [map]; rewrite (IH i H); reflexivity.
Qed.

Lemma pending_exec ts i o : nth_error ts i = Some (o, Pre 0) -> Permutation (o :: pending (set_nth ts i (o, Fin))) (pending ts).
Proof.
  revert i. induction ts as [|y r IH]; intros [|i] H; cbn in H; try discriminate.
  - injection H as ->. apply Permutation_refl.
  - unfold pending in *. cbn [set_nth filter]. destruct (fresh y); cbn [map].
    + eapply perm_trans; [apply perm_swap|]. apply perm_skip. apply IH. exact H.
    + apply IH. exact H.
Qed.

(* every schedule is a serialization: the registry is the result of serving l one after the other, where l together with
   the requests still pending is a rearrangement of the requests that were pending at the start *)
Theorem run_sched_serializable : forall sched g ts,
  quiet ts ->
  exists l, fst (run_sched 0 g ts sched) = fold_left apply l g
            /\ Permutation (l ++ pending (snd (run_sched 0 g ts sched))) (pending ts)
            /\ quiet (snd (run_sched 0 g ts sched)).
Proof.
  induction sched as [|i rest IH]; intros g ts Hq; cbn [run_sched].
  - exists []. cbn [fold_left app fst snd]. split; [reflexivity|]. split; [apply Permutation_refl|exact Hq].
  - destruct (nth_error ts i) as [[o c]|] eqn:Hn; [|apply IH; exact Hq].
    pose proof (quiet_nth ts i (o, c) Hq Hn) as Hc. cbn [snd] in Hc.
    destruct c as [[|k]|ok j|]; [| | contradiction |]; cbn [task_step].
    + (* the request gets to its check: check and store happen in this one step *)
      assert (Hq' : quiet (set_nth ts i (o, Fin))) by (apply quiet_set_nth; [exact Hq|exact I]).
      destruct (IH (apply g o) (set_nth ts i (o, Fin)) Hq') as (l & Hg & Hp & Hqf).
      exists (o :: l). split; [exact Hg|]. split; [|exact Hqf].
      cbn [app]. eapply perm_trans; [apply perm_skip; exact Hp|]. apply pending_exec. exact Hn.
    + assert (Hq' : quiet (set_nth ts i (o, Pre k))) by (apply quiet_set_nth; [exact Hq|exact I]).
      destruct (IH g (set_nth ts i (o, Pre k)) Hq') as (l & Hg & Hp & Hqf).
      exists l. split; [exact Hg|]. split; [|exact Hqf]. eapply perm_trans; [exact Hp|].
      exact (eq_ind_r (fun x => Permutation x (pending ts)) (Permutation_refl _) (pending_tick ts i o k Hn)).
    + rewrite (set_nth_same ts i (o, Fin) Hn). apply IH. exact Hq.
Qed.

(* ... hence no interleaving of requests can create a cycle *)
Theorem run_sched_acyclic sched g ts :
  quiet ts -> acyclic_distinct g -> acyclic_distinct (fst (run_sched 0 g ts sched)).
Proof.
  intros Hq Hac. destruct (run_sched_serializable sched g ts Hq) as (l & Hg & _). rewrite Hg.
  apply acyclic_invariant. exact Hac.
Qed.
