(* C04 — specification: the "reads the value of" relation between ports, what closing a cycle means, acyclicity.
   Written without reference to how check_loops walks: a relation, its reflexive-transitive closure, and (for the oracle used
   by the generated case files) a saturation of the successor relation.  SpecThm.v proves the boolean versions equivalent. *)
From QT Require Export C04.Model.
From QT Require Export Expr.Deps.
From Coq Require Export Relations.Relation_Operators.
Open Scope string_scope.
Open Scope list_scope.
Open Scope nat_scope.

(* q's current expression reads the value of r (`$r` somewhere in it, at any depth of function arguments), and r exists.
   `$` (the port itself) is not an edge between distinct ports and is left out. *)
Definition edge (g : graph) (q r : string) : Prop :=
  exists e, lookup g q = Some (Some e) /\ In r (port_deps e) /\ lookup g r <> None.

Definition reaches (g : graph) : string -> string -> Prop := clos_refl_trans_1n string (edge g).

(* installing e on p would make p read (directly) a port q, other than p, that already reads p (transitively) *)
Definition closes_cycle (g : graph) (p : string) (e : expr) : Prop :=
  exists q, In q (port_deps e) /\ q <> p /\ reaches g q p.

(* no two distinct ports read each other (transitively) = no cycle of length >= 2; a port reading itself is allowed *)
Definition acyclic_distinct (g : graph) : Prop :=
  forall q r, q <> r -> reaches g q r -> reaches g r q -> False.

(* the same, as an explicit closed walk  q -> ... -> r -> q  that visits two different ports (SpecThm.acyclic_iff_no_cycle);
   chain g q l r: l lists the ports after q along the walk, the last of which is r (l = [] means q = r) *)
Fixpoint chain (g : graph) (q : string) (l : list string) (last : string) : Prop :=
  match l with
  | [] => q = last
  | r :: l' => edge g q r /\ chain g r l' last
  end.
Definition simple_cycle (g : graph) (q : string) (l : list string) (r : string) : Prop :=
  q <> r /\ chain g q l r /\ edge g r q.

(* ------------------------------------------------------------------------------------------------ executable form *)
Definition present (g : graph) (id : string) : bool := match lookup g id with Some _ => true | None => false end.

Definition succs (g : graph) (q : string) : list string :=
  match lookup g q with
  | Some (Some e) => filter (present g) (port_deps e)
  | _ => []
  end.

Fixpoint add_new (l R : list string) : list string :=
  match l with
  | [] => R
  | x :: r => if mem x R then add_new r R else add_new r (x :: R)
  end.

Definition expand (g : graph) (R : list string) : list string := add_new (flat_map (succs g) R) R.

(* saturate a set of ports under successors.  A round that adds nothing leaves a closed set (stop); otherwise it adds a
   registered port that was not there, so (number of ports) rounds are enough (SpecThm.reach_from_closed) *)
Fixpoint sat (n : nat) (g : graph) (R : list string) : list string :=
  match n with
  | O => R
  | S k => let R' := expand g R in if Nat.eqb (length R') (length R) then R else sat k g R'
  end.

(* everything reached from some port of D *)
Definition reach_from (g : graph) (D : list string) : list string := sat (length g) g D.

Definition reaches_b (g : graph) (q p : string) : bool := mem p (reach_from g [q]).

(* p is reached from a dependency of e other than p itself *)
Definition closes_cycle_b (g : graph) (p : string) (e : expr) : bool :=
  mem p (reach_from g (filter (fun q => negb (String.eqb q p)) (port_deps e))).

(* no port reads (directly) a different port that reads it back (transitively): one saturation per port *)
Definition acyclic_b (g : graph) : bool :=
  forallb (fun q => match lookup g q with Some (Some e) => negb (closes_cycle_b g q e) | _ => true end) (map fst g).

(* ------------------------------------------------------------------------------------------------ one operation, specified
   What an operation must do, with the walk replaced by the specification: an assignment is rejected with
   circular-dependency iff it closes a cycle (and then nothing changes), otherwise it is installed. *)
Definition spec_step (g : graph) (o : op) : graph * outcome :=
  match o with
  | OSet p t =>
      match lookup g p with
      | None => (g, NoPort)
      | Some _ =>
          match t with
          | TEmpty => (update g p None, Accepted)
          | TBad => (g, ParseError)
          | TExpr e => if closes_cycle_b g p e then (g, Circular) else (update g p (Some e), Accepted)
          end
      end
  | OAdd p => match lookup g p with Some _ => (g, NoPort) | None => (add_port g p, Accepted) end
  | ORemove p => match lookup g p with Some _ => (remove_port g p, Accepted) | None => (g, NoPort) end
  end.

Definition outcome_eqb (a b : outcome) : bool :=
  match a, b with
  | Accepted, Accepted | Circular, Circular | ParseError, ParseError | NoPort, NoPort => true
  | _, _ => false
  end.

(* the requests, performed one after the other in this order, have these outcomes and lead to this graph *)
Fixpoint follows (stepf : graph -> op -> graph * outcome) (g : graph) (res : list (op * outcome)) : option graph :=
  match res with
  | [] => Some g
  | (o, out) :: r => let '(g1, out1) := stepf g o in if outcome_eqb out out1 then follows stepf g1 r else None
  end.

(* ------------------------------------------------------------------------------------------------ a concurrent step
   Requests issued at the same time (asyncio.gather of set_attr / remove) may be served in any order, but the result -- every
   request's outcome and the resulting graph -- must be the result of serving them one after the other in SOME order. *)
From Coq Require Export Sorting.Permutation.
Definition par_allowed (g : graph) (res : list (op * outcome)) (g' : graph) : Prop :=
  exists res', Permutation res res' /\ follows spec_step g res' = Some g'.

Fixpoint inserts {A} (x : A) (l : list A) : list (list A) :=
  match l with
  | [] => [[x]]
  | y :: r => (x :: y :: r) :: map (cons y) (inserts x r)
  end.

Fixpoint perms {A} (l : list A) : list (list A) :=
  match l with
  | [] => [[]]
  | x :: r => flat_map (inserts x) (perms r)
  end.
