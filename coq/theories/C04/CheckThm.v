(* C04 — check_loops raises exactly when the assignment closes a cycle between distinct ports; for EVERY graph.
   Soundness: induction on the run.  Completeness: when the walk returns 0, the ports it added to `seen` form a set closed
   under "reads the value of" that does not touch the assigned port (so nothing it visited reaches that port).  The shared
   `seen` set needs no acyclicity assumption: a port is only ever skipped when it has been, or is being, fully explored.
   Fuel: every descent adds a port that exists and was not in `seen`, so the number of registered ports not yet in `seen`
   strictly decreases; (number of ports + 1) units are never exhausted. *)
From QT Require Import C04.Spec.
From Coq Require Import Lia.
Open Scope string_scope.
Open Scope list_scope.
Open Scope nat_scope.

(* ------------------------------------------------------------------------------------------------ small facts *)
Lemma mem_In x l : mem x l = true <-> In x l.
Proof.
  induction l as [|y r IH]; cbn [mem In].
  - split; [discriminate|tauto].
  - rewrite orb_true_iff, IH, String.eqb_eq. intuition congruence.
Qed.

Lemma mem_false x l : mem x l = false <-> ~ In x l.
Proof.
  rewrite <- mem_In. destruct (mem x l); split; intros; try congruence.
Qed.

Definition keys (g : graph) : list string := map fst g.

Lemma lookup_in_keys g q : lookup g q <> None -> In q (keys g).
Proof.
  induction g as [|[k v] r IH]; cbn [lookup keys map fst In]; [congruence|].
  destruct (String.eqb q k) eqn:E.
  - apply String.eqb_eq in E. intros _. left. auto.
  - intros H. right. apply IH. exact H.
Qed.

Lemma in_keys_lookup g q : In q (keys g) -> lookup g q <> None.
Proof.
  induction g as [|[k v] r IH]; cbn [lookup keys map fst In]; [tauto|].
  destruct (String.eqb q k) eqn:E; [congruence|].
  intros [H|H]; [subst; rewrite String.eqb_refl in E; discriminate|]. apply IH. exact H.
Qed.

Lemma filter_len_mono (f h : string -> bool) l :
  (forall x, f x = true -> h x = true) -> length (filter f l) <= length (filter h l).
Proof.
  intros Hfh. induction l as [|a r IH]; cbn [filter]; [lia|].
  destruct (f a) eqn:Ef.
  - rewrite (Hfh a Ef). cbn [length]. lia.
  - destruct (h a); cbn [length]; lia.
Qed.

Lemma filter_len_strict (f h : string -> bool) l q :
  (forall x, f x = true -> h x = true) -> In q l -> f q = false -> h q = true ->
  length (filter f l) < length (filter h l).
Proof.
  intros Hfh Hin Hf Hh. induction l as [|a r IH]; cbn [filter]; [destruct Hin|].
  destruct Hin as [->|Hin].
  - rewrite Hf, Hh. cbn [length]. pose proof (filter_len_mono f h r Hfh). lia.
  - specialize (IH Hin). destruct (f a) eqn:Ef.
    + rewrite (Hfh a Ef). cbn [length]. lia.
    + destruct (h a); cbn [length]; lia.
Qed.

Lemma filter_len_le (f : string -> bool) l : length (filter f l) <= length l.
Proof. induction l as [|a r IH]; cbn [filter length]; [lia|]. destruct (f a); cbn [length]; lia. Qed.

(* number of registered ports not yet in `seen` *)
Definition unseen (g : graph) (seen : list string) : nat := length (filter (fun k => negb (mem k seen)) (keys g)).

Lemma unseen_le_length g S : unseen g S <= length g.
Proof. unfold unseen, keys. rewrite <- (map_length fst g). apply filter_len_le. Qed.

Lemma unseen_mono g S S' : incl S S' -> unseen g S' <= unseen g S.
Proof.
  intros Hi. unfold unseen. apply filter_len_mono. intros x Hx.
  apply negb_true_iff in Hx. apply negb_true_iff. apply mem_false. apply mem_false in Hx. intros H. apply Hx. apply Hi. exact H.
Qed.

Lemma unseen_cons_lt g S q : lookup g q <> None -> ~ In q S -> unseen g (q :: S) < unseen g S.
Proof.
  intros Hq Hn. unfold unseen. apply filter_len_strict with (q := q).
  - intros x Hx. apply negb_true_iff in Hx. apply negb_true_iff. cbn [mem] in Hx. apply orb_false_iff in Hx. tauto.
  - apply lookup_in_keys. exact Hq.
  - cbn [mem]. rewrite String.eqb_refl. reflexivity.
  - apply negb_true_iff. apply mem_false. exact Hn.
Qed.

Lemma reaches_refl g q : reaches g q q.
Proof. apply rt1n_refl. Qed.

Lemma reaches_step g q r s : edge g q r -> reaches g r s -> reaches g q s.
Proof. intros. eapply rt1n_trans; eassumption. Qed.

Lemma reaches_trans g q r s : reaches g q r -> reaches g r s -> reaches g q s.
Proof. intros H1 H2. induction H1; [exact H2|]. eapply rt1n_trans; [eassumption|]. apply IHclos_refl_trans_1n. exact H2. Qed.

Lemma reaches_exists g q r : reaches g q r -> q <> r -> lookup g q <> None.
Proof. intros H Hne. destruct H as [|y z He _]; [congruence|]. destruct He as (e & Hl & _). congruence. Qed.

(* ------------------------------------------------------------------------------------------------ the walk *)
Section Post.
  Variable g : graph.
  Variable p : string.

  (* the ports added to `seen` by a walk that found nothing: closed under edges, and none of them reads p *)
  Definition closed_new (S S' : list string) : Prop :=
    forall x, In x S' -> ~ In x S -> forall r, edge g x r -> In r S' /\ r <> p.

  Definition post (level : nat) (deps : list string) (S : list string) (res : nat * list string) : Prop :=
    incl S (snd res) /\
    (fst res = 0 ->
       (forall q, In q deps -> lookup g q <> None -> In q (snd res) /\ (1 < level -> q <> p)) /\ closed_new S (snd res)) /\
    (fst res <> 0 ->
       1 < fst res /\ exists q, In q deps /\ lookup g q <> None /\ (level = 1 -> q <> p) /\ reaches g q p).

  Definition pre (level : nat) (owner : string) (S : list string) : Prop :=
    In p S /\ In owner S /\ (1 < level -> owner <> p) /\ 1 <= level.

  Definition good (f : nat) (descend : nat -> string -> expr -> list string -> nat * list string) : Prop :=
    forall level owner e S, pre level owner S -> unseen g S < f -> post level (port_deps e) S (descend level owner e S).

  Lemma closed_new_refl S : closed_new S S.
  Proof. intros x H1 H2. contradiction. Qed.

  Lemma closed_new_trans S S1 S2 : incl S1 S2 -> closed_new S S1 -> closed_new S1 S2 -> closed_new S S2.
  Proof.
    intros Hi H1 H2 x Hx Hn r He.
    destruct (in_dec string_dec x S1) as [Hin|Hin].
    - destruct (H1 x Hin Hn r He) as [Ha Hb]. split; [apply Hi; exact Ha|exact Hb].
    - exact (H2 x Hx Hin r He).
  Qed.

  Section Walk.
    Variable f : nat.
    Variable descend : nat -> string -> expr -> list string -> nat * list string.
    Hypothesis Hgood : good f descend.

    Lemma visit_post level owner q S :
      pre level owner S -> unseen g S <= f -> post level [q] S (visit descend g p level q S).
    Proof.
      intros (Hp & Ho & Hlv & Hl1) Hfuel. unfold visit.
      destruct (lookup g q) as [oe|] eqn:Hq.
      2:{ unfold post; cbn [fst snd]. split; [apply incl_refl|]. split; [|congruence]. intros _. split.
          - intros q' [<-|[]] Hex. congruence.
          - apply closed_new_refl. }
      destruct (String.eqb q p && Nat.ltb 1 level) eqn:Hfound.
      { apply andb_true_iff in Hfound. destruct Hfound as [Heq Hlt]. apply String.eqb_eq in Heq. apply Nat.ltb_lt in Hlt. subst q.
        unfold post; cbn [fst snd]. split; [apply incl_refl|]. split; [lia|]. intros _. split; [exact Hlt|].
        exists p. split; [left; reflexivity|]. split; [congruence|]. split; [lia|apply reaches_refl]. }
      assert (Hnotp : 1 < level -> q <> p).
      { intros Hlt Heq. subst q. rewrite String.eqb_refl in Hfound. apply Nat.ltb_lt in Hlt. rewrite Hlt in Hfound. discriminate. }
      destruct (mem q S) eqn:Hmem.
      { apply mem_In in Hmem. unfold post; cbn [fst snd]. split; [apply incl_refl|]. split; [|congruence]. intros _. split.
        - intros q' [<-|[]] _. split; assumption.
        - apply closed_new_refl. }
      apply mem_false in Hmem.
      assert (Hqp : q <> p) by (intros ->; contradiction).
      assert (Hincl : incl S (q :: S)) by (apply incl_tl, incl_refl).
      destruct oe as [e'|].
      2:{ unfold post; cbn [fst snd]. split; [exact Hincl|]. split; [|congruence]. intros _. split.
          - intros q' [<-|[]] _. split; [left; reflexivity|auto].
          - intros x [<-|Hx] Hn r (e0 & Hl0 & _); [congruence|contradiction]. }
      assert (Hpre' : pre (Datatypes.S level) q (q :: S)).
      { repeat split; [right; exact Hp|left; reflexivity|auto|lia]. }
      assert (Hfuel' : unseen g (q :: S) < f).
      { pose proof (unseen_cons_lt g S q). rewrite Hq in H. specialize (H ltac:(congruence) Hmem). lia. }
      pose proof (Hgood (Datatypes.S level) q e' (q :: S) Hpre' Hfuel') as Hpost.
      destruct (descend (Datatypes.S level) q e' (q :: S)) as [r S'] eqn:Hd. unfold post in *; cbn [fst snd] in *.
      destruct Hpost as (Hi & Hzero & Hfnd).
      split; [intros x Hx; apply Hi; right; exact Hx|]. split.
      - intros Hr. destruct (Hzero Hr) as [Hdeps Hcl]. split.
        + intros q' [<-|[]] _. split; [apply Hi; left; reflexivity|auto].
        + intros x Hx Hn r0 He.
          destruct (string_dec x q) as [->|Hxq].
          * destruct He as (e0 & Hl0 & Hin0 & Hex0). rewrite Hq in Hl0. injection Hl0 as <-.
            destruct (Hdeps r0 Hin0 Hex0) as [Ha Hb]. split; [exact Ha|apply Hb; lia].
          * apply (Hcl x Hx); [|exact He]. intros [Heq|Hin]; [congruence|contradiction].
      - intros Hr. destruct (Hfnd Hr) as (Hlt & d & Hin & Hex & _ & Hreach). split; [exact Hlt|].
        exists q. split; [left; reflexivity|]. split; [congruence|]. split; [auto|].
        apply reaches_step with (r := d); [|exact Hreach]. exists e'. auto.
    Qed.

    Lemma post_weaken level deps deps' S res :
      (forall q, In q deps' <-> In q deps) -> post level deps S res -> post level deps' S res.
    Proof.
      intros Heq (Hi & Hz & Hf). split; [exact Hi|]. split.
      - intros Hr. destruct (Hz Hr) as [Hd Hc]. split; [|exact Hc]. intros q Hq. apply Hd. apply Heq. exact Hq.
      - intros Hr. destruct (Hf Hr) as (Hlt & q & Hq & Hrest). split; [exact Hlt|]. exists q. split; [apply Heq; exact Hq|exact Hrest].
    Qed.

    Lemma pre_incl level owner S S' : incl S S' -> pre level owner S -> pre level owner S'.
    Proof. intros Hi (H1 & H2 & H3 & H4). repeat split; auto. Qed.

    Lemma walk_list_post level owner (w : expr -> list string -> nat * list string) args :
      Forall (fun a => forall S, pre level owner S -> unseen g S <= f -> post level (port_deps a) S (w a S)) args ->
      forall S, pre level owner S -> unseen g S <= f ->
                post level (flat_map port_deps args) S (walk_list w args S).
    Proof.
      induction 1 as [|a l Ha _ IH]; intros S Hpre Hfuel; cbn [walk_list flat_map].
      - unfold post; cbn [fst snd]. split; [apply incl_refl|]. split; [|congruence]. intros _. split.
        + intros q [].
        + apply closed_new_refl.
      - pose proof (Ha S Hpre Hfuel) as Hpa. destruct (w a S) as [lv S1] eqn:Hw.
        destruct Hpa as (Hi1 & Hz1 & Hf1). cbn [fst snd] in *.
        destruct (Nat.eqb lv 0) eqn:Hlv.
        + apply Nat.eqb_eq in Hlv. destruct (Hz1 Hlv) as [Hd1 Hc1].
          assert (Hpre1 : pre level owner S1) by (eapply pre_incl; eassumption).
          assert (Hfuel1 : unseen g S1 <= f) by (pose proof (unseen_mono g S S1 Hi1); lia).
          pose proof (IH S1 Hpre1 Hfuel1) as Hpl. destruct (walk_list w l S1) as [r S'] eqn:Hwl.
          destruct Hpl as (Hi2 & Hz2 & Hf2). cbn [fst snd] in *.
          split; [eapply incl_tran; eassumption|]. split.
          * intros Hr. destruct (Hz2 Hr) as [Hd2 Hc2]. split.
            -- intros q Hq Hex. apply in_app_or in Hq. destruct Hq as [Hq|Hq].
               ++ destruct (Hd1 q Hq Hex) as [Hx Hy]. split; [apply Hi2; exact Hx|exact Hy].
               ++ exact (Hd2 q Hq Hex).
            -- eapply closed_new_trans; eassumption.
          * intros Hr. destruct (Hf2 Hr) as (Hlt & q & Hq & Hrest). split; [exact Hlt|].
            exists q. split; [apply in_or_app; right; exact Hq|exact Hrest].
        + apply Nat.eqb_neq in Hlv. unfold post; cbn [fst snd].
          split; [exact Hi1|]. split; [intros H0; congruence|]. intros _.
          destruct (Hf1 Hlv) as (Hlt & q & Hq & Hrest). split; [exact Hlt|].
          exists q. split; [apply in_or_app; left; exact Hq|exact Hrest].
    Qed.

    Lemma post_nothing level S : post level [] S (0, S).
    Proof.
      unfold post; cbn [fst snd]. split; [apply incl_refl|]. split; [|congruence]. intros _. split.
      - intros q [].
      - apply closed_new_refl.
    Qed.

    Lemma walk_post e : forall level owner S,
      pre level owner S -> unseen g S <= f -> post level (port_deps e) S (walk descend g p level owner e S).
    Proof.
      induction e as [v|q| |q| |fn args IH] using expr_ind'; intros level owner S Hpre Hfuel; cbn [walk port_deps].
      - apply post_nothing.
      - eapply visit_post; eassumption.
      - (* `$`: the owner is in `seen` (and is not p below level 1), so nothing happens *)
        pose proof (visit_post level owner owner S Hpre Hfuel) as Hv.
        destruct Hpre as (Hp & Ho & Hlv & Hl1). unfold visit in *.
        destruct (lookup g owner) as [oe|]; [|apply post_nothing].
        destruct (String.eqb owner p && Nat.ltb 1 level) eqn:Hfound.
        { apply andb_true_iff in Hfound. destruct Hfound as [Heq Hlt]. apply String.eqb_eq in Heq. apply Nat.ltb_lt in Hlt.
          exfalso. exact (Hlv Hlt Heq). }
        apply mem_In in Ho. rewrite Ho. apply post_nothing.
      - apply post_nothing.
      - apply post_nothing.
      - apply walk_list_post with (owner := owner); [|exact Hpre|exact Hfuel].
        rewrite Forall_forall in *. intros a Ha S0 Hpre0 Hfuel0. apply IH; assumption.
    Qed.
  End Walk.

  Lemma rec_good : forall f, good f (check_loops_rec f g p).
  Proof.
    induction f as [|f IH]; intros level owner e S Hpre Hfuel; [lia|].
    cbn [check_loops_rec]. apply walk_post with (f := f); [exact IH|exact Hpre|lia].
  Qed.
End Post.

(* ------------------------------------------------------------------------------------------------ the theorems *)
Theorem check_loops_fuel_iff g p e fuel :
  length g < fuel -> (check_loops_fuel fuel g p e = true <-> closes_cycle g p e).
Proof.
  intros Hfuel. unfold check_loops_fuel.
  assert (Hpre : pre p 1 p [p]) by (repeat split; [left; reflexivity|left; reflexivity|lia|lia]).
  assert (Hun : unseen g [p] < fuel) by (pose proof (unseen_le_length g [p]); lia).
  pose proof (rec_good g p fuel 1 p e [p] Hpre Hun) as Hpost.
  destruct (check_loops_rec fuel g p 1 p e [p]) as [r S'] eqn:Hrec. unfold post in Hpost. cbn [fst snd] in *.
  destruct Hpost as (Hi & Hz & Hf). split.
  - intros Hlt. apply Nat.ltb_lt in Hlt. destruct (Hf ltac:(lia)) as (_ & q & Hq & _ & Hne & Hreach).
    exists q. auto.
  - intros (q & Hq & Hne & Hreach). apply Nat.ltb_lt.
    destruct (Nat.eq_dec r 0) as [Hr|Hr]; [|destruct (Hf Hr); lia].
    exfalso. destruct (Hz Hr) as [Hd Hc].
    assert (Hex : lookup g q <> None) by (eapply reaches_exists; eassumption).
    destruct (Hd q Hq Hex) as [HqS _].
    assert (Hall : forall x y, reaches g x y -> In x S' -> ~ In x [p] -> In y S' /\ ~ In y [p]).
    { intros x y H. induction H as [x|x z y He _ IH]; [tauto|]. intros Hx Hn.
      destruct (Hc x Hx Hn z He) as [Hz1 Hz2]. apply IH; [exact Hz1|]. intros [Heq|[]]. congruence. }
    destruct (Hall q p Hreach HqS) as [_ Hcontra].
    + intros [Heq|[]]. congruence.
    + apply Hcontra. left. reflexivity.
Qed.

(* the check, for every graph whatsoever *)
Theorem check_loops_iff_any g p e : check_loops g p e = true <-> closes_cycle g p e.
Proof. unfold check_loops. apply check_loops_fuel_iff. lia. Qed.

(* ... in particular on the graphs that occur (the form asked for in DESIGN.md) *)
Corollary check_loops_iff g p e : acyclic_distinct g -> (check_loops g p e = true <-> closes_cycle g p e).
Proof. intros _. apply check_loops_iff_any. Qed.

(* more fuel changes nothing: the model's fuel is not a bound on what Python's recursion explores *)
Theorem check_loops_fuel_enough g p e fuel : length g < fuel -> check_loops_fuel fuel g p e = check_loops g p e.
Proof.
  intros Hfuel. pose proof (check_loops_fuel_iff g p e fuel Hfuel) as H1. pose proof (check_loops_iff_any g p e) as H2.
  destruct (check_loops_fuel fuel g p e), (check_loops g p e); try reflexivity.
  - symmetry. apply H2. apply H1. reflexivity.
  - apply H1. apply H2. reflexivity.
Qed.
