(* C04 — acyclicity between distinct ports is invariant under every operation of the model; rejected assignments keep the
   previous expression; no false rejection. *)
From QT Require Import C04.Spec C04.CheckThm.
From Coq Require Import Lia.
Open Scope string_scope.
Open Scope list_scope.
Open Scope nat_scope.

(* ------------------------------------------------------------------------------------------------ lookup after an operation *)
Lemma lookup_update_same g p v : lookup g p <> None -> lookup (update g p v) p = Some v.
Proof.
  induction g as [|[k old] r IH]; cbn [lookup update]; [congruence|].
  destruct (String.eqb p k) eqn:E; cbn [lookup]; rewrite E; [reflexivity|exact IH].
Qed.

Lemma lookup_update_other g p q v : q <> p -> lookup (update g p v) q = lookup g q.
Proof.
  intros Hne. induction g as [|[k old] r IH]; cbn [lookup update]; [reflexivity|].
  destruct (String.eqb p k) eqn:E; cbn [lookup].
  - apply String.eqb_eq in E. subst k.
    destruct (String.eqb q p) eqn:E2; [apply String.eqb_eq in E2; congruence|reflexivity].
  - rewrite IH. reflexivity.
Qed.

Lemma lookup_update_none g p q v : lookup (update g p v) q = None <-> lookup g q = None.
Proof.
  destruct (string_dec q p) as [->|Hne]; [|rewrite lookup_update_other by exact Hne; tauto].
  destruct (lookup g p) as [x|] eqn:Hl.
  - rewrite lookup_update_same by congruence. split; discriminate.
  - split; [reflexivity|]. intros _. clear -Hl.
    induction g as [|[k old] r IH]; cbn [lookup update] in *; [reflexivity|].
    destruct (String.eqb p k) eqn:E; [discriminate|]. cbn [lookup]. rewrite E. apply IH. exact Hl.
Qed.

Lemma lookup_remove_same g p : lookup (remove_port g p) p = None.
Proof.
  induction g as [|[k v] r IH]; cbn [lookup remove_port]; [reflexivity|].
  destruct (String.eqb p k) eqn:E; [exact IH|]. cbn [lookup]. rewrite E. exact IH.
Qed.

Lemma lookup_remove_other g p q : q <> p -> lookup (remove_port g p) q = lookup g q.
Proof.
  intros Hne. induction g as [|[k v] r IH]; cbn [lookup remove_port]; [reflexivity|].
  destruct (String.eqb p k) eqn:E.
  - apply String.eqb_eq in E. subst k. rewrite IH.
    destruct (String.eqb q p) eqn:E2; [apply String.eqb_eq in E2; congruence|reflexivity].
  - cbn [lookup]. rewrite IH. reflexivity.
Qed.

Lemma lookup_app_fresh g p q : lookup g p = None ->
  lookup (g ++ [(p, None)]) q = if String.eqb q p then Some None else lookup g q.
Proof.
  intros Hp. induction g as [|[k v] r IH]; cbn [lookup app] in *.
  - reflexivity.
  - destruct (String.eqb p k) eqn:E; [discriminate|]. specialize (IH Hp).
    destruct (String.eqb q k) eqn:E2.
    + apply String.eqb_eq in E2. subst k. destruct (String.eqb q p) eqn:E3; [|reflexivity].
      apply String.eqb_eq in E3. subst q. rewrite String.eqb_refl in E. discriminate.
    + exact IH.
Qed.

(* ------------------------------------------------------------------------------------------------ fewer edges *)
Lemma reaches_mono g g' : (forall x r, edge g' x r -> edge g x r) -> forall x y, reaches g' x y -> reaches g x y.
Proof.
  intros Hm x y H. induction H as [x|x z y He _ IH]; [apply reaches_refl|].
  eapply reaches_step; [apply Hm; exact He|exact IH].
Qed.

Lemma acyclic_mono g g' : (forall x r, edge g' x r -> edge g x r) -> acyclic_distinct g -> acyclic_distinct g'.
Proof.
  intros Hm Hac q r Hne H1 H2. apply (Hac q r Hne); eapply reaches_mono; eassumption.
Qed.

Lemma acyclic_remove g p : acyclic_distinct g -> acyclic_distinct (remove_port g p).
Proof.
  apply acyclic_mono. intros x r (e & Hl & Hin & Hex).
  assert (Hx : x <> p) by (intros ->; rewrite lookup_remove_same in Hl; discriminate).
  assert (Hr : r <> p) by (intros ->; rewrite lookup_remove_same in Hex; congruence).
  rewrite lookup_remove_other in Hl by exact Hx. rewrite lookup_remove_other in Hex by exact Hr.
  exists e. auto.
Qed.

Lemma acyclic_clear g p : acyclic_distinct g -> acyclic_distinct (update g p None).
Proof.
  apply acyclic_mono. intros x r (e & Hl & Hin & Hex).
  assert (Hx : x <> p).
  { intros ->. destruct (lookup g p) eqn:Hp.
    - rewrite lookup_update_same in Hl by congruence. discriminate.
    - apply (lookup_update_none g p p None) in Hp. congruence. }
  rewrite lookup_update_other in Hl by exact Hx.
  exists e. split; [exact Hl|]. split; [exact Hin|]. intros Hn. apply Hex. apply lookup_update_none. exact Hn.
Qed.

(* ------------------------------------------------------------------------------------------------ a new port *)
Lemma no_out_edges g p y : (forall r, ~ edge g p r) -> reaches g p y -> p = y.
Proof. intros Hno H. destruct H as [|z y He _]; [reflexivity|]. exfalso. exact (Hno z He). Qed.

Lemma acyclic_add g p : lookup g p = None -> acyclic_distinct g -> acyclic_distinct (g ++ [(p, None)]).
Proof.
  intros Hp Hac. set (g' := g ++ [(p, None)]).
  assert (Hno' : forall r, ~ edge g' p r).
  { intros r (e & Hl & _). unfold g' in Hl. rewrite lookup_app_fresh in Hl by exact Hp. rewrite String.eqb_refl in Hl. discriminate. }
  assert (Hno : forall r, ~ edge g p r) by (intros r (e & Hl & _); congruence).
  assert (Hedge : forall x r, edge g' x r -> edge g x r \/ r = p).
  { intros x r (e & Hl & Hin & Hex). unfold g' in Hl, Hex. rewrite lookup_app_fresh in Hl, Hex by exact Hp.
    destruct (String.eqb x p) eqn:Ex; [discriminate|].
    destruct (String.eqb r p) eqn:Er; [right; apply String.eqb_eq; exact Er|]. left. exists e. auto. }
  assert (Hreach : forall x y, reaches g' x y -> y = p \/ reaches g x y).
  { intros x y H. induction H as [x|x z y He _ IH]; [right; apply reaches_refl|].
    destruct IH as [->|IH]; [left; reflexivity|].
    destruct (Hedge x z He) as [Hg| ->].
    - right. eapply reaches_step; eassumption.
    - left. symmetry. exact (no_out_edges g p y Hno IH). }
  intros q r Hne H1 H2.
  destruct (Hreach q r H1) as [->|G1].
  - apply Hne. symmetry. exact (no_out_edges g' p q Hno' H2).
  - destruct (Hreach r q H2) as [->|G2].
    + apply Hne. exact (no_out_edges g' p r Hno' H1).
    + exact (Hac q r Hne G1 G2).
Qed.

(* ------------------------------------------------------------------------------------------------ a new expression *)
Section SetExpr.
  Variables (g : graph) (p : string) (e : expr).
  Hypothesis Hp : lookup g p <> None.
  Let g' := update g p (Some e).

  Lemma edge_set x r :
    edge g' x r -> (x <> p /\ edge g x r) \/ (x = p /\ In r (port_deps e) /\ lookup g r <> None).
  Proof.
    intros (e0 & Hl & Hin & Hex). unfold g' in *.
    assert (Hex' : lookup g r <> None) by (intros Hn; apply Hex; apply lookup_update_none; exact Hn).
    destruct (string_dec x p) as [->|Hne].
    - right. rewrite lookup_update_same in Hl by exact Hp. injection Hl as <-. auto.
    - left. rewrite lookup_update_other in Hl by exact Hne. split; [exact Hne|]. exists e0. auto.
  Qed.

  (* a path in the new graph is a path of the old graph, or goes through p and one of the new edges *)
  Lemma reaches_set x y :
    reaches g' x y ->
    reaches g x y \/ (reaches g x p /\ exists d, In d (port_deps e) /\ lookup g d <> None /\ reaches g d y).
  Proof.
    intros H. induction H as [x|x z y He _ IH]; [left; apply reaches_refl|].
    destruct (edge_set x z He) as [[Hne Hg]|(-> & Hin & Hex)].
    - destruct IH as [IH|(IH & d & Hd)].
      + left. eapply reaches_step; eassumption.
      + right. split; [eapply reaches_step; eassumption|]. exists d. exact Hd.
    - right. split; [apply reaches_refl|]. destruct IH as [IH|(_ & d & Hd)].
      + exists z. auto.
      + exists d. exact Hd.
  Qed.

  Lemma acyclic_set : ~ closes_cycle g p e -> acyclic_distinct g -> acyclic_distinct g'.
  Proof.
    intros Hnc Hac.
    assert (Hd : forall d, In d (port_deps e) -> reaches g d p -> d = p).
    { intros d Hin Hr. destruct (string_dec d p) as [Heq|Hne]; [exact Heq|]. exfalso. apply Hnc. exists d. auto. }
    intros q r Hne H1 H2.
    destruct (reaches_set q r H1) as [L1|(Q1 & d1 & Hin1 & _ & D1)];
      destruct (reaches_set r q H2) as [L2|(Q2 & d2 & Hin2 & _ & D2)].
    - exact (Hac q r Hne L1 L2).
    - assert (d2 = p) by (apply Hd; [exact Hin2|]; eapply reaches_trans; [exact D2|]; eapply reaches_trans; eassumption).
      subst d2. apply (Hac q r Hne L1). eapply reaches_trans; eassumption.
    - assert (d1 = p) by (apply Hd; [exact Hin1|]; eapply reaches_trans; [exact D1|]; eapply reaches_trans; eassumption).
      subst d1. apply (Hac q r Hne); [eapply reaches_trans; eassumption|exact L2].
    - assert (d1 = p) by (apply Hd; [exact Hin1|]; eapply reaches_trans; eassumption).
      assert (d2 = p) by (apply Hd; [exact Hin2|]; eapply reaches_trans; eassumption).
      subst d1 d2. apply (Hac q r Hne); eapply reaches_trans; eassumption.
  Qed.
End SetExpr.

(* ------------------------------------------------------------------------------------------------ every operation *)
Theorem apply_acyclic g o : acyclic_distinct g -> acyclic_distinct (apply g o).
Proof.
  intros Hac. unfold apply. destruct o as [p t|p|p]; cbn [step].
  - unfold set_expression. destruct (lookup g p) as [old|] eqn:Hp; [|exact Hac].
    destruct t as [| |e]; cbn [fst].
    + apply acyclic_clear. exact Hac.
    + exact Hac.
    + destruct (check_loops g p e) eqn:Hc; cbn [fst]; [exact Hac|].
      apply acyclic_set; [congruence| |exact Hac].
      intros Hcc. apply check_loops_iff_any in Hcc. congruence.
  - destruct (lookup g p) as [old|] eqn:Hp; cbn [fst]; [exact Hac|].
    unfold add_port. rewrite Hp. apply acyclic_add; assumption.
  - destruct (lookup g p); cbn [fst]; [|exact Hac]. apply acyclic_remove. exact Hac.
Qed.

Theorem acyclic_invariant : forall ops g0, acyclic_distinct g0 -> acyclic_distinct (fold_left apply ops g0).
Proof.
  induction ops as [|o ops IH]; intros g0 Hac; cbn [fold_left]; [exact Hac|].
  apply IH. apply apply_acyclic. exact Hac.
Qed.

Lemma acyclic_empty : acyclic_distinct [].
Proof.
  intros q r Hne H1 _. destruct H1 as [|z y (e & Hl & _) _]; [congruence|]. cbn in Hl. discriminate.
Qed.

Corollary reachable_acyclic ops : acyclic_distinct (fold_left apply ops []).
Proof. apply acyclic_invariant. apply acyclic_empty. Qed.

(* ------------------------------------------------------------------------------------------------ rejection / acceptance *)
Theorem rejected_keeps_previous g p e :
  lookup g p <> None -> closes_cycle g p e -> step g (OSet p (TExpr e)) = (g, Circular).
Proof.
  intros Hp Hcc. cbn [step]. unfold set_expression. destruct (lookup g p); [|congruence].
  apply check_loops_iff_any in Hcc. rewrite Hcc. reflexivity.
Qed.

Theorem not_accepted_unchanged g o g' out : step g o = (g', out) -> out <> Accepted -> g' = g.
Proof.
  intros Hs Hout. destruct o as [p t|p|p]; cbn [step] in Hs.
  - unfold set_expression in Hs. destruct (lookup g p); [|congruence].
    destruct t as [| |e]; [congruence|congruence|]. destruct (check_loops g p e); congruence.
  - destruct (lookup g p); congruence.
  - destruct (lookup g p); congruence.
Qed.

Theorem no_false_rejection g p e :
  lookup g p <> None -> ~ closes_cycle g p e ->
  step g (OSet p (TExpr e)) = (update g p (Some e), Accepted) /\ lookup (update g p (Some e)) p = Some (Some e).
Proof.
  intros Hp Hnc. split; [|apply lookup_update_same; exact Hp].
  cbn [step]. unfold set_expression. destruct (lookup g p); [|congruence].
  destruct (check_loops g p e) eqn:Hc; [|reflexivity].
  exfalso. apply Hnc. apply check_loops_iff_any. exact Hc.
Qed.

(* an expression that reads no port other than the assigned one (however often, however deeply nested) is always accepted *)
Corollary self_reference_accepted g p e :
  lookup g p <> None -> (forall q, In q (port_deps e) -> q = p) ->
  step g (OSet p (TExpr e)) = (update g p (Some e), Accepted).
Proof.
  intros Hp Hself. apply no_false_rejection; [exact Hp|].
  intros (q & Hq & Hne & _). apply Hne. apply Hself. exact Hq.
Qed.

(* ------------------------------------------------------------------------------------------------ non-vacuity *)
Definition run (g : graph) (ops : list op) : graph * list outcome :=
  fold_left (fun '(g, outs) o => let '(g', out) := step g o in (g', outs ++ [out])) ops (g, []).

Definition four : graph := [("a", None); ("b", None); ("c", None); ("d", None)].

(* a -> b -> d, a -> c -> d (c also reads itself, a also reads a port that does not exist): accepted; d -> a: rejected *)
Definition diamond_ops : list op :=
  [ OSet "a" (TExpr (Call "ADD" [PortVal "b"; Call "MUL" [PortVal "c"; PortVal "nowhere"]]));
    OSet "b" (TExpr (PortVal "d"));
    OSet "c" (TExpr (Call "MIN" [PortVal "d"; SelfVal; PortVal "c"])) ].

Example diamond_accepted : snd (run four diamond_ops) = [Accepted; Accepted; Accepted].
Proof. vm_compute. reflexivity. Qed.

Example diamond_closing_edge_rejected :
  step (fst (run four diamond_ops)) (OSet "d" (TExpr (Call "IF" [Lit None; Lit None; PortVal "a"])))
  = (fst (run four diamond_ops), Circular).
Proof. vm_compute. reflexivity. Qed.

Example three_cycle_rejected :
  snd (run four [OSet "a" (TExpr (PortVal "b")); OSet "b" (TExpr (PortVal "c")); OSet "c" (TExpr (PortVal "a"))])
  = [Accepted; Accepted; Circular].
Proof. vm_compute. reflexivity. Qed.

(* the graph of the diamond really has the edges, and the three-cycle really would be one *)
Example diamond_edges : reaches (fst (run four diamond_ops)) "a" "d".
Proof.
  apply reaches_step with (r := "b"); [|apply reaches_step with (r := "d"); [|apply reaches_refl]].
  - exists (Call "ADD" [PortVal "b"; Call "MUL" [PortVal "c"; PortVal "nowhere"]]).
    split; [vm_compute; reflexivity|]. split; [left; reflexivity|vm_compute; congruence].
  - exists (PortVal "d").
    split; [vm_compute; reflexivity|]. split; [left; reflexivity|vm_compute; congruence].
Qed.
