(* C16 — SEQUENCE cycles through its values by elapsed time: the k-th value for the least k with
   d1+...+dk >= (now - t0) mod (d1+...+dn), t0 the time of the first evaluation. *)
From QT Require Import C16.Spec C16.Lemmas C16.SimpleThm C16.HoldThm.
From Coq Require Import Lia.
Open Scope Z_scope.
Unset Lia Cache.

Ltac inv H := inversion H; subst; clear H.

Lemma last_cons_ne : forall A (x : A) l d d', l <> [] -> last (x :: l) d = last l d'.
Proof.
  intros A x l. revert x. induction l as [|y r IH]; intros x d d' H; [congruence|].
  destruct r as [|z r']; [reflexivity|]. 
  change (last (x :: y :: z :: r') d) with (last (y :: z :: r') d).
  change (last (y :: z :: r') d') with (last (z :: r') d'). apply IH. discriminate.
Qed.

Lemma seq_total_sums : forall ps acc,
  seq_total acc ps = match partial_sums acc (map snd ps) with inr e => PErr e | inl sums => POk (last sums acc) end.
Proof.
  induction ps as [|[v d] r IH]; intro acc; [reflexivity|].
  cbn [seq_total map snd partial_sums]. destruct (py_add acc d) as [acc'|e]; [|reflexivity]. cbn [pbind].
  rewrite IH. destruct (partial_sums acc' (map snd r)) as [l|e]; [|reflexivity].
  f_equal. destruct l as [|y l']; [reflexivity|]. symmetry. apply last_cons_ne. discriminate.
Qed.

Lemma seq_scan_find : forall ps acc sums x,
  partial_sums acc (map snd ps) = inl sums ->
  seq_scan acc x ps = match find (fun sv : pyval * pyval => py_ge (fst sv) x) (combine sums (map fst ps)) with
                      | Some (_, v) => inl (POk v)
                      | None => inr tt
                      end.
Proof.
  induction ps as [|[v d] r IH]; intros acc sums x H.
  - cbn in H. inv H. reflexivity.
  - cbn [map snd partial_sums] in H. cbn [seq_scan]. destruct (py_add acc d) as [acc'|e]; [|discriminate].
    destruct (partial_sums acc' (map snd r)) as [l|e] eqn:E; [|discriminate]. inv H.
    cbn [map fst combine find]. destruct (py_ge acc' x); [reflexivity|]. apply IH. exact E.
Qed.

Lemma last_time_pos : forall h, h <> [] -> times_pos h = true -> 0 < fst (last h (0, [])).
Proof.
  induction h as [|s r IH]; intros Hne Hp; [congruence|].
  apply times_pos_cons in Hp. destruct Hp as [Hs Hr]. destruct r as [|s' r']; [exact Hs|].
  rewrite (last_cons_ne _ s (s' :: r') (0, []) (0, [])); [|discriminate]. apply IH; [discriminate | exact Hr].
Qed.

Definition seq_t0 (h : hist) : Z := fst (last h (0, [])).

Theorem SEQUENCE_inv : forall h, base_pre SEQUENCE h = true -> clean (outs (fstep SEQUENCE) h) = true ->
  s_time (state_after (fstep SEQUENCE) h) = seq_t0 h /\ (h <> [] -> last_out (fstep SEQUENCE) h = spec_SEQUENCE h).
Proof.
  apply (run_invariant (fstep SEQUENCE) _ seq_t0 (fun t st => s_time st = t) spec_SEQUENCE (base_pre SEQUENCE) (base_pre_tl SEQUENCE)).
  - reflexivity.
  - intros now a older st st' o p Hp Hr Hs _. pose proof (base_pre_tl _ _ _ Hp) as Hpo.
    apply base_pre_cons in Hp. destruct Hp as [_ Hnow].
    assert (Hst : fstep SEQUENCE st now a = sequence_step st now a) by (unfold fstep, fstep_gen; reflexivity).
    rewrite Hst in Hs. unfold sequence_step in Hs.
    set (stn := if s_time st =? 0 then set_time st now else st) in Hs.
    assert (Ht0 : s_time stn = seq_t0 ((now, a) :: older)).
    { destruct older as [|s' r'].
      - unfold stn. cbn in Hr. rewrite Hr. cbn. destruct st; reflexivity.
      - change (seq_t0 ((now, a) :: s' :: r')) with (seq_t0 (s' :: r')).
        unfold base_pre in Hpo. apply andb_prop in Hpo. destruct Hpo as [_ Hpo].
        assert (Hpos : 0 < seq_t0 (s' :: r')) by (apply last_time_pos; [discriminate | exact Hpo]).
        rewrite <- Hr in Hpos. unfold stn.
        assert (s_time st =? 0 = false) as -> by (apply Z.eqb_neq; lia). exact Hr. }
    unfold spec_SEQUENCE. fold (seq_t0 ((now, a) :: older)). rewrite <- Ht0.
    rewrite seq_total_sums in Hs.
    destruct (partial_sums (VInt 0) (map snd (seq_pairs a))) as [sums|e] eqn:Eps.
    + destruct (py_mod (VInt (now - s_time stn)) (last sums (VInt 0))) as [x|e]; [|inv Hs; auto].
      destruct (seq_pairs a) as [|[v0 d0] r] eqn:Epairs.
      * inv Hs. cbn in Eps. inv Eps. cbn. auto.
      * rewrite (seq_scan_find _ _ _ x Eps) in Hs.
        destruct (find _ _) as [[s1 v1]|]; inv Hs; auto.
    + inv Hs. auto.
Qed.

Theorem SEQUENCE_spec : forall h, shaped SEQUENCE h = true -> times_pos h = true ->
  clean (outs (fstep SEQUENCE) h) = true -> last_out (fstep SEQUENCE) h = spec_SEQUENCE h.
Proof.
  intros h H1 H2 Hc. destruct h as [|s r]; [reflexivity|].
  apply SEQUENCE_inv; [unfold base_pre; rewrite H1, H2; reflexivity | exact Hc | discriminate].
Qed.
