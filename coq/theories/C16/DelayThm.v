(* C16 — DELAY reproduces the input as it was `delay` ago: the value of the latest value change at least `delay` old,
   the first value while there is none (constant delay, non-decreasing times, backlog below the queue capacity). *)
From QT Require Import C16.Spec C16.Lemmas C16.SimpleThm C16.HoldThm C16.SeqThm.
From Coq Require Import Lia.
Open Scope Z_scope.
Unset Lia Cache.

Ltac inv H := inversion H; subst; clear H.

Definition tv := (Z * pyval)%type.

Fixpoint nonincr (l : list Z) : Prop :=
  match l with a :: (b :: _) as r => b <= a /\ nonincr r | _ => True end.

Lemma nonincr_head : forall a b l, nonincr (a :: l) -> a <= b -> nonincr (b :: l).
Proof. intros a b [|c r] H Hab; [exact I|]. cbn [nonincr] in *. destruct H. split; [lia | assumption]. Qed.

Lemma nonincr_tl : forall a l, nonincr (a :: l) -> nonincr l.
Proof. intros a [|c r] H; [exact I|]. cbn [nonincr] in H. tauto. Qed.

(* every element before x in a non-increasing list is at least x *)
Lemma nonincr_before : forall (A : list Z) x B, nonincr (A ++ x :: B) -> Forall (fun a => x <= a) A.
Proof.
  induction A as [|a A IH]; intros x B H; [constructor|].
  assert (Hall := IH x B (nonincr_tl _ _ H)). constructor; [|exact Hall].
  destruct A as [|a' A']; cbn [app nonincr] in H; [tauto|].
  destruct H as [H1 _]. inversion Hall; subst. lia.
Qed.

Definition oldb (n : Z) (d : pyval) (x : tv) : bool := old_enough n d x.

Lemma oldb_mono : forall n n' d x, n <= n' -> oldb n d x = true -> oldb n' d x = true.
Proof. intros n n' d x H. unfold oldb, old_enough. apply py_ge_mono. lia. Qed.

Lemma oldb_time_mono : forall n d (x y : tv), fst x <= fst y -> oldb n d y = true -> oldb n d x = true.
Proof. intros n d x y H. unfold oldb, old_enough. apply py_ge_mono. lia. Qed.

(* the pop loop: removes a prefix of old entries, stops at a young one, remembers the last removed value *)
Lemma delay_pop_full : forall now d q cur q2 cur2,
  delay_pop now d q cur = (q2, cur2) ->
  exists popped, q = popped ++ q2 /\ Forall (fun x => oldb now d x = true) popped
    /\ (match q2 with x :: _ => oldb now d x = false | [] => True end)
    /\ cur2 = match rev popped with (_, x) :: _ => Some x | [] => cur end.
Proof.
  intros now d q. induction q as [|[t x] r IH]; intros cur q2 cur2 H; cbn [delay_pop] in H.
  - inv H. exists []. repeat split; auto.
  - destruct (py_ge (VInt (now - t)) d) eqn:E.
    + destruct (IH _ _ _ H) as [pp [Hq [Ho [Hh Hc]]]]. exists ((t, x) :: pp).
      split; [rewrite Hq; reflexivity|]. split; [constructor; [exact E | exact Ho]|]. split; [exact Hh|].
      cbn [rev]. destruct (rev pp) as [|[t' x'] r']; cbn [app]; exact Hc.
    + inv H. exists []. repeat split; auto.
Qed.

Lemma find_skip : forall (f : tv -> bool) A B, Forall (fun x => f x = false) A -> find f (A ++ B) = find f B.
Proof. intros f A B H. induction H as [|a A Ha _ IH]; [reflexivity|]. cbn [app find]. rewrite Ha. exact IH. Qed.

Lemma filter_split : forall (f : tv -> bool) A B,
  Forall (fun x => f x = true) A -> Forall (fun x => f x = false) B -> filter f (A ++ B) = A.
Proof.
  intros f A B HA HB. rewrite filter_app.
  assert (filter f A = A) as -> by (induction HA as [|a A Ha _ IH]; [reflexivity|]; cbn; rewrite Ha, IH; reflexivity).
  assert (filter f B = []) as -> by (induction HB as [|b B Hb _ IH]; [reflexivity|]; cbn; rewrite Hb; exact IH).
  apply app_nil_r.
Qed.

Lemma rev_head_last : forall (l : list tv) d, l <> [] -> exists r, rev l = last l d :: r.
Proof.
  intros l d H. destruct (exists_last H) as [l' [x E]]. subst l. rewrite rev_app_distr. cbn [rev app].
  exists (rev l'). rewrite last_last. reflexivity.
Qed.

(* what the specification remembers of a history: its value changes, the newest time, the (constant) delay *)
Definition dsumm (h : hist) : option (list tv * Z * pyval) :=
  match h with
  | [] => None
  | (now, a) :: _ => Some (transitions h, now, nth 1 a (VInt 0))
  end.

Definition dflt : tv := (0, VInt 0).

Definition drel (s : option (list tv * Z * pyval)) (st : fstate) : Prop :=
  match s with
  | None => s_cur st = None /\ s_last st = None /\ s_queue st = []
  | Some (tr, nl, d) =>
      (exists olds, tr = rev (s_queue st) ++ olds
         /\ Forall (fun x => oldb nl d x = false) (s_queue st) /\ Forall (fun x => oldb nl d x = true) olds
         /\ s_cur st = Some (match olds with (_, x) :: _ => x | [] => snd (last tr dflt) end))
      /\ (exists t pv r, tr = (t, pv) :: r /\ s_last st = Some pv)
      /\ nonincr (nl :: map fst tr)
  end.

Definition delay_pre (h : hist) : bool := base_pre DELAY h && spec_pre DELAY h.

Lemma delay_pre_tl : forall s h, delay_pre (s :: h) = true -> delay_pre h = true.
Proof.
  intros s h H. unfold delay_pre, spec_pre in *. apply andb_prop in H. destruct H as [H1 H2].
  rewrite (base_pre_tl _ _ _ H1). apply andb_prop in H2. destruct H2 as [H2 H3]. apply andb_prop in H2. destruct H2 as [H2 H4].
  apply sortedb_cons in H2. destruct H2 as [-> _].
  assert (const_arg 1 h = true) as ->.
  { destruct h as [|s' r]; [reflexivity|]. cbn [const_arg] in H4. apply andb_prop in H4. tauto. }
  assert (delay_fits h = true) as ->.
  { destruct s as [now a]. cbn [delay_fits] in H3. destruct a as [|v [|d [|x l]]]; try exact H3.
    apply andb_prop in H3. tauto. }
  reflexivity.
Qed.

(* the specified output, read off the relation *)
Lemma drel_spec : forall tr now d q olds cur,
  tr <> [] -> tr = rev q ++ olds -> Forall (fun x => oldb now d x = false) q -> Forall (fun x => oldb now d x = true) olds ->
  cur = match olds with (_, x) :: _ => x | [] => snd (last tr dflt) end ->
  match find (old_enough now d) tr with
  | Some (_, x) => OVal x
  | None => match rev tr with (_, x) :: _ => OVal x | [] => ONone end
  end = OVal cur.
Proof.
  intros tr now d q olds cur Hne Htr Hq Ho Hc. rewrite Htr at 1.
  rewrite find_skip by (apply Forall_rev; exact Hq).
  destruct olds as [|[t x] r].
  - cbn [find]. destruct (rev_head_last tr dflt Hne) as [r' ->]. subst cur. destruct (last tr dflt). reflexivity.
  - cbn [find]. inversion Ho; subst. unfold oldb in H1. rewrite H1. reflexivity.
Qed.

Theorem DELAY_inv : forall h, delay_pre h = true -> clean (outs (fstep DELAY) h) = true ->
  drel (dsumm h) (state_after (fstep DELAY) h) /\ (h <> [] -> last_out (fstep DELAY) h = spec_DELAY h).
Proof.
  apply (run_invariant (fstep DELAY) _ dsumm drel spec_DELAY delay_pre delay_pre_tl).
  - cbn. auto.
  - intros now a older st st' o p Hp Hr Hs Hx.
    pose proof (delay_pre_tl _ _ Hp) as Hpo.
    unfold delay_pre, spec_pre in Hp. apply andb_prop in Hp. destruct Hp as [Hb Hp].
    apply andb_prop in Hp. destruct Hp as [Hp Hfit]. apply andb_prop in Hp. destruct Hp as [Hsort Hconst].
    apply base_pre_cons in Hb. destruct Hb as [Ha Hnow].
    cbn [arity_ok] in Ha. destruct (len2 _ Ha) as [v [d ->]].
    change (fstep DELAY st now [v; d]) with (delay_step st now v d) in Hs. unfold delay_step in Hs.
    apply sortedb_cons in Hsort. destruct Hsort as [_ Hle].
    (* the state before this evaluation: queue q, split tr_o = rev q ++ olds *)
    assert (Hcase :
      exists tr' q1 olds last1 cur,
        transitions ((now, [v; d]) :: older) = tr' /\ tr' <> [] /\ tr' = rev q1 ++ olds
        /\ (if opt_ne v (s_last st) then (trim_hist (s_queue st) ++ [(now, v)], Some v) else (s_queue st, s_last st)) = (q1, last1)
        /\ (exists t pv r, tr' = (t, pv) :: r /\ last1 = Some pv)
        /\ nonincr (now :: map fst tr')
        /\ Forall (fun x => oldb now d x = true) olds
        /\ match s_cur st with None => Some v | c => c end = Some cur
        /\ (olds = [] -> cur = snd (last tr' dflt)) /\ (forall t x r, olds = (t, x) :: r -> cur = x)).
    { destruct older as [|[t' a'] o2].
      - (* first sample *)
        cbn [dsumm drel] in Hr. destruct Hr as [Hc [Hl Hq]]. rewrite Hl, Hq, Hc. cbn [opt_ne transitions].
        exists [(now, v)], [(now, v)], [], (Some v), v.
        split; [reflexivity|]. split; [discriminate|]. split; [reflexivity|]. split; [reflexivity|].
        split; [exists now, v, []; auto|]. split; [cbn; lia|]. split; [constructor|]. split; [reflexivity|].
        split; [intros _; reflexivity | intros t x r E; discriminate].
      - cbn [dsumm drel] in Hr. destruct Hr as [[olds [Htr [Hq [Ho Hc]]]] [[t0 [pv [r0 [Etr Hl]]]] Hni]].
        (* the delay is the same as before *)
        assert (Ed : nth 1 a' (VInt 0) = d).
        { cbn [const_arg arg_of snd nth_error] in Hconst. apply andb_prop in Hconst. destruct Hconst as [Hc1 _].
          unfold base_pre in Hpo. unfold delay_pre in Hpo. apply andb_prop in Hpo. destruct Hpo as [Hpo _].
          apply base_pre_cons in Hpo. destruct Hpo as [Ha' _]. cbn [arity_ok] in Ha'. destruct (len2 _ Ha') as [v' [d' ->]].
          cbn [nth_error option_eqb] in Hc1. cbn [nth]. symmetry. apply pyval_eqb_eq. exact Hc1. }
        rewrite Ed in *. cbn [fst] in Hle.
        (* no overflow of the queue *)
        assert (Htrim : trim_hist (s_queue st) = s_queue st).
        { unfold delay_pre, spec_pre in Hpo. apply andb_prop in Hpo. destruct Hpo as [Hpo1 Hpo2].
          apply andb_prop in Hpo2. destruct Hpo2 as [_ Hf]. apply base_pre_cons in Hpo1. destruct Hpo1 as [Ha' _].
          cbn [arity_ok] in Ha'. destruct (len2 _ Ha') as [v' [d' ->]]. cbn [nth] in Ed. subst d'.
          cbn [delay_fits] in Hf. apply andb_prop in Hf. destruct Hf as [Hf _]. apply Z.ltb_lt in Hf.
          rewrite Htr in Hf.
          rewrite filter_split in Hf.
          - rewrite rev_length in Hf. unfold trim_hist.
            replace (length (s_queue st) - Z.to_nat (delay_history_size - 1))%nat with 0%nat by lia. reflexivity.
          - apply Forall_rev. eapply Forall_impl; [|exact Hq]. intros x Hx'. unfold oldb in Hx'. rewrite Hx'. reflexivity.
          - eapply Forall_impl; [|exact Ho]. intros x Hx'. unfold oldb in Hx'. rewrite Hx'. reflexivity. }
        rewrite Hl, Hc, Htrim. cbn [opt_ne].
        assert (Etr' : transitions ((now, [v; d]) :: (t', a') :: o2) =
                       if py_ne v pv then (now, v) :: transitions ((t', a') :: o2) else transitions ((t', a') :: o2)).
        { change (transitions ((now, [v; d]) :: (t', a') :: o2)) with
            (let tr := transitions ((t', a') :: o2) in
             match tr with [] => [(now, v)] | (_, pv0) :: _ => if py_ne v pv0 then (now, v) :: tr else tr end).
          cbv zeta. rewrite Etr. reflexivity. }
        rewrite Etr'. clear Etr'.
        assert (Ho' : Forall (fun x => oldb now d x = true) olds).
        { eapply Forall_impl; [|exact Ho]. intros x Hx'. eapply oldb_mono; eauto. }
        set (tro := transitions ((t', a') :: o2)) in *.
        assert (Hne : tro <> []) by (rewrite Etr; discriminate).
        destruct (py_ne v pv).
        + exists ((now, v) :: tro), (s_queue st ++ [(now, v)]), olds, (Some v),
                 (match olds with (_, x) :: _ => x | [] => snd (last tro dflt) end).
          assert (G3 : (now, v) :: tro = rev (s_queue st ++ [(now, v)]) ++ olds)
            by (rewrite rev_app_distr; cbn [rev app]; rewrite Htr; reflexivity).
          assert (G6 : nonincr (now :: map fst ((now, v) :: tro)))
            by (cbn [map fst]; split; [lia | eapply nonincr_head; eauto]).
          assert (G9 : olds = [] -> match olds with (_, x) :: _ => x | [] => snd (last tro dflt) end = snd (last ((now, v) :: tro) dflt))
            by (intros ->; symmetry; f_equal; apply last_cons_ne; exact Hne).
          assert (G10 : forall t x r, olds = (t, x) :: r -> match olds with (_, x0) :: _ => x0 | [] => snd (last tro dflt) end = x)
            by (intros t x r ->; reflexivity).
          split; [reflexivity|]. split; [discriminate|]. split; [exact G3|]. split; [reflexivity|].
          split; [exists now, v, tro; auto|]. split; [exact G6|]. split; [exact Ho'|]. split; [reflexivity|].
          split; [exact G9 | exact G10].
        + exists tro, (s_queue st), olds, (Some pv), (match olds with (_, x) :: _ => x | [] => snd (last tro dflt) end).
          assert (G6 : nonincr (now :: map fst tro)) by (eapply nonincr_head; eauto).
          assert (G9 : olds = [] -> match olds with (_, x) :: _ => x | [] => snd (last tro dflt) end = snd (last tro dflt))
            by (intros ->; reflexivity).
          assert (G10 : forall t x r, olds = (t, x) :: r -> match olds with (_, x0) :: _ => x0 | [] => snd (last tro dflt) end = x)
            by (intros t x r ->; reflexivity).
          split; [reflexivity|]. split; [exact Hne|]. split; [exact Htr|]. split; [reflexivity|].
          split; [exists t0, pv, r0; auto|]. split; [exact G6|]. split; [exact Ho'|]. split; [reflexivity|].
          split; [exact G9 | exact G10]. }
    destruct Hcase as [tr' [q1 [olds [last1 [cur [Etr [Hne [Hsplit [Eq1 [Hlast [Hni [Ho [Ecur [Hc0 Hc1]]]]]]]]]]]]]].
    rewrite Eq1, Ecur in Hs.
    destruct (delay_pop now d q1 (Some cur)) as [q2 cur2] eqn:Epop.
    destruct (delay_pop_full _ _ _ _ _ _ Epop) as [pp [Hq1 [Hpp [Hhead Hcur2]]]].
    (* everything left in the queue is young *)
    assert (Hyoung : Forall (fun x => oldb now d x = false) q2).
    { destruct q2 as [|x q2']; [constructor|]. constructor; [exact Hhead|].
      rewrite Hq1 in Hsplit. rewrite rev_app_distr in Hsplit. cbn [rev] in Hsplit.
      rewrite Hsplit in Hni. rewrite <- !app_assoc in Hni. cbn [app] in Hni.
      apply nonincr_tl in Hni. rewrite map_app in Hni. cbn [map] in Hni.
      apply nonincr_before in Hni. rewrite Forall_map in Hni. apply Forall_rev in Hni. rewrite rev_involutive in Hni.
      eapply Forall_impl; [|exact Hni]. intros y Hy. cbn beta in Hy.
      destruct (oldb now d y) eqn:Ey; [|reflexivity]. rewrite (oldb_time_mono now d x y Hy Ey) in Hhead. discriminate. }
    set (olds' := rev pp ++ olds).
    assert (Holds' : Forall (fun x => oldb now d x = true) olds') by (apply Forall_app; split; [apply Forall_rev; exact Hpp | exact Ho]).
    assert (Hsplit' : tr' = rev q2 ++ olds').
    { unfold olds'. rewrite Hsplit, Hq1, rev_app_distr, app_assoc. reflexivity. }
    assert (Hcur' : exists c2, cur2 = Some c2 /\ c2 = match olds' with (_, x) :: _ => x | [] => snd (last tr' dflt) end).
    { unfold olds'. destruct (rev pp) as [|[t x] r] eqn:Erp.
      - exists cur. split; [exact Hcur2|]. cbn [app]. destruct olds as [|[t x] r]; [apply Hc0; reflexivity | eapply Hc1; reflexivity].
      - exists x. split; [exact Hcur2 | reflexivity]. }
    destruct Hcur' as [c2 [-> Hc2]].
    assert (Hout : spec_DELAY ((now, [v; d]) :: older) = OVal c2).
    { unfold spec_DELAY. rewrite Etr. eapply drel_spec; eauto. }
    assert (Hrel : forall stx, s_queue stx = q2 -> s_cur stx = Some c2 -> s_last stx = last1 ->
                   drel (dsumm ((now, [v; d]) :: older)) stx).
    { intros stx E1 E2 E3. cbn [dsumm nth]. rewrite Etr. cbn [drel]. rewrite E1, E2, E3. repeat split.
      - exists olds'. repeat split; auto. rewrite Hc2. reflexivity.
      - exact Hlast.
      - exact Hni. }
    destruct q2 as [|[t x] r]; unfold pause_then in Hs; destruct (py_add _ _); inv Hs; try discriminate;
      (split; [apply Hrel; destruct st; reflexivity | symmetry; exact Hout]).
Qed.

Theorem DELAY_spec : forall h, shaped DELAY h = true -> times_pos h = true -> spec_pre DELAY h = true ->
  clean (outs (fstep DELAY) h) = true -> last_out (fstep DELAY) h = spec_DELAY h.
Proof.
  intros h H1 H2 H3 Hc. destruct h as [|s r]; [reflexivity|].
  apply DELAY_inv; [unfold delay_pre, base_pre; rewrite H1, H2, H3; reflexivity | exact Hc | discriminate].
Qed.
