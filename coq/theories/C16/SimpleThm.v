(* C16 — RISING FALLING ACC ACCINC HYST equal their specification on every history. *)
From QT Require Import C16.Spec C16.Lemmas.
From Coq Require Import Lia.
Open Scope Z_scope.
Unset Lia Cache.

Lemma len1 : forall (a : list pyval), Nat.eqb (length a) 1 = true -> exists v, a = [v].
Proof. intros [|v [|x l]] H; try discriminate. eauto. Qed.
Lemma len2 : forall (a : list pyval), Nat.eqb (length a) 2 = true -> exists v w, a = [v; w].
Proof. intros [|v [|w [|x l]]] H; try discriminate. eauto. Qed.
Lemma len3 : forall (a : list pyval), Nat.eqb (length a) 3 = true -> exists v w x, a = [v; w; x].
Proof. intros [|v [|w [|x [|y l]]]] H; try discriminate. eauto. Qed.

Ltac inv H := inversion H; subst; clear H.

(* ------------------------------------------------------------------ RISING / FALLING *)
Section Edge.
  Variable f : fn.
  Variable cmp : pyval -> pyval -> bool.
  Hypothesis Hstep : forall st now v, fstep f st now [v] = edge_step cmp st v.
  Hypothesis Har : forall a, arity_ok f a = Nat.eqb (length a) 1.

  Lemma edge_state : forall h, shaped f h = true ->
    s_last (state_after (fstep f) h) = match h with [] => None | (_, a) :: _ => nth_error a 0 end.
  Proof.
    intros [|[now a] older] Hs; [reflexivity|].
    apply shaped_cons in Hs. destruct Hs as [Ha _]. cbn [snd] in Ha. rewrite Har in Ha.
    destruct (len1 _ Ha) as [v ->]. cbn [state_after]. rewrite Hstep. reflexivity.
  Qed.

  Lemma edge_spec : forall h, shaped f h = true -> last_out (fstep f) h = spec_edge cmp h.
  Proof.
    intros [|[now a] older] Hs; [reflexivity|].
    pose proof Hs as Hs'. apply shaped_cons in Hs. destruct Hs as [Ha Ho]. cbn [snd] in Ha. rewrite Har in Ha.
    destruct (len1 _ Ha) as [v ->]. rewrite last_out_cons, Hstep. unfold edge_step. cbn [fst snd].
    rewrite (edge_state older Ho). destruct older as [|[t' a'] o2]; [reflexivity|].
    apply shaped_cons in Ho. destruct Ho as [Ha' _]. cbn [snd] in Ha'. rewrite Har in Ha'.
    destruct (len1 _ Ha') as [pv ->]. reflexivity.
  Qed.
End Edge.

Theorem RISING_spec : forall h, shaped RISING h = true -> last_out (fstep RISING) h = spec_RISING h.
Proof. apply (edge_spec RISING py_gt); reflexivity. Qed.

Theorem FALLING_spec : forall h, shaped FALLING h = true -> last_out (fstep FALLING) h = spec_FALLING h.
Proof. apply (edge_spec FALLING py_lt); reflexivity. Qed.

(* ------------------------------------------------------------------ ACC / ACCINC *)
Section Acc.
  Variable f : fn.
  Variable inc : bool.
  Hypothesis Hstep : forall st now v acc, fstep f st now [v; acc] = acc_step inc st v acc.
  Hypothesis Har : forall a, arity_ok f a = Nat.eqb (length a) 2.

  Lemma acc_state : forall h, shaped f h = true -> clean (outs (fstep f) h) = true ->
    s_last (state_after (fstep f) h) = match h with [] => None | (_, a) :: _ => nth_error a 0 end.
  Proof.
    intros [|[now a] older] Hs Hc; [reflexivity|].
    apply shaped_cons in Hs. destruct Hs as [Ha _]. cbn [snd] in Ha. rewrite Har in Ha.
    destruct (len2 _ Ha) as [v [acc ->]]. apply clean_cons in Hc. destruct Hc as [Hc _].
    cbn [state_after]. rewrite Hstep in *. unfold acc_step in *.
    destruct (s_last (state_after (fstep f) older)) as [lv|]; [|reflexivity].
    destruct (negb inc || py_gt v lv); [|reflexivity].
    destruct (acc_formula v acc lv); [reflexivity | discriminate].
  Qed.
End Acc.

Theorem ACC_spec : forall h, shaped ACC h = true -> clean (outs (fstep ACC) h) = true ->
  last_out (fstep ACC) h = spec_ACC h.
Proof.
  intros [|[now a] older] Hs Hc; [reflexivity|].
  apply shaped_cons in Hs. destruct Hs as [Ha Ho]. cbn [snd arity_ok] in Ha.
  destruct (len2 _ Ha) as [v [acc ->]]. apply clean_cons in Hc. destruct Hc as [_ Hc].
  rewrite last_out_cons. change (fstep ACC (state_after (fstep ACC) older) now [v; acc]) with
    (acc_step false (state_after (fstep ACC) older) v acc).
  unfold acc_step. rewrite (acc_state ACC false (fun _ _ _ _ => eq_refl) (fun _ => eq_refl) older Ho Hc).
  destruct older as [|[t' a'] o2]; [reflexivity|].
  apply shaped_cons in Ho. destruct Ho as [Ha' _]. cbn [snd arity_ok] in Ha'. destruct (len2 _ Ha') as [pv [pa ->]].
  cbn [nth_error negb orb spec_ACC]. unfold acc_formula. destruct (pbind _ _); reflexivity.
Qed.

Theorem ACCINC_spec : forall h, shaped ACCINC h = true -> clean (outs (fstep ACCINC) h) = true ->
  last_out (fstep ACCINC) h = spec_ACCINC h.
Proof.
  intros [|[now a] older] Hs Hc; [reflexivity|].
  apply shaped_cons in Hs. destruct Hs as [Ha Ho]. cbn [snd arity_ok] in Ha.
  destruct (len2 _ Ha) as [v [acc ->]]. apply clean_cons in Hc. destruct Hc as [_ Hc].
  rewrite last_out_cons. change (fstep ACCINC (state_after (fstep ACCINC) older) now [v; acc]) with
    (acc_step true (state_after (fstep ACCINC) older) v acc).
  unfold acc_step. rewrite (acc_state ACCINC true (fun _ _ _ _ => eq_refl) (fun _ => eq_refl) older Ho Hc).
  destruct older as [|[t' a'] o2]; [reflexivity|].
  apply shaped_cons in Ho. destruct Ho as [Ha' _]. cbn [snd arity_ok] in Ha'. destruct (len2 _ Ha') as [pv [pa ->]].
  cbn [nth_error negb orb spec_ACCINC]. unfold acc_formula. destruct (py_gt v pv); [|reflexivity].
  destruct (pbind _ _); reflexivity.
Qed.

(* ------------------------------------------------------------------ HYST *)
Lemma hyst_state : forall h, shaped HYST h = true ->
  s_res (state_after (fstep HYST) h) = if hyst_on h then 1 else 0.
Proof.
  induction h as [|[now a] older IH]; intro Hs; [reflexivity|].
  apply shaped_cons in Hs. destruct Hs as [Ha Ho]. cbn [snd arity_ok] in Ha.
  destruct (len3 _ Ha) as [v [lo [hi ->]]]. cbn [state_after hyst_on].
  change (fstep HYST (state_after (fstep HYST) older) now [v; lo; hi]) with
    (hyst_step (state_after (fstep HYST) older) v lo hi).
  unfold hyst_step. cbn [fst]. destruct (state_after (fstep HYST) older) as [f1 f2 f3 f4 f5 f6 f7 f8] eqn:Est. cbn [set_res s_res] in *.
  rewrite (IH Ho). unfold hyst_rule. destruct (hyst_on older); cbn [Z.eqb negb andb orb].
  - destruct (py_ge v lo); reflexivity.
  - rewrite orb_false_r. destruct (py_gt v hi); reflexivity.
Qed.

Theorem HYST_spec : forall h, shaped HYST h = true -> last_out (fstep HYST) h = spec_HYST h.
Proof.
  intros [|[now a] older] Hs; [reflexivity|].
  pose proof (hyst_state _ Hs) as E. cbn [state_after] in E.
  apply shaped_cons in Hs. destruct Hs as [Ha Ho]. cbn [snd arity_ok] in Ha.
  destruct (len3 _ Ha) as [v [lo [hi ->]]]. rewrite last_out_cons.
  change (fstep HYST (state_after (fstep HYST) older) now [v; lo; hi]) with
    (hyst_step (state_after (fstep HYST) older) v lo hi) in *.
  unfold hyst_step in *. cbn [fst snd] in *. destruct (state_after (fstep HYST) older) as [f1 f2 f3 f4 f5 f6 f7 f8]. cbn [set_res s_res] in *.
  unfold spec_HYST. cbv zeta. cbn [snd fst]. rewrite E. reflexivity.
Qed.
