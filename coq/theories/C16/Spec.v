(* C16 — specification of the history-dependent functions, as functions of the sample history
   h : list (now_ms * evaluated arguments), NEWEST SAMPLE FIRST, written without the code's fields, queues and state
   numbers.  Executable, so the harness evaluates it (vm_compute) against the implementation's answers.

   Reading choices (where the text of the property leaves a boundary open the code's behaviour is followed and listed here):
   * Values are compared with Python's == / < (1 == 1.0 == True); NaN is different from everything, itself included.
   * DELAY(v, d): the value of the latest *value change* (a sample whose value differs from the value of the change before
     it; the first sample is a change) that is at least d old; while no change is that old: the value of the first sample.
     Stated for a constant d, non-decreasing times and fewer than HISTORY_SIZE-1 changes younger than d at any time
     (the code forgets older ones).
   * SAMPLE(v, d): the value of the sample being held; a sample starts a new hold iff the held one is at least its own
     duration old (now - t >= d_held).  The first sample is held.
   * FREEZE(v, d): the value of the change that started the current freeze; a sample starts a new freeze iff the running
     one is over (now - t > d_frozen, strictly) and its value differs from the frozen one.  Non-decreasing times.
   * HELD(v, x, d): look at the current run of consecutive samples with v == x.  False if it is empty.  Otherwise true iff at
     some sample of the run *after its first* the run was at least d old (t - t_first >= d, d being that sample's argument).
     Consequences: with d = 0 the first matching sample still answers false (the code needs a second evaluation); once
     true it stays true until a sample differs, even if d grows.
   * RISING/FALLING: v > / < previous v; false on the first sample.  ACC: acc + (v - previous v), acc on the first sample.
     ACCINC: the same when v > previous v, otherwise acc.  HYST(v, lo, hi): on iff (it was off and v > hi) or (it was on and
     v >= lo); off before the first sample.
   * DERIV/INTEG(…, interval): a sample is *accepted* when it is the first, or at least `interval` after the last accepted
     one.  An accepted sample more than TIME_JUMP_THRESHOLD after the previous one yields no value (EvalSkipped) but
     restarts the chain.  DERIV = (v - v_prev) / (t - t_prev) * 1000, 0 on the first sample; INTEG = acc + (v + v_prev) *
     (t - t_prev) / 2000, acc on the first sample.  Not accepted: EvalSkipped.
   * FMAVG/FMEDIAN(v, width, interval): same acceptance (a jump restarts the clock without taking the sample); the answer is
     the mean / the upper median (element len // 2 of the sorted window) of the last min(width, QUEUE_SIZE) accepted
     values, summed oldest first.  Stated for a constant integer width >= 1.
   * SEQUENCE(v1, d1, ..., vn, dn [, ignored]): x = (now - t0) mod (d1+...+dn), t0 the time of the first evaluation; the
     value v_k for the least k with d1+...+dk >= x; v1 if there is none.  A trailing value without delay is ignored by the
     code (len(args) // 2 pairs), so it is ignored here.
   * Python-level exceptions (OverflowError of int->float conversion, ZeroDivisionError of SEQUENCE with total 0, ...)
     are outside the specification: theorems are stated for histories along which none was raised. *)
From QT Require Export C16.Model.
Open Scope Z_scope.

(* ------------------------------------------------------------------ preconditions (executable) *)

Definition pyval_eqb (a b : pyval) : bool :=
  match a, b with
  | VBool x, VBool y => Bool.eqb x y
  | VInt x, VInt y => x =? y
  | VFloat x, VFloat y => sf_eqb x y
  | _, _ => false
  end.

Definition arity_ok (f : fn) (a : list pyval) : bool :=
  match f with
  | RISING | FALLING => Nat.eqb (length a) 1
  | DELAY | SAMPLE | FREEZE | DERIV | ACC | ACCINC => Nat.eqb (length a) 2
  | HELD | INTEG | FMAVG | FMEDIAN | HYST => Nat.eqb (length a) 3
  | SEQUENCE => Nat.leb 2 (length a)
  end.

Definition shaped (f : fn) (h : hist) : bool := forallb (fun s : sample => arity_ok f (snd s)) h.
Definition times_pos (h : hist) : bool := forallb (fun s : sample => 0 <? fst s) h.

(* chronological: newest first, so times do not increase along the list *)
Fixpoint sortedb (h : hist) : bool :=
  match h with
  | s :: (s' :: _) as r => (fst s' <=? fst s) && sortedb r
  | _ => true
  end.

(* argument i is the same (same Python object value and type) in every sample *)
Definition arg_of (i : nat) (s : sample) : option pyval := nth_error (snd s) i.
Fixpoint const_arg (i : nat) (h : hist) : bool :=
  match h with
  | s :: (s' :: _) as r => option_eqb pyval_eqb (arg_of i s) (arg_of i s') && const_arg i r
  | _ => true
  end.

Definition is_exc (o : outc) : bool := match o with OExc _ => true | _ => false end.
Definition clean (os : list (outc * pause)) : bool := forallb (fun op => negb (is_exc (fst op))) os.

Definition of_pyres (r : pyres) : outc := match r with POk v => OVal v | PErr e => OExc (exc_code e) end.

(* ------------------------------------------------------------------ previous-sample functions *)

Definition spec_edge (cmp : pyval -> pyval -> bool) (h : hist) : outc :=
  match h with
  | (_, [v]) :: (_, [pv]) :: _ => OVal (VBool (cmp v pv))
  | (_, [v]) :: [] => OVal vfalse
  | _ => ONone
  end.
Definition spec_RISING := spec_edge py_gt.
Definition spec_FALLING := spec_edge py_lt.

Definition spec_ACC (h : hist) : outc :=
  match h with
  | (_, [v; acc]) :: (_, [pv; _]) :: _ => of_pyres (pbind (py_sub v pv) (fun d => py_add acc d))
  | (_, [v; acc]) :: [] => OVal acc
  | _ => ONone
  end.

Definition spec_ACCINC (h : hist) : outc :=
  match h with
  | (_, [v; acc]) :: (_, [pv; _]) :: _ =>
      if py_gt v pv then of_pyres (pbind (py_sub v pv) (fun d => py_add acc d)) else OVal acc
  | (_, [v; acc]) :: [] => OVal acc
  | _ => ONone
  end.

(* Schmitt trigger: scanning back in time *)
Fixpoint hyst_on (h : hist) : bool :=
  match h with
  | [] => false
  | (_, [v; lo; hi]) :: older => if hyst_on older then py_ge v lo else py_gt v hi
  | _ :: older => hyst_on older
  end.
Definition spec_HYST (h : hist) : outc :=
  match h with [] => ONone | _ => OVal (VInt (if hyst_on h then 1 else 0)) end.

(* ------------------------------------------------------------------ SAMPLE / FREEZE: hold laws *)

(* (time, value, duration) of the sample being held *)
Fixpoint sample_held (h : hist) : option (Z * pyval * pyval) :=
  match h with
  | [] => None
  | (now, [v; d]) :: older =>
      match sample_held older with
      | Some (t, x, dur) => if py_lt (VInt (now - t)) dur then Some (t, x, dur) else Some (now, v, d)
      | None => Some (now, v, d)
      end
  | _ :: older => sample_held older
  end.
Definition spec_SAMPLE (h : hist) : outc :=
  match sample_held h with Some (_, x, _) => OVal x | None => ONone end.

Fixpoint freeze_held (h : hist) : option (Z * pyval * pyval) :=
  match h with
  | [] => None
  | (now, [v; d]) :: older =>
      match freeze_held older with
      | Some (t, x, dur) => if py_gt (VInt (now - t)) dur && py_ne v x then Some (now, v, d) else Some (t, x, dur)
      | None => Some (now, v, d)
      end
  | _ :: older => freeze_held older
  end.
Definition spec_FREEZE (h : hist) : outc :=
  match freeze_held h with Some (_, x, _) => OVal x | None => ONone end.

(* ------------------------------------------------------------------ HELD *)

Definition held_match (s : sample) : bool := match snd s with [v; fx; _] => py_eq v fx | _ => false end.
(* the current run of matching samples, newest first *)
Fixpoint held_run (h : hist) : list sample :=
  match h with [] => [] | s :: older => if held_match s then s :: held_run older else [] end.
Definition held_reached (t0 : Z) (s : sample) : bool :=
  match snd s with [_; _; d] => py_ge (VInt (fst s - t0)) d | _ => false end.
Definition held_value (h : hist) : bool :=
  match rev (held_run h) with
  | [] => false
  | (t0, _) :: later => existsb (held_reached t0) later
  end.
Definition spec_HELD (h : hist) : outc := match h with [] => ONone | _ => OVal (VBool (held_value h)) end.

(* with a constant duration and non-decreasing times this is: the run started at least d ago (and is not just starting) *)
Definition held_simple (h : hist) : bool :=
  match h, rev (held_run h) with
  | (now, [_; _; d]) :: _, (t0, _) :: _ :: _ => py_ge (VInt (now - t0)) d
  | _, _ => false
  end.

(* ------------------------------------------------------------------ DELAY *)

(* the value changes, newest first *)
Fixpoint transitions (h : hist) : list (Z * pyval) :=
  match h with
  | [] => []
  | (now, [v; _]) :: older =>
      let tr := transitions older in
      match tr with
      | [] => [(now, v)]
      | (_, pv) :: _ => if py_ne v pv then (now, v) :: tr else tr
      end
  | _ :: older => transitions older
  end.

Definition old_enough (now : Z) (d : pyval) (tv : Z * pyval) : bool := py_ge (VInt (now - fst tv)) d.

Definition spec_DELAY (h : hist) : outc :=
  match h with
  | (now, [_; d]) :: _ =>
      let tr := transitions h in
      match find (old_enough now d) tr with
      | Some (_, x) => OVal x
      | None => match rev tr with (_, x) :: _ => OVal x | [] => ONone end
      end
  | _ => ONone
  end.

(* number of changes still younger than d, at every point of the history, stays below the queue capacity *)
Fixpoint delay_fits (h : hist) : bool :=
  match h with
  | [] => true
  | (now, [_; d]) :: older =>
      (Z.of_nat (length (filter (fun tv => negb (old_enough now d tv)) (transitions h))) <? delay_history_size - 1)
      && delay_fits older
  | _ :: older => delay_fits older
  end.

(* ------------------------------------------------------------------ DERIV / INTEG *)

(* the last accepted sample (time, value); [ip] = position of the sampling-interval argument *)
Fixpoint accepted_last (ip : nat) (h : hist) : option (Z * pyval) :=
  match h with
  | [] => None
  | (now, a) :: older =>
      match nth_error a 0, nth_error a ip with
      | Some v, Some iv =>
          match accepted_last ip older with
          | None => Some (now, v)
          | Some (t, x) => if py_lt (VInt (now - t)) iv then Some (t, x) else Some (now, v)
          end
      | _, _ => accepted_last ip older
      end
  end.

Definition spec_sampled (ip : nat) (first : outc) (formula : pyval -> Z -> pyres) (now : Z) (iv : pyval) (older : hist) : outc :=
  match accepted_last ip older with
  | None => first
  | Some (t, x) =>
      let delta := now - t in
      if py_lt (VInt delta) iv then OSkipped
      else if delta >? time_jump_threshold then OSkipped
      else of_pyres (formula x delta)
  end.

Definition spec_DERIV (h : hist) : outc :=
  match h with
  | (now, [v; iv]) :: older =>
      spec_sampled 1 (OVal (VInt 0))
        (fun x delta => pbind (py_sub v x) (fun dv => pbind (py_truediv dv (VInt delta)) (fun q => py_mul q (VInt 1000))))
        now iv older
  | _ => ONone
  end.

Definition spec_INTEG (h : hist) : outc :=
  match h with
  | (now, [v; acc; iv]) :: older =>
      spec_sampled 2 (OVal acc)
        (fun x delta => pbind (py_add v x) (fun s => pbind (py_mul s (VInt delta)) (fun p =>
                        pbind (py_truediv p (VInt 2000)) (fun area => py_add acc area))))
        now iv older
  | _ => ONone
  end.

(* ------------------------------------------------------------------ FMAVG / FMEDIAN *)

(* (time the sampling clock was last restarted, accepted values newest first) *)
Fixpoint window (h : hist) : option Z * list pyval :=
  match h with
  | [] => (None, [])
  | (now, [v; _; iv]) :: older =>
      let '(lt, vals) := window older in
      match lt with
      | None => (Some now, v :: vals)
      | Some t =>
          if py_lt (VInt (now - t)) iv then (lt, vals)
          else if now - t >? time_jump_threshold then (Some now, vals)
          else (Some now, v :: vals)
      end
  | _ :: older => window older
  end.

(* does the newest sample get accepted *)
Definition newest_accepted (h : hist) : bool :=
  match h with
  | (now, [_; _; iv]) :: older =>
      match fst (window older) with
      | None => true
      | Some t => negb (py_lt (VInt (now - t)) iv) && negb (now - t >? time_jump_threshold)
      end
  | _ => false
  end.

Definition width_of (h : hist) : option Z :=
  match h with (_, [_; VInt w; _]) :: _ => Some w | _ => None end.

Definition upper_median (l : list pyval) : option pyval := nth_error (py_sort l) (Nat.div2 (length l)).

Definition spec_filter (a : agg) (qsize : Z) (h : hist) : outc :=
  match width_of h with
  | None => ONone
  | Some w =>
      if newest_accepted h then
        let win := rev (firstn (Z.to_nat (Z.min w qsize)) (snd (window h))) in
        match a with
        | AMean => of_pyres (pbind (py_sum win) (fun s => py_truediv s (VInt (Z.of_nat (length win)))))
        | AMedian => match upper_median win with Some m => OVal m | None => ONone end
        end
      else OSkipped
  end.
Definition spec_FMAVG := spec_filter AMean fmavg_queue_size.
Definition spec_FMEDIAN := spec_filter AMedian fmedian_queue_size.

Definition width_ok (h : hist) : bool :=
  const_arg 1 h && match width_of h with Some w => 1 <=? w | None => false end.

(* ------------------------------------------------------------------ SEQUENCE *)

(* d1, d1+d2, ... (Python additions starting from the int 0); the exception of the first failing addition *)
Fixpoint partial_sums (acc : pyval) (ds : list pyval) : list pyval + pyexc :=
  match ds with
  | [] => inl []
  | d :: r =>
      match py_add acc d with
      | PErr e => inr e
      | POk acc' => match partial_sums acc' r with inl l => inl (acc' :: l) | inr e => inr e end
      end
  end.

Definition spec_SEQUENCE (h : hist) : outc :=
  match h with
  | [] => ONone
  | (now, a) :: _ =>
      let t0 := fst (last h (0, [])) in
      let ps := seq_pairs a in
      match partial_sums (VInt 0) (map snd ps) with
      | inr e => OExc (exc_code e)
      | inl sums =>
          match py_mod (VInt (now - t0)) (last sums (VInt 0)) with
          | PErr e => OExc (exc_code e)
          | POk x =>
              match find (fun sv : pyval * pyval => py_ge (fst sv) x) (combine sums (map fst ps)), ps with
              | Some (_, v), _ => OVal v
              | None, (v1, _) :: _ => OVal v1
              | None, [] => OExc IndexErr
              end
          end
      end
  end.

(* ------------------------------------------------------------------ dispatch and preconditions per function *)

Definition spec_of (f : fn) : hist -> outc :=
  match f with
  | DELAY => spec_DELAY | SAMPLE => spec_SAMPLE | FREEZE => spec_FREEZE | HELD => spec_HELD
  | DERIV => spec_DERIV | INTEG => spec_INTEG | FMAVG => spec_FMAVG | FMEDIAN => spec_FMEDIAN
  | RISING => spec_RISING | FALLING => spec_FALLING | ACC => spec_ACC | ACCINC => spec_ACCINC
  | HYST => spec_HYST | SEQUENCE => spec_SEQUENCE
  end.

(* the histories the specification speaks about (besides: well-shaped, positive times, no Python exception raised) *)
Definition spec_pre (f : fn) (h : hist) : bool :=
  match f with
  | DELAY => sortedb h && const_arg 1 h && delay_fits h
  | FREEZE => sortedb h
  | FMAVG | FMEDIAN => width_ok h
  | _ => true
  end.
