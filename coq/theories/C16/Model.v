(* C16 — model of the history-dependent expression functions of qtoggleserver
   (core/expressions/timeprocessing.py: DELAY SAMPLE FREEZE HELD DERIV INTEG FMAVG FMEDIAN;
    core/expressions/various.py: RISING FALLING ACC ACCINC HYST SEQUENCE),
   of Expression.eval / pause_asap_eval / is_asap_eval_paused (core/expressions/base.py) and of the skip rule of
   core/main.py:handle_value_changes.  Definitions only.

   Each function is a step   fstep f : fstate -> now_ms -> evaluated arguments -> fstate * outc * pause
   following the code statement by statement: what is written to the object's fields before an exception is raised stays
   written; arithmetic is Python's (Base/PyNum.v), so values and pause deadlines are bit-exact.
   The constants (TIME_JUMP_THRESHOLD, queue sizes) and the shape of HELD's pause calls are regenerated from the source
   (Gen/C16Gen.v). *)
From QT Require Export Base.Prelude Base.PyNum.
From QT Require Export Gen.C16Gen.
Open Scope Z_scope.

Inductive fn := DELAY | SAMPLE | FREEZE | HELD | DERIV | INTEG | FMAVG | FMEDIAN
              | RISING | FALLING | ACC | ACCINC | HYST | SEQUENCE.

(* what one evaluation yields: a value, Python's None, EvalSkipped, or a Python exception (by class code) *)
Inductive outc := OVal (v : pyval) | ONone | OSkipped | OExc (code : Z).

Definition exc_code (e : pyexc) : Z :=
  match e with ZeroDiv => 0 | Overflow => 1 | ValueErr => 2 | TypeErr => 3 | Unmodelled => 4 end.
Definition IndexErr : Z := 5.

(* the call(s) to self.pause_asap_eval made by one evaluation (the last one wins; every function makes at most one) *)
Inductive pause := PNone | PUntil (v : pyval) | PForever.

Definition FOREVER : Z := 10000000000000.       (* int(1e13) *)

(* Expression.eval sets the field to 0 first; pause_asap_eval(x) stores  x or int(1e13) *)
Definition deadline (p : pause) : pyval :=
  match p with
  | PNone => VInt 0
  | PUntil v => if py_truth v then v else VInt FOREVER
  | PForever => VInt FOREVER
  end.

(* is_asap_eval_paused(now_ms) = now_ms < self._asap_eval_paused_until_ms *)
Definition is_paused (now : Z) (d : pyval) : bool := py_lt (VInt now) d.

Inductive hstate := HOff | HWaiting | HOn.

(* the union of the instance fields of the fourteen classes *)
Record fstate := mkst {
  s_last : option pyval;          (* _last_value *)
  s_cur : option pyval;           (* DELAY._current_value *)
  s_queue : list (Z * pyval);     (* DELAY._queue, oldest first *)
  s_vals : list pyval;            (* FMAVG/FMEDIAN._queue, oldest first *)
  s_dur : pyval;                  (* SAMPLE/FREEZE._last_duration_ms *)
  s_time : Z;                     (* _last_time_ms / HELD._start_time_ms *)
  s_held : hstate;                (* HELD._state *)
  s_res : Z                       (* HYST._last_result *)
}.

Definition st0 : fstate := mkst None None [] [] (VInt 0) 0 HOff 0.

Definition set_last (st : fstate) (v : option pyval) :=
  mkst v (s_cur st) (s_queue st) (s_vals st) (s_dur st) (s_time st) (s_held st) (s_res st).
Definition set_cur (st : fstate) (v : option pyval) :=
  mkst (s_last st) v (s_queue st) (s_vals st) (s_dur st) (s_time st) (s_held st) (s_res st).
Definition set_queue (st : fstate) (q : list (Z * pyval)) :=
  mkst (s_last st) (s_cur st) q (s_vals st) (s_dur st) (s_time st) (s_held st) (s_res st).
Definition set_vals (st : fstate) (q : list pyval) :=
  mkst (s_last st) (s_cur st) (s_queue st) q (s_dur st) (s_time st) (s_held st) (s_res st).
Definition set_dur (st : fstate) (d : pyval) :=
  mkst (s_last st) (s_cur st) (s_queue st) (s_vals st) d (s_time st) (s_held st) (s_res st).
Definition set_time (st : fstate) (t : Z) :=
  mkst (s_last st) (s_cur st) (s_queue st) (s_vals st) (s_dur st) t (s_held st) (s_res st).
Definition set_held (st : fstate) (h : hstate) :=
  mkst (s_last st) (s_cur st) (s_queue st) (s_vals st) (s_dur st) (s_time st) h (s_res st).
Definition set_res (st : fstate) (r : Z) :=
  mkst (s_last st) (s_cur st) (s_queue st) (s_vals st) (s_dur st) (s_time st) (s_held st) r.

Definition step_result := (fstate * outc * pause)%type.

Definition py_ne (a b : pyval) : bool := negb (py_eq a b).
(* value != self._last_value, where the field may still be None *)
Definition opt_ne (v : pyval) (o : option pyval) : bool := match o with None => true | Some w => py_ne v w end.
Definition out_opt (o : option pyval) : outc := match o with Some v => OVal v | None => ONone end.
Definition vfalse := VBool false.
Definition vtrue := VBool true.

(* self.pause_asap_eval(<r>) followed by `return`/`raise` of [o]; computing the argument may itself raise *)
Definition pause_then (st : fstate) (r : pyres) (o : outc) : step_result :=
  match r with POk p => (st, o, PUntil p) | PErr e => (st, OExc (exc_code e), PNone) end.

(* ------------------------------------------------------------------ DELAY *)

(* while len(queue) >= HISTORY_SIZE: queue.pop(0)   — keeps the newest HISTORY_SIZE-1 entries *)
Definition trim_hist {A} (q : list A) : list A := skipn (length q - Z.to_nat (delay_history_size - 1)) q.

(* while queue and now - queue[0][0] >= delay: current = queue.pop(0)[1] *)
Fixpoint delay_pop (now : Z) (d : pyval) (q : list (Z * pyval)) (cur : option pyval) : list (Z * pyval) * option pyval :=
  match q with
  | [] => ([], cur)
  | (t, x) :: r => if py_ge (VInt (now - t)) d then delay_pop now d r (Some x) else (q, cur)
  end.

Definition delay_step (st : fstate) (now : Z) (v d : pyval) : step_result :=
  let cur := match s_cur st with None => Some v | c => c end in
  let '(q1, last1) :=
    if opt_ne v (s_last st) then (trim_hist (s_queue st) ++ [(now, v)], Some v) else (s_queue st, s_last st) in
  let '(q2, cur2) := delay_pop now d q1 cur in
  let st' := set_cur (set_queue (set_last st last1) q2) cur2 in
  match q2 with
  | (t, _) :: _ => pause_then st' (py_add (VInt t) d) (out_opt cur2)
  | [] => pause_then st' (py_add (VInt now) d) (out_opt cur2)
  end.

(* ------------------------------------------------------------------ SAMPLE *)

Definition sample_step (st : fstate) (now : Z) (v d : pyval) : step_result :=
  if py_lt (VInt (now - s_time st)) (s_dur st)
  then pause_then st (py_add (VInt (s_time st)) (s_dur st)) (out_opt (s_last st))
  else (set_time (set_dur (set_last st (Some v)) d) now, OVal v, PNone).

(* ------------------------------------------------------------------ FREEZE *)

Definition freeze_idle (st : fstate) (now : Z) (v d : pyval) : step_result :=
  if opt_ne v (s_last st)
  then (set_last (set_dur (set_time st now) d) (Some v), OVal v, PNone)
  else (st, out_opt (s_last st), PForever).

Definition freeze_step (st : fstate) (now : Z) (v d : pyval) : step_result :=
  if s_time st =? 0 then freeze_idle st now v d
  else if py_gt (VInt (now - s_time st)) (s_dur st) then freeze_idle (set_time st 0) now v d
  else pause_then st (py_add (VInt (s_time st)) (s_dur st)) (out_opt (s_last st)).

(* ------------------------------------------------------------------ HELD
   [fixed] = false: the code that calls pause_asap_eval() with no deadline in both branches of state WAITING;
   [fixed] = true : pause until start + duration while still waiting. *)

Definition held_step (fixed : bool) (st : fstate) (now : Z) (v fx d : pyval) : step_result :=
  if py_eq v fx then
    match s_held st with
    | HOff => pause_then (set_held (set_time st now) HWaiting) (py_add (VInt now) d) (OVal vfalse)
    | HWaiting =>
        if py_ge (VInt (now - s_time st)) d then (set_held st HOn, OVal vtrue, PForever)
        else if fixed then pause_then st (py_add (VInt (s_time st)) d) (OVal vfalse)
        else (st, OVal vfalse, PForever)
    | HOn => (st, OVal vtrue, PNone)
    end
  else (set_held st HOff, OVal vfalse, PForever).

(* ------------------------------------------------------------------ DERIV / INTEG *)

Definition accept_last (st : fstate) (now : Z) (v : pyval) : fstate := set_time (set_last st (Some v)) now.

(* the guard shared by DERIV and INTEG once a previous sample exists *)
Definition sampled (st : fstate) (now : Z) (v iv : pyval) (formula : pyval -> Z -> pyres) : step_result :=
  match s_last st with
  | None => (st, OSkipped, PNone)     (* not used: callers handle the first sample *)
  | Some lv =>
      let delta := now - s_time st in
      if py_lt (VInt delta) iv then pause_then st (py_add (VInt (s_time st)) iv) OSkipped
      else if delta >? time_jump_threshold then (accept_last st now v, OSkipped, PNone)
      else match formula lv delta with
           | POk r => (accept_last st now v, OVal r, PNone)
           | PErr e => (st, OExc (exc_code e), PNone)
           end
  end.

(* (value - last) / delta * 1000 *)
Definition deriv_formula (v lv : pyval) (delta : Z) : pyres :=
  pbind (py_sub v lv) (fun x => pbind (py_truediv x (VInt delta)) (fun y => py_mul y (VInt 1000))).

Definition deriv_step (st : fstate) (now : Z) (v iv : pyval) : step_result :=
  match s_last st with
  | None => (accept_last st now v, OVal (VInt 0), PNone)
  | Some _ => sampled st now v iv (fun lv delta => deriv_formula v lv delta)
  end.

(* accumulator + (value + last) * delta / 2000 *)
Definition integ_formula (v acc lv : pyval) (delta : Z) : pyres :=
  pbind (py_add v lv) (fun x => pbind (py_mul x (VInt delta)) (fun y => pbind (py_truediv y (VInt 2000)) (fun z => py_add acc z))).

Definition integ_step (st : fstate) (now : Z) (v acc iv : pyval) : step_result :=
  match s_last st with
  | None => (accept_last st now v, OVal acc, PNone)
  | Some _ => sampled st now v iv (fun lv delta => integ_formula v acc lv delta)
  end.

(* ------------------------------------------------------------------ FMAVG / FMEDIAN *)

(* min(width, QUEUE_SIZE): Python's min returns its first argument unless the second is smaller *)
Definition py_min2 (a b : pyval) : pyval := if py_lt b a then b else a.

(* while len(queue) >= width: queue.pop(0);  None = pop from an empty list (IndexError) *)
Fixpoint trim_width (fuel : nat) (w : pyval) (q : list pyval) : option (list pyval) :=
  match fuel with
  | O => None
  | S k =>
      if py_ge (VInt (Z.of_nat (length q))) w
      then match q with [] => None | _ :: r => trim_width k w r end
      else Some q
  end.

(* queue[-k:] for an int k *)
Definition slice_last (k : Z) (q : list pyval) : list pyval :=
  if k =? 0 then q
  else if k <? 0 then skipn (Z.to_nat (- k)) q
  else skipn (length q - Z.to_nat k) q.

(* list.sort() on numbers without NaN: the stable sorted permutation *)
Fixpoint sort_insert (x : pyval) (l : list pyval) : list pyval :=
  match l with
  | [] => [x]
  | y :: r => if py_lt x y then x :: l else y :: sort_insert x r
  end.
Definition py_sort (l : list pyval) : list pyval := fold_left (fun acc x => sort_insert x acc) l [].

Definition mean_of (q : list pyval) : pyres :=
  pbind (py_sum q) (fun s => py_truediv s (VInt (Z.of_nat (length q)))).

(* queue.sort(); queue[len(queue) // 2] *)
Definition median_of (q : list pyval) : option pyval := nth_error (py_sort q) (Nat.div2 (length q)).

Inductive agg := AMean | AMedian.

Definition filter_step (a : agg) (qsize : Z) (st : fstate) (now : Z) (v w0 iv : pyval) : step_result :=
  let w := py_min2 w0 (VInt qsize) in
  let accept :=
    match trim_width (S (length (s_vals st))) w (s_vals st) with
    | None => (set_vals st [], OExc IndexErr, PNone)
    | Some q =>
        let q' := q ++ [v] in
        let st' := set_time (set_vals st q') now in
        match py_int w with
        | inr e => (st', OExc (exc_code e), PNone)
        | inl k =>
            let win := slice_last k q' in
            match a with
            | AMean => match mean_of win with POk r => (st', OVal r, PNone) | PErr e => (st', OExc (exc_code e), PNone) end
            | AMedian => match median_of win with Some r => (st', OVal r, PNone) | None => (st', OExc IndexErr, PNone) end
            end
        end
    end in
  if 0 <? s_time st then
    let delta := now - s_time st in
    if py_lt (VInt delta) iv then pause_then st (py_add (VInt (s_time st)) iv) OSkipped
    else if delta >? time_jump_threshold then (set_time st now, OSkipped, PNone)
    else accept
  else accept.

(* ------------------------------------------------------------------ RISING FALLING ACC ACCINC HYST *)

Definition edge_step (cmp : pyval -> pyval -> bool) (st : fstate) (v : pyval) : step_result :=
  (set_last st (Some v), OVal (VBool (match s_last st with Some lv => cmp v lv | None => false end)), PNone).

(* accumulator + (value - last) *)
Definition acc_formula (v acc lv : pyval) : pyres := pbind (py_sub v lv) (fun d => py_add acc d).

Definition acc_step (only_inc : bool) (st : fstate) (v acc : pyval) : step_result :=
  match s_last st with
  | None => (set_last st (Some v), OVal acc, PNone)
  | Some lv =>
      if negb only_inc || py_gt v lv then
        match acc_formula v acc lv with
        | POk r => (set_last st (Some v), OVal r, PNone)
        | PErr e => (st, OExc (exc_code e), PNone)
        end
      else (set_last st (Some v), OVal acc, PNone)
  end.

Definition hyst_rule (last : Z) (v t1 t2 : pyval) : Z :=
  if ((last =? 0) && py_gt v t2) || (negb (last =? 0) && py_ge v t1) then 1 else 0.

Definition hyst_step (st : fstate) (v t1 t2 : pyval) : step_result :=
  let r := hyst_rule (s_res st) v t1 t2 in (set_res st r, OVal (VInt r), PNone).

(* ------------------------------------------------------------------ SEQUENCE *)

(* (values[i], delays[i]) for i < len(args) // 2 *)
Fixpoint seq_pairs (a : list pyval) : list (pyval * pyval) :=
  match a with v :: d :: r => (v, d) :: seq_pairs r | _ => [] end.

Fixpoint seq_total (acc : pyval) (ps : list (pyval * pyval)) : pyres :=
  match ps with [] => POk acc | (_, d) :: r => pbind (py_add acc d) (fun acc' => seq_total acc' r) end.

(* for i in range(n): delay_so_far += delays[i]; if delay_so_far >= delta: result = values[i]; break *)
Fixpoint seq_scan (acc delta : pyval) (ps : list (pyval * pyval)) : pyres + unit :=
  match ps with
  | [] => inr tt
  | (v, d) :: r =>
      match py_add acc d with
      | PErr e => inl (PErr e)
      | POk acc' => if py_ge acc' delta then inl (POk v) else seq_scan acc' delta r
      end
  end.

Definition sequence_step (st : fstate) (now : Z) (a : list pyval) : step_result :=
  let st' := if s_time st =? 0 then set_time st now else st in
  let ps := seq_pairs a in
  match seq_total (VInt 0) ps with
  | PErr e => (st', OExc (exc_code e), PNone)
  | POk total =>
      match py_mod (VInt (now - s_time st')) total with
      | PErr e => (st', OExc (exc_code e), PNone)
      | POk delta =>
          match ps with
          | [] => (st', OExc IndexErr, PNone)
          | (v0, _) :: _ =>
              match seq_scan (VInt 0) delta ps with
              | inl (POk v) => (st', OVal v, PNone)
              | inl (PErr e) => (st', OExc (exc_code e), PNone)
              | inr _ => (st', OVal v0, PNone)
              end
          end
      end
  end.

(* ------------------------------------------------------------------ dispatch *)

Definition bad_args (st : fstate) : step_result := (st, OExc 4, PNone).

Definition fstep_gen (fixed : bool) (f : fn) (st : fstate) (now : Z) (a : list pyval) : step_result :=
  match f, a with
  | DELAY, [v; d] => delay_step st now v d
  | SAMPLE, [v; d] => sample_step st now v d
  | FREEZE, [v; d] => freeze_step st now v d
  | HELD, [v; fx; d] => held_step fixed st now v fx d
  | DERIV, [v; iv] => deriv_step st now v iv
  | INTEG, [v; acc; iv] => integ_step st now v acc iv
  | FMAVG, [v; w; iv] => filter_step AMean fmavg_queue_size st now v w iv
  | FMEDIAN, [v; w; iv] => filter_step AMedian fmedian_queue_size st now v w iv
  | RISING, [v] => edge_step py_gt st v
  | FALLING, [v] => edge_step py_lt st v
  | ACC, [v; acc] => acc_step false st v acc
  | ACCINC, [v; acc] => acc_step true st v acc
  | HYST, [v; t1; t2] => hyst_step st v t1 t2
  | SEQUENCE, _ => sequence_step st now a
  | _, _ => bad_args st
  end.

(* the source's behaviour: HELD's shape as read by the translator *)
Definition fstep : fn -> fstate -> Z -> list pyval -> step_result := fstep_gen held_pause_fixed.

(* ------------------------------------------------------------------ histories *)

(* a history is a list of samples (now_ms, evaluated arguments), NEWEST FIRST *)
Definition sample := (Z * list pyval)%type.
Definition hist := list sample.

Section Run.
  Variable step : fstate -> Z -> list pyval -> step_result.

  (* state after evaluating the whole history (oldest sample first) *)
  Fixpoint state_after (h : hist) : fstate :=
    match h with [] => st0 | (now, a) :: older => fst (fst (step (state_after older) now a)) end.

  (* outcome and pause of the newest evaluation *)
  Definition out_of (h : hist) : option (outc * pause) :=
    match h with [] => None | (now, a) :: older => let '(_, o, p) := step (state_after older) now a in Some (o, p) end.

  (* all outcomes, newest first *)
  Fixpoint outs (h : hist) : list (outc * pause) :=
    match h with [] => [] | (now, a) :: older => let '(_, o, p) := step (state_after older) now a in (o, p) :: outs older end.

  (* ---------------------------------------------------------------- the hub's evaluation loop
     A tick is (now_ms, changed, arguments): [changed] says that a dependency other than "asap" changed in this pass
     (a port value, or "second").  core/main.py:handle_value_changes evaluates the expression unless the only changed
     dependency is "asap" and the top-level expression is paused (is_asap_eval_paused(now_ms)).
     The value of the port after the tick is the last value an evaluation produced (EvalSkipped and errors leave it).
     Ticks are OLDEST FIRST here (this is a forward simulation). *)
  Definition tick := (Z * bool * list pyval)%type.

  Definition upd (pv : option pyval) (o : outc) : option pyval := match o with OVal v => Some v | _ => pv end.

  Fixpoint loop_pauses (st : fstate) (dl : pyval) (pv : option pyval) (first : bool) (ts : list tick) : list (option pyval) :=
    match ts with
    | [] => []
    | (now, changed, a) :: r =>
        if negb first && negb changed && is_paused now dl then pv :: loop_pauses st dl pv false r
        else let '(st', o, p) := step st now a in
             let pv' := upd pv o in pv' :: loop_pauses st' (deadline p) pv' false r
    end.

  Fixpoint loop_every (st : fstate) (pv : option pyval) (ts : list tick) : list (option pyval) :=
    match ts with
    | [] => []
    | (now, _, a) :: r =>
        let '(st', o, _) := step st now a in let pv' := upd pv o in pv' :: loop_every st' pv' r
    end.

  Definition run_with_pauses (ts : list tick) : list (option pyval) := loop_pauses st0 (VInt 0) None true ts.
  Definition run_every_tick (ts : list tick) : list (option pyval) := loop_every st0 None ts.
End Run.
