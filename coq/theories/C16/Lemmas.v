(* C16 — basic facts used by the theorem files: Python comparisons / additions on int-typed values, monotonicity of the
   age tests, structural equality, unfolding of runs. *)
From QT Require Import C16.Spec.
From Coq Require Import Lia.
Open Scope Z_scope.
(* several builds share coq/.lia.cache concurrently; a half-written cache makes lia fail spuriously *)
Unset Lia Cache. Unset Nia Cache.

(* ------------------------------------------------------------------ int-typed values (Python int or bool) *)

Definition int_val (v : pyval) (z : Z) : Prop := as_num v = NInt z.

Lemma int_val_VInt : forall z, int_val (VInt z) z.
Proof. reflexivity. Qed.

Lemma py_add_int : forall t d z, int_val d z -> py_add (VInt t) d = POk (VInt (t + z)).
Proof. intros t d z H. unfold py_add, int_val in *. cbn [as_num]. rewrite H. reflexivity. Qed.

Lemma py_lt_int : forall a d z, int_val d z -> py_lt (VInt a) d = (a <? z).
Proof.
  intros a d z H. unfold py_lt, int_val in *. cbn [as_num]. rewrite H. cbn [cmp_num].
  unfold Z.ltb. destruct (a ?= z); reflexivity.
Qed.

Lemma py_gt_int : forall a d z, int_val d z -> py_gt (VInt a) d = (z <? a).
Proof.
  intros a d z H. unfold py_gt, int_val in *. cbn [as_num]. rewrite H. cbn [cmp_num].
  unfold Z.ltb. rewrite (Z.compare_antisym a z). destruct (a ?= z); reflexivity.
Qed.

Lemma py_ge_int : forall a d z, int_val d z -> py_ge (VInt a) d = (z <=? a).
Proof.
  intros a d z H. unfold py_ge, int_val in *. cbn [as_num]. rewrite H. cbn [cmp_num].
  unfold Z.leb. rewrite (Z.compare_antisym a z). destruct (a ?= z); reflexivity.
Qed.

Lemma is_paused_int : forall now x, is_paused now (VInt x) = (now <? x).
Proof. intros. unfold is_paused. apply py_lt_int. reflexivity. Qed.

Lemma deadline_until_int : forall x, deadline (PUntil (VInt x)) = VInt (if x =? 0 then FOREVER else x).
Proof. intros. unfold deadline. cbn [py_truth]. destruct (x =? 0); reflexivity. Qed.

(* ------------------------------------------------------------------ the age tests are monotone in the age (any pyval bound) *)

Lemma mul_mono_lt : forall n a b p, 0 <= p -> a <= b -> n < a * p -> n < b * p.
Proof. intros. nia. Qed.
Lemma mul_mono_le : forall n a b p, 0 <= p -> a <= b -> n <= a * p -> n <= b * p.
Proof. intros. nia. Qed.

Lemma cmp_Z_f_mono_gt : forall a b f, a <= b -> cmp_Z_f a f = Some Gt -> cmp_Z_f b f = Some Gt.
Proof.
  intros a b f Hab. destruct f as [s | s | | s m e]; cbn [cmp_Z_f]; try congruence.
  - intro H. injection H as H. f_equal. apply Z.compare_gt_iff. rewrite Z.compare_gt_iff in H. lia.
  - destruct (f_as_frac s m e) as [n k] eqn:E. intro H. injection H as H. f_equal.
    apply Z.compare_gt_iff. rewrite Z.compare_gt_iff in H.
    assert (0 <= 2 ^ k) by (apply Z.pow_nonneg; lia).
    eapply mul_mono_lt; eauto.
Qed.

Lemma cmp_Z_f_mono_ge : forall a b f c, a <= b -> cmp_Z_f a f = Some c -> c <> Lt ->
  exists c', cmp_Z_f b f = Some c' /\ c' <> Lt.
Proof.
  intros a b f c Hab. destruct f as [s | s | | s m e]; cbn [cmp_Z_f]; try congruence.
  - intros H Hc. injection H as H. subst c. eexists. split; [reflexivity|].
    intro E. rewrite Z.compare_lt_iff in E. apply Hc. apply Z.compare_lt_iff. lia.
  - intros H Hc. eexists. split; [reflexivity|]. congruence.
  - destruct (f_as_frac s m e) as [n k] eqn:E. intros H Hc. injection H as H. subst c.
    eexists. split; [reflexivity|]. intro E'. rewrite Z.compare_lt_iff in E'. apply Hc. apply Z.compare_lt_iff.
    assert (0 <= 2 ^ k) by (apply Z.pow_nonneg; lia).
    destruct (Z_lt_le_dec (a * 2 ^ k) n) as [L|L]; [exact L|exfalso].
    assert (n <= b * 2 ^ k) by (eapply mul_mono_le; eauto). lia.
Qed.

Lemma py_gt_mono : forall a b d, a <= b -> py_gt (VInt a) d = true -> py_gt (VInt b) d = true.
Proof.
  intros a b d Hab. unfold py_gt. cbn [as_num]. destruct (as_num d) as [y | f]; cbn [cmp_num].
  - destruct (a ?= y) eqn:E; try discriminate. intros _.
    rewrite Z.compare_gt_iff in E. assert (b ?= y = Gt) as -> by (apply Z.compare_gt_iff; lia). reflexivity.
  - destruct (cmp_Z_f a f) as [[| |]|] eqn:E; try discriminate. intros _.
    rewrite (cmp_Z_f_mono_gt a b f Hab E). reflexivity.
Qed.

Lemma py_ge_mono : forall a b d, a <= b -> py_ge (VInt a) d = true -> py_ge (VInt b) d = true.
Proof.
  intros a b d Hab. unfold py_ge. cbn [as_num]. destruct (as_num d) as [y | f]; cbn [cmp_num].
  - destruct (a ?= y) eqn:E; try discriminate; intros _.
    + rewrite Z.compare_eq_iff in E. destruct (b ?= y) eqn:E2; try reflexivity. rewrite Z.compare_lt_iff in E2. lia.
    + rewrite Z.compare_gt_iff in E. destruct (b ?= y) eqn:E2; try reflexivity. rewrite Z.compare_lt_iff in E2. lia.
  - destruct (cmp_Z_f a f) as [c|] eqn:E; [|discriminate]. intro H.
    assert (Hc : c <> Lt) by (destruct c; congruence).
    destruct (cmp_Z_f_mono_ge a b f c Hab E Hc) as [c' [-> Hc']]. destruct c'; congruence.
Qed.

Lemma py_lt_ge_VInt : forall a d, py_lt (VInt a) d = true -> py_ge (VInt a) d = false.
Proof.
  intros a d. unfold py_lt, py_ge. destruct (cmp_num (as_num (VInt a)) (as_num d)) as [[| |]|]; congruence.
Qed.

(* ------------------------------------------------------------------ structural equality *)

Lemma sf_eqb_eq : forall a b, sf_eqb a b = true -> a = b.
Proof.
  intros a b. destruct a, b; cbn [sf_eqb]; try discriminate; intro H.
  - apply Bool.eqb_prop in H. congruence.
  - apply Bool.eqb_prop in H. congruence.
  - reflexivity.
  - apply andb_prop in H. destruct H as [H H3]. apply andb_prop in H. destruct H as [H1 H2].
    apply Bool.eqb_prop in H1. apply Pos.eqb_eq in H2. apply Z.eqb_eq in H3. congruence.
Qed.

Lemma pyval_eqb_eq : forall a b, pyval_eqb a b = true -> a = b.
Proof.
  intros a b. destruct a, b; cbn [pyval_eqb]; try discriminate; intro H.
  - apply Bool.eqb_prop in H. congruence.
  - apply Z.eqb_eq in H. congruence.
  - apply sf_eqb_eq in H. congruence.
Qed.

(* ------------------------------------------------------------------ runs *)

Section RunFacts.
  Variable step : fstate -> Z -> list pyval -> step_result.

  Definition last_out (h : hist) : outc := match out_of step h with Some (o, _) => o | None => ONone end.

  Lemma outs_cons : forall now a older,
    outs step ((now, a) :: older) =
    (snd (fst (step (state_after step older) now a)), snd (step (state_after step older) now a)) :: outs step older.
  Proof. intros. cbn [outs]. destruct (step (state_after step older) now a) as [[st o] p]. reflexivity. Qed.

  Lemma last_out_cons : forall now a older,
    last_out ((now, a) :: older) = snd (fst (step (state_after step older) now a)).
  Proof. intros. unfold last_out. cbn [out_of]. destruct (step (state_after step older) now a) as [[st o] p]. reflexivity. Qed.

  Lemma clean_cons : forall now a older,
    clean (outs step ((now, a) :: older)) = true ->
    is_exc (snd (fst (step (state_after step older) now a))) = false /\ clean (outs step older) = true.
  Proof.
    intros now a older H. rewrite outs_cons in H. unfold clean in H. cbn [forallb fst] in H.
    apply andb_prop in H. destruct H as [H1 H2]. split; [|exact H2]. destruct (is_exc _); [discriminate|reflexivity].
  Qed.
End RunFacts.

Lemma shaped_cons : forall f s h, shaped f (s :: h) = true -> arity_ok f (snd s) = true /\ shaped f h = true.
Proof. intros f s h H. unfold shaped in H. cbn [forallb] in H. apply andb_prop in H. exact H. Qed.

Lemma times_pos_cons : forall s h, times_pos (s :: h) = true -> 0 < fst s /\ times_pos h = true.
Proof.
  intros s h H. unfold times_pos in H. cbn [forallb] in H. apply andb_prop in H. destruct H as [H1 H2].
  split; [apply Z.ltb_lt; exact H1 | exact H2].
Qed.

(* ------------------------------------------------------------------ generic induction over a history:
   a summary [summ] of the history (what the specification remembers), a relation [rel] between that summary and the
   function object's state, and a one-step obligation; concludes the relation after any history and that the newest
   output is the specified one. *)
Section RunInvariant.
  Variable step : fstate -> Z -> list pyval -> step_result.
  Variable A : Type.
  Variable summ : hist -> A.
  Variable rel : A -> fstate -> Prop.
  Variable specout : hist -> outc.
  Variable pre : hist -> bool.
  Hypothesis pre_tl : forall s h, pre (s :: h) = true -> pre h = true.
  Hypothesis rel0 : rel (summ []) st0.
  Hypothesis step_ok : forall now a older st st' o p,
    pre ((now, a) :: older) = true -> rel (summ older) st -> step st now a = (st', o, p) -> is_exc o = false ->
    rel (summ ((now, a) :: older)) st' /\ o = specout ((now, a) :: older).

  Lemma run_invariant : forall h, pre h = true -> clean (outs step h) = true ->
    rel (summ h) (state_after step h) /\ (h <> [] -> last_out step h = specout h).
  Proof.
    induction h as [|[now a] older IH]; intros Hp Hc.
    - split; [exact rel0 | congruence].
    - apply clean_cons in Hc. destruct Hc as [Hx Hc]. destruct (IH (pre_tl _ _ Hp) Hc) as [Hr _].
      rewrite last_out_cons. cbn [state_after].
      destruct (step (state_after step older) now a) as [[st' o] p] eqn:E. cbn [fst snd] in *.
      destruct (step_ok _ _ _ _ _ _ _ Hp Hr E Hx) as [R O]. split; [exact R | intros _; exact O].
  Qed.
End RunInvariant.

Lemma sortedb_cons : forall s h, sortedb (s :: h) = true ->
  sortedb h = true /\ match h with s' :: _ => fst s' <= fst s | [] => True end.
Proof.
  intros s [|s' r] H; [split; [reflexivity | exact I]|]. cbn [sortedb] in H. apply andb_prop in H. destruct H as [H1 H2].
  split; [exact H2 | apply Z.leb_le; exact H1].
Qed.
