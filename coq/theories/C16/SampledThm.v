(* C16 — DERIV and INTEG equal the difference quotient / trapezoid over accepted samples; a time jump beyond
   TIME_JUMP_THRESHOLD yields no value and restarts the chain (all four sampling functions). *)
From QT Require Import C16.Spec C16.Lemmas C16.SimpleThm C16.HoldThm.
From Coq Require Import Lia.
Open Scope Z_scope.
Unset Lia Cache.

Ltac inv H := inversion H; subst; clear H.

Definition sampled_rel (a : option (Z * pyval)) (st : fstate) : Prop :=
  match a with
  | None => s_last st = None
  | Some (t, x) => s_last st = Some x /\ s_time st = t
  end.

Lemma sampled_step_ok : forall formula st now v iv st' o p t x,
  s_last st = Some x -> s_time st = t -> sampled st now v iv formula = (st', o, p) -> is_exc o = false ->
  sampled_rel (if py_lt (VInt (now - t)) iv then Some (t, x) else Some (now, v)) st'
  /\ o = (if py_lt (VInt (now - t)) iv then OSkipped
          else if now - t >? time_jump_threshold then OSkipped else of_pyres (formula x (now - t))).
Proof.
  intros formula st now v iv st' o p t x H1 H2 Hs Hx. unfold sampled in Hs. rewrite H1, H2 in Hs.
  destruct (py_lt (VInt (now - t)) iv).
  - unfold pause_then in Hs. destruct (py_add _ _); inv Hs; [|discriminate]. cbn. auto.
  - destruct (now - t >? time_jump_threshold).
    + inv Hs. destruct st as [f1 f2 f3 f4 f5 f6 f7 f8]. cbn. auto.
    + destruct (formula x (now - t)); inv Hs; [|discriminate]. destruct st as [f1 f2 f3 f4 f5 f6 f7 f8]. cbn. auto.
Qed.

Theorem DERIV_inv : forall h, base_pre DERIV h = true -> clean (outs (fstep DERIV) h) = true ->
  sampled_rel (accepted_last 1 h) (state_after (fstep DERIV) h) /\ (h <> [] -> last_out (fstep DERIV) h = spec_DERIV h).
Proof.
  apply (run_invariant (fstep DERIV) _ (accepted_last 1) sampled_rel spec_DERIV (base_pre DERIV) (base_pre_tl DERIV)).
  - reflexivity.
  - intros now a older st st' o p Hp Hr Hs Hx. apply base_pre_cons in Hp. destruct Hp as [Ha Hnow].
    cbn [arity_ok] in Ha. destruct (len2 _ Ha) as [v [iv ->]].
    change (fstep DERIV st now [v; iv]) with (deriv_step st now v iv) in Hs. unfold deriv_step in Hs.
    unfold spec_DERIV, spec_sampled. cbn [accepted_last nth_error].
    destruct (accepted_last 1 older) as [[t x]|]; cbn [sampled_rel] in Hr.
    + destruct Hr as [H1 H2]. rewrite H1 in Hs.
      destruct (sampled_step_ok _ _ _ _ _ _ _ _ _ _ H1 H2 Hs Hx) as [R O]. split; [|exact O].
      destruct (py_lt (VInt (now - t)) iv); exact R.
    + rewrite Hr in Hs. inv Hs. destruct st as [f1 f2 f3 f4 f5 f6 f7 f8]. cbn. auto.
Qed.

Theorem DERIV_spec : forall h, shaped DERIV h = true -> times_pos h = true -> clean (outs (fstep DERIV) h) = true ->
  last_out (fstep DERIV) h = spec_DERIV h.
Proof.
  intros h H1 H2 Hc. destruct h as [|s r]; [reflexivity|].
  apply DERIV_inv; [unfold base_pre; rewrite H1, H2; reflexivity | exact Hc | discriminate].
Qed.

Theorem INTEG_inv : forall h, base_pre INTEG h = true -> clean (outs (fstep INTEG) h) = true ->
  sampled_rel (accepted_last 2 h) (state_after (fstep INTEG) h) /\ (h <> [] -> last_out (fstep INTEG) h = spec_INTEG h).
Proof.
  apply (run_invariant (fstep INTEG) _ (accepted_last 2) sampled_rel spec_INTEG (base_pre INTEG) (base_pre_tl INTEG)).
  - reflexivity.
  - intros now a older st st' o p Hp Hr Hs Hx. apply base_pre_cons in Hp. destruct Hp as [Ha Hnow].
    cbn [arity_ok] in Ha. destruct (len3 _ Ha) as [v [acc [iv ->]]].
    change (fstep INTEG st now [v; acc; iv]) with (integ_step st now v acc iv) in Hs. unfold integ_step in Hs.
    unfold spec_INTEG, spec_sampled. cbn [accepted_last nth_error].
    destruct (accepted_last 2 older) as [[t x]|]; cbn [sampled_rel] in Hr.
    + destruct Hr as [H1 H2]. rewrite H1 in Hs.
      destruct (sampled_step_ok _ _ _ _ _ _ _ _ _ _ H1 H2 Hs Hx) as [R O]. split; [|exact O].
      destruct (py_lt (VInt (now - t)) iv); exact R.
    + rewrite Hr in Hs. inv Hs. destruct st as [f1 f2 f3 f4 f5 f6 f7 f8]. cbn. auto.
Qed.

Theorem INTEG_spec : forall h, shaped INTEG h = true -> times_pos h = true -> clean (outs (fstep INTEG) h) = true ->
  last_out (fstep INTEG) h = spec_INTEG h.
Proof.
  intros h H1 H2 Hc. destruct h as [|s r]; [reflexivity|].
  apply INTEG_inv; [unfold base_pre; rewrite H1, H2; reflexivity | exact Hc | discriminate].
Qed.

(* ------------------------------------------------------------------ time jumps
   When the sampling interval has elapsed and more than TIME_JUMP_THRESHOLD ms separate the evaluation from the last
   accepted one, the function yields no value (EvalSkipped), does not pause, and measures the next sample from here:
   DERIV/INTEG remember the current value, FMAVG/FMEDIAN keep their window untouched. *)
Theorem time_jump_deriv_integ : forall st now v iv lv formula,
  s_last st = Some lv -> py_lt (VInt (now - s_time st)) iv = false -> now - s_time st > time_jump_threshold ->
  sampled st now v iv formula = (accept_last st now v, OSkipped, PNone).
Proof.
  intros st now v iv lv formula H1 H2 H3. unfold sampled. rewrite H1, H2.
  assert (now - s_time st >? time_jump_threshold = true) as -> by (apply Z.gtb_lt; lia). reflexivity.
Qed.

Theorem time_jump_filter : forall ag q st now v w iv,
  0 < s_time st -> py_lt (VInt (now - s_time st)) iv = false -> now - s_time st > time_jump_threshold ->
  filter_step ag q st now v w iv = (set_time st now, OSkipped, PNone).
Proof.
  intros ag q st now v w iv H1 H2 H3. unfold filter_step.
  assert (0 <? s_time st = true) as -> by (apply Z.ltb_lt; lia). rewrite H2.
  assert (now - s_time st >? time_jump_threshold = true) as -> by (apply Z.gtb_lt; lia). reflexivity.
Qed.

Theorem time_jump : forall f st now a v iv,
  match f, a with
  | DERIV, [v'; iv'] | INTEG, [v'; _; iv'] => v' = v /\ iv' = iv /\ s_last st <> None
  | FMAVG, [v'; _; iv'] | FMEDIAN, [v'; _; iv'] => v' = v /\ iv' = iv /\ 0 < s_time st
  | _, _ => False
  end ->
  py_lt (VInt (now - s_time st)) iv = false -> now - s_time st > time_jump_threshold ->
  exists st', fstep f st now a = (st', OSkipped, PNone) /\ s_time st' = now /\ s_vals st' = s_vals st
              /\ (f = DERIV \/ f = INTEG -> s_last st' = Some v).
Proof.
  intros f st now a v iv Hm H2 H3.
  destruct f; try contradiction; destruct a as [|v1 [|v2 [|v3 [|v4 l]]]]; try contradiction.
  - destruct Hm as [-> [-> Hl]]. destruct (s_last st) as [lv|] eqn:El; [|congruence].
    exists (accept_last st now v). change (fstep DERIV st now [v; iv]) with (deriv_step st now v iv). unfold deriv_step. rewrite El.
    rewrite (time_jump_deriv_integ st now v iv lv _ El H2 H3). destruct st as [f1 f2 f3 f4 f5 f6 f7 f8]. cbn. auto.
  - destruct Hm as [-> [-> Hl]]. destruct (s_last st) as [lv|] eqn:El; [|congruence].
    exists (accept_last st now v). change (fstep INTEG st now [v; v2; iv]) with (integ_step st now v v2 iv). unfold integ_step. rewrite El.
    rewrite (time_jump_deriv_integ st now v iv lv _ El H2 H3). destruct st as [f1 f2 f3 f4 f5 f6 f7 f8]. cbn. auto.
  - destruct Hm as [-> [-> Hl]]. exists (set_time st now).
    change (fstep FMAVG st now [v; v2; iv]) with (filter_step AMean fmavg_queue_size st now v v2 iv).
    rewrite (time_jump_filter _ _ _ _ _ _ _ Hl H2 H3). destruct st as [f1 f2 f3 f4 f5 f6 f7 f8]. cbn.
    repeat split; auto. intros [E|E]; discriminate.
  - destruct Hm as [-> [-> Hl]]. exists (set_time st now).
    change (fstep FMEDIAN st now [v; v2; iv]) with (filter_step AMedian fmedian_queue_size st now v v2 iv).
    rewrite (time_jump_filter _ _ _ _ _ _ _ Hl H2 H3). destruct st as [f1 f2 f3 f4 f5 f6 f7 f8]. cbn.
    repeat split; auto. intros [E|E]; discriminate.
Qed.
