(* C16 — SAMPLE, FREEZE and HELD equal their specification (hold laws / run of matching samples) on every history. *)
From QT Require Import C16.Spec C16.Lemmas C16.SimpleThm.
From Coq Require Import Lia.
Open Scope Z_scope.
Unset Lia Cache.

Ltac inv H := inversion H; subst; clear H.

Definition base_pre (f : fn) (h : hist) : bool := shaped f h && times_pos h.
Lemma base_pre_tl : forall f s h, base_pre f (s :: h) = true -> base_pre f h = true.
Proof.
  intros f s h H. unfold base_pre in *. apply andb_prop in H. destruct H as [H1 H2].
  apply shaped_cons in H1. apply times_pos_cons in H2. destruct H1 as [_ ->]. destruct H2 as [_ ->]. reflexivity.
Qed.
Lemma base_pre_cons : forall f now a h, base_pre f ((now, a) :: h) = true -> arity_ok f a = true /\ 0 < now.
Proof.
  intros f now a h H. unfold base_pre in H. apply andb_prop in H. destruct H as [H1 H2].
  apply shaped_cons in H1. apply times_pos_cons in H2. cbn [fst snd] in *. tauto.
Qed.

(* ------------------------------------------------------------------ SAMPLE *)
Definition sample_rel (a : option (Z * pyval * pyval)) (st : fstate) : Prop :=
  match a with
  | Some (t, x, dur) => s_last st = Some x /\ s_time st = t /\ s_dur st = dur
  | None => s_last st = None /\ s_time st = 0 /\ s_dur st = VInt 0
  end.

Theorem SAMPLE_inv : forall h, base_pre SAMPLE h = true -> clean (outs (fstep SAMPLE) h) = true ->
  sample_rel (sample_held h) (state_after (fstep SAMPLE) h) /\ (h <> [] -> last_out (fstep SAMPLE) h = spec_SAMPLE h).
Proof.
  apply (run_invariant (fstep SAMPLE) _ sample_held sample_rel spec_SAMPLE (base_pre SAMPLE) (base_pre_tl SAMPLE)).
  - cbn. auto.
  - intros now a older st st' o p Hp Hr Hs Hx. apply base_pre_cons in Hp. destruct Hp as [Ha Hnow].
    cbn [arity_ok] in Ha. destruct (len2 _ Ha) as [v [d ->]].
    change (fstep SAMPLE st now [v; d]) with (sample_step st now v d) in Hs. unfold sample_step in Hs.
    unfold spec_SAMPLE. cbn [sample_held]. destruct (sample_held older) as [[[t x] dur]|]; cbn [sample_rel] in Hr.
    + destruct Hr as [H1 [H2 H3]]. rewrite H2, H3 in Hs. destruct (py_lt (VInt (now - t)) dur).
      * unfold pause_then in Hs. destruct (py_add _ _); inv Hs; [|discriminate].
        rewrite H1. cbn. auto.
      * inv Hs. destruct st as [f1 f2 f3 f4 f5 f6 f7 f8]. cbn. auto.
    + destruct Hr as [H1 [H2 H3]]. rewrite H2, H3 in Hs. rewrite (py_lt_int _ (VInt 0) 0 (int_val_VInt 0)) in Hs.
      assert (now - 0 <? 0 = false) as E by (apply Z.ltb_ge; lia). rewrite E in Hs.
      inv Hs. destruct st as [f1 f2 f3 f4 f5 f6 f7 f8]. cbn. auto.
Qed.

Theorem SAMPLE_spec : forall h, shaped SAMPLE h = true -> times_pos h = true -> clean (outs (fstep SAMPLE) h) = true ->
  last_out (fstep SAMPLE) h = spec_SAMPLE h.
Proof.
  intros h H1 H2 Hc. destruct h as [|s r]; [reflexivity|].
  apply SAMPLE_inv; [unfold base_pre; rewrite H1, H2; reflexivity | exact Hc | discriminate].
Qed.

(* the hold law, spelled out: while the held sample is younger than its duration the output does not move *)
Corollary SAMPLE_holds : forall now v d older t x dur,
  sample_held older = Some (t, x, dur) -> py_lt (VInt (now - t)) dur = true ->
  spec_SAMPLE ((now, [v; d]) :: older) = OVal x.
Proof. intros. unfold spec_SAMPLE. cbn [sample_held]. rewrite H, H0. reflexivity. Qed.

(* ------------------------------------------------------------------ FREEZE *)
Definition newest_time (h : hist) : Z := match h with (t, _) :: _ => t | [] => 0 end.

Definition freeze_rel (a : option (Z * pyval * pyval) * Z) (st : fstate) : Prop :=
  match fst a with
  | None => s_last st = None /\ s_time st = 0
  | Some (t, x, dur) =>
      s_last st = Some x /\
      ((s_time st = t /\ s_dur st = dur /\ t <> 0) \/ (s_time st = 0 /\ py_gt (VInt (snd a - t)) dur = true))
  end.

Definition freeze_pre (h : hist) : bool := base_pre FREEZE h && sortedb h.
Lemma freeze_pre_tl : forall s h, freeze_pre (s :: h) = true -> freeze_pre h = true.
Proof.
  intros s h H. unfold freeze_pre in *. apply andb_prop in H. destruct H as [H1 H2].
  rewrite (base_pre_tl _ _ _ H1). apply sortedb_cons in H2. destruct H2 as [-> _]. reflexivity.
Qed.

Theorem FREEZE_inv : forall h, freeze_pre h = true -> clean (outs (fstep FREEZE) h) = true ->
  freeze_rel (freeze_held h, newest_time h) (state_after (fstep FREEZE) h)
  /\ (h <> [] -> last_out (fstep FREEZE) h = spec_FREEZE h).
Proof.
  apply (run_invariant (fstep FREEZE) _ (fun h => (freeze_held h, newest_time h)) freeze_rel spec_FREEZE freeze_pre freeze_pre_tl).
  - cbn. auto.
  - intros now a older st st' o p Hp Hr Hs Hx. unfold freeze_pre in Hp. apply andb_prop in Hp. destruct Hp as [Hp Hsort].
    apply base_pre_cons in Hp. destruct Hp as [Ha Hnow]. apply sortedb_cons in Hsort. destruct Hsort as [_ Hle].
    assert (Hnt : newest_time older <= now) by (destruct older as [|[t' a'] r]; cbn in *; lia).
    cbn [arity_ok] in Ha. destruct (len2 _ Ha) as [v [d ->]].
    change (fstep FREEZE st now [v; d]) with (freeze_step st now v d) in Hs. unfold freeze_step in Hs.
    unfold spec_FREEZE, freeze_rel in *. cbn [freeze_held fst snd newest_time] in *.
    destruct (freeze_held older) as [[[t x] dur]|].
    + destruct Hr as [H1 [[H2 [H3 H4]] | [H2 H5]]].
      * (* timer active *)
        rewrite H2, H3 in Hs. assert (t =? 0 = false) as E0 by (apply Z.eqb_neq; exact H4). rewrite E0 in Hs.
        destruct (py_gt (VInt (now - t)) dur) eqn:Eg; cbn [andb].
        -- unfold freeze_idle in Hs. replace (s_last (set_time st 0)) with (Some x) in Hs by (destruct st; exact (eq_sym H1)).
           cbn [opt_ne] in Hs. destruct (py_ne v x).
           ++ inv Hs. destruct st as [f1 f2 f3 f4 f5 f6 f7 f8]. cbn. split; [|reflexivity]. split; [reflexivity|]. left. repeat split; lia.
           ++ inv Hs. destruct st as [f1 f2 f3 f4 f5 f6 f7 f8]. cbn in *. subst. split; [|reflexivity]. split; [reflexivity|]. right. auto.
        -- unfold pause_then in Hs. destruct (py_add _ _); inv Hs; [|discriminate]. rewrite H1. split; [|reflexivity].
           split; [reflexivity|]. left. auto.
      * (* idle, the freeze is over *)
        rewrite H2 in Hs. cbn [Z.eqb] in Hs. unfold freeze_idle in Hs. rewrite H1 in Hs. cbn [opt_ne] in Hs.
        assert (Eg : py_gt (VInt (now - t)) dur = true) by (eapply py_gt_mono; [|exact H5]; lia).
        rewrite Eg. cbn [andb]. destruct (py_ne v x).
        -- inv Hs. destruct st as [f1 f2 f3 f4 f5 f6 f7 f8]. cbn. split; [|reflexivity]. split; [reflexivity|]. left. repeat split; lia.
        -- inv Hs. rewrite H1. split; [|reflexivity]. split; [reflexivity|]. right. auto.
    + destruct Hr as [H1 H2]. rewrite H2 in Hs. cbn [Z.eqb] in Hs. unfold freeze_idle in Hs. rewrite H1 in Hs. cbn [opt_ne] in Hs.
      inv Hs. destruct st as [f1 f2 f3 f4 f5 f6 f7 f8]. cbn. split; [|reflexivity]. split; [reflexivity|]. left. repeat split; lia.
Qed.

Theorem FREEZE_spec : forall h, shaped FREEZE h = true -> times_pos h = true -> sortedb h = true ->
  clean (outs (fstep FREEZE) h) = true -> last_out (fstep FREEZE) h = spec_FREEZE h.
Proof.
  intros h H1 H2 H3 Hc. destruct h as [|s r]; [reflexivity|].
  apply FREEZE_inv; [unfold freeze_pre, base_pre; rewrite H1, H2, H3; reflexivity | exact Hc | discriminate].
Qed.

(* ------------------------------------------------------------------ HELD (either shape of the pause calls) *)
Definition held_rel (r : list sample) (st : fstate) : Prop :=
  match r with
  | [] => s_held st = HOff
  | (t0, _) :: later => s_time st = t0 /\ s_held st = if existsb (held_reached t0) later then HOn else HWaiting
  end.

Lemma HELD_inv_gen : forall b h, base_pre HELD h = true -> clean (outs (fstep_gen b HELD) h) = true ->
  held_rel (rev (held_run h)) (state_after (fstep_gen b HELD) h)
  /\ (h <> [] -> last_out (fstep_gen b HELD) h = spec_HELD h).
Proof.
  intro b.
  apply (run_invariant (fstep_gen b HELD) _ (fun h => rev (held_run h)) held_rel spec_HELD (base_pre HELD) (base_pre_tl HELD)).
  - reflexivity.
  - intros now a older st st' o p Hp Hr Hs Hx. apply base_pre_cons in Hp. destruct Hp as [Ha Hnow].
    cbn [arity_ok] in Ha. destruct (len3 _ Ha) as [v [fx [d ->]]].
    change (fstep_gen b HELD st now [v; fx; d]) with (held_step b st now v fx d) in Hs. unfold held_step in Hs.
    assert (Hm : held_match (now, [v; fx; d]) = py_eq v fx) by reflexivity.
    assert (Hre : forall t0, held_reached t0 (now, [v; fx; d]) = py_ge (VInt (now - t0)) d) by reflexivity.
    unfold spec_HELD, held_value. cbn [held_run]. rewrite Hm.
    destruct (py_eq v fx) eqn:Eq.
    + cbn [rev]. destruct (rev (held_run older)) as [|[t0 a0] later] eqn:Er; cbn [held_rel] in Hr.
      * (* the run starts here *)
        rewrite Hr in Hs. unfold pause_then in Hs. destruct (py_add _ _); inv Hs; [|discriminate].
        destruct st as [f1 f2 f3 f4 f5 f6 f7 f8]. cbn. auto.
      * destruct Hr as [Ht Hh]. cbn [app]. cbn [held_rel]. rewrite existsb_app. cbn [existsb]. rewrite orb_false_r.
        rewrite Hre.
        destruct (existsb (held_reached t0) later) eqn:Ee; rewrite Hh in Hs.
        -- inv Hs. cbn [orb]. auto.
        -- rewrite Ht in Hs. cbn [orb]. destruct (py_ge (VInt (now - t0)) d).
           ++ inv Hs. destruct st as [f1 f2 f3 f4 f5 f6 f7 f8]. cbn in *. auto.
           ++ destruct b; [unfold pause_then in Hs; destruct (py_add _ _); inv Hs; [|discriminate] | inv Hs]; auto.
    + inv Hs. destruct st as [f1 f2 f3 f4 f5 f6 f7 f8]. cbn. auto.
Qed.

Theorem HELD_spec_gen : forall b h, shaped HELD h = true -> times_pos h = true ->
  clean (outs (fstep_gen b HELD) h) = true -> last_out (fstep_gen b HELD) h = spec_HELD h.
Proof.
  intros b h H1 H2 Hc. destruct h as [|s r]; [reflexivity|].
  apply HELD_inv_gen; [unfold base_pre; rewrite H1, H2; reflexivity | exact Hc | discriminate].
Qed.

Theorem HELD_spec : forall h, shaped HELD h = true -> times_pos h = true ->
  clean (outs (fstep HELD) h) = true -> last_out (fstep HELD) h = spec_HELD h.
Proof. exact (HELD_spec_gen held_pause_fixed). Qed.
