(* C16 — which arguments are evaluated when, and what happens when an argument is unavailable or fails.
   A sample now carries the OUTCOME of each argument expression at that instant (value / unavailable / error), as it would
   be if the function object evaluated it.  [ostep] follows each `_eval` for the order of `self.eval_args(context)` and
   `self.args[i].eval(context)` relative to the early returns:
   * SAMPLE evaluates nothing while it holds; FREEZE evaluates nothing while its timer runs, only its first argument when
     idle, and the second one only when the value changed (after having written `_last_time_ms`);
   * every other function starts with eval_args (asyncio.gather: every argument is evaluated, the first failure in argument
     order is raised, nothing has been written yet) — except SEQUENCE, which stamps `_last_time_ms` first;
   * Expression.eval: ValueUnavailable passes through, any other ExpressionEvalError pauses the expression for 1000 ms.
   Besides state, outcome and pause, [ostep] returns the positions of the arguments it evaluated.  Definitions only. *)
From QT Require Export C16.Spec.
Open Scope Z_scope.

Inductive argo := AVal (v : pyval) | AUnavail | AErr.
Inductive xout := XOut (o : outc) | XUnavail | XErr.

Definition ostep_result := (fstate * xout * pause * list nat)%type.

Definition osample := (Z * list argo)%type.
Definition ohist := list osample.            (* newest first *)

Definition afail (a : argo) : option xout := match a with AVal _ => None | AUnavail => Some XUnavail | AErr => Some XErr end.

(* gather: the first failing argument in argument order *)
Fixpoint first_fail (ao : list argo) : option xout :=
  match ao with [] => None | a :: r => match afail a with Some x => Some x | None => first_fail r end end.

(* the values (a placeholder where there is none: only used where the code does not look) *)
Definition aval (a : argo) : pyval := match a with AVal v => v | _ => VInt 0 end.
Definition vals_of (ao : list argo) : list pyval := map aval ao.

(* what Expression.eval does with the exception on its way out *)
Definition fail_pause (x : xout) (now : Z) : pause :=
  match x with XErr => PUntil (VInt (now + 1000)) | _ => PNone end.

Definition all_idx (ao : list argo) : list nat := seq 0 (length ao).

Definition lift (r : step_result) (ev : list nat) : ostep_result := let '(st, o, p) := r in (st, XOut o, p, ev).

(* `args = await self.eval_args(context)` as the first statement *)
Definition eager (stepv : fstate -> Z -> list pyval -> step_result) (st : fstate) (now : Z) (ao : list argo) : ostep_result :=
  match first_fail ao with
  | Some x => (st, x, fail_pause x now, all_idx ao)
  | None => lift (stepv st now (vals_of ao)) (all_idx ao)
  end.

Definition sample_holding (st : fstate) (now : Z) : bool := py_lt (VInt (now - s_time st)) (s_dur st).

Definition freeze_idle_o (st : fstate) (now : Z) (ao : list argo) : ostep_result :=
  match ao with
  | [a0; a1] =>
      match a0 with
      | AVal v =>
          if opt_ne v (s_last st) then
            match a1 with
            | AVal d => (set_last (set_dur (set_time st now) d) (Some v), XOut (OVal v), PNone, [0; 1]%nat)
            | _ => let x := match afail a1 with Some x => x | None => XErr end in
                   (set_time st now, x, fail_pause x now, [0; 1]%nat)        (* _last_time_ms is already written *)
            end
          else (st, XOut (out_opt (s_last st)), PForever, [0%nat])
      | _ => let x := match afail a0 with Some x => x | None => XErr end in (st, x, fail_pause x now, [0%nat])
      end
  | _ => (st, XOut (OExc 4), PNone, [])
  end.

Definition ostep_gen (fixed : bool) (f : fn) (st : fstate) (now : Z) (ao : list argo) : ostep_result :=
  match f with
  | SAMPLE =>
      match ao with
      | [_; _] =>
          if sample_holding st now then lift (sample_step st now (VInt 0) (VInt 0)) []
          else eager (fstep_gen fixed SAMPLE) st now ao
      | _ => (st, XOut (OExc 4), PNone, [])
      end
  | FREEZE =>
      if s_time st =? 0 then freeze_idle_o st now ao
      else if py_gt (VInt (now - s_time st)) (s_dur st) then freeze_idle_o (set_time st 0) now ao
      else lift (pause_then st (py_add (VInt (s_time st)) (s_dur st)) (out_opt (s_last st))) []
  | SEQUENCE =>
      let st' := if s_time st =? 0 then set_time st now else st in
      eager (fstep_gen fixed SEQUENCE) st' now ao
  | _ => eager (fstep_gen fixed f) st now ao
  end.

Definition ostep : fn -> fstate -> Z -> list argo -> ostep_result := ostep_gen held_pause_fixed.

(* ------------------------------------------------------------------ specification with argument outcomes
   The *effective* history is the value history the function has really seen.  One sample either enters it (EKeep: the
   function ran on these values — placeholders stand where it did not look), or leaves it untouched because the function
   failed before touching its memory (EDrop x: the evaluation raises x), or puts the history outside the specification
   (EStop: FREEZE whose duration argument fails right after a detected change; SEQUENCE failing before it ever ran).
   For FREEZE a dropped sample at expiry does write `_last_time_ms = 0`; that is invisible only while the times of the WHOLE
   outcome history (dropped samples included) do not decrease — the case runner (Run.v check_spec) stops there.
   Hold laws, stated on this: while SAMPLE holds / FREEZE's timer runs the sample is kept WHATEVER the arguments do, so the
   output is the held value also when the input is unavailable or fails; and no argument is evaluated. *)
Inductive effres := EKeep (s : sample) | EDrop (x : xout) | EStop.

Definition eff_eager (now : Z) (ao : list argo) : effres :=
  match first_fail ao with Some x => EDrop x | None => EKeep (now, vals_of ao) end.

Definition eff_step (f : fn) (h : hist) (s : osample) : effres :=
  let '(now, ao) := s in
  match f with
  | SAMPLE =>
      match sample_held h with
      | Some (t, _, dur) => if py_lt (VInt (now - t)) dur then EKeep (now, vals_of ao) else eff_eager now ao
      | None => eff_eager now ao
      end
  | FREEZE =>
      let idle (frozen : option pyval) :=
        match ao with
        | [AVal v; a1] =>
            if opt_ne v frozen then match a1 with AVal d => EKeep (now, [v; d]) | _ => EStop end
            else EKeep (now, [v; VInt 0])
        | [a0; _] => match afail a0 with Some x => EDrop x | None => EStop end
        | _ => EStop
        end in
      match freeze_held h with
      | Some (t, x, dur) => if py_gt (VInt (now - t)) dur then idle (Some x) else EKeep (now, vals_of ao)
      | None => idle None
      end
  | SEQUENCE => match h, first_fail ao with [], Some _ => EStop | _, _ => eff_eager now ao end
  | _ => eff_eager now ao
  end.

(* the positions the specification says are evaluated *)
Definition spec_evaluated (f : fn) (h : hist) (s : osample) : list nat :=
  let '(now, ao) := s in
  match f with
  | SAMPLE =>
      match sample_held h with
      | Some (t, _, dur) => if py_lt (VInt (now - t)) dur then [] else all_idx ao
      | None => all_idx ao
      end
  | FREEZE =>
      let idle (frozen : option pyval) :=
        match ao with AVal v :: _ => if opt_ne v frozen then [0; 1]%nat else [0%nat] | _ => [0%nat] end in
      match freeze_held h with
      | Some (t, x, dur) => if py_gt (VInt (now - t)) dur then idle (Some x) else []
      | None => idle None
      end
  | _ => all_idx ao
  end.

(* effective history of a whole outcome history; None = outside the specification *)
Fixpoint eff_hist (f : fn) (oh : ohist) : option hist :=
  match oh with
  | [] => Some []
  | s :: older =>
      match eff_hist f older with
      | None => None
      | Some h => match eff_step f h s with EKeep s' => Some (s' :: h) | EDrop _ => Some h | EStop => None end
      end
  end.

(* the specified outcome of the newest evaluation *)
Definition spec_o (f : fn) (oh : ohist) : option xout :=
  match oh with
  | [] => None
  | s :: older =>
      match eff_hist f older with
      | None => None
      | Some h => match eff_step f h s with EKeep s' => Some (XOut (spec_of f (s' :: h))) | EDrop x => Some x | EStop => None end
      end
  end.

(* spec_pre DELAY of a history extended by one sample, from spec_pre DELAY of the history (C16/ArgThm.v: delay_pre_inc);
   lets the case runner check the precondition in one pass *)
Definition delay_top (s : sample) (h : hist) : bool :=
  match h with s' :: _ => (fst s' <=? fst s) && option_eqb pyval_eqb (arg_of 1 s) (arg_of 1 s') | [] => true end
  && match s with
     | (now, [_; d]) =>
         Z.of_nat (length (filter (fun tv => negb (old_enough now d tv)) (transitions (s :: h)))) <? delay_history_size - 1
     | _ => true
     end.

Section ORun.
  Variable step : fstate -> Z -> list argo -> ostep_result.
  Fixpoint ostate_after (oh : ohist) : fstate :=
    match oh with [] => st0 | (now, ao) :: older => fst (fst (fst (step (ostate_after older) now ao))) end.
  Definition olast (oh : ohist) : option (xout * list nat) :=
    match oh with [] => None | (now, ao) :: older => let '(_, x, _, ev) := step (ostate_after older) now ao in Some (x, ev) end.
End ORun.
