(* C16 — the hub's skipping of evaluations while the top-level function is paused never changes the value of the port.
   [paused_eval_noop]: after an evaluation that left the deadline D, an evaluation with the same arguments at any time
   now' < D changes neither the state nor the port's value.  [loops_agree]: hence gated and every-tick evaluation coincide.
   Stated for the model with HELD's repaired pause ([fstep_gen true]); transported to the generated model in GenOk.v. *)
From QT Require Import C16.Spec C16.Lemmas.
From Coq Require Import Lia.
Open Scope Z_scope.
Unset Lia Cache. Unset Nia Cache.

(* the time parameter (delay / duration / sampling interval) of the functions that pause *)
Definition tparam (f : fn) (a : list pyval) : option pyval :=
  match f, a with
  | DELAY, [_; d] | SAMPLE, [_; d] | FREEZE, [_; d] | DERIV, [_; d] => Some d
  | HELD, [_; _; d] | INTEG, [_; _; d] | FMAVG, [_; _; d] | FMEDIAN, [_; _; d] => Some d
  | _, _ => None
  end.

Definition nonneg_int (v : pyval) : bool := match v with VBool _ => true | VInt z => 0 <=? z | VFloat _ => false end.

(* the arguments the theorem speaks about: the time parameter is a non-negative Python int (or bool); DELAY's value is not NaN *)
Definition params_ok (f : fn) (a : list pyval) : bool :=
  match tparam f a with Some d => nonneg_int d | None => true end
  && match f, a with DELAY, v :: _ => py_eq v v | _, _ => true end.

Lemma nonneg_int_val : forall d, nonneg_int d = true -> exists z, int_val d z /\ 0 <= z.
Proof.
  intros [b | z | f]; cbn [nonneg_int]; intro H; try discriminate.
  - exists (if b then 1 else 0). split; [reflexivity | destruct b; lia].
  - exists z. split; [reflexivity | apply Z.leb_le; exact H].
Qed.

Definition good (st : fstate) : Prop :=
  (exists z, int_val (s_dur st) z /\ 0 <= z) /\ 0 <= s_time st /\ Forall (fun tv : Z * pyval => 0 <= fst tv) (s_queue st).

Lemma good_st0 : good st0.
Proof. repeat split; cbn; try lia. - exists 0. split; [reflexivity | lia]. - constructor. Qed.

Lemma upd_same : forall pv o, upd (upd pv o) o = upd pv o.
Proof. intros pv [v | | | c]; reflexivity. Qed.

Lemma not_paused_zero : forall now, 0 <= now -> is_paused now (deadline PNone) = true -> False.
Proof. intros now H. cbn [deadline]. rewrite is_paused_int. intro E. apply Z.ltb_lt in E. lia. Qed.

Lemma paused_until : forall now x, x <> 0 -> is_paused now (deadline (PUntil (VInt x))) = true -> now < x.
Proof.
  intros now x Hx. rewrite deadline_until_int. destruct (x =? 0) eqn:E; [apply Z.eqb_eq in E; lia|].
  rewrite is_paused_int. apply Z.ltb_lt.
Qed.

Ltac inv H := inversion H; subst; clear H.

(* the conclusion of the no-op lemma for one step function *)
Definition noop_concl (stepf : fstate -> Z -> step_result) (st : fstate) (o : outc) (p : pause) : Prop :=
  forall now', 0 <= now' -> is_paused now' (deadline p) = true ->
  exists o' p', stepf st now' = (st, o', p') /\ forall pv, upd (upd pv o) o' = upd pv o.

Lemma noop_none : forall stepf st o, noop_concl stepf st o PNone.
Proof. intros stepf st o now' H0 H. exfalso. eapply not_paused_zero; eauto. Qed.

(* ------------------------------------------------------------------ SAMPLE *)
Lemma sample_noop : forall st0' now v d st o p,
  good st0' -> 0 <= now -> sample_step st0' now v d = (st, o, p) ->
  noop_concl (fun s n => sample_step s n v d) st o p.
Proof.
  intros st0' now v d st o p [[z [Hz Hz0]] [Ht _]] Hnow H. unfold sample_step in H.
  rewrite (py_lt_int _ _ _ Hz) in H. rewrite (py_add_int _ _ _ Hz) in H. cbn [pause_then] in H.
  destruct (now - s_time st0' <? z) eqn:E.
  - inv H. apply Z.ltb_lt in E. intros now' Hn' Hp.
    assert (Hx : s_time st + z <> 0) by lia.
    apply (paused_until _ _ Hx) in Hp.
    exists (out_opt (s_last st)), (PUntil (VInt (s_time st + z))). split; [|intro; apply upd_same].
    unfold sample_step. rewrite (py_lt_int _ _ _ Hz), (py_add_int _ _ _ Hz).
    assert (now' - s_time st <? z = true) as -> by (apply Z.ltb_lt; lia). reflexivity.
  - inv H. apply noop_none.
Qed.

(* ------------------------------------------------------------------ FREEZE *)
Lemma freeze_idle_noop : forall s now v d st o p,
  s_time s = 0 -> freeze_idle s now v d = (st, o, p) ->
  noop_concl (fun s n => freeze_step s n v d) st o p.
Proof.
  intros s now v d st o p Hs H. unfold freeze_idle in H. destruct (opt_ne v (s_last s)) eqn:E.
  - inv H. apply noop_none.
  - inv H. intros now' _ _. exists (out_opt (s_last st)), PForever. split; [|intro; apply upd_same].
    unfold freeze_step. rewrite Hs. cbn [Z.eqb]. unfold freeze_idle. rewrite E. reflexivity.
Qed.

Lemma freeze_noop : forall st0' now v d st o p,
  good st0' -> 0 <= now -> freeze_step st0' now v d = (st, o, p) ->
  noop_concl (fun s n => freeze_step s n v d) st o p.
Proof.
  intros st0' now v d st o p [[z [Hz Hz0]] [Ht _]] Hnow H. unfold freeze_step in H.
  destruct (s_time st0' =? 0) eqn:E0.
  - apply Z.eqb_eq in E0. eapply freeze_idle_noop; eauto.
  - rewrite (py_gt_int _ _ _ Hz) in H. destruct (z <? now - s_time st0') eqn:E.
    + eapply freeze_idle_noop; [|exact H]. destruct st0'; reflexivity.
    + rewrite (py_add_int _ _ _ Hz) in H. cbn [pause_then] in H. inv H.
      apply Z.eqb_neq in E0. apply Z.ltb_ge in E. intros now' Hn' Hp.
      assert (Hx : s_time st + z <> 0) by lia.
      apply (paused_until _ _ Hx) in Hp.
      exists (out_opt (s_last st)), (PUntil (VInt (s_time st + z))). split; [|intro; apply upd_same].
      unfold freeze_step. assert (s_time st =? 0 = false) as -> by (apply Z.eqb_neq; lia).
      rewrite (py_gt_int _ _ _ Hz), (py_add_int _ _ _ Hz).
      assert (z <? now' - s_time st = false) as -> by (apply Z.ltb_ge; lia). reflexivity.
Qed.

(* ------------------------------------------------------------------ HELD (repaired pause) *)
Lemma held_noop : forall st0' now v fx d z st o p,
  good st0' -> 0 < now -> int_val d z -> 0 <= z -> held_step true st0' now v fx d = (st, o, p) ->
  noop_concl (fun s n => held_step true s n v fx d) st o p.
Proof.
  intros st0' now v fx d z st o p [_ [Ht _]] Hnow Hz Hz0 H. unfold held_step in H.
  destruct (py_eq v fx) eqn:Eq.
  - destruct (s_held st0') eqn:Eh.
    + (* OFF -> WAITING *)
      rewrite (py_add_int _ _ _ Hz) in H. cbn [pause_then] in H. inv H. intros now' Hn' Hp.
      assert (Hx : now + z <> 0) by lia. apply (paused_until _ _ Hx) in Hp.
      exists (OVal vfalse), (PUntil (VInt (now + z))). split; [|intro; reflexivity].
      unfold held_step. rewrite Eq. destruct st0' as [a1 a2 a3 a4 a5 a6 a7 a8]; cbv [s_held set_held set_time s_time s_last s_cur s_queue s_vals s_dur s_res].
      rewrite (py_ge_int _ _ _ Hz), (py_add_int _ _ _ Hz).
      assert (z <=? now' - now = false) as -> by (apply Z.leb_gt; lia). reflexivity.
    + (* WAITING *)
      rewrite (py_ge_int _ _ _ Hz) in H. destruct (z <=? now - s_time st0') eqn:E.
      * inv H. intros now' _ _. exists (OVal vtrue), PNone. split; [|intro; reflexivity].
        unfold held_step. rewrite Eq. destruct st0'; reflexivity.
      * rewrite (py_add_int _ _ _ Hz) in H. cbn [pause_then] in H. inv H. apply Z.leb_gt in E. intros now' Hn' Hp.
        assert (Hx : s_time st + z <> 0) by lia. apply (paused_until _ _ Hx) in Hp.
        exists (OVal vfalse), (PUntil (VInt (s_time st + z))). split; [|intro; reflexivity].
        unfold held_step. rewrite Eq, Eh. rewrite (py_ge_int _ _ _ Hz), (py_add_int _ _ _ Hz).
        assert (z <=? now' - s_time st = false) as -> by (apply Z.leb_gt; lia). reflexivity.
    + inv H. apply noop_none.
  - inv H. intros now' _ _. exists (OVal vfalse), PForever. split; [|intro; reflexivity].
    unfold held_step. rewrite Eq. destruct st0'; reflexivity.
Qed.

(* ------------------------------------------------------------------ DERIV / INTEG / FMAVG / FMEDIAN: the sampling guard *)
Lemma sampled_noop : forall formula st0' now v iv z st o p,
  good st0' -> 0 <= now -> int_val iv z -> 0 <= z -> sampled st0' now v iv formula = (st, o, p) ->
  noop_concl (fun s n => sampled s n v iv formula) st o p.
Proof.
  intros formula st0' now v iv z st o p [_ [Ht _]] Hnow Hz Hz0 H. unfold sampled in H.
  destruct (s_last st0') as [lv|] eqn:El; [|inv H; apply noop_none].
  rewrite (py_lt_int _ _ _ Hz) in H. destruct (now - s_time st0' <? z) eqn:E.
  - rewrite (py_add_int _ _ _ Hz) in H. cbn [pause_then] in H. inv H. apply Z.ltb_lt in E. intros now' Hn' Hp.
    assert (Hx : s_time st + z <> 0) by lia. apply (paused_until _ _ Hx) in Hp.
    exists OSkipped, (PUntil (VInt (s_time st + z))). split; [|intro; reflexivity].
    unfold sampled. rewrite El. rewrite (py_lt_int _ _ _ Hz), (py_add_int _ _ _ Hz).
    assert (now' - s_time st <? z = true) as -> by (apply Z.ltb_lt; lia). reflexivity.
  - destruct (now - s_time st0' >? time_jump_threshold); [inv H; apply noop_none|].
    destruct (formula lv (now - s_time st0')); inv H; apply noop_none.
Qed.

Lemma deriv_noop : forall st0' now v iv z st o p,
  good st0' -> 0 <= now -> int_val iv z -> 0 <= z -> deriv_step st0' now v iv = (st, o, p) ->
  noop_concl (fun s n => deriv_step s n v iv) st o p.
Proof.
  intros st0' now v iv z st o p Hg Hnow Hz Hz0 H. unfold deriv_step in H.
  destruct (s_last st0') eqn:El; [|inv H; apply noop_none].
  pose proof (sampled_noop _ _ _ _ _ _ _ _ _ Hg Hnow Hz Hz0 H) as N.
  intros now' Hn' Hp. destruct (N now' Hn' Hp) as [o' [p' [E1 E2]]]. exists o', p'. split; [|exact E2].
  unfold deriv_step. cbn beta in E1.
  assert (exists lv, s_last st = Some lv) as [lv' ->].
  { unfold sampled in H. rewrite El in H.
    destruct (py_lt _ _); [unfold pause_then in H; destruct (py_add _ _); inv H; eauto|].
    destruct (_ >? _); [inv H; cbn; eauto|]. destruct (deriv_formula _ _ _); inv H; cbn; eauto. }
  exact E1.
Qed.

Lemma integ_noop : forall st0' now v acc iv z st o p,
  good st0' -> 0 <= now -> int_val iv z -> 0 <= z -> integ_step st0' now v acc iv = (st, o, p) ->
  noop_concl (fun s n => integ_step s n v acc iv) st o p.
Proof.
  intros st0' now v acc iv z st o p Hg Hnow Hz Hz0 H. unfold integ_step in H.
  destruct (s_last st0') eqn:El; [|inv H; apply noop_none].
  pose proof (sampled_noop _ _ _ _ _ _ _ _ _ Hg Hnow Hz Hz0 H) as N.
  intros now' Hn' Hp. destruct (N now' Hn' Hp) as [o' [p' [E1 E2]]]. exists o', p'. split; [|exact E2].
  unfold integ_step. cbn beta in E1.
  assert (exists lv, s_last st = Some lv) as [lv' ->].
  { unfold sampled in H. rewrite El in H.
    destruct (py_lt _ _); [unfold pause_then in H; destruct (py_add _ _); inv H; eauto|].
    destruct (_ >? _); [inv H; cbn; eauto|]. destruct (integ_formula _ _ _ _); inv H; cbn; eauto. }
  exact E1.
Qed.

Lemma filter_noop : forall ag q st0' now v w iv z st o p,
  good st0' -> 0 <= now -> int_val iv z -> 0 <= z -> filter_step ag q st0' now v w iv = (st, o, p) ->
  noop_concl (fun s n => filter_step ag q s n v w iv) st o p.
Proof.
  intros ag q st0' now v w iv z st o p [_ [Ht _]] Hnow Hz Hz0 H. unfold filter_step in H.
  assert (Acc : forall r, match trim_width (S (length (s_vals st0'))) (py_min2 w (VInt q)) (s_vals st0') with
                 | None => (set_vals st0' [], OExc IndexErr, PNone)
                 | Some q0 =>
                     let q' := q0 ++ [v] in
                     let st' := set_time (set_vals st0' q') now in
                     match py_int (py_min2 w (VInt q)) with
                     | inr e => (st', OExc (exc_code e), PNone)
                     | inl k =>
                         let win := slice_last k q' in
                         match ag with
                         | AMean => match mean_of win with POk r0 => (st', OVal r0, PNone) | PErr e => (st', OExc (exc_code e), PNone) end
                         | AMedian => match median_of win with Some r0 => (st', OVal r0, PNone) | None => (st', OExc IndexErr, PNone) end
                         end
                     end
                 end = r -> snd r = PNone).
  { intros r <-. destruct (trim_width _ _ _); [|reflexivity]. cbv zeta. destruct (py_int _); [|reflexivity].
    destruct ag; [destruct (mean_of _) | destruct (median_of _)]; reflexivity. }
  destruct (0 <? s_time st0') eqn:E0.
  - rewrite (py_lt_int _ _ _ Hz) in H. destruct (now - s_time st0' <? z) eqn:E.
    + rewrite (py_add_int _ _ _ Hz) in H. cbn [pause_then] in H. inv H. apply Z.ltb_lt in E. intros now' Hn' Hp.
      assert (Hx : s_time st + z <> 0) by lia. apply (paused_until _ _ Hx) in Hp.
      exists OSkipped, (PUntil (VInt (s_time st + z))). split; [|intro; reflexivity].
      unfold filter_step. rewrite E0. rewrite (py_lt_int _ _ _ Hz), (py_add_int _ _ _ Hz).
      assert (now' - s_time st <? z = true) as -> by (apply Z.ltb_lt; lia). reflexivity.
    + destruct (now - s_time st0' >? time_jump_threshold); [inv H; apply noop_none|].
      apply Acc in H. cbn [snd] in H. subst p. apply noop_none.
  - apply Acc in H. cbn [snd] in H. subst p. apply noop_none.
Qed.

(* ------------------------------------------------------------------ DELAY *)
Lemma delay_pop_spec : forall now d q cur q2 cur2,
  delay_pop now d q cur = (q2, cur2) ->
  (exists pre, q = pre ++ q2) /\
  (match q2 with (t, _) :: _ => py_ge (VInt (now - t)) d = false | [] => True end) /\
  (cur = None -> q2 = q -> cur2 = None) /\ (cur <> None -> cur2 <> None).
Proof.
  intros now d q. induction q as [|[t x] r IH]; intros cur q2 cur2 H; cbn [delay_pop] in H.
  - inv H. repeat split; auto. exists []. reflexivity.
  - destruct (py_ge (VInt (now - t)) d) eqn:E.
    + destruct (IH _ _ _ H) as [[pre Hp] [Hh [_ Hn]]]. repeat split; auto.
      * exists ((t, x) :: pre). rewrite Hp. reflexivity.
      * intros _ Hq. exfalso. apply (f_equal (@length _)) in Hp. rewrite app_length in Hp.
        rewrite Hq in Hp. cbn [length] in Hp. lia.
      * intros _. apply Hn. discriminate.
    + inv H. repeat split; auto. exists []. reflexivity.
Qed.

Lemma delay_pop_stay : forall now d q cur,
  (match q with (t, _) :: _ => py_ge (VInt (now - t)) d = false | [] => True end) ->
  delay_pop now d q cur = (q, cur).
Proof. intros now d [|[t x] r] cur H; cbn [delay_pop]; [reflexivity | rewrite H; reflexivity]. Qed.

Lemma Forall_skipn : forall A (P : A -> Prop) n l, Forall P l -> Forall P (skipn n l).
Proof. intros A P n. induction n; intros l H; [exact H|]. destruct l; [constructor|]. cbn. apply IHn. inversion H; assumption. Qed.

Lemma Forall_suffix : forall A (P : A -> Prop) pre l, Forall P (pre ++ l) -> Forall P l.
Proof. intros A P pre. induction pre; intros l H; [exact H|]. apply IHpre. inversion H; assumption. Qed.

Lemma delay_noop : forall st0' now v d z st o p,
  good st0' -> 0 <= now -> int_val d z -> 0 <= z -> py_eq v v = true -> delay_step st0' now v d = (st, o, p) ->
  noop_concl (fun s n => delay_step s n v d) st o p /\ good st.
Proof.
  intros st0' now v d z st o p [Hd [Ht Hq]] Hnow Hz Hz0 Hvv H. unfold delay_step in H.
  set (cur := match s_cur st0' with None => Some v | c => c end) in H.
  assert (Hcur : cur <> None) by (unfold cur; destruct (s_cur st0'); discriminate).
  destruct (if opt_ne v (s_last st0') then (trim_hist (s_queue st0') ++ [(now, v)], Some v) else (s_queue st0', s_last st0'))
    as [q1 last1] eqn:E1.
  assert (Hlast : opt_ne v last1 = false).
  { destruct (opt_ne v (s_last st0')) eqn:En; inv E1; [|exact En]. cbn [opt_ne]. unfold py_ne. rewrite Hvv. reflexivity. }
  assert (Hq1 : Forall (fun tv : Z * pyval => 0 <= fst tv) q1).
  { destruct (opt_ne v (s_last st0')); inv E1; [|exact Hq]. apply Forall_app. split.
    - unfold trim_hist. apply Forall_skipn. exact Hq.
    - constructor; [cbn; lia | constructor]. }
  destruct (delay_pop now d q1 cur) as [q2 cur2] eqn:E2.
  destruct (delay_pop_spec _ _ _ _ _ _ E2) as [[pre Hpre] [Hhead [_ Hc2]]].
  specialize (Hc2 Hcur).
  assert (Hq2 : Forall (fun tv : Z * pyval => 0 <= fst tv) q2) by (subst q1; eapply Forall_suffix; eauto).
  set (st' := set_cur (set_queue (set_last st0' last1) q2) cur2) in H.
  assert (Hgood : good st') by (destruct st0'; repeat split; cbn; auto).
  assert (Hstep : forall now', (match q2 with (t, _) :: _ => py_ge (VInt (now' - t)) d = false | [] => True end) ->
            exists p', delay_step st' now' v d = (st', out_opt cur2, p')).
  { intros now' Hh. unfold delay_step.
    assert (s_cur st' = cur2) as -> by (destruct st0'; reflexivity).
    assert (s_last st' = last1) as -> by (destruct st0'; reflexivity).
    assert (s_queue st' = q2) as -> by (destruct st0'; reflexivity).
    rewrite Hlast. destruct cur2 as [c2|]; [|congruence].
    rewrite (delay_pop_stay _ _ _ _ Hh).
    assert (set_cur (set_queue (set_last st' last1) q2) (Some c2) = st') as -> by (destruct st0'; reflexivity).
    destruct q2 as [|[t x] r]; rewrite (py_add_int _ _ _ Hz); cbn [pause_then]; eauto. }
  destruct q2 as [|[t x] r].
  - rewrite (py_add_int _ _ _ Hz) in H. cbn [pause_then] in H. inv H. split; [|exact Hgood].
    intros now' Hn' Hp. destruct (Hstep now' I) as [p' Hs]. exists (out_opt cur2), p'. split; [exact Hs | intro; apply upd_same].
  - rewrite (py_add_int _ _ _ Hz) in H. cbn [pause_then] in H. inv H. split; [|exact Hgood].
    intros now' Hn' Hp.
    rewrite (py_ge_int _ _ _ Hz) in Hhead. apply Z.leb_gt in Hhead.
    assert (Ht0 : 0 <= t) by (inversion Hq2; assumption).
    assert (Hx : t + z <> 0) by lia. apply (paused_until _ _ Hx) in Hp.
    assert (Hh : py_ge (VInt (now' - t)) d = false) by (rewrite (py_ge_int _ _ _ Hz); apply Z.leb_gt; lia).
    destruct (Hstep now' Hh) as [p' Hs]. exists (out_opt cur2), p'. split; [exact Hs | intro; apply upd_same].
Qed.

(* ------------------------------------------------------------------ functions that never pause *)
Ltac destr_all H :=
  repeat match type of H with context [match ?x with _ => _ end] => destruct x eqn:? end.

Lemma edge_pnone : forall cmp st v st' o p, edge_step cmp st v = (st', o, p) -> p = PNone.
Proof. intros. unfold edge_step in H. inv H. reflexivity. Qed.
Lemma acc_pnone : forall b st v acc st' o p, acc_step b st v acc = (st', o, p) -> p = PNone.
Proof. intros. unfold acc_step in H. destr_all H; inv H; reflexivity. Qed.
Lemma hyst_pnone : forall st v t1 t2 st' o p, hyst_step st v t1 t2 = (st', o, p) -> p = PNone.
Proof. intros. unfold hyst_step in H. inv H. reflexivity. Qed.
Lemma sequence_pnone : forall st now a st' o p, sequence_step st now a = (st', o, p) -> p = PNone.
Proof. intros. unfold sequence_step in H. cbv zeta in H. destr_all H; inv H; reflexivity. Qed.

Lemma fstep_sequence : forall b st now a, fstep_gen b SEQUENCE st now a = sequence_step st now a.
Proof. intros. unfold fstep_gen. reflexivity. Qed.

(* ------------------------------------------------------------------ the invariant is kept *)
Lemma good_intro : forall st d t q,
  (exists z, int_val d z /\ 0 <= z) -> 0 <= t -> Forall (fun tv : Z * pyval => 0 <= fst tv) q ->
  s_dur st = d -> s_time st = t -> s_queue st = q -> good st.
Proof. intros st d t q H1 H2 H3 <- <- <-. repeat split; assumption. Qed.

Ltac good_tac Hg :=
  destruct Hg as [Hgd [Hgt Hgq]];
  match goal with |- good ?s => apply (good_intro s (s_dur s) (s_time s) (s_queue s)); try reflexivity end;
  match goal with st : fstate |- _ => destruct st as [f1 f2 f3 f4 f5 f6 f7 f8] end;
  cbv [s_dur s_time s_queue set_last set_cur set_queue set_vals set_dur set_time set_held set_res accept_last
       s_last s_cur s_vals s_held s_res] in *; auto; try lia.

Lemma good_step : forall f st now a st' o p,
  good st -> 0 <= now -> params_ok f a = true -> fstep_gen true f st now a = (st', o, p) -> good st'.
Proof.
  intros f st now a st' o p Hg Hnow Hp H.
  destruct f.
  - (* DELAY *)
    destruct a as [|v [|d [|x l]]]; cbn [fstep_gen] in H; try (inv H; exact Hg).
    unfold params_ok in Hp. cbn [tparam] in Hp. apply andb_prop in Hp. destruct Hp as [Hp1 Hp2].
    destruct (nonneg_int_val _ Hp1) as [z [Hz Hz0]].
    exact (proj2 (delay_noop _ _ _ _ _ _ _ _ Hg Hnow Hz Hz0 Hp2 H)).
  - (* SAMPLE *)
    destruct a as [|v [|d [|x l]]]; cbn [fstep_gen] in H; try (inv H; exact Hg).
    unfold params_ok in Hp. cbn [tparam] in Hp. apply andb_prop in Hp. destruct Hp as [Hp1 _].
    pose proof (nonneg_int_val _ Hp1) as Hd.
    unfold sample_step, pause_then in H. destr_all H; inv H; good_tac Hg.
  - (* FREEZE *)
    destruct a as [|v [|d [|x l]]]; cbn [fstep_gen] in H; try (inv H; exact Hg).
    unfold params_ok in Hp. cbn [tparam] in Hp. apply andb_prop in Hp. destruct Hp as [Hp1 _].
    pose proof (nonneg_int_val _ Hp1) as Hd.
    unfold freeze_step, freeze_idle, pause_then in H. destr_all H; inv H; good_tac Hg.
  - (* HELD *)
    destruct a as [|v [|fx [|d [|x l]]]]; cbn [fstep_gen] in H; try (inv H; exact Hg).
    unfold held_step, pause_then in H. destr_all H; inv H; good_tac Hg.
  - (* DERIV *)
    destruct a as [|v [|d [|x l]]]; cbn [fstep_gen] in H; try (inv H; exact Hg).
    unfold deriv_step, sampled, pause_then in H. destr_all H; inv H; good_tac Hg.
  - (* INTEG *)
    destruct a as [|v [|acc [|d [|x l]]]]; cbn [fstep_gen] in H; try (inv H; exact Hg).
    unfold integ_step, sampled, pause_then in H. destr_all H; inv H; good_tac Hg.
  - (* FMAVG *)
    destruct a as [|v [|w [|d [|x l]]]]; cbn [fstep_gen] in H; try (inv H; exact Hg).
    unfold filter_step, pause_then in H. cbv zeta in H. destr_all H; inv H; good_tac Hg.
  - (* FMEDIAN *)
    destruct a as [|v [|w [|d [|x l]]]]; cbn [fstep_gen] in H; try (inv H; exact Hg).
    unfold filter_step, pause_then in H. cbv zeta in H. destr_all H; inv H; good_tac Hg.
  - destruct a as [|v [|x l]]; cbn [fstep_gen] in H; try (inv H; exact Hg); try (unfold edge_step in H; inv H; good_tac Hg).
  - destruct a as [|v [|x l]]; cbn [fstep_gen] in H; try (inv H; exact Hg); try (unfold edge_step in H; inv H; good_tac Hg).
  - destruct a as [|v [|acc [|x l]]]; cbn [fstep_gen] in H; try (inv H; exact Hg);
    try (unfold acc_step in H; destr_all H; inv H; good_tac Hg).
  - destruct a as [|v [|acc [|x l]]]; cbn [fstep_gen] in H; try (inv H; exact Hg);
    try (unfold acc_step in H; destr_all H; inv H; good_tac Hg).
  - destruct a as [|v [|t1 [|t2 [|x l]]]]; cbn [fstep_gen] in H; try (inv H; exact Hg);
    try (unfold hyst_step in H; inv H; good_tac Hg).
  - rewrite fstep_sequence in H. unfold sequence_step in H. cbv zeta in H. destr_all H; inv H; good_tac Hg.
Qed.

(* ------------------------------------------------------------------ the generic lemma *)
Lemma paused_eval_noop : forall f st0' now a st o p,
  good st0' -> 0 < now -> params_ok f a = true -> fstep_gen true f st0' now a = (st, o, p) ->
  forall now', 0 <= now' -> is_paused now' (deadline p) = true ->
  exists o' p', fstep_gen true f st now' a = (st, o', p') /\ forall pv, upd (upd pv o) o' = upd pv o.
Proof.
  intros f st0' now a st o p Hg Hnow Hp H.
  assert (Hnow0 : 0 <= now) by lia.
  change (noop_concl (fun s n => fstep_gen true f s n a) st o p).
  destruct f.
  - destruct a as [|v [|d [|x l]]]; cbn [fstep_gen] in *; try (inv H; apply noop_none).
    unfold params_ok in Hp. cbn [tparam] in Hp. apply andb_prop in Hp. destruct Hp as [Hp1 Hp2].
    destruct (nonneg_int_val _ Hp1) as [z [Hz Hz0]].
    exact (proj1 (delay_noop _ _ _ _ _ _ _ _ Hg Hnow0 Hz Hz0 Hp2 H)).
  - destruct a as [|v [|d [|x l]]]; cbn [fstep_gen] in *; try (inv H; apply noop_none).
    eapply (sample_noop st0' now); eauto.
  - destruct a as [|v [|d [|x l]]]; cbn [fstep_gen] in *; try (inv H; apply noop_none).
    eapply (freeze_noop st0' now); eauto.
  - destruct a as [|v [|fx [|d [|x l]]]]; cbn [fstep_gen] in *; try (inv H; apply noop_none).
    unfold params_ok in Hp. cbn [tparam] in Hp. apply andb_prop in Hp. destruct Hp as [Hp1 _].
    destruct (nonneg_int_val _ Hp1) as [z [Hz Hz0]]. eapply (held_noop st0' now); eauto.
  - destruct a as [|v [|d [|x l]]]; cbn [fstep_gen] in *; try (inv H; apply noop_none).
    unfold params_ok in Hp. cbn [tparam] in Hp. apply andb_prop in Hp. destruct Hp as [Hp1 _].
    destruct (nonneg_int_val _ Hp1) as [z [Hz Hz0]]. eapply (deriv_noop st0' now); eauto.
  - destruct a as [|v [|acc [|d [|x l]]]]; cbn [fstep_gen] in *; try (inv H; apply noop_none).
    unfold params_ok in Hp. cbn [tparam] in Hp. apply andb_prop in Hp. destruct Hp as [Hp1 _].
    destruct (nonneg_int_val _ Hp1) as [z [Hz Hz0]]. eapply (integ_noop st0' now); eauto.
  - destruct a as [|v [|w [|d [|x l]]]]; cbn [fstep_gen] in *; try (inv H; apply noop_none).
    unfold params_ok in Hp. cbn [tparam] in Hp. apply andb_prop in Hp. destruct Hp as [Hp1 _].
    destruct (nonneg_int_val _ Hp1) as [z [Hz Hz0]]. eapply (filter_noop _ _ st0' now); eauto.
  - destruct a as [|v [|w [|d [|x l]]]]; cbn [fstep_gen] in *; try (inv H; apply noop_none).
    unfold params_ok in Hp. cbn [tparam] in Hp. apply andb_prop in Hp. destruct Hp as [Hp1 _].
    destruct (nonneg_int_val _ Hp1) as [z [Hz Hz0]]. eapply (filter_noop _ _ st0' now); eauto.
  - destruct a as [|v [|x l]]; cbn [fstep_gen] in *; try (inv H; apply noop_none);
    try (rewrite (edge_pnone _ _ _ _ _ _ H); apply noop_none).
  - destruct a as [|v [|x l]]; cbn [fstep_gen] in *; try (inv H; apply noop_none);
    try (rewrite (edge_pnone _ _ _ _ _ _ H); apply noop_none).
  - destruct a as [|v [|acc [|x l]]]; cbn [fstep_gen] in *; try (inv H; apply noop_none);
    try (rewrite (acc_pnone _ _ _ _ _ _ _ H); apply noop_none).
  - destruct a as [|v [|acc [|x l]]]; cbn [fstep_gen] in *; try (inv H; apply noop_none);
    try (rewrite (acc_pnone _ _ _ _ _ _ _ H); apply noop_none).
  - destruct a as [|v [|t1 [|t2 [|x l]]]]; cbn [fstep_gen] in *; try (inv H; apply noop_none);
    try (rewrite (hyst_pnone _ _ _ _ _ _ _ H); apply noop_none).
  - rewrite fstep_sequence in H. rewrite (sequence_pnone _ _ _ _ _ _ H). apply noop_none.
Qed.

(* ------------------------------------------------------------------ gated = every tick *)

(* ticks the theorem speaks about: positive times, arguments as in [params_ok], and "no dependency changed" really means
   that the arguments are those of the previous tick *)
Fixpoint ticks_ok (f : fn) (prev : option (list pyval)) (ts : list tick) : Prop :=
  match ts with
  | [] => True
  | (now, changed, a) :: r =>
      0 < now /\ params_ok f a = true /\ (changed = false -> match prev with Some a' => a = a' | None => True end)
      /\ ticks_ok f (Some a) r
  end.

Section Loops.
  Variable f : fn.
  Let step := fstep_gen true f.

  (* what the gated run knows about the state it is sitting on: evaluating again before the deadline is a no-op *)
  Definition covered (st : fstate) (dl : pyval) (pv : option pyval) (a : list pyval) : Prop :=
    forall now', 0 <= now' -> is_paused now' dl = true ->
    exists o' p', step st now' a = (st, o', p') /\ upd pv o' = pv.

  Lemma loops_agree : forall ts st dl pv first prev,
    good st ->
    (first = false -> exists a, prev = Some a /\ covered st dl pv a) ->
    ticks_ok f prev ts ->
    loop_pauses step st dl pv first ts = loop_every step st pv ts.
  Proof.
    induction ts as [|[[now changed] a] r IH]; intros st dl pv first prev Hg Hcov Hok; [reflexivity|].
    cbn [ticks_ok] in Hok. destruct Hok as [Hnow [Hpar [Hsame Hrest]]].
    cbn [loop_pauses loop_every].
    destruct (negb first && negb changed && is_paused now dl) eqn:Eskip.
    - (* skipped by the hub: the every-tick run evaluates, to no effect *)
      apply andb_prop in Eskip. destruct Eskip as [E12 Ep]. apply andb_prop in E12. destruct E12 as [Ef Ec].
      apply negb_true_iff in Ef. apply negb_true_iff in Ec.
      destruct (Hcov Ef) as [a' [-> Hc]]. specialize (Hsame Ec). cbn in Hsame. subst a'.
      destruct (Hc now (ltac:(lia)) Ep) as [o' [p' [Hs Hu]]]. rewrite Hs. rewrite Hu.
      f_equal. apply (IH st dl pv false (Some a)); auto;
      try (intros _; exists a; split; [reflexivity | exact Hc]).
    - destruct (step st now a) as [[st' o] p] eqn:Hs.
      f_equal. apply (IH st' (deadline p) (upd pv o) false (Some a)); auto.
      + eapply good_step; eauto. lia.
      + intros _. exists a. split; [reflexivity|]. intros now' Hn' Hp'.
        destruct (paused_eval_noop f st now a st' o p Hg Hnow Hpar Hs now' Hn' Hp') as [o' [p' [E1 E2]]].
        exists o', p'. split; [exact E1 | apply E2].
  Qed.

  Theorem pause_invariant_fixed : forall ts,
    ticks_ok f None ts -> run_with_pauses step ts = run_every_tick step ts.
  Proof.
    intros ts H. unfold run_with_pauses, run_every_tick.
    apply (loops_agree ts st0 (VInt 0) None true None); [apply good_st0 | discriminate | exact H].
  Qed.
End Loops.
