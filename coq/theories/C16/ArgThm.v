(* C16 — arguments that are unavailable or fail, and which arguments are evaluated when.
   * [ostep_values]: on plain values ostep is fstep (the outcome model extends the value model);
   * hold laws: while SAMPLE holds / FREEZE's timer runs, the step does not depend on the argument outcomes at all and
     evaluates no argument — the output is the held value whatever the input does, also unavailable or failing;
   * eager functions: a failing argument leaves the memory untouched, every argument is evaluated;
   * history level (all functions with eval_args first, and SAMPLE): the function object's state after an outcome history
     is its state after the *effective* value history, and the newest outcome is [spec_o]. *)
From QT Require Import C16.Spec C16.ArgModel C16.Lemmas C16.SimpleThm C16.HoldThm C16.SampledThm C16.SeqThm C16.DelayThm
  C16.FilterThm.
From Coq Require Import Lia.
Open Scope Z_scope.
Unset Lia Cache.

Ltac inv H := inversion H; subst; clear H.

Definition proj3 (r : ostep_result) : fstate * xout * pause := fst r.
Definition xlift (r : step_result) : fstate * xout * pause := let '(st, o, p) := r in (st, XOut o, p).

Lemma first_fail_vals : forall a, first_fail (map AVal a) = None.
Proof. induction a; [reflexivity | exact IHa]. Qed.
Lemma vals_of_vals : forall a, vals_of (map AVal a) = a.
Proof. induction a as [|x r IH]; [reflexivity|]. cbn. f_equal. exact IH. Qed.

Lemma eager_values : forall stepv st now a, proj3 (eager stepv st now (map AVal a)) = xlift (stepv st now a).
Proof.
  intros. unfold eager. rewrite first_fail_vals, vals_of_vals. unfold lift, proj3, xlift.
  destruct (stepv st now a) as [[s o] p]. reflexivity.
Qed.

(* SAMPLE's holding branch does not look at its arguments *)
Lemma sample_hold_indep : forall st now v d v' d',
  sample_holding st now = true -> sample_step st now v d = sample_step st now v' d'.
Proof. intros st now v d v' d' H. unfold sample_step. unfold sample_holding in H. rewrite H. reflexivity. Qed.

Lemma sample_not_holding : forall b st now v d,
  sample_holding st now = false -> fstep_gen b SAMPLE st now [v; d] = (set_time (set_dur (set_last st (Some v)) d) now, OVal v, PNone).
Proof. intros b st now v d H. cbn [fstep_gen]. unfold sample_step. unfold sample_holding in H. rewrite H. reflexivity. Qed.

(* SEQUENCE stamps its start time before evaluating its arguments; doing it twice changes nothing *)
Lemma seq_stamp : forall b st now a,
  fstep_gen b SEQUENCE (if s_time st =? 0 then set_time st now else st) now a = fstep_gen b SEQUENCE st now a.
Proof.
  intros b st now a. change (fstep_gen b SEQUENCE) with (fun s n x => sequence_step s n x). cbv beta.
  destruct (s_time st =? 0) eqn:E; [|reflexivity].
  unfold sequence_step. destruct st as [f1 f2 f3 f4 f5 f6 f7 f8]. cbn [set_time s_time] in *. rewrite E.
  destruct (now =? 0); reflexivity.
Qed.

(* ------------------------------------------------------------------ the outcome model extends the value model *)
Theorem ostep_values : forall b f st now a, arity_ok f a = true ->
  proj3 (ostep_gen b f st now (map AVal a)) = xlift (fstep_gen b f st now a).
Proof.
  intros b f st now a Ha. destruct f; try apply eager_values.
  - (* SAMPLE *) cbn [arity_ok] in Ha. destruct (len2 _ Ha) as [v [d ->]]. cbn [ostep_gen map].
    destruct (sample_holding st now) eqn:E.
    + cbn [fstep_gen]. rewrite (sample_hold_indep st now v d (VInt 0) (VInt 0) E). unfold lift, proj3, xlift.
      destruct (sample_step st now (VInt 0) (VInt 0)) as [[s o] p]. reflexivity.
    + apply (eager_values (fstep_gen b SAMPLE) st now [v; d]).
  - (* FREEZE *) cbn [arity_ok] in Ha. destruct (len2 _ Ha) as [v [d ->]]. cbn [ostep_gen map fstep_gen]. unfold freeze_step.
    destruct (s_time st =? 0).
    + unfold freeze_idle_o, freeze_idle. destruct (opt_ne v (s_last st)); reflexivity.
    + destruct (py_gt (VInt (now - s_time st)) (s_dur st)).
      * unfold freeze_idle_o, freeze_idle. destruct (opt_ne v (s_last (set_time st 0))); reflexivity.
      * unfold lift, proj3, xlift, pause_then. destruct (py_add _ _); reflexivity.
  - (* SEQUENCE *) cbn [ostep_gen]. rewrite (eager_values (fstep_gen b SEQUENCE)). f_equal. apply seq_stamp.
Qed.

(* ------------------------------------------------------------------ hold laws: whatever the input does *)
Theorem SAMPLE_hold_law : forall b st now a0 a1 a0' a1',
  sample_holding st now = true ->
  ostep_gen b SAMPLE st now [a0; a1] = ostep_gen b SAMPLE st now [a0'; a1']
  /\ snd (ostep_gen b SAMPLE st now [a0; a1]) = []
  /\ (forall p, py_add (VInt (s_time st)) (s_dur st) = POk p ->
        ostep_gen b SAMPLE st now [a0; a1] = (st, XOut (out_opt (s_last st)), PUntil p, [])).
Proof.
  intros b st now a0 a1 a0' a1' H. cbn [ostep_gen]. rewrite H. split; [reflexivity|]. split.
  - unfold lift. destruct (sample_step st now (VInt 0) (VInt 0)) as [[s o] p]. reflexivity.
  - intros p Hp. unfold sample_step. unfold sample_holding in H. rewrite H, Hp. reflexivity.
Qed.

Theorem FREEZE_hold_law : forall b st now ao ao',
  s_time st <> 0 -> py_gt (VInt (now - s_time st)) (s_dur st) = false ->
  ostep_gen b FREEZE st now ao = ostep_gen b FREEZE st now ao'
  /\ snd (ostep_gen b FREEZE st now ao) = []
  /\ (forall p, py_add (VInt (s_time st)) (s_dur st) = POk p ->
        ostep_gen b FREEZE st now ao = (st, XOut (out_opt (s_last st)), PUntil p, [])).
Proof.
  intros b st now ao ao' H1 H2. cbn [ostep_gen]. apply Z.eqb_neq in H1. rewrite H1, H2. split; [reflexivity|]. split.
  - unfold lift, pause_then. destruct (py_add _ _); reflexivity.
  - intros p ->. reflexivity.
Qed.

(* FREEZE when idle looks at the value only; at the duration only when the value changed *)
Theorem FREEZE_idle_evaluates : forall b st now a0 a1,
  s_time st = 0 ->
  snd (ostep_gen b FREEZE st now [a0; a1]) =
    match a0 with AVal v => if opt_ne v (s_last st) then [0; 1]%nat else [0%nat] | _ => [0%nat] end.
Proof.
  intros b st now a0 a1 H. cbn [ostep_gen]. rewrite H. cbn [Z.eqb]. unfold freeze_idle_o.
  destruct a0 as [v| |]; try reflexivity. destruct (opt_ne v (s_last st)); [|reflexivity]. destruct a1; reflexivity.
Qed.

(* ------------------------------------------------------------------ functions that start with eval_args *)
Definition plain (f : fn) : bool := match f with SAMPLE | FREEZE | SEQUENCE => false | _ => true end.

Lemma ostep_plain : forall b f st now ao, plain f = true -> ostep_gen b f st now ao = eager (fstep_gen b f) st now ao.
Proof. intros b f st now ao H. destruct f; try discriminate; reflexivity. Qed.

Lemma eff_plain : forall f h now ao, plain f = true -> eff_step f h (now, ao) = eff_eager now ao.
Proof. intros f h now ao H. destruct f; try discriminate; reflexivity. Qed.

(* a failing argument: nothing is written, every argument has been evaluated, the failure is the first one in order *)
Theorem eager_failure : forall b f st now ao x, plain f = true -> first_fail ao = Some x ->
  ostep_gen b f st now ao = (st, x, fail_pause x now, all_idx ao).
Proof. intros b f st now ao x Hp Hf. rewrite ostep_plain by exact Hp. unfold eager. rewrite Hf. reflexivity. Qed.

Theorem eager_evaluates_all : forall b f st now ao, plain f = true -> snd (ostep_gen b f st now ao) = all_idx ao.
Proof.
  intros b f st now ao Hp. rewrite ostep_plain by exact Hp. unfold eager. destruct (first_fail ao); [reflexivity|].
  unfold lift. destruct (fstep_gen b f st now (vals_of ao)) as [[s o] p]. reflexivity.
Qed.

Lemma delay_pre_inc : forall s h, spec_pre DELAY (s :: h) = delay_top s h && spec_pre DELAY h.
Proof.
  intros [now a] h.
  change (spec_pre DELAY ((now, a) :: h)) with (sortedb ((now, a) :: h) && const_arg 1 ((now, a) :: h) && delay_fits ((now, a) :: h)).
  change (spec_pre DELAY h) with (sortedb h && const_arg 1 h && delay_fits h).
  assert (Hf : delay_fits ((now, a) :: h) =
               match a with
               | [_; d] => Z.of_nat (length (filter (fun tv => negb (old_enough now d tv)) (transitions ((now, a) :: h)))) <? delay_history_size - 1
               | _ => true
               end && delay_fits h).
  { destruct a as [|v [|d [|x l]]]; reflexivity. }
  rewrite Hf. unfold delay_top. destruct h as [|s' r].
  - cbn [sortedb const_arg andb]. destruct (match a with [_; d] => _ | _ => true end); reflexivity.
  - change (sortedb ((now, a) :: s' :: r)) with ((fst s' <=? fst (now, a)) && sortedb (s' :: r)).
    change (const_arg 1 ((now, a) :: s' :: r)) with (option_eqb pyval_eqb (arg_of 1 (now, a)) (arg_of 1 s') && const_arg 1 (s' :: r)).
    cbn [fst].
    destruct (fst s' <=? now); destruct (sortedb (s' :: r)); destruct (option_eqb pyval_eqb (arg_of 1 (now, a)) (arg_of 1 s'));
      destruct (const_arg 1 (s' :: r)); destruct (delay_fits (s' :: r));
      destruct (match a with [_; d] => _ | _ => true end); reflexivity.
Qed.

(* ------------------------------------------------------------------ all value-level specifications at once *)
Definition full_pre (f : fn) (h : hist) : bool := shaped f h && times_pos h && spec_pre f h.

Lemma full_pre_split : forall f h, full_pre f h = true -> shaped f h = true /\ times_pos h = true /\ spec_pre f h = true.
Proof. intros f h H. unfold full_pre in H. apply andb_prop in H. destruct H as [H H3]. apply andb_prop in H. tauto. Qed.

Theorem all_spec : forall f h, full_pre f h = true -> clean (outs (fstep f) h) = true -> last_out (fstep f) h = spec_of f h.
Proof.
  intros f h Hp Hc. destruct (full_pre_split _ _ Hp) as [H1 [H2 H3]]. destruct f; cbn [spec_of].
  - apply DELAY_spec; assumption.
  - apply SAMPLE_spec; assumption.
  - apply FREEZE_spec; try assumption; try exact H3.
  - apply HELD_spec; assumption.
  - apply DERIV_spec; assumption.
  - apply INTEG_spec; assumption.
  - apply FMAVG_spec; assumption.
  - apply FMEDIAN_spec; assumption.
  - apply RISING_spec; assumption.
  - apply FALLING_spec; assumption.
  - apply ACC_spec; assumption.
  - apply ACCINC_spec; assumption.
  - apply HYST_spec; assumption.
  - apply SEQUENCE_spec; assumption.
Qed.

(* ------------------------------------------------------------------ history level *)
Definition otimes_pos (oh : ohist) : bool := forallb (fun s : osample => 0 <? fst s) oh.

Definition covered_fn (f : fn) : bool := match f with FREEZE | SEQUENCE => false | _ => true end.

(* one step of the simulation between the outcome run and the value run on the effective history *)
Lemma sim_step : forall f h st now ao,
  covered_fn f = true -> 0 < now -> length ao = (match f with SAMPLE => 2 | _ => length ao end)%nat ->
  st = state_after (fstep f) h ->
  (f = SAMPLE -> sample_rel (sample_held h) st) ->
  match eff_step f h (now, ao) with
  | EKeep s' => proj3 (ostep f st now ao) = xlift (fstep f st (fst s') (snd s'))
  | EDrop x => proj3 (ostep f st now ao) = (st, x, fail_pause x now)
  | EStop => True
  end.
Proof.
  intros f h st now ao Hc Hnow Hlen Hst Hrel.
  destruct (plain f) eqn:Hp.
  - rewrite eff_plain by exact Hp. unfold ostep. rewrite ostep_plain by exact Hp. unfold eff_eager, eager.
    destruct (first_fail ao); [reflexivity|]. cbn [fst snd]. unfold lift, proj3, xlift, fstep.
    destruct (fstep_gen held_pause_fixed f st now (vals_of ao)) as [[s o] p]. reflexivity.
  - destruct f; try discriminate. clear Hp Hc. specialize (Hrel eq_refl).
    destruct ao as [|a0 [|a1 [|a2 l]]]; try discriminate. cbn [eff_step]. unfold ostep. cbn [ostep_gen].
    assert (Hhold : sample_holding st now =
                    match sample_held h with Some (t, _, dur) => py_lt (VInt (now - t)) dur | None => false end).
    { unfold sample_holding. destruct (sample_held h) as [[[t x] dur]|]; cbn [sample_rel] in Hrel.
      - destruct Hrel as [_ [-> ->]]. reflexivity.
      - destruct Hrel as [_ [-> ->]]. rewrite (py_lt_int _ (VInt 0) 0 (int_val_VInt 0)). apply Z.ltb_ge. lia. }
    destruct (sample_held h) as [[[t x] dur]|].
    + rewrite Hhold. destruct (py_lt (VInt (now - t)) dur) eqn:E.
      * cbn [fst snd vals_of map]. unfold fstep. cbn [fstep_gen].
        assert (Hh : sample_holding st now = true) by (rewrite Hhold; reflexivity).
        rewrite (sample_hold_indep st now (aval a0) (aval a1) (VInt 0) (VInt 0) Hh). unfold lift, proj3, xlift.
        destruct (sample_step st now (VInt 0) (VInt 0)) as [[s o] p]. reflexivity.
      * unfold eff_eager, eager. destruct (first_fail [a0; a1]); [reflexivity|]. cbn [fst snd]. unfold lift, proj3, xlift, fstep.
        destruct (fstep_gen held_pause_fixed SAMPLE st now (vals_of [a0; a1])) as [[s o] p]. reflexivity.
    + rewrite Hhold. unfold eff_eager, eager. destruct (first_fail [a0; a1]); [reflexivity|]. cbn [fst snd]. unfold lift, proj3, xlift, fstep.
      destruct (fstep_gen held_pause_fixed SAMPLE st now (vals_of [a0; a1])) as [[s o] p]. reflexivity.
Qed.

Definition oshaped (f : fn) (oh : ohist) : bool :=
  forallb (fun s : osample => match f with SAMPLE => Nat.eqb (length (snd s)) 2 | _ => true end) oh.

Lemma sample_rel_of : forall h, full_pre SAMPLE h = true -> clean (outs (fstep SAMPLE) h) = true ->
  sample_rel (sample_held h) (state_after (fstep SAMPLE) h).
Proof.
  intros h Hp Hc. destruct (full_pre_split _ _ Hp) as [H1 [H2 _]].
  apply SAMPLE_inv; [unfold base_pre; rewrite H1, H2; reflexivity | exact Hc].
Qed.

Lemma full_pre_tl : forall f s h, full_pre f (s :: h) = true -> f <> DELAY -> f <> FMAVG -> f <> FMEDIAN -> f <> FREEZE ->
  full_pre f h = true.
Proof.
  intros f s h H N1 N2 N3 N4. destruct (full_pre_split _ _ H) as [H1 [H2 _]].
  apply shaped_cons in H1. apply times_pos_cons in H2. unfold full_pre. destruct H1 as [_ ->]. destruct H2 as [_ ->].
  destruct f; try reflexivity; congruence.
Qed.

(* the state after an outcome history is the state after its effective value history *)
Theorem effective_state : forall f oh h,
  covered_fn f = true -> otimes_pos oh = true -> oshaped f oh = true -> eff_hist f oh = Some h ->
  (f = SAMPLE -> full_pre SAMPLE h = true /\ clean (outs (fstep SAMPLE) h) = true) ->
  ostate_after (ostep f) oh = state_after (fstep f) h.
Proof.
  intros f oh. induction oh as [|[now ao] older IH]; intros h Hc Ht Hs He Hsam.
  - cbn in He. inv He. reflexivity.
  - cbn [eff_hist] in He. destruct (eff_hist f older) as [h0|] eqn:E0; [|discriminate].
    unfold otimes_pos in Ht. cbn [forallb fst] in Ht. apply andb_prop in Ht. destruct Ht as [Hnow Ht]. apply Z.ltb_lt in Hnow.
    unfold oshaped in Hs. cbn [forallb snd] in Hs. apply andb_prop in Hs. destruct Hs as [Hl Hs].
    assert (Hlen : length ao = (match f with SAMPLE => 2 | _ => length ao end)%nat)
      by (destruct f; try reflexivity; apply Nat.eqb_eq; exact Hl).
    assert (Hsam0 : f = SAMPLE -> full_pre SAMPLE h0 = true /\ clean (outs (fstep SAMPLE) h0) = true).
    { intro Ef. destruct (Hsam Ef) as [Hp Hcl]. destruct (eff_step f h0 (now, ao)); inv He; [|tauto].
      split; [eapply full_pre_tl; eauto; discriminate|]. destruct s as [n a]. apply clean_cons in Hcl. tauto. }
    pose proof (IH h0 Hc Ht Hs eq_refl Hsam0) as Hst.
    assert (Hrel : f = SAMPLE -> sample_rel (sample_held h0) (ostate_after (ostep f) older)).
    { intro Ef. rewrite Hst. subst f. destruct (Hsam0 eq_refl). apply sample_rel_of; assumption. }
    pose proof (sim_step f h0 _ now ao Hc Hnow Hlen Hst Hrel) as Sim.
    cbn [ostate_after]. destruct (eff_step f h0 (now, ao)) as [[n a]|x|]; inv He.
    + cbn [state_after]. cbn [fst snd] in Sim. rewrite <- Hst. unfold proj3 in Sim.
      destruct (ostep f (ostate_after (ostep f) older) now ao) as [[[s1 x1] p1] e1]. cbn [fst] in *.
      destruct (fstep f (ostate_after (ostep f) older) n a) as [[s2 o2] p2]. cbn in Sim. inv Sim. reflexivity.
    + rewrite <- Hst. unfold proj3 in Sim.
      destruct (ostep f (ostate_after (ostep f) older) now ao) as [[[s1 x1] p1] e1]. cbn [fst] in *. inv Sim. reflexivity.
Qed.

(* the newest outcome is the specified one *)
Theorem outcome_spec : forall f now ao older h x ev,
  covered_fn f = true -> otimes_pos ((now, ao) :: older) = true -> oshaped f ((now, ao) :: older) = true ->
  eff_hist f older = Some h ->
  olast (ostep f) ((now, ao) :: older) = Some (x, ev) ->
  match eff_step f h (now, ao) with
  | EKeep s' => full_pre f (s' :: h) = true -> clean (outs (fstep f) (s' :: h)) = true -> x = XOut (spec_of f (s' :: h))
  | EDrop x' => (f = SAMPLE -> full_pre SAMPLE h = true /\ clean (outs (fstep SAMPLE) h) = true) -> x = x'
  | EStop => True
  end.
Proof.
  intros f now ao older h x ev Hc Ht Hs He Hl.
  unfold otimes_pos in Ht. cbn [forallb fst] in Ht. apply andb_prop in Ht. destruct Ht as [Hnow Ht]. apply Z.ltb_lt in Hnow.
  unfold oshaped in Hs. cbn [forallb snd] in Hs. apply andb_prop in Hs. destruct Hs as [Hlb Hs].
  assert (Hlen : length ao = (match f with SAMPLE => 2 | _ => length ao end)%nat)
    by (destruct f; try reflexivity; apply Nat.eqb_eq; exact Hlb).
  cbn [olast] in Hl.
  assert (Main : forall (Hsam0 : f = SAMPLE -> full_pre SAMPLE h = true /\ clean (outs (fstep SAMPLE) h) = true),
    match eff_step f h (now, ao) with
    | EKeep s' => proj3 (ostep f (ostate_after (ostep f) older) now ao) = xlift (fstep f (state_after (fstep f) h) (fst s') (snd s'))
    | EDrop x' => proj3 (ostep f (ostate_after (ostep f) older) now ao) = (state_after (fstep f) h, x', fail_pause x' now)
    | EStop => True
    end).
  { intro Hsam0. pose proof (effective_state f older h Hc Ht Hs He Hsam0) as Hst.
    assert (Hrel : f = SAMPLE -> sample_rel (sample_held h) (ostate_after (ostep f) older)).
    { intro Ef. rewrite Hst. subst f. destruct (Hsam0 eq_refl). apply sample_rel_of; assumption. }
    pose proof (sim_step f h _ now ao Hc Hnow Hlen Hst Hrel) as Sim. rewrite <- Hst. exact Sim. }
  destruct (eff_step f h (now, ao)) as [[n a]|x'|] eqn:Ee; [| |exact I].
  - intros Hp Hcl.
    assert (Hsam0 : f = SAMPLE -> full_pre SAMPLE h = true /\ clean (outs (fstep SAMPLE) h) = true).
    { intro Ef. subst f. split; [eapply full_pre_tl; eauto; discriminate | apply clean_cons in Hcl; tauto]. }
    specialize (Main Hsam0). cbn [fst snd] in Main.
    pose proof (all_spec f ((n, a) :: h) Hp Hcl) as Sp. rewrite last_out_cons in Sp.
    unfold proj3 in Main. destruct (ostep f (ostate_after (ostep f) older) now ao) as [[[s1 x1] p1] e1]. cbn [fst] in Main.
    inv Hl. destruct (fstep f (state_after (fstep f) h) n a) as [[s2 o2] p2]. cbn in Main, Sp. inv Main. reflexivity.
  - intros Hsam0. specialize (Main Hsam0). unfold proj3 in Main.
    destruct (ostep f (ostate_after (ostep f) older) now ao) as [[[s1 x1] p1] e1]. cbn [fst] in Main. inv Hl. inv Main. reflexivity.
Qed.
