(* C16 — dispatch used by the generated case files.
   A case is (function code, check the spec too?, observations oldest first); an observation is what the real function object
   did at one evaluation: (now_ms, evaluated arguments, outcome, _asap_eval_paused_until_ms afterwards).
   bad_model / bad_spec return  case_index * STRIDE + index of the first disagreeing evaluation. *)
From QT Require Export C16.Spec.
From Coq Require Import Uint63.
Open Scope Z_scope.

(* literals of the generated case files: numbers are written as primitive 63-bit integers (parsed natively; decimal Z
   numerals go through the number-notation interpreter and cost ~0.4 ms each) and decoded here *)
Definition zi (i : int) : Z := Uint63.to_Z i.
Definition zn (i : int) : Z := - Uint63.to_Z i.
(* little-endian digits in base 2^62 *)
Fixpoint zdigits (l : list int) : Z := match l with [] => 0 | d :: r => Uint63.to_Z d + 4611686018427387904 * zdigits r end.
Definition zl (neg : bool) (l : list int) : Z := if neg then - zdigits l else zdigits l.
Definition vi (i : int) : pyval := VInt (zi i).
Definition vf (s : bool) (m : int) (e : Z) : pyval := VFloat (S754_finite s (Z.to_pos (zi m)) e).
Definition ob (now : Z) (a : list pyval) (o : outc) (d : pyval) : Z * list pyval * outc * pyval := (now, a, o, d).
Definition pc : pyval -> list pyval -> list pyval := @cons pyval.
Definition pn : list pyval := @nil pyval.

Definition fn_of_code (c : Z) : option fn :=
  match c with
  | 0 => Some DELAY | 1 => Some SAMPLE | 2 => Some FREEZE | 3 => Some HELD | 4 => Some DERIV | 5 => Some INTEG
  | 6 => Some FMAVG | 7 => Some FMEDIAN | 8 => Some RISING | 9 => Some FALLING | 10 => Some ACC | 11 => Some ACCINC
  | 12 => Some HYST | 13 => Some SEQUENCE | _ => None
  end.

Definition outc_eqb (a b : outc) : bool :=
  match a, b with
  | OVal x, OVal y => pyval_eqb x y
  | ONone, ONone => true
  | OSkipped, OSkipped => true
  | OExc x, OExc y => x =? y
  | _, _ => false
  end.

(* same number (1 == 1.0 == True), or the same datum (NaN) *)
Definition outc_sem_eqb (a b : outc) : bool :=
  match a, b with
  | OVal x, OVal y => pyval_eqb x y || py_eq x y
  | _, _ => outc_eqb a b
  end.

Definition obs := (Z * list pyval * outc * pyval)%type.
Definition case := (Z * bool * list obs)%type.
Definition STRIDE : Z := 10000.
Definition oc : obs -> list obs -> list obs := @cons obs.
Definition on : list obs := @nil obs.
Definition r (now : int) (a : list pyval) (o : outc) (d : pyval) (rest : list obs) : list obs := (zi now, a, o, d) :: rest.
Definition cs (c : Z) (sp : bool) (l : list obs) : case := (c, sp, l).
Definition cc : case -> list case -> list case := @cons case.
Definition cn : list case := @nil case.

Fixpoint check_model (f : fn) (st : fstate) (i : Z) (l : list obs) : option Z :=
  match l with
  | [] => None
  | (now, a, o, d) :: r =>
      let '(st', o', p) := fstep f st now a in
      if outc_eqb o o' && pyval_eqb d (deadline p) then check_model f st' (i + 1) r else Some i
  end.

(* the implementation's answer at every evaluation against the specification of the history so far, wherever the
   specification speaks (preconditions hold, no Python exception so far) *)
Fixpoint check_spec (f : fn) (h : hist) (i : Z) (l : list obs) : option Z :=
  match l with
  | [] => None
  | (now, a, o, _) :: r =>
      let h' := (now, a) :: h in
      if is_exc o then None
      else if shaped f h' && times_pos h' && spec_pre f h' then
        if outc_sem_eqb o (spec_of f h') then check_spec f h' (i + 1) r else Some i
      else check_spec f h' (i + 1) r
  end.

Fixpoint collect (chk : fn -> list obs -> option Z) (want_spec : bool) (cases : list case) (i : Z) : list Z :=
  match cases with
  | [] => []
  | (c, sp, l) :: r =>
      let rest := collect chk want_spec r (i + 1) in
      if want_spec && negb sp then rest else
      match fn_of_code c with
      | None => (i * STRIDE) :: rest
      | Some f => match chk f l with Some k => (i * STRIDE + k) :: rest | None => rest end
      end
  end.

Definition bad_model (cases : list case) : list Z := collect (fun f l => check_model f st0 0 l) false cases 0.
Definition bad_spec (cases : list case) : list Z := collect (fun f l => check_spec f [] 0 l) true cases 0.

(* ---------------------------------------------------------------- the hub loop on the model (used for the HELD witness) *)
Definition port_values_with_pauses (f : fn) (ts : list tick) := run_with_pauses (fstep f) ts.
Definition port_values_every_tick (f : fn) (ts : list tick) := run_every_tick (fstep f) ts.
