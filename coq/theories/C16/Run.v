(* C16 — dispatch used by the generated case files.
   A case is (function code, check the spec too?, observations oldest first); an observation is what the real function object
   did at one evaluation: (now_ms, evaluated arguments, outcome, _asap_eval_paused_until_ms afterwards).
   bad_model / bad_spec return  case_index * STRIDE + index of the first disagreeing evaluation. *)
From QT Require Export C16.Spec C16.ArgModel.
From Coq Require Import Uint63.
Open Scope Z_scope.

(* literals of the generated case files: numbers are written as primitive 63-bit integers (parsed natively; decimal Z
   numerals go through the number-notation interpreter and cost ~0.4 ms each) and decoded here *)
Definition zi (i : int) : Z := Uint63.to_Z i.
Definition zn (i : int) : Z := - Uint63.to_Z i.
(* little-endian digits in base 2^62 *)
Fixpoint zdigits (l : list int) : Z := match l with [] => 0 | d :: r => Uint63.to_Z d + 4611686018427387904 * zdigits r end.
Definition zl (neg : bool) (l : list int) : Z := if neg then - zdigits l else zdigits l.
Definition vi (i : int) : pyval := VInt (zi i).
Definition vf (s : bool) (m : int) (e : Z) : pyval := VFloat (S754_finite s (Z.to_pos (zi m)) e).
Definition pc : pyval -> list pyval -> list pyval := @cons pyval.
Definition pn : list pyval := @nil pyval.

Definition fn_of_code (c : Z) : option fn :=
  match c with
  | 0 => Some DELAY | 1 => Some SAMPLE | 2 => Some FREEZE | 3 => Some HELD | 4 => Some DERIV | 5 => Some INTEG
  | 6 => Some FMAVG | 7 => Some FMEDIAN | 8 => Some RISING | 9 => Some FALLING | 10 => Some ACC | 11 => Some ACCINC
  | 12 => Some HYST | 13 => Some SEQUENCE | _ => None
  end.

Definition outc_eqb (a b : outc) : bool :=
  match a, b with
  | OVal x, OVal y => pyval_eqb x y
  | ONone, ONone => true
  | OSkipped, OSkipped => true
  | OExc x, OExc y => x =? y
  | _, _ => false
  end.

(* same number (1 == 1.0 == True), or the same datum (NaN) *)
Definition outc_sem_eqb (a b : outc) : bool :=
  match a, b with
  | OVal x, OVal y => pyval_eqb x y || py_eq x y
  | _, _ => outc_eqb a b
  end.

Definition xout_eqb (a b : xout) : bool :=
  match a, b with
  | XOut x, XOut y => outc_eqb x y
  | XUnavail, XUnavail => true
  | XErr, XErr => true
  | _, _ => false
  end.
Definition xout_sem_eqb (a b : xout) : bool :=
  match a, b with XOut x, XOut y => outc_sem_eqb x y | _, _ => xout_eqb a b end.

(* an observation: (now_ms, outcome of every argument expression, what the function object answered,
   _asap_eval_paused_until_ms afterwards, positions of the counted ($port) arguments that were evaluated) *)
Definition obs := (Z * list argo * xout * pyval * list Z)%type.
(* (function code, check the spec too?, positions of the counted arguments, observations oldest first) *)
Definition case := (Z * bool * list Z * list obs)%type.
Definition STRIDE : Z := 10000.
Definition oc : obs -> list obs -> list obs := @cons obs.
Definition on : list obs := @nil obs.
Definition r (now : int) (a : list argo) (o : xout) (d : pyval) (ev : list Z) (rest : list obs) : list obs :=
  (zi now, a, o, d, ev) :: rest.
Definition ob (now : Z) (a : list argo) (o : xout) (d : pyval) (ev : list Z) : obs := (now, a, o, d, ev).
Definition ac : argo -> list argo -> list argo := @cons argo.
Definition an : list argo := @nil argo.
Definition cs (c : Z) (sp : bool) (mask : list Z) (l : list obs) : case := (c, sp, mask, l).
Definition cc : case -> list case -> list case := @cons case.
Definition cn : list case := @nil case.

(* the evaluated positions restricted to the counted ones, as sorted Z list *)
Definition counted (mask : list Z) (ev : list nat) : list Z :=
  filter (fun i => existsb (fun j => Z.of_nat j =? i) ev) mask.

Fixpoint check_model (f : fn) (mask : list Z) (st : fstate) (i : Z) (l : list obs) : option Z :=
  match l with
  | [] => None
  | (now, a, o, d, ev) :: r =>
      let '(st', o', p, ev') := ostep f st now a in
      if xout_eqb o o' && pyval_eqb d (deadline p) && list_eqb Z.eqb ev (counted mask ev')
      then check_model f mask st' (i + 1) r else Some i
  end.

Definition xis_exc (x : xout) : bool := match x with XOut o => is_exc o | _ => false end.

(* the implementation's answer at every evaluation against the specification of the effective history so far, wherever
   the specification speaks (preconditions hold, no Python exception so far, history inside the specification) *)
(* [dpre] = spec_pre DELAY h, maintained incrementally (delay_pre_inc); other functions recompute their precondition *)
Definition pre_next (f : fn) (dpre : bool) (s' : sample) (h : hist) : bool :=
  match f with DELAY => dpre && delay_top s' h | _ => spec_pre f (s' :: h) end.

(* [tmax] = the latest time of any earlier sample, kept or dropped.  FREEZE writes `_last_time_ms = 0` when its timer has
   expired even if the value argument then fails (a dropped sample), which is only equivalent to "nothing happened" while
   time does not go backwards: its specification (stated for non-decreasing times) stops at the first backward step of the
   whole outcome history, not just of the effective one. *)
Fixpoint check_spec (f : fn) (mask : list Z) (h : hist) (dpre : bool) (tmax : Z) (i : Z) (l : list obs) : option Z :=
  match l with
  | [] => None
  | (now, a, o, _, ev) :: r =>
      if xis_exc o then None else
      if match f with FREEZE => now <? tmax | _ => false end then None else
      let tmax := Z.max tmax now in
      let ev_ok := list_eqb Z.eqb ev (counted mask (spec_evaluated f h (now, a))) in
      match eff_step f h (now, a) with
      | EStop => None
      | EDrop x =>
          if shaped f h && times_pos h && (match f with DELAY => dpre | _ => spec_pre f h end) && negb (xout_eqb o x && ev_ok)
          then Some i else check_spec f mask h dpre tmax (i + 1) r
      | EKeep s' =>
          let h' := s' :: h in
          let dpre' := pre_next f dpre s' h in
          if shaped f h' && times_pos h' && dpre' then
            if xout_sem_eqb o (XOut (spec_of f h')) && ev_ok then check_spec f mask h' dpre' tmax (i + 1) r else Some i
          else check_spec f mask h' dpre' tmax (i + 1) r
      end
  end.

Fixpoint collect (chk : fn -> list Z -> list obs -> option Z) (want_spec : bool) (cases : list case) (i : Z) : list Z :=
  match cases with
  | [] => []
  | (c, sp, mask, l) :: r =>
      let rest := collect chk want_spec r (i + 1) in
      if want_spec && negb sp then rest else
      match fn_of_code c with
      | None => (i * STRIDE) :: rest
      | Some f => match chk f mask l with Some k => (i * STRIDE + k) :: rest | None => rest end
      end
  end.

Definition bad_model (cases : list case) : list Z := collect (fun f m l => check_model f m st0 0 l) false cases 0.
Definition bad_spec (cases : list case) : list Z := collect (fun f m l => check_spec f m [] true 0 0 l) true cases 0.

(* ---------------------------------------------------------------- the hub loop on the model (used for the HELD witness) *)
Definition port_values_with_pauses (f : fn) (ts : list tick) := run_with_pauses (fstep f) ts.
Definition port_values_every_tick (f : fn) (ts : list tick) := run_every_tick (fstep f) ts.
