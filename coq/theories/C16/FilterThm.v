(* C16 — FMAVG / FMEDIAN: the mean / upper median of the last min(width, QUEUE_SIZE) accepted samples
   (constant integer width >= 1). *)
From QT Require Import C16.Spec C16.Lemmas C16.SimpleThm C16.HoldThm.
From Coq Require Import Lia.
Open Scope Z_scope.
Unset Lia Cache.

Ltac inv H := inversion H; subst; clear H.

Lemma py_min2_int : forall w q, py_min2 (VInt w) (VInt q) = VInt (Z.min w q).
Proof.
  intros w q. unfold py_min2. rewrite (py_lt_int q (VInt w) w (int_val_VInt w)).
  destruct (q <? w) eqn:E; f_equal; [apply Z.ltb_lt in E | apply Z.ltb_ge in E]; lia.
Qed.

Lemma trim_width_int : forall fuel q m, (length q < fuel)%nat -> 1 <= m ->
  trim_width fuel (VInt m) q = Some (skipn (length q - Z.to_nat (m - 1)) q).
Proof.
  induction fuel as [|k IH]; intros q m Hf Hm; [lia|].
  cbn [trim_width]. rewrite (py_ge_int _ (VInt m) m (int_val_VInt m)).
  destruct (m <=? Z.of_nat (length q)) eqn:E.
  - apply Z.leb_le in E. destruct q as [|x r]; [cbn in E; lia|].
    rewrite IH; [|cbn in Hf; lia | exact Hm]. f_equal. cbn [length] in *.
    replace (S (length r) - Z.to_nat (m - 1))%nat with (S (length r - Z.to_nat (m - 1))) by lia. reflexivity.
  - apply Z.leb_gt in E. f_equal. replace (length q - Z.to_nat (m - 1))%nat with 0%nat by lia. reflexivity.
Qed.

(* the last k elements of the (chronological) window of size n are the window of size k *)
Lemma lastn_window : forall (vals : list pyval) n k, (k <= n)%nat ->
  skipn (length (rev (firstn n vals)) - k) (rev (firstn n vals)) = rev (firstn k vals).
Proof.
  intros vals n k Hk. rewrite skipn_rev. f_equal. rewrite rev_length.
  set (F := firstn n vals). assert (HL : length F = Nat.min n (length vals)) by apply firstn_length.
  destruct (Nat.le_gt_cases k (length F)) as [H|H].
  - replace (length F - (length F - k))%nat with k by lia. unfold F. rewrite firstn_firstn.
    replace (Nat.min k n) with k by lia. reflexivity.
  - replace (length F - (length F - k))%nat with (length F) by lia. rewrite firstn_all.
    assert (length vals <= k)%nat by lia. unfold F. rewrite (firstn_all2 vals) by lia. rewrite (firstn_all2 vals) by lia. reflexivity.
Qed.

Lemma slice_last_all : forall m (q : list pyval), 0 < m -> (length q <= Z.to_nat m)%nat -> slice_last m q = q.
Proof.
  intros m q Hm Hl. unfold slice_last.
  assert (m =? 0 = false) as -> by (apply Z.eqb_neq; lia). assert (m <? 0 = false) as -> by (apply Z.ltb_ge; lia).
  replace (length q - Z.to_nat m)%nat with 0%nat by lia. reflexivity.
Qed.

Section Filter.
  Variable f : fn.
  Variable ag : agg.
  Variable Q : Z.
  Hypothesis HQ : 1 <= Q.
  Hypothesis Hstep : forall st now v w iv, fstep f st now [v; w; iv] = filter_step ag Q st now v w iv.
  Hypothesis Har : forall a, arity_ok f a = Nat.eqb (length a) 3.

  Definition nwin (w : Z) : nat := Z.to_nat (Z.min w Q).

  Definition fsumm (h : hist) := (window h, width_of h).

  Definition frel (s : (option Z * list pyval) * option Z) (st : fstate) : Prop :=
    let '((lt, vals), wo) := s in
    match lt with None => s_time st = 0 | Some t => s_time st = t /\ 0 < t end
    /\ match wo with
       | None => s_vals st = [] /\ vals = []
       | Some w => s_vals st = rev (firstn (nwin w) vals)
       end.

  Definition filter_pre (h : hist) : bool :=
    base_pre f h && match h with [] => true | _ => width_ok h end.

  Lemma filter_pre_tl : forall s h, filter_pre (s :: h) = true -> filter_pre h = true.
  Proof.
    intros s h H. unfold filter_pre in *. apply andb_prop in H. destruct H as [H1 H2].
    rewrite (base_pre_tl _ _ _ H1). destruct h as [|s' r]; [reflexivity|].
    unfold width_ok in *. apply andb_prop in H2. destruct H2 as [Hc Hw].
    change (const_arg 1 (s :: s' :: r)) with (option_eqb pyval_eqb (arg_of 1 s) (arg_of 1 s') && const_arg 1 (s' :: r)) in Hc.
    apply andb_prop in Hc. destruct Hc as [Hc1 Hc2]. rewrite Hc2. cbn [andb].
    destruct s as [now a], s' as [t' a']. unfold width_of in *. cbn [arg_of snd] in Hc1.
    destruct a as [|v [|w [|iv [|x l]]]]; try discriminate Hw; destruct w as [b|w|fl]; try discriminate Hw.
    apply base_pre_tl in H1. apply base_pre_cons in H1. destruct H1 as [Ha' _]. rewrite Har in Ha'.
    destruct (len3 _ Ha') as [v' [w' [iv' ->]]]. cbn [arg_of snd nth_error option_eqb] in Hc1.
    apply pyval_eqb_eq in Hc1. subst w'. exact Hw.
  Qed.

  Theorem filter_inv : forall h, filter_pre h = true -> clean (outs (fstep f) h) = true ->
    frel (fsumm h) (state_after (fstep f) h) /\ (h <> [] -> last_out (fstep f) h = spec_filter ag Q h).
  Proof.
    apply (run_invariant (fstep f) _ fsumm frel (spec_filter ag Q) filter_pre filter_pre_tl).
    - cbn. auto.
    - intros now a older st st' o p Hp Hr Hs Hx.
      pose proof (filter_pre_tl _ _ Hp) as Hpo.
      unfold filter_pre in Hp. apply andb_prop in Hp. destruct Hp as [Hb Hw].
      apply base_pre_cons in Hb. destruct Hb as [Ha Hnow]. rewrite Har in Ha. destruct (len3 _ Ha) as [v [w0 [iv ->]]].
      unfold width_ok in Hw. apply andb_prop in Hw. destruct Hw as [Hconst Hw].
      destruct w0 as [b|w|fl]; try discriminate. cbn [width_of] in Hw. apply Z.leb_le in Hw.
      rewrite Hstep in Hs. unfold filter_step in Hs. rewrite py_min2_int in Hs.
      assert (Hm : 1 <= Z.min w Q) by lia.
      (* the window before this evaluation, in the same width *)
      assert (Hvals : s_vals st = rev (firstn (nwin w) (snd (window older)))
                      /\ match fst (window older) with None => s_time st = 0 | Some t => s_time st = t /\ 0 < t end).
      { unfold fsumm, frel in Hr. destruct (window older) as [lt vals] eqn:Ew. cbn [fst snd].
        destruct Hr as [Ht Hv]. split; [|exact Ht].
        destruct older as [|[t' a'] r].
        - cbn in Hv. destruct Hv as [-> ->]. destruct (nwin w); reflexivity.
        - unfold filter_pre in Hpo. apply andb_prop in Hpo. destruct Hpo as [Hpo _]. apply base_pre_cons in Hpo.
          destruct Hpo as [Ha' _]. rewrite Har in Ha'. destruct (len3 _ Ha') as [v' [w' [iv' ->]]].
          cbn [const_arg arg_of snd nth_error option_eqb] in Hconst. apply andb_prop in Hconst. destruct Hconst as [Hc1 _].
          apply pyval_eqb_eq in Hc1. subst w'. cbn [width_of] in Hv. exact Hv. }
      destruct Hvals as [Hq Htime].
      (* the accepting branch *)
      assert (Hacc :
        match trim_width (S (length (s_vals st))) (VInt (Z.min w Q)) (s_vals st) with
        | None => (set_vals st [], OExc IndexErr, PNone)
        | Some q0 =>
            let q' := q0 ++ [v] in
            let st'0 := set_time (set_vals st q') now in
            match py_int (VInt (Z.min w Q)) with
            | inr e => (st'0, OExc (exc_code e), PNone)
            | inl k =>
                let win := slice_last k q' in
                match ag with
                | AMean => match mean_of win with POk r0 => (st'0, OVal r0, PNone) | PErr e => (st'0, OExc (exc_code e), PNone) end
                | AMedian => match median_of win with Some r0 => (st'0, OVal r0, PNone) | None => (st'0, OExc IndexErr, PNone) end
                end
            end
        end = (st', o, p) ->
        frel ((Some now, v :: snd (window older)), Some w) st'
        /\ o = match ag with
               | AMean => of_pyres (pbind (py_sum (rev (firstn (nwin w) (v :: snd (window older)))))
                                      (fun s => py_truediv s (VInt (Z.of_nat (length (rev (firstn (nwin w) (v :: snd (window older)))))))))
               | AMedian => match upper_median (rev (firstn (nwin w) (v :: snd (window older)))) with Some m => OVal m | None => ONone end
               end).
      { intros Hs'. rewrite trim_width_int in Hs' by (try lia). cbv zeta in Hs'. cbn [py_int as_num] in Hs'.
        set (vals := snd (window older)) in *.
        assert (Eq' : skipn (length (s_vals st) - Z.to_nat (Z.min w Q - 1)) (s_vals st) ++ [v] = rev (firstn (nwin w) (v :: vals))).
        { rewrite Hq. rewrite lastn_window by (unfold nwin; lia).
          unfold nwin. replace (Z.to_nat (Z.min w Q)) with (S (Z.to_nat (Z.min w Q - 1))) by lia. reflexivity. }
        rewrite Eq' in Hs'.
        rewrite slice_last_all in Hs'; [|lia | rewrite rev_length, firstn_length; unfold nwin; lia].
        destruct ag.
        - unfold mean_of in Hs'. destruct (pbind _ _) eqn:Em; inv Hs'; [|discriminate].
          split; [|reflexivity]. unfold frel. destruct st as [f1 f2 f3 f4 f5 f6 f7 f8]. cbn. auto.
        - unfold median_of, upper_median in *. destruct (nth_error _ _); inv Hs'; [|discriminate].
          split; [|reflexivity]. unfold frel. destruct st as [f1 f2 f3 f4 f5 f6 f7 f8]. cbn. auto. }
      unfold spec_filter, fsumm. cbn [width_of newest_accepted window].
      destruct (window older) as [lt vals] eqn:Ew. cbn [fst snd] in *.
      destruct lt as [t|].
      + destruct Htime as [Ht Htpos]. rewrite Ht in Hs. assert (0 <? t = true) as E0 by (apply Z.ltb_lt; exact Htpos). rewrite E0 in Hs.
        destruct (py_lt (VInt (now - t)) iv) eqn:El; cbn [negb andb].
        * unfold pause_then in Hs. destruct (py_add _ _); inv Hs; [|discriminate]. split; [|reflexivity].
          unfold frel. repeat split; auto.
        * destruct (now - t >? time_jump_threshold) eqn:Ej; cbn [negb].
          -- inv Hs. split; [|reflexivity]. unfold frel. destruct st as [f1 f2 f3 f4 f5 f6 f7 f8]. cbn in *. auto.
          -- destruct (Hacc Hs) as [R O]. split; [exact R|]. rewrite O. fold (nwin w). reflexivity.
      + rewrite Htime in Hs. cbn [Z.ltb Z.compare] in Hs.
        destruct (Hacc Hs) as [R O]. split; [exact R|]. rewrite O. fold (nwin w). reflexivity.
  Qed.

  Theorem filter_spec : forall h, shaped f h = true -> times_pos h = true -> width_ok h = true ->
    clean (outs (fstep f) h) = true -> last_out (fstep f) h = spec_filter ag Q h.
  Proof.
    intros h H1 H2 H3 Hc. destruct h as [|s r]; [reflexivity|].
    apply filter_inv; [unfold filter_pre, base_pre; rewrite H1, H2, H3; reflexivity | exact Hc | discriminate].
  Qed.
End Filter.

Lemma fmavg_queue_pos : 1 <= fmavg_queue_size.
Proof. unfold fmavg_queue_size. lia. Qed.
Lemma fmedian_queue_pos : 1 <= fmedian_queue_size.
Proof. unfold fmedian_queue_size. lia. Qed.

Theorem FMAVG_spec : forall h, shaped FMAVG h = true -> times_pos h = true -> spec_pre FMAVG h = true ->
  clean (outs (fstep FMAVG) h) = true -> last_out (fstep FMAVG) h = spec_FMAVG h.
Proof. apply (filter_spec FMAVG AMean fmavg_queue_size fmavg_queue_pos); reflexivity. Qed.

Theorem FMEDIAN_spec : forall h, shaped FMEDIAN h = true -> times_pos h = true -> spec_pre FMEDIAN h = true ->
  clean (outs (fstep FMEDIAN) h) = true -> last_out (fstep FMEDIAN) h = spec_FMEDIAN h.
Proof. apply (filter_spec FMEDIAN AMedian fmedian_queue_size fmedian_queue_pos); reflexivity. Qed.
