(* C16 — obligations about the regenerated definitions (Gen/C16Gen.v, Gen/FuncTable.v), re-proved on every run:
   the source's HELD pauses until start + duration while waiting (so the model under test is the one the pause theorem is
   about), and the registry gives the fourteen functions the arities and DEPS the model assumes. *)
From QT Require Import C16.Spec C16.Lemmas C16.PauseThm.
From QT Require Import Expr.FuncInfo Gen.FuncTable.
Open Scope Z_scope.

Lemma held_pause_is_fixed : held_pause_fixed = true.
Proof. reflexivity. Qed.

Lemma fstep_is_fixed : fstep = fstep_gen true.
Proof. unfold fstep. rewrite held_pause_is_fixed. reflexivity. Qed.

Theorem pause_invariant : forall f ts,
  ticks_ok f None ts -> run_with_pauses (fstep f) ts = run_every_tick (fstep f) ts.
Proof. intros f ts H. rewrite fstep_is_fixed. apply pause_invariant_fixed. exact H. Qed.

Theorem paused_eval_noop_gen : forall f st0' now a st o p,
  good st0' -> 0 < now -> params_ok f a = true -> fstep f st0' now a = (st, o, p) ->
  forall now', 0 <= now' -> is_paused now' (deadline p) = true ->
  exists o' p', fstep f st now' a = (st, o', p') /\ forall pv, upd (upd pv o) o' = upd pv o.
Proof. rewrite fstep_is_fixed. exact paused_eval_noop. Qed.

Open Scope string_scope.
Definition fn_name (f : fn) : string :=
  match f with
  | DELAY => "DELAY" | SAMPLE => "SAMPLE" | FREEZE => "FREEZE" | HELD => "HELD" | DERIV => "DERIV" | INTEG => "INTEG"
  | FMAVG => "FMAVG" | FMEDIAN => "FMEDIAN" | RISING => "RISING" | FALLING => "FALLING" | ACC => "ACC"
  | ACCINC => "ACCINC" | HYST => "HYST" | SEQUENCE => "SEQUENCE"
  end.
Definition all_fns := [DELAY; SAMPLE; FREEZE; HELD; DERIV; INTEG; FMAVG; FMEDIAN; RISING; FALLING; ACC; ACCINC; HYST; SEQUENCE].

(* the functions the hub re-evaluates on every tick (DEPS = {'asap'}) are exactly those that can pause *)
Definition asap (f : fn) : bool :=
  match f with RISING | FALLING | ACC | ACCINC | HYST => false | _ => true end.

Definition arity_of (f : fn) : option Z * option Z :=
  match f with
  | RISING | FALLING => (Some 1, Some 1)
  | DELAY | SAMPLE | FREEZE | DERIV | ACC | ACCINC => (Some 2, Some 2)
  | HELD | INTEG | FMAVG | FMEDIAN | HYST => (Some 3, Some 3)
  | SEQUENCE => (Some 2, None)
  end.

Definition opt_z_eqb (a b : option Z) : bool := option_eqb Z.eqb a b.

Definition registry_entry_ok (f : fn) : bool :=
  match find_func (fn_name f) func_table with
  | None => false
  | Some fi =>
      opt_z_eqb (fi_min fi) (fst (arity_of f)) && opt_z_eqb (fi_max fi) (snd (arity_of f))
      && list_eqb String.eqb (fi_deps fi) (if asap f then ["asap"] else []) && fi_enabled fi
  end.

Lemma registry_ok : forallb registry_entry_ok all_fns = true.
Proof. vm_compute. reflexivity. Qed.
