(* C14 — the specification, on event traces only (no model state, no reference to [step]).  Everything is executable, so
   the same predicates are evaluated by vm_compute on the traces logged from the real implementation (Run.v: [spec_code]). *)
From QT Require Export C14.Model.
Open Scope nat_scope.

(* ---- projections of a trace *)
Definition ev_sub (e : event) : list (Z * nat) := match e with WriteSubmit v t _ => [(v, t)] | _ => [] end.
Definition ev_failed (e : event) : list nat := match e with WriteSubmit _ _ (Some d) => [d] | _ => [] end.
Definition ev_took (e : event) : list (Z * nat) := match e with WriteTake v t => [(v, t)] | _ => [] end.
Definition ev_dwrite (e : event) : list Z := match e with WriteStart v => [v] | _ => [] end.
Definition ev_wend (e : event) : list wres := match e with WriteEnd r => [r] | _ => [] end.
Definition ev_deliver (e : event) : list (nat * tres) := match e with Deliver t r => [(t, r)] | _ => [] end.

Definition submitted (tr : list event) : list (Z * nat) := flat_map ev_sub tr.     (* (value, ticket), submission order *)
Definition failed (tr : list event) : list nat := flat_map ev_failed tr.           (* tickets failed with QueueFull *)
Definition took (tr : list event) : list (Z * nat) := flat_map ev_took tr.         (* what the write loop dequeued *)
Definition driver_writes (tr : list event) : list Z := flat_map ev_dwrite tr.      (* values started at the driver *)
Definition write_ends (tr : list event) : list wres := flat_map ev_wend tr.
Definition delivers (tr : list event) : list (nat * tres) := flat_map ev_deliver tr.

(* the submitted sequence minus exactly the tickets failed with QueueFull, in submission order *)
Definition keep (F : list nat) (p : Z * nat) : bool := negb (memb (snd p) F).
Definition surviving (tr : list event) : list (Z * nat) := filter (keep (failed tr)) (submitted tr).

(* tickets that are queued after [pre]: submitted, not failed, not yet dequeued by the write loop — oldest first *)
Definition outstanding (pre : list event) : list nat :=
  filter (fun t => negb (memb t (failed pre)) && negb (memb t (map snd (took pre)))) (map snd (submitted pre)).

(* [Disable], [Enable] (attribute changes) are neutral for every clause below: a value accepted while the port was enabled
   and still pending when it is disabled must be written like any other, in order, or its submitter told otherwise.
   [Discard t] (an entry removed from the queue by anything but the write loop or the overflow rule) is neither a failure
   nor a take: the ticket stays in [surviving]/[outstanding], so a discarded entry shows up as an order / result / told
   violation. *)

(* ---- mutual exclusion: scanning the trace, a call starts only when none is in flight *)
Definition is_rstart (e : event) : bool := match e with ReadStart _ => true | _ => false end.
Definition is_rend (e : event) : bool := match e with ReadEnd _ _ => true | _ => false end.
Definition is_wstart (e : event) : bool := match e with WriteStart _ | DirectStart _ => true | _ => false end.
Definition is_wend (e : event) : bool := match e with WriteEnd _ | DirectEnd _ => true | _ => false end.

Fixpoint excl (st en : event -> bool) (n : nat) (tr : list event) : bool :=
  match tr with
  | [] => true
  | e :: r =>
      if st e then match n with 0 => excl st en 1 r | S _ => false end
      else if en e then match n with 0 => false | S m => excl st en m r end
      else excl st en n r
  end.

Definition reads_exclusive (tr : list event) : bool := excl is_rstart is_rend 0 tr.
Definition writes_exclusive (tr : list event) : bool := excl is_wstart is_wend 0 tr.

Definition count (f : event -> bool) (tr : list event) : nat := List.length (filter f tr).

(* ---- order: the values started at the driver are a prefix of the surviving submissions *)
Fixpoint prefixb (a b : list Z) : bool :=
  match a, b with
  | [], _ => true
  | x :: a', y :: b' => (x =? y)%Z && prefixb a' b'
  | _ :: _, [] => false
  end.
Definition order_ok (tr : list event) : bool := prefixb (driver_writes tr) (map fst (surviving tr)).

(* ---- a ticket is failed only when [cap] tickets are queued, and it is the oldest of them *)
Definition drop_ok (cap : nat) (pre : list event) (d : option nat) : bool :=
  let q := outstanding pre in
  match d with
  | None => negb ((0 <? cap) && (cap <=? List.length q))
  | Some t => (0 <? cap) && (List.length q =? cap) && match q with t0 :: _ => t =? t0 | [] => false end
  end.

Fixpoint drops_ok_from (cap : nat) (pre_rev : list event) (tr : list event) : bool :=
  match tr with
  | [] => true
  | e :: r =>
      (match e with WriteSubmit _ _ d => drop_ok cap (rev pre_rev) d | _ => true end)
      && drops_ok_from cap (e :: pre_rev) r
  end.
Definition drops_ok (cap : nat) (tr : list event) : bool := drops_ok_from cap [] tr.

(* ---- notification: a submitter is told QueueFull exactly when its ticket was dropped; nobody is told twice *)
Fixpoint nodupb (l : list nat) : bool :=
  match l with [] => true | x :: r => negb (memb x r) && nodupb r end.
Definition is_qf (r : tres) : bool := match r with TQueueFull => true | _ => false end.
Definition notify_ok (tr : list event) : bool :=
  forallb (fun p => Bool.eqb (is_qf (snd p)) (memb (fst p) (failed tr))) (delivers tr)
  && nodupb (map fst (delivers tr)).

(* the other submitters are told the result of their own driver call: the k-th dequeued ticket gets the k-th result *)
Definition driver_results (tr : list event) : list (nat * tres) :=
  combine (map snd (took tr)) (map tres_of (write_ends tr)).
Definition results_ok (tr : list event) : bool :=
  forallb (fun p => is_qf (snd p) || option_eqb tres_eqb (lookup (fst p) (driver_results tr)) (Some (snd p))) (delivers tr).

(* ---- the submitter's own level: what transform_and_write_value (API function, eval loop, sequence step) and
   patch_port_value finally get back.  Judged on the prefix before the answer:
     told OK (or an API 204/202)  =>  the value was started at the driver and the driver call returned normally
     told QueueFull               <=> the ticket was dropped
     told an error                =>  the driver call of that ticket raised *)
Definition told_one (pre : list event) (e : event) : bool :=
  match e with
  | Told t r =>
      if is_qf r then memb t (failed pre)
      else negb (memb t (failed pre)) && option_eqb tres_eqb (lookup t (driver_results pre)) (Some r)
  | ApiTold t ok =>
      if ok then negb (memb t (failed pre)) && option_eqb tres_eqb (lookup t (driver_results pre)) (Some TOk)
      else memb t (failed pre) || option_eqb tres_eqb (lookup t (driver_results pre)) (Some TExc)
  | _ => true
  end.

Fixpoint told_ok_from (pre_rev : list event) (tr : list event) : bool :=
  match tr with
  | [] => true
  | e :: r => told_one (rev pre_rev) e && told_ok_from (e :: pre_rev) r
  end.
Definition told_ok (tr : list event) : bool := told_ok_from [] tr.

Definition ev_told (e : event) : list nat := match e with Told t _ => [t] | _ => [] end.
Definition tolds (tr : list event) : list nat := flat_map ev_told tr.

(* after a drained run every ticket has been answered, at both levels *)
Definition all_answered (tr : list event) : bool :=
  forallb (fun p => memb (snd p) (map fst (delivers tr)) && memb (snd p) (tolds tr)) (submitted tr).

(* every value the API accepted (204/202) was handed to the write queue; nothing leaves the queue on the side *)
Definition is_side_exit (e : event) : bool := match e with ApiUnqueued _ | Discard _ => true | _ => false end.
Definition all_queued (tr : list event) : bool := negb (existsb is_side_exit tr).

(* bit mask of the clauses a trace contradicts (0 = none) *)
Definition spec_code (cap : nat) (drained : bool) (tr : list event) : nat :=
  (if reads_exclusive tr then 0 else 1) + (if writes_exclusive tr then 0 else 2) + (if order_ok tr then 0 else 4)
  + (if drops_ok cap tr then 0 else 8) + (if notify_ok tr then 0 else 16) + (if results_ok tr then 0 else 32)
  + (if drained && negb (all_answered tr) then 64 else 0) + (if told_ok tr then 0 else 128)
  + (if all_queued tr then 0 else 256).
