(* C14 — the statements of Props/C14.v about the write path, from the invariant of QueueThm.v. *)
From QT Require Import C14.Spec C14.ExclThm C14.ListLemmas C14.QueueThm.
From Coq Require Import Permutation.
Open Scope nat_scope.

(* order: what reached the driver, followed by what is still pending, is the submitted sequence minus exactly the tickets
   failed with QueueFull, in submission order *)
Theorem write_order cap tr s :
  run cap init tr = Some s ->
  map fst (surviving tr) = driver_writes tr ++ pending_values s.
Proof.
  intros H. pose proof (Inv_run cap tr s H) as I. unfold pending_values.
  rewrite (iB _ _ _ I), map_app, (iC _ _ _ I), app_assoc. reflexivity.
Qed.

Corollary write_order_prefix cap tr s : run cap init tr = Some s -> order_ok tr = true.
Proof. intros H. unfold order_ok. rewrite (write_order cap tr s H). apply prefixb_app. Qed.

(* the queue of the model is exactly the trace-level notion "submitted, not failed, not yet dequeued" *)
Lemma outstanding_is_queue cap tr s : Inv cap tr s -> outstanding tr = map snd (write_q s).
Proof.
  intros I. unfold outstanding. rewrite filter_andb, filter_map_snd.
  change (filter (fun p : Z * nat => negb (memb (snd p) (failed tr))) (submitted tr)) with (surviving tr).
  pose proof (surviving_nodup _ _ _ I) as Hnd. rewrite (iB _ _ _ I), map_app in *.
  apply filter_notin_prefix. exact Hnd.
Qed.

(* a ticket fails with QueueFull only when cap tickets are queued, and it is the oldest of them; otherwise none fails *)
Theorem drop_rule cap tr s pre v t d post :
  run cap init tr = Some s -> tr = pre ++ WriteSubmit v t d :: post ->
  match d with
  | None => cap = 0 \/ List.length (outstanding pre) < cap
  | Some t0 => 0 < cap /\ List.length (outstanding pre) = cap /\ hd_error (outstanding pre) = Some t0
  end.
Proof.
  intros H ->. apply run_split in H. destruct H as (s1 & s2 & H1 & H2 & _).
  pose proof (Inv_run cap pre s1 H1) as I. rewrite (outstanding_is_queue _ _ _ I), map_length.
  pose proof (iQ _ _ _ I) as HQ.
  break_step H2; unfold full in *.
  - apply andb_prop in Heqb0. destruct Heqb0 as [Hc Hl]. apply Nat.ltb_lt in Hc. apply Nat.leb_le in Hl.
    apply Nat.eqb_eq in Heqb1. subst. specialize (HQ Hc). simpl in *. repeat split; auto; lia.
  - apply Bool.andb_false_iff in Heqb0. destruct Heqb0 as [Hc|Hl].
    + apply Nat.ltb_ge in Hc. left. lia.
    + apply Nat.leb_gt in Hl. right. exact Hl.
Qed.

Lemma drop_ok_accepted cap pre s1 v t d s2 :
  run cap init pre = Some s1 -> step cap s1 (WriteSubmit v t d) = Some s2 -> drop_ok cap pre d = true.
Proof.
  intros H1 H2.
  assert (run cap init (pre ++ WriteSubmit v t d :: []) = Some s2) as H.
  { unfold run. rewrite run_gen_app. unfold run in H1. rewrite H1. cbn [run_gen]. unfold step in H2. rewrite H2. reflexivity. }
  pose proof (drop_rule cap _ s2 pre v t d [] H eq_refl) as R. unfold drop_ok.
  destruct d as [t0|].
  - destruct R as (Hc & Hl & Hh). apply Nat.ltb_lt in Hc. rewrite Hc, Hl, Nat.eqb_refl. simpl.
    destruct (outstanding pre); [discriminate|]. injection Hh as ->. apply Nat.eqb_refl.
  - apply Bool.negb_true_iff. apply Bool.andb_false_iff. destruct R as [->|R]; [left; reflexivity|].
    right. apply Nat.leb_gt. exact R.
Qed.

Lemma drops_ok_from_accepted cap tr : forall pre s,
  run cap init (pre ++ tr) = Some s -> drops_ok_from cap (rev pre) tr = true.
Proof.
  induction tr as [|e tr IH]; intros pre s H; [reflexivity|].
  simpl. apply andb_true_intro. split.
  - rewrite rev_involutive. destruct e; try reflexivity.
    apply run_split in H. destruct H as (s1 & s2 & H1 & H2 & _). exact (drop_ok_accepted cap pre s1 v t d s2 H1 H2).
  - replace (e :: rev pre) with (rev (pre ++ [e])) by (rewrite rev_app_distr; reflexivity).
    apply (IH (pre ++ [e]) s). rewrite <- app_assoc. exact H.
Qed.

Corollary drops_ok_accepted cap tr s : run cap init tr = Some s -> drops_ok cap tr = true.
Proof. intros H. exact (drops_ok_from_accepted cap tr [] s H). Qed.

(* no ticket is lost or duplicated: in every reachable state the tickets issued so far are, each exactly once, resolved
   (written or failed with QueueFull), in flight at the driver, or still queued *)
Theorem tickets_partition cap tr s :
  run cap init tr = Some s ->
  map snd (submitted tr) = seq 0 (next s) /\
  Permutation (map snd (submitted tr)) (map fst (results s) ++ in_flight_tickets s ++ map snd (write_q s)) /\
  NoDup (map fst (results s) ++ in_flight_tickets s ++ map snd (write_q s)) /\
  (forall t, In (t, TQueueFull) (results s) <-> In t (failed tr)).
Proof.
  intros H. pose proof (Inv_run cap tr s H) as I. pose proof (iP _ _ _ I) as P. repeat split.
  - exact (iA _ _ _ I).
  - rewrite (iA _ _ _ I). exact P.
  - eapply Permutation_NoDup; [exact P|apply seq_NoDup].
  - apply (iF _ _ _ I).
  - apply (iF _ _ _ I).
Qed.

Lemma results_nodup cap tr s : Inv cap tr s -> NoDup (map fst (results s)).
Proof.
  intros I. pose proof (iP _ _ _ I) as P.
  assert (NoDup (map fst (results s) ++ in_flight_tickets s ++ map snd (write_q s))) as N
    by (eapply Permutation_NoDup; [exact P|apply seq_NoDup]).
  exact (NoDup_app_l _ _ N).
Qed.

(* notification: a submitter is told what was recorded for its ticket; it is told QueueFull exactly when its ticket was
   dropped; nobody is told twice *)
Theorem drop_notified cap tr s :
  run cap init tr = Some s ->
  (forall t, In t (failed tr) -> In (t, TQueueFull) (results s)) /\
  (forall t r, In (t, r) (delivers tr) -> In (t, r) (results s) /\ (r = TQueueFull <-> In t (failed tr))) /\
  NoDup (map fst (delivers tr)).
Proof.
  intros H. pose proof (Inv_run cap tr s H) as I. repeat split.
  - intros t Hin. apply (iF _ _ _ I). exact Hin.
  - apply (iG _ _ _ I). exact H0.
  - intros ->. apply (iF _ _ _ I). apply (iG _ _ _ I). exact H0.
  - intros Hf. apply (iF _ _ _ I) in Hf. apply (iG _ _ _ I) in H0.
    exact (NoDup_fst_functional _ _ _ _ (results_nodup _ _ _ I) H0 Hf).
  - rewrite (iH _ _ _ I). apply NoDup_rev. exact (iN _ _ _ I).
Qed.

Corollary notify_ok_accepted cap tr s : run cap init tr = Some s -> notify_ok tr = true.
Proof.
  intros H. destruct (drop_notified cap tr s H) as (_ & D & N). unfold notify_ok.
  apply andb_true_intro. split; [|apply nodupb_NoDup; exact N].
  apply forallb_forall. intros [t r] Hin. simpl. destruct (D t r Hin) as (_ & Hiff).
  destruct (memb t (failed tr)) eqn:M.
  - apply memb_In in M. apply Hiff in M. subst. reflexivity.
  - apply memb_false in M. destruct r; simpl; try reflexivity. exfalso. apply M. apply Hiff. reflexivity.
Qed.
