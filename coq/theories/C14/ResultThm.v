(* C14 — a submitter whose ticket was not dropped is told the result of its own driver call (the k-th dequeued ticket gets
   the k-th driver result), and the whole executable specification holds of every accepted trace. *)
From QT Require Import C14.Spec C14.ExclThm C14.ListLemmas C14.QueueThm C14.MainThm.
From Coq Require Import Permutation.
Open Scope nat_scope.

Lemma combine_app_eq {A B} (a a' : list A) (b b' : list B) :
  List.length a = List.length b -> combine (a ++ a') (b ++ b') = combine a b ++ combine a' b'.
Proof.
  revert b. induction a as [|x a IH]; intros [|y b] H; simpl in *; try discriminate; [reflexivity|].
  f_equal. apply IH. lia.
Qed.

Lemma combine_app_short {A B} (a a' : list A) (b : list B) :
  List.length a = List.length b -> combine (a ++ a') b = combine a b.
Proof.
  intros H. rewrite <- (app_nil_r b) at 1. rewrite combine_app_eq by exact H.
  destruct a'; simpl; apply app_nil_r.
Qed.

Lemma NoDup_combine_fst {B} (a : list nat) (b : list B) : NoDup a -> NoDup (map fst (combine a b)).
Proof.
  revert b. induction a as [|x a IH]; intros b H; simpl; [constructor|].
  destruct b as [|y b]; simpl; [constructor|].
  inversion H as [|z zs Hn Hd]; subst. constructor; [|exact (IH b Hd)].
  intros Hin. apply Hn. apply in_map_iff in Hin. destruct Hin as ([t r] & <- & Hc).
  exact (in_combine_l _ _ _ _ Hc).
Qed.

Record Inv2 (tr : list event) (s : pstate) : Prop := {
  jW : match wl s with
       | WTaken v t | WDriver v t =>
           exists l, took tr = l ++ [(v, t)] /\ List.length (write_ends tr) = List.length l
       | _ => List.length (write_ends tr) = List.length (took tr)
       end;
  jR : forall t r, In (t, r) (results s) -> r <> TQueueFull -> In (t, r) (driver_results tr)
}.

Lemma driver_results_frame tr e : ev_took e = [] -> ev_wend e = [] -> driver_results (tr ++ [e]) = driver_results tr.
Proof. intros H1 H2. unfold driver_results. rewrite took_snoc, write_ends_snoc, H1, H2, !app_nil_r. reflexivity. Qed.

Lemma Inv2_frame tr s e s' :
  Inv2 tr s -> ev_took e = [] -> ev_wend e = [] -> wl s' = wl s ->
  (forall t r, In (t, r) (results s') -> r <> TQueueFull -> In (t, r) (results s)) ->
  Inv2 (tr ++ [e]) s'.
Proof.
  intros [W R] H1 H2 Hw Hr. constructor.
  - rewrite Hw, took_snoc, write_ends_snoc, H1, H2, !app_nil_r. exact W.
  - intros t r Hin Hq. rewrite driver_results_frame by assumption. apply R; auto.
Qed.

Lemma Inv2_step cap tr s e s' : Inv2 tr s -> step cap s e = Some s' -> Inv2 (tr ++ [e]) s'.
Proof.
  intros J E. destruct e.
  - break_step E; apply (Inv2_frame tr s); auto.
  - break_step E; apply (Inv2_frame tr s); auto.
  - break_step E; apply (Inv2_frame tr s); auto.
  - break_step E; apply (Inv2_frame tr s); auto.
    simpl. intros t1 r [H|H] Hq; [injection H as <- <-; congruence|exact H].
  - (* WriteTake *)
    break_step E. apply andb_prop in Heqb. destruct Heqb as [Hv Ht].
    apply Z.eqb_eq in Hv. apply Nat.eqb_eq in Ht. subst v t.
    destruct J as [W R]. rewrite Heqw in W. constructor; simpl.
    + rewrite took_snoc, write_ends_snoc. simpl. rewrite app_nil_r. exists (took tr). auto.
    + intros t' r' Hin Hq. unfold driver_results. rewrite took_snoc, write_ends_snoc. simpl.
      rewrite app_nil_r, map_app, combine_app_short by (rewrite !map_length; auto). apply R; auto.
  - (* WriteStart *)
    break_step E. destruct J as [W R]. rewrite Heqw in W. constructor; simpl.
    + rewrite took_snoc, write_ends_snoc. simpl. rewrite !app_nil_r. exact W.
    + intros t' r' Hin Hq. rewrite driver_results_frame by reflexivity. apply R; auto.
  - (* WriteEnd *)
    break_step E. destruct J as [W R]. rewrite Heqw in W. destruct W as (l & Hl & Hlen).
    assert (driver_results (tr ++ [WriteEnd r]) = driver_results tr ++ [(t, tres_of r)]) as Hdr.
    { unfold driver_results. rewrite took_snoc, write_ends_snoc. simpl. rewrite app_nil_r, Hl, !map_app. simpl.
      rewrite combine_app_eq by (rewrite !map_length; auto).
      rewrite combine_app_short by (rewrite !map_length; auto). reflexivity. }
    constructor; simpl.
    + rewrite took_snoc, write_ends_snoc. simpl. rewrite app_nil_r, Hl, !app_length. simpl. lia.
    + intros t' r' [H|H] Hq; rewrite Hdr; apply in_or_app.
      * injection H as <- <-. right. left. reflexivity.
      * left. apply R; auto.
  - (* LoopResume *)
    break_step E. destruct J as [W R]. rewrite Heqw in W. constructor; simpl.
    + rewrite took_snoc, write_ends_snoc. simpl. rewrite !app_nil_r. exact W.
    + intros t' r' Hin Hq. rewrite driver_results_frame by reflexivity. apply R; auto.
  - break_step E; apply (Inv2_frame tr s); auto.
  - break_step E; apply (Inv2_frame tr s); auto.
  - break_step E; apply (Inv2_frame tr s); auto.
  - break_step E; apply (Inv2_frame tr s'); auto.
  - break_step E; apply (Inv2_frame tr s); auto.
  - break_step E; apply (Inv2_frame tr s'); auto.
  - break_step E; apply (Inv2_frame tr s'); auto.
  - break_step E; apply (Inv2_frame tr s); auto.
  - break_step E; apply (Inv2_frame tr s); auto.
  - discriminate E.
  - discriminate E.
Qed.

Lemma Inv2_run cap tr : forall s, run cap init tr = Some s -> Inv2 tr s.
Proof.
  induction tr as [|e tr IH] using rev_ind; intros s H.
  - injection H as <-. constructor; simpl; [reflexivity|intros t r []].
  - apply run_snoc in H. destruct H as (s1 & H1 & H2). exact (Inv2_step cap tr s1 e s (IH s1 H1) H2).
Qed.

Theorem told_own_result cap tr s :
  run cap init tr = Some s ->
  forall t r, In (t, r) (delivers tr) -> r <> TQueueFull -> lookup t (driver_results tr) = Some r.
Proof.
  intros H t r Hin Hq. pose proof (Inv_run cap tr s H) as I. pose proof (Inv2_run cap tr s H) as J.
  apply In_lookup.
  - unfold driver_results. apply NoDup_combine_fst.
    pose proof (surviving_nodup _ _ _ I) as N. rewrite (iB _ _ _ I), map_app in N. exact (NoDup_app_l _ _ N).
  - apply (jR _ _ J); [|exact Hq]. apply (iG _ _ _ I). exact Hin.
Qed.

Corollary results_ok_accepted cap tr s : run cap init tr = Some s -> results_ok tr = true.
Proof.
  intros H. unfold results_ok. apply forallb_forall. intros [t r] Hin. simpl.
  destruct r; simpl; try reflexivity; rewrite (told_own_result cap tr s H t _ Hin) by discriminate; reflexivity.
Qed.

(* ---- the submitter's level: what transform_and_write_value / patch_port_value finally answer *)
Lemma result_in_driver_results cap tr s :
  run cap init tr = Some s ->
  forall t r, In (t, r) (results s) -> r <> TQueueFull -> lookup t (driver_results tr) = Some r.
Proof.
  intros H t r Hin Hq. pose proof (Inv_run cap tr s H) as I. pose proof (Inv2_run cap tr s H) as J.
  apply In_lookup.
  - unfold driver_results. apply NoDup_combine_fst.
    pose proof (surviving_nodup _ _ _ I) as N. rewrite (iB _ _ _ I), map_app in N. exact (NoDup_app_l _ _ N).
  - apply (jR _ _ J); assumption.
Qed.

Lemma not_failed_of_result cap tr s t r :
  run cap init tr = Some s -> In (t, r) (results s) -> r <> TQueueFull -> memb t (failed tr) = false.
Proof.
  intros H Hin Hq. pose proof (Inv_run cap tr s H) as I. apply memb_false. intros Hf.
  apply (iF _ _ _ I) in Hf. apply Hq. exact (NoDup_fst_functional _ _ _ _ (results_nodup _ _ _ I) Hin Hf).
Qed.

Lemma told_one_accepted cap pre s1 e s2 :
  run cap init pre = Some s1 -> step cap s1 e = Some s2 -> told_one pre e = true.
Proof.
  intros H1 H2. pose proof (Inv_run cap pre s1 H1) as I. destruct e; try reflexivity.
  - (* Told *)
    break_step H2. apply tres_eqb_eq in Heqb0. subst t0. apply lookup_In in Heqo. simpl.
    destruct r; simpl.
    + rewrite (not_failed_of_result cap pre s2 t TOk H1 Heqo) by discriminate.
      rewrite (result_in_driver_results cap pre s2 H1 t TOk Heqo) by discriminate. reflexivity.
    + rewrite (not_failed_of_result cap pre s2 t TExc H1 Heqo) by discriminate.
      rewrite (result_in_driver_results cap pre s2 H1 t TExc Heqo) by discriminate. reflexivity.
    + apply memb_In. apply (iF _ _ _ I). exact Heqo.
  - (* ApiTold *)
    break_step H2. apply lookup_In in Heqo. apply Bool.eqb_prop in Heqb0. subst ok. simpl.
    destruct t0; simpl.
    + rewrite (not_failed_of_result cap pre s2 t TOk H1 Heqo) by discriminate.
      rewrite (result_in_driver_results cap pre s2 H1 t TOk Heqo) by discriminate. reflexivity.
    + rewrite (result_in_driver_results cap pre s2 H1 t TExc Heqo) by discriminate. apply Bool.orb_true_r.
    + apply Bool.orb_true_iff. left. apply memb_In. apply (iF _ _ _ I). exact Heqo.
Qed.

Lemma told_ok_from_accepted cap tr : forall pre s,
  run cap init (pre ++ tr) = Some s -> told_ok_from (rev pre) tr = true.
Proof.
  induction tr as [|e tr IH]; intros pre s H; [reflexivity|].
  simpl. apply andb_true_intro. split.
  - rewrite rev_involutive. apply run_split in H. destruct H as (s1 & s2 & H1 & H2 & _).
    exact (told_one_accepted cap pre s1 e s2 H1 H2).
  - replace (e :: rev pre) with (rev (pre ++ [e])) by (rewrite rev_app_distr; reflexivity).
    apply (IH (pre ++ [e]) s). rewrite <- app_assoc. exact H.
Qed.

Corollary told_ok_accepted cap tr s : run cap init tr = Some s -> told_ok tr = true.
Proof. intros H. exact (told_ok_from_accepted cap tr [] s H). Qed.

(* a submitter that is told OK had its value started at the driver (and the driver returned); one that is told QueueFull had
   its ticket dropped, and a dropped ticket's submitter is never told anything else *)
Theorem submitter_level cap tr s pre e post :
  run cap init tr = Some s -> tr = pre ++ e :: post ->
  match e with
  | Told t r =>
      (r = TQueueFull <-> In t (failed pre)) /\ (r <> TQueueFull -> lookup t (driver_results pre) = Some r /\ In t (map snd (took pre)))
  | ApiTold t true => ~ In t (failed pre) /\ lookup t (driver_results pre) = Some TOk /\ In t (map snd (took pre))
  | ApiTold t false => In t (failed pre) \/ lookup t (driver_results pre) = Some TExc
  | _ => True
  end.
Proof.
  intros H ->. apply run_split in H. destruct H as (s1 & s2 & H1 & H2 & _).
  pose proof (Inv_run cap pre s1 H1) as I.
  assert (forall t r, lookup t (driver_results pre) = Some r -> In t (map snd (took pre))) as Htook.
  { intros t r Hl. apply lookup_In in Hl. unfold driver_results in Hl. exact (in_combine_l _ _ _ _ Hl). }
  destruct e; try exact Logic.I.
  - break_step H2. apply tres_eqb_eq in Heqb0. subst t0. apply lookup_In in Heqo. split; [split|].
    + intros ->. apply (iF _ _ _ I). exact Heqo.
    + intros Hf. apply (iF _ _ _ I) in Hf. exact (NoDup_fst_functional _ _ _ _ (results_nodup _ _ _ I) Heqo Hf).
    + intros Hq. pose proof (result_in_driver_results cap pre s2 H1 t r Heqo Hq) as L. split; [exact L|exact (Htook _ _ L)].
  - break_step H2. apply lookup_In in Heqo. apply Bool.eqb_prop in Heqb0. subst ok.
    destruct t0; simpl.
    + pose proof (result_in_driver_results cap pre s2 H1 t TOk Heqo) as L. specialize (L ltac:(discriminate)).
      repeat split; [|exact L|exact (Htook _ _ L)].
      apply memb_false. apply (not_failed_of_result cap pre s2 t TOk H1 Heqo). discriminate.
    + right. apply (result_in_driver_results cap pre s2 H1 t TExc Heqo). discriminate.
    + left. apply (iF _ _ _ I). exact Heqo.
Qed.

(* every clause of the executable specification (Spec.v, the oracle run against the implementation) holds of every trace
   the model accepts; [all_answered] is a liveness clause, only checked on drained runs *)
Theorem spec_holds_of_accepted cap tr s : run cap init tr = Some s -> spec_code cap false tr = 0.
Proof.
  intros H. unfold spec_code.
  rewrite (reads_exclusive_accepted cap tr s H), (writes_exclusive_accepted cap tr s H), (write_order_prefix cap tr s H),
    (drops_ok_accepted cap tr s H), (notify_ok_accepted cap tr s H), (results_ok_accepted cap tr s H),
    (told_ok_accepted cap tr s H), (all_queued_accepted cap tr s H). reflexivity.
Qed.
