(* C14 — the write path: order, drop rule, no ticket lost or duplicated, notification.  One invariant, proved by induction
   over the trace (of any length) from the initial state. *)
From QT Require Import C14.Spec C14.ExclThm C14.ListLemmas.
From Coq Require Import Permutation.
Open Scope nat_scope.

(* ---- the trace projections at an appended event *)
Lemma submitted_snoc tr e : submitted (tr ++ [e]) = submitted tr ++ ev_sub e.
Proof. unfold submitted. rewrite flat_map_app. simpl. rewrite app_nil_r. reflexivity. Qed.
Lemma failed_snoc tr e : failed (tr ++ [e]) = failed tr ++ ev_failed e.
Proof. unfold failed. rewrite flat_map_app. simpl. rewrite app_nil_r. reflexivity. Qed.
Lemma took_snoc tr e : took (tr ++ [e]) = took tr ++ ev_took e.
Proof. unfold took. rewrite flat_map_app. simpl. rewrite app_nil_r. reflexivity. Qed.
Lemma driver_writes_snoc tr e : driver_writes (tr ++ [e]) = driver_writes tr ++ ev_dwrite e.
Proof. unfold driver_writes. rewrite flat_map_app. simpl. rewrite app_nil_r. reflexivity. Qed.
Lemma write_ends_snoc tr e : write_ends (tr ++ [e]) = write_ends tr ++ ev_wend e.
Proof. unfold write_ends. rewrite flat_map_app. simpl. rewrite app_nil_r. reflexivity. Qed.
Lemma delivers_snoc tr e : delivers (tr ++ [e]) = delivers tr ++ ev_deliver e.
Proof. unfold delivers. rewrite flat_map_app. simpl. rewrite app_nil_r. reflexivity. Qed.

Lemma surviving_frame tr e : ev_sub e = [] -> ev_failed e = [] -> surviving (tr ++ [e]) = surviving tr.
Proof. intros H1 H2. unfold surviving. rewrite submitted_snoc, failed_snoc, H1, H2, !app_nil_r. reflexivity. Qed.

Lemma keep_app F G p : keep (F ++ G) p = keep F p && keep G p.
Proof. unfold keep. rewrite memb_app. apply Bool.negb_orb. Qed.

Lemma surviving_submit tr v t :
  ~ In t (failed tr) -> surviving (tr ++ [WriteSubmit v t None]) = surviving tr ++ [(v, t)].
Proof.
  intros H. unfold surviving. rewrite submitted_snoc, failed_snoc. simpl. rewrite app_nil_r, filter_app. simpl.
  unfold keep at 2. simpl. apply memb_false in H. rewrite H. reflexivity.
Qed.

Lemma surviving_drop tr v t d :
  ~ In t (failed tr) -> t <> d ->
  surviving (tr ++ [WriteSubmit v t (Some d)]) = filter (fun p => negb (snd p =? d)) (surviving tr) ++ [(v, t)].
Proof.
  intros H Hd. unfold surviving. rewrite submitted_snoc, failed_snoc. simpl. rewrite filter_app. simpl.
  rewrite keep_app. unfold keep at 2 3. simpl. apply memb_false in H. rewrite H. simpl.
  apply Nat.eqb_neq in Hd. rewrite Hd. simpl. f_equal.
  rewrite <- filter_andb. apply filter_ext. intros p. rewrite keep_app. unfold keep at 2. simpl.
  rewrite Bool.orb_false_r. reflexivity.
Qed.

(* ---- the invariant *)
Record Inv (cap : nat) (tr : list event) (s : pstate) : Prop := {
  iA : map snd (submitted tr) = seq 0 (next s);
  iB : surviving tr = took tr ++ write_q s;
  iC : map fst (took tr) = driver_writes tr ++ taken_values s;
  iD : forall t, In t (failed tr) -> t < next s;
  iQ : 0 < cap -> List.length (write_q s) <= cap;
  iP : Permutation (seq 0 (next s)) (map fst (results s) ++ in_flight_tickets s ++ map snd (write_q s));
  iF : forall t, In (t, TQueueFull) (results s) <-> In t (failed tr);
  iG : forall t r, In (t, r) (delivers tr) -> In (t, r) (results s);
  iH : map fst (delivers tr) = rev (delivered s);
  iN : NoDup (delivered s)
}.

Lemma Inv_init cap : Inv cap [] init.
Proof.
  constructor; simpl; try reflexivity; try tauto; try lia; try constructor.
Qed.

Lemma surviving_nodup cap tr s : Inv cap tr s -> NoDup (map snd (surviving tr)).
Proof. intros I. unfold surviving. apply NoDup_map_filter. rewrite (iA _ _ _ I). apply seq_NoDup. Qed.

Lemma queued_lt cap tr s p : Inv cap tr s -> In p (write_q s) -> snd p < next s.
Proof.
  intros I Hin. assert (In p (surviving tr)) as H by (rewrite (iB _ _ _ I); apply in_or_app; right; exact Hin).
  unfold surviving in H. apply filter_In in H. destruct H as [H _].
  assert (In (snd p) (map snd (submitted tr))) as H' by (apply in_map; exact H).
  rewrite (iA _ _ _ I) in H'. apply in_seq in H'. lia.
Qed.

Ltac frame_trace :=
  rewrite ?submitted_snoc, ?failed_snoc, ?took_snoc, ?driver_writes_snoc, ?write_ends_snoc, ?delivers_snoc;
  simpl; rewrite ?app_nil_r.

(* events that do not touch the write path *)
Lemma Inv_frame cap tr s e s' :
  Inv cap tr s ->
  ev_sub e = [] -> ev_failed e = [] -> ev_took e = [] -> ev_dwrite e = [] -> ev_deliver e = [] ->
  write_q s' = write_q s -> wl s' = wl s -> next s' = next s -> results s' = results s -> delivered s' = delivered s ->
  Inv cap (tr ++ [e]) s'.
Proof.
  intros I E1 E2 E3 E4 E5 Hq Hw Hn Hr Hd.
  destruct I. constructor; unfold taken_values, in_flight_tickets in *;
    rewrite ?surviving_frame by assumption;
    rewrite ?submitted_snoc, ?failed_snoc, ?took_snoc, ?driver_writes_snoc, ?delivers_snoc, ?E1, ?E2, ?E3, ?E4, ?E5,
      ?app_nil_r, ?Hq, ?Hw, ?Hn, ?Hr, ?Hd; assumption.
Qed.

Lemma Inv_step cap tr s e s' : Inv cap tr s -> step cap s e = Some s' -> Inv cap (tr ++ [e]) s'.
Proof.
  intros I E. destruct e.
  - (* ReadRequest *) break_step E; apply (Inv_frame cap tr s); auto.
  - (* ReadStart *) break_step E; apply (Inv_frame cap tr s); auto.
  - (* ReadEnd *) break_step E; apply (Inv_frame cap tr s); auto.
  - (* WriteSubmit *)
    break_step E.
    + (* queue full: the oldest entry is dropped *)
      rename n into t0. apply Bool.negb_false_iff in Heqb. apply Nat.eqb_eq in Heqb. subst t.
      apply Nat.eqb_eq in Heqb1. subst n0.
      assert (t0 < next s) as Ht0 by (apply (queued_lt cap tr s (z, t0) I); rewrite Heql; left; reflexivity).
      assert (~ In (next s) (failed tr)) as Hnf by (intros Hin; apply (iD _ _ _ I) in Hin; lia).
      pose proof (surviving_nodup _ _ _ I) as Hnd. rewrite (iB _ _ _ I), Heql in Hnd.
      destruct I. constructor; cbn -[seq].
      * rewrite submitted_snoc. cbn -[seq]. rewrite map_app, iA0. cbn -[seq]. rewrite seq_S. reflexivity.
      * rewrite surviving_drop by (auto; lia). rewrite iB0, Heql, (filter_remove_unique _ _ _ _ Hnd), took_snoc.
        simpl. rewrite app_nil_r, app_assoc. reflexivity.
      * rewrite took_snoc, driver_writes_snoc. simpl. rewrite !app_nil_r. exact iC0.
      * rewrite failed_snoc. simpl. intros t Hin. apply in_app_or in Hin. destruct Hin as [Hin|[<-|[]]].
        -- apply iD0 in Hin. lia.
        -- lia.
      * intros Hc. specialize (iQ0 Hc). rewrite Heql in iQ0. simpl in iQ0. rewrite app_length. simpl. lia.
      * unfold in_flight_tickets in *. cbn -[seq]. rewrite seq_S. cbn -[seq]. rewrite Heql in iP0. simpl in iP0.
        rewrite map_app. simpl. apply perm_drop_push. exact iP0.
      * rewrite failed_snoc. simpl. intros t. rewrite in_app_iff. simpl. rewrite <- iF0. split.
        -- intros [H|H]; [injection H as ->; right; left; reflexivity|left; exact H].
        -- intros [H|[->|[]]]; [right; exact H|left; reflexivity].
      * rewrite delivers_snoc. simpl. rewrite app_nil_r. intros t r Hin. right. apply iG0. exact Hin.
      * rewrite delivers_snoc. simpl. rewrite app_nil_r. exact iH0.
      * exact iN0.
    + (* room in the queue *)
      apply Bool.negb_false_iff in Heqb. apply Nat.eqb_eq in Heqb. subst t.
      assert (~ In (next s) (failed tr)) as Hnf by (intros Hin; apply (iD _ _ _ I) in Hin; lia).
      destruct I. constructor; cbn -[seq].
      * rewrite submitted_snoc. cbn -[seq]. rewrite map_app, iA0. cbn -[seq]. rewrite seq_S. reflexivity.
      * rewrite surviving_submit by exact Hnf. rewrite iB0, took_snoc. simpl. rewrite app_nil_r, app_assoc. reflexivity.
      * rewrite took_snoc, driver_writes_snoc. simpl. rewrite !app_nil_r. exact iC0.
      * rewrite failed_snoc. simpl. rewrite app_nil_r. intros t Hin. apply iD0 in Hin. lia.
      * intros Hc. rewrite app_length. simpl. unfold full in Heqb0.
        apply Bool.andb_false_iff in Heqb0. destruct Heqb0 as [H|H].
        -- apply Nat.ltb_ge in H. lia.
        -- apply Nat.leb_gt in H. lia.
      * unfold in_flight_tickets in *. cbn -[seq]. rewrite seq_S. cbn -[seq]. rewrite map_app. simpl.
        apply perm_push. exact iP0.
      * rewrite failed_snoc. simpl. rewrite app_nil_r. exact iF0.
      * rewrite delivers_snoc. simpl. rewrite app_nil_r. exact iG0.
      * rewrite delivers_snoc. simpl. rewrite app_nil_r. exact iH0.
      * exact iN0.
  - (* WriteTake *)
    break_step E. apply andb_prop in Heqb. destruct Heqb as [Hv Ht].
    apply Z.eqb_eq in Hv. apply Nat.eqb_eq in Ht. subst v t.
    destruct I. constructor; unfold taken_values, in_flight_tickets in *; simpl.
    + rewrite submitted_snoc. simpl. rewrite app_nil_r. exact iA0.
    + rewrite surviving_frame by reflexivity. rewrite iB0, Heql, took_snoc. simpl. rewrite <- app_assoc. reflexivity.
    + rewrite took_snoc, driver_writes_snoc. simpl. rewrite map_app, iC0, Heqw. simpl. rewrite !app_nil_r. reflexivity.
    + rewrite failed_snoc. simpl. rewrite app_nil_r. exact iD0.
    + intros Hc. specialize (iQ0 Hc). rewrite Heql in iQ0. simpl in iQ0. lia.
    + rewrite Heqw, Heql in iP0. simpl in iP0. exact iP0.
    + rewrite failed_snoc. simpl. rewrite app_nil_r. exact iF0.
    + rewrite delivers_snoc. simpl. rewrite app_nil_r. exact iG0.
    + rewrite delivers_snoc. simpl. rewrite app_nil_r. exact iH0.
    + exact iN0.
  - (* WriteStart *)
    break_step E. apply andb_prop in Heqb. destruct Heqb as [Hv _]. apply Z.eqb_eq in Hv. subst v.
    destruct I. constructor; unfold taken_values, in_flight_tickets in *; simpl.
    + rewrite submitted_snoc. simpl. rewrite app_nil_r. exact iA0.
    + rewrite surviving_frame by reflexivity. rewrite took_snoc. simpl. rewrite app_nil_r. exact iB0.
    + rewrite took_snoc, driver_writes_snoc. simpl. rewrite !app_nil_r, iC0, Heqw; simpl; rewrite ?app_nil_r; reflexivity.
    + rewrite failed_snoc. simpl. rewrite app_nil_r. exact iD0.
    + exact iQ0.
    + rewrite Heqw in iP0. exact iP0.
    + rewrite failed_snoc. simpl. rewrite app_nil_r. exact iF0.
    + rewrite delivers_snoc. simpl. rewrite app_nil_r. exact iG0.
    + rewrite delivers_snoc. simpl. rewrite app_nil_r. exact iH0.
    + exact iN0.
  - (* WriteEnd *)
    break_step E.
    destruct I. constructor; unfold taken_values, in_flight_tickets in *; simpl.
    + rewrite submitted_snoc. simpl. rewrite app_nil_r. exact iA0.
    + rewrite surviving_frame by reflexivity. rewrite took_snoc. simpl. rewrite app_nil_r. exact iB0.
    + rewrite took_snoc, driver_writes_snoc. simpl. rewrite !app_nil_r, iC0, Heqw; simpl; rewrite ?app_nil_r; reflexivity.
    + rewrite failed_snoc. simpl. rewrite app_nil_r. exact iD0.
    + exact iQ0.
    + rewrite Heqw in iP0. simpl in iP0. etransitivity; [exact iP0|]. symmetry. apply Permutation_middle.
    + rewrite failed_snoc. simpl. rewrite app_nil_r. intros t0. rewrite <- iF0. split.
      * intros [H|H]; [destruct r; discriminate|exact H].
      * intros H. right. exact H.
    + rewrite delivers_snoc. simpl. rewrite app_nil_r. intros t0 r0 Hin. right. apply iG0. exact Hin.
    + rewrite delivers_snoc. simpl. rewrite app_nil_r. exact iH0.
    + exact iN0.
  - (* LoopResume *)
    break_step E.
    destruct I. constructor; unfold taken_values, in_flight_tickets in *; simpl.
    + rewrite submitted_snoc. simpl. rewrite app_nil_r. exact iA0.
    + rewrite surviving_frame by reflexivity. rewrite took_snoc. simpl. rewrite app_nil_r. exact iB0.
    + rewrite took_snoc, driver_writes_snoc. simpl. rewrite !app_nil_r, iC0, Heqw; simpl; rewrite ?app_nil_r; reflexivity.
    + rewrite failed_snoc. simpl. rewrite app_nil_r. exact iD0.
    + exact iQ0.
    + rewrite Heqw in iP0. exact iP0.
    + rewrite failed_snoc. simpl. rewrite app_nil_r. exact iF0.
    + rewrite delivers_snoc. simpl. rewrite app_nil_r. exact iG0.
    + rewrite delivers_snoc. simpl. rewrite app_nil_r. exact iH0.
    + exact iN0.
  - (* Deliver *)
    break_step E. apply tres_eqb_eq in Heqb0. subst t0. apply lookup_In in Heqo. apply memb_false in Heqb.
    destruct I. constructor; unfold taken_values, in_flight_tickets in *; simpl.
    + rewrite submitted_snoc. simpl. rewrite app_nil_r. exact iA0.
    + rewrite surviving_frame by reflexivity. rewrite took_snoc. simpl. rewrite app_nil_r. exact iB0.
    + rewrite took_snoc, driver_writes_snoc. simpl. rewrite !app_nil_r. exact iC0.
    + rewrite failed_snoc. simpl. rewrite app_nil_r. exact iD0.
    + exact iQ0.
    + exact iP0.
    + rewrite failed_snoc. simpl. rewrite app_nil_r. exact iF0.
    + rewrite delivers_snoc. simpl. intros t1 r1 Hin. apply in_app_or in Hin. destruct Hin as [Hin|[H|[]]].
      * apply iG0. exact Hin.
      * injection H as <- <-. exact Heqo.
    + rewrite delivers_snoc. simpl. rewrite map_app, iH0. reflexivity.
    + constructor; assumption.
  - (* DirectStart *) break_step E; apply (Inv_frame cap tr s); auto.
  - (* DirectEnd *) break_step E; apply (Inv_frame cap tr s); auto.
  - (* Snap *) break_step E; apply (Inv_frame cap tr s'); auto.
  - (* ReadCancel *) break_step E; apply (Inv_frame cap tr s); auto.
  - (* Told *) break_step E; apply (Inv_frame cap tr s'); auto.
  - (* ApiTold *) break_step E; apply (Inv_frame cap tr s'); auto.
  - (* Disable *) break_step E; apply (Inv_frame cap tr s); auto.
  - (* Enable *) break_step E; apply (Inv_frame cap tr s); auto.
  - (* Discard *) discriminate E.
  - (* ApiUnqueued *) discriminate E.
Qed.

Theorem Inv_run cap tr : forall s, run cap init tr = Some s -> Inv cap tr s.
Proof.
  induction tr as [|e tr IH] using rev_ind; intros s H.
  - injection H as <-. apply Inv_init.
  - apply run_snoc in H. destruct H as (s1 & H1 & H2). exact (Inv_step cap tr s1 e s (IH s1 H1) H2).
Qed.
