(* C14 — mutual exclusion of driver calls, for every trace the model accepts (any length). *)
From QT Require Import C14.Spec.
Open Scope nat_scope.

Ltac break_step E :=
  unfold step, step_gen in E;
  repeat match type of E with
  | context [match ?x with _ => _ end] => destruct x eqn:?; try discriminate E
  end;
  try (let E' := fresh "E" in injection E as E'; subst).

Lemma run_gen_app g cap tr1 : forall s tr2,
  run_gen g cap s (tr1 ++ tr2) =
  match run_gen g cap s tr1 with Some s' => run_gen g cap s' tr2 | None => None end.
Proof.
  induction tr1 as [|e tr1 IH]; intros s tr2; simpl; [reflexivity|].
  destruct (step_gen g cap s e); [apply IH|reflexivity].
Qed.

Lemma run_snoc cap s tr e s2 :
  run cap s (tr ++ [e]) = Some s2 -> exists s1, run cap s tr = Some s1 /\ step cap s1 e = Some s2.
Proof.
  unfold run. rewrite run_gen_app. destruct (run_gen true cap s tr) as [s1|]; [|discriminate].
  simpl. unfold step. destruct (step_gen true cap s1 e) as [s2'|] eqn:E; [|discriminate].
  intros H; injection H as ->. exists s1. auto.
Qed.

Lemma run_split cap s pre e post s3 :
  run cap s (pre ++ e :: post) = Some s3 ->
  exists s1 s2, run cap s pre = Some s1 /\ step cap s1 e = Some s2 /\ run cap s2 post = Some s3.
Proof.
  unfold run. rewrite run_gen_app. destruct (run_gen true cap s pre) as [s1|]; [|discriminate].
  simpl. unfold step. destruct (step_gen true cap s1 e) as [s2|] eqn:E; [|discriminate].
  intros H. exists s1, s2. auto.
Qed.

(* ---- reads: the `_reading` guard *)
Lemma reads_excl_from cap tr : forall s s',
  run cap s tr = Some s' -> excl is_rstart is_rend (reads_in_flight s) tr = true.
Proof.
  induction tr as [|e tr IH]; intros s s' H; [reflexivity|].
  unfold run in H; simpl in H. destruct (step_gen true cap s e) as [s1|] eqn:E; [|discriminate].
  specialize (IH s1 s' H). unfold reads_in_flight in *.
  destruct e; simpl; break_step E; simpl in *;
    repeat match goal with H : reading _ = _ |- _ => rewrite H in * end; simpl in *; try exact IH;
    try (destruct (reading s) as [[|]|]; simpl in *; try discriminate; exact IH).
Qed.

(* ---- writes: one write loop, and the direct write of load_from_data excluded by the lock *)
Lemma writes_inv cap s e s' :
  step cap s e = Some s' -> writes_in_flight s <= 1 -> writes_in_flight s' <= 1.
Proof.
  intros E H. unfold writes_in_flight in *.
  destruct e; break_step E; simpl in *;
    repeat match goal with H : wl _ = _ |- _ => rewrite H in * end;
    repeat match goal with H : direct _ = _ |- _ => rewrite H in * end; simpl in *; try lia;
    try (destruct (wl s); destruct (direct s); simpl in *; try discriminate; lia).
Qed.

Lemma writes_excl_from cap tr : forall s s',
  run cap s tr = Some s' -> writes_in_flight s <= 1 ->
  excl is_wstart is_wend (writes_in_flight s) tr = true.
Proof.
  induction tr as [|e tr IH]; intros s s' H Hle; [reflexivity|].
  unfold run in H; simpl in H. destruct (step_gen true cap s e) as [s1|] eqn:E; [|discriminate].
  pose proof (writes_inv cap s e s1 E Hle) as Hle1.
  specialize (IH s1 s' H Hle1). unfold writes_in_flight in *.
  destruct e; simpl; break_step E; simpl in *;
    repeat match goal with H : wl _ = _ |- _ => rewrite H in * end;
    repeat match goal with H : direct _ = _ |- _ => rewrite H in * end; simpl in *; try exact IH;
    try (destruct (wl s); destruct (direct s); simpl in *; try discriminate; try lia; exact IH).
Qed.

Theorem reads_exclusive_accepted cap tr s : run cap init tr = Some s -> reads_exclusive tr = true.
Proof. intros H. exact (reads_excl_from cap tr init s H). Qed.

Theorem writes_exclusive_accepted cap tr s : run cap init tr = Some s -> writes_exclusive tr = true.
Proof. intros H. apply (writes_excl_from cap tr init s H). unfold writes_in_flight, init; simpl; lia. Qed.

(* ---- what [excl] means: in every prefix, starts - ends is 0 or 1 *)
Lemma excl_counts st en (Hdisj : forall e, st e = true -> en e = false) tr : forall n pre post,
  n <= 1 -> excl st en n tr = true -> tr = pre ++ post ->
  n + count st pre <= count en pre + 1 /\ count en pre <= n + count st pre.
Proof.
  unfold count. induction tr as [|a tr IH]; intros n pre post Hn Hx Heq.
  - destruct pre; [|discriminate]. simpl. lia.
  - destruct pre as [|b pre]; [simpl; lia|].
    simpl in Heq. injection Heq as <- Heq. simpl in Hx. simpl.
    destruct (st a) eqn:Sa.
    + rewrite (Hdisj a Sa). destruct n; [|discriminate].
      destruct (IH 1 pre post (le_n 1) Hx Heq). simpl. lia.
    + destruct (en a) eqn:Ea.
      * destruct n as [|m]; [discriminate|].
        assert (m <= 1) by lia. destruct (IH m pre post H Hx Heq). simpl. lia.
      * apply (IH n pre post Hn Hx Heq).
Qed.

Lemma rdisj : forall e, is_rstart e = true -> is_rend e = false.
Proof. destruct e; simpl; congruence. Qed.
Lemma wdisj : forall e, is_wstart e = true -> is_wend e = false.
Proof. destruct e; simpl; congruence. Qed.

(* at most one driver read in flight after any prefix of an accepted trace *)
Theorem reads_never_overlap cap tr s :
  run cap init tr = Some s ->
  forall pre post, tr = pre ++ post ->
    count is_rend pre <= count is_rstart pre <= count is_rend pre + 1.
Proof.
  intros H pre post Heq. pose proof (reads_exclusive_accepted cap tr s H) as X.
  destruct (excl_counts is_rstart is_rend rdisj tr 0 pre post (le_S _ _ (le_n 0)) X Heq). simpl in *. lia.
Qed.

Theorem writes_never_overlap cap tr s :
  run cap init tr = Some s ->
  forall pre post, tr = pre ++ post ->
    count is_wend pre <= count is_wstart pre <= count is_wend pre + 1.
Proof.
  intros H pre post Heq. pose proof (writes_exclusive_accepted cap tr s H) as X.
  destruct (excl_counts is_wstart is_wend wdisj tr 0 pre post (le_S _ _ (le_n 0)) X Heq). simpl in *. lia.
Qed.

(* the same on states: the model never reaches a state with two calls in flight *)
Theorem in_flight_bounds cap tr s :
  run cap init tr = Some s -> reads_in_flight s <= 1 /\ writes_in_flight s <= 1.
Proof.
  intros H. split.
  - unfold reads_in_flight. destruct (is_some (reading s)); lia.
  - revert s H. induction tr as [|e tr IH] using rev_ind; intros s H.
    + injection H as <-. unfold writes_in_flight, init; simpl; lia.
    + apply run_snoc in H. destruct H as (s1 & H1 & H2). eapply writes_inv; eauto.
Qed.

(* a caller cancelled while it waits in the guard only leaves the waiters: the read in flight keeps the flag *)
Definition read_waiters (s : pstate) : nat := (if wait_pass s then 1 else 0) + wait_load s.

Theorem cancel_keeps_holder cap s c s' :
  step cap s (ReadCancel c) = Some s' ->
  reading s' = reading s /\ reads_in_flight s' = reads_in_flight s /\ read_waiters s = S (read_waiters s')
  /\ write_q s' = write_q s /\ wl s' = wl s.
Proof.
  intros E. unfold reads_in_flight, read_waiters. destruct c; break_step E; simpl; repeat split; auto;
    rewrite ?Heqb, ?Heqn; simpl; lia.
Qed.

(* disabling / enabling a port does not touch its write path: what was accepted before is still queued, in flight or
   resolved exactly as it was (so, by the order theorem, it is still written in order) *)
Theorem disable_keeps_write_path cap s e s' :
  e = Disable \/ e = Enable -> step cap s e = Some s' ->
  write_q s' = write_q s /\ wl s' = wl s /\ results s' = results s /\ next s' = next s /\ delivered s' = delivered s
  /\ reading s' = reading s /\ direct s' = direct s.
Proof. intros [-> | ->] E; break_step E; simpl; repeat split; reflexivity. Qed.

(* no accepted trace removes a queued entry by any way other than the write loop or the overflow rule *)
Theorem no_discard cap tr s : run cap init tr = Some s -> forall t, ~ In (Discard t) tr.
Proof.
  intros H t Hin. apply in_split in Hin. destruct Hin as (pre & post & ->).
  apply run_split in H. destruct H as (s1 & s2 & _ & H2 & _). discriminate H2.
Qed.

(* ... nor a 2xx answer of patch_port_value for a value that was not queued *)
Theorem no_side_exit cap tr s : run cap init tr = Some s -> forall e, In e tr -> is_side_exit e = false.
Proof.
  intros H e Hin. apply in_split in Hin. destruct Hin as (pre & post & ->).
  apply run_split in H. destruct H as (s1 & s2 & _ & H2 & _). destruct e; try reflexivity; discriminate H2.
Qed.

Corollary all_queued_accepted cap tr s : run cap init tr = Some s -> all_queued tr = true.
Proof.
  intros H. unfold all_queued. apply Bool.negb_true_iff. apply Bool.not_true_is_false. intros X.
  apply existsb_exists in X. destruct X as (e & Hin & He). rewrite (no_side_exit cap tr s H e Hin) in He. discriminate.
Qed.
