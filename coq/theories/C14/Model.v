(* C14 — one port's driver I/O as an executable labelled transition system.  Definitions only.

   Code modelled (qtoggleserver/core/ports.py, core/main.py):
     read_transformed_value   `while self._reading: await sleep(1)` ; `_reading = True` ; `await read_value()` ;
                              `finally: _reading = False`                      -> ReadRequest / ReadStart / ReadEnd
     main.update              passes are serialised by the update lock: at most one pass is inside (or waiting in) a
                              port's read_transformed_value                    -> the [SrcPass] side conditions
     _write_value_queued      put_nowait on the bounded queue; on QueueFull dequeue the OLDEST entry, fail its future
                              with QueueFull, retry; `await done`              -> WriteSubmit v t dropped / Deliver t r
     _write_value_loop        `get()` ; `_writing = True` ; `await write_value(v)` ; resolve the future ;
                              `_writing = False` ; `await main.update()`       -> WriteTake / WriteStart / WriteEnd / LoopResume
     load_from_data           direct `await self.write_value(v)` for a persisted writable port -> DirectStart / DirectEnd
     cancellation             of a task that waits in the read guard (an aborted reset/restore request) -> ReadCancel
     transform_and_write_value / patch_port_value   what the submitter is finally told           -> Told / ApiTold

   One event per suspension point (that is where asyncio can interleave other tasks).  [step] returns [None] for a
   transition the code cannot take.  [guarded = true] is the code with fixes/C14-load-write-lock.diff (the direct write of
   load_from_data and the write loop exclude each other); [guarded = false] is the code before it (History/C14Old.v). *)
From QT Require Export Base.Prelude.
Open Scope nat_scope.

Inductive src := SrcPass | SrcLoad.                 (* who asks for a read: a polling pass / load_from_data (load, reset) *)
Inductive outcome := OVal | OSkip | OErr.           (* read_value returned / raised SkipRead / raised *)
Inductive wres := WOk | WExc.                       (* write_value returned / raised *)
Inductive tres := TOk | TExc | TQueueFull.          (* what the submitter of a ticket is told *)

Inductive event :=
| ReadRequest (c : src)                             (* a caller enters read_transformed_value *)
| ReadStart (c : src)                               (* it passed the guard: driver read_value entered *)
| ReadEnd (c : src) (o : outcome)                   (* driver read_value left *)
| WriteSubmit (v : Z) (t : nat) (d : option nat)    (* ticket t queued; d = the ticket dequeued and failed to make room *)
| WriteTake (v : Z) (t : nat)                       (* the write loop's get() returned *)
| WriteStart (v : Z)                                (* driver write_value entered from the write loop *)
| WriteEnd (r : wres)                               (* ... left; the ticket's future is resolved *)
| LoopResume                                        (* the loop's `await main.update()` returned *)
| Deliver (t : nat) (r : tres)                      (* the submitter's `await done` returned / raised *)
| DirectStart (v : Z)                               (* driver write_value entered from load_from_data *)
| DirectEnd (r : wres)
| Snap (rd wr : bool) (qlen : nat)                  (* observation of _reading, _writing, qsize() at a quiescent point *)
| ReadCancel (c : src)                              (* a caller is cancelled while it WAITS in the guard (before the driver call) *)
| Told (t : nat) (r : tres)                         (* transform_and_write_value returned / raised: what the API function, the
                                                       eval loop or the sequence step that submitted ticket t gets back *)
| ApiTold (t : nat) (ok : bool)                     (* patch_port_value answered 204/202 (true) or an error (false) *)
| Disable                                           (* disable() took effect (`enabled := false`); the write queue, the entry at the
                                                       driver and the pending futures are NOT touched by the code: values accepted
                                                       before are still written, in order *)
| Enable                                            (* enable() took effect *)
| Discard (t : nat)                                 (* an entry leaves the queue by any other way than the write loop's get() or
                                                       the overflow rule: the code has no such step *)
| ApiUnqueued (v : Z).                              (* patch_port_value answered 204/202 for v without handing it to the write
                                                       queue: the code has no such step (every accepted value gets a ticket) *)

Inductive wloop := WIdle | WTaken (v : Z) (t : nat) | WDriver (v : Z) (t : nat) | WUpdating.

Record pstate := mk {
  reading : option src;          (* _reading, and who holds it *)
  wait_pass : bool;              (* a pass is inside read_transformed_value, before the driver call *)
  wait_load : nat;               (* load/reset callers in the same position *)
  write_q : list (Z * nat);      (* _write_value_queue, oldest first *)
  wl : wloop;                    (* where the write loop is *)
  direct : bool;                 (* a direct write_value of load_from_data is in flight *)
  next : nat;                    (* tickets issued so far *)
  results : list (nat * tres);   (* resolved futures *)
  delivered : list nat;          (* submitters that have been told *)
  enabled : bool                 (* _enabled: polling passes and load/reset read only enabled ports *)
}.

Definition init : pstate := mk None false 0 [] WIdle false 0 [] [] false.

Definition set_reading s x := mk x (wait_pass s) (wait_load s) (write_q s) (wl s) (direct s) (next s) (results s) (delivered s) (enabled s).
Definition set_wait_pass s x := mk (reading s) x (wait_load s) (write_q s) (wl s) (direct s) (next s) (results s) (delivered s) (enabled s).
Definition set_wait_load s x := mk (reading s) (wait_pass s) x (write_q s) (wl s) (direct s) (next s) (results s) (delivered s) (enabled s).
Definition set_write_q s x := mk (reading s) (wait_pass s) (wait_load s) x (wl s) (direct s) (next s) (results s) (delivered s) (enabled s).
Definition set_wl s x := mk (reading s) (wait_pass s) (wait_load s) (write_q s) x (direct s) (next s) (results s) (delivered s) (enabled s).
Definition set_direct s x := mk (reading s) (wait_pass s) (wait_load s) (write_q s) (wl s) x (next s) (results s) (delivered s) (enabled s).
Definition set_next s x := mk (reading s) (wait_pass s) (wait_load s) (write_q s) (wl s) (direct s) x (results s) (delivered s) (enabled s).
Definition set_results s x := mk (reading s) (wait_pass s) (wait_load s) (write_q s) (wl s) (direct s) (next s) x (delivered s) (enabled s).
Definition set_delivered s x := mk (reading s) (wait_pass s) (wait_load s) (write_q s) (wl s) (direct s) (next s) (results s) x (enabled s).
Definition set_enabled s x := mk (reading s) (wait_pass s) (wait_load s) (write_q s) (wl s) (direct s) (next s) (results s) (delivered s) x.

Definition memb (t : nat) (l : list nat) : bool := existsb (Nat.eqb t) l.

Fixpoint lookup (t : nat) (l : list (nat * tres)) : option tres :=
  match l with
  | [] => None
  | (t', r) :: rest => if t =? t' then Some r else lookup t rest
  end.

Definition tres_eqb (a b : tres) : bool :=
  match a, b with TOk, TOk | TExc, TExc | TQueueFull, TQueueFull => true | _, _ => false end.

Definition tres_of (r : wres) : tres := match r with WOk => TOk | WExc => TExc end.

Definition pass_reading (r : option src) : bool := match r with Some SrcPass => true | _ => false end.
Definition reads (r : option src) (c : src) : bool :=
  match r, c with Some SrcPass, SrcPass | Some SrcLoad, SrcLoad => true | _, _ => false end.
Definition is_some {A} (o : option A) : bool := match o with Some _ => true | None => false end.

Definition in_driver (w : wloop) : bool := match w with WDriver _ _ => true | _ => false end.
Definition flag_writing (w : wloop) : bool := match w with WTaken _ _ | WDriver _ _ => true | _ => false end.

(* asyncio.Queue(maxsize): maxsize <= 0 is unbounded *)
Definition full (cap : nat) (q : list (Z * nat)) : bool := (0 <? cap) && (cap <=? List.length q).

Definition step_gen (guarded : bool) (cap : nat) (s : pstate) (e : event) : option pstate :=
  match e with
  | ReadRequest SrcPass =>
      if negb (enabled s) || wait_pass s || pass_reading (reading s) then None else Some (set_wait_pass s true)
  | ReadRequest SrcLoad => if enabled s then Some (set_wait_load s (S (wait_load s))) else None
  | ReadStart c =>
      match reading s with
      | Some _ => None                                        (* the guard: nobody starts while _reading *)
      | None =>
          match c with
          | SrcPass => if wait_pass s then Some (set_reading (set_wait_pass s false) (Some SrcPass)) else None
          | SrcLoad => match wait_load s with
                       | 0 => None
                       | S n => Some (set_reading (set_wait_load s n) (Some SrcLoad))
                       end
          end
      end
  | ReadEnd c _ => if reads (reading s) c then Some (set_reading s None) else None
  | WriteSubmit v t d =>
      if negb (t =? next s) then None
      else if full cap (write_q s) then
        match write_q s, d with
        | (_, t0) :: rest, Some t1 =>
            if t1 =? t0
            then Some (set_results (set_next (set_write_q s (rest ++ [(v, t)])) (S t)) ((t0, TQueueFull) :: results s))
            else None
        | _, _ => None
        end
      else
        match d with
        | None => Some (set_next (set_write_q s (write_q s ++ [(v, t)])) (S t))
        | Some _ => None
        end
  | WriteTake v t =>
      match wl s, write_q s with
      | WIdle, (v0, t0) :: rest =>
          if (v =? v0)%Z && (t =? t0) then Some (set_wl (set_write_q s rest) (WTaken v0 t0)) else None
      | _, _ => None
      end
  | WriteStart v =>
      match wl s with
      | WTaken v0 t0 => if (v =? v0)%Z && negb (guarded && direct s) then Some (set_wl s (WDriver v0 t0)) else None
      | _ => None
      end
  | WriteEnd r =>
      match wl s with
      | WDriver _ t0 => Some (set_results (set_wl s WUpdating) ((t0, tres_of r) :: results s))
      | _ => None
      end
  | LoopResume => match wl s with WUpdating => Some (set_wl s WIdle) | _ => None end
  | Deliver t r =>
      if memb t (delivered s) then None
      else match lookup t (results s) with
           | Some r' => if tres_eqb r r' then Some (set_delivered s (t :: delivered s)) else None
           | None => None
           end
  | DirectStart _ =>
      if direct s || (guarded && in_driver (wl s)) then None else Some (set_direct s true)
  | DirectEnd _ => if direct s then Some (set_direct s false) else None
  | Snap rd wr qlen =>
      if Bool.eqb rd (is_some (reading s)) && Bool.eqb wr (flag_writing (wl s)) && (qlen =? List.length (write_q s))
      then Some s else None
  | ReadCancel SrcPass => if wait_pass s then Some (set_wait_pass s false) else None     (* the holder is untouched *)
  | ReadCancel SrcLoad => match wait_load s with 0 => None | S n => Some (set_wait_load s n) end
  | Told t r =>
      if memb t (delivered s)
      then match lookup t (results s) with Some r' => if tres_eqb r r' then Some s else None | None => None end
      else None
  | ApiTold t ok =>
      if memb t (delivered s)
      then match lookup t (results s) with
           | Some r' => if Bool.eqb ok (tres_eqb r' TOk) then Some s else None
           | None => None
           end
      else None
  | Disable => if enabled s then Some (set_enabled s false) else None
  | Enable => if enabled s then None else Some (set_enabled s true)
  | Discard _ => None
  | ApiUnqueued _ => None
  end.

Definition step := step_gen true.

Fixpoint run_gen (guarded : bool) (cap : nat) (s : pstate) (tr : list event) : option pstate :=
  match tr with
  | [] => Some s
  | e :: r => match step_gen guarded cap s e with Some s' => run_gen guarded cap s' r | None => None end
  end.

Definition run := run_gen true.

(* index of the first event the model refuses (= length of the trace when it accepts everything) *)
Fixpoint reject_at (guarded : bool) (cap : nat) (s : pstate) (tr : list event) (i : nat) : nat :=
  match tr with
  | [] => i
  | e :: r => match step_gen guarded cap s e with Some s' => reject_at guarded cap s' r (S i) | None => i end
  end.

(* observations on states *)
Definition reads_in_flight (s : pstate) : nat := if is_some (reading s) then 1 else 0.
Definition writes_in_flight (s : pstate) : nat := (if in_driver (wl s) then 1 else 0) + (if direct s then 1 else 0).
Definition in_flight_tickets (s : pstate) : list nat :=
  match wl s with WTaken _ t | WDriver _ t => [t] | _ => [] end.
Definition taken_values (s : pstate) : list Z := match wl s with WTaken v _ => [v] | _ => [] end.
Definition pending_values (s : pstate) : list Z := taken_values s ++ map fst (write_q s).
