(* C14 — list facts used by QueueThm.v *)
From QT Require Import C14.Spec.
From Coq Require Import Permutation.
Open Scope nat_scope.

Lemma memb_In t l : memb t l = true <-> In t l.
Proof.
  unfold memb. rewrite existsb_exists. split.
  - intros (x & Hx & E). apply Nat.eqb_eq in E. subst. exact Hx.
  - intros H. exists t. split; [exact H|apply Nat.eqb_refl].
Qed.

Lemma memb_false t l : memb t l = false <-> ~ In t l.
Proof. rewrite <- memb_In. destruct (memb t l); split; congruence. Qed.

Lemma memb_app t a b : memb t (a ++ b) = memb t a || memb t b.
Proof. unfold memb. apply existsb_app. Qed.

Lemma filter_all_true {A} (f : A -> bool) l : (forall x, In x l -> f x = true) -> filter f l = l.
Proof.
  induction l as [|a l IH]; intros H; simpl; [reflexivity|].
  rewrite (H a (or_introl eq_refl)). f_equal. apply IH. intros x Hx. apply H. right. exact Hx.
Qed.

Lemma filter_all_false {A} (f : A -> bool) l : (forall x, In x l -> f x = false) -> filter f l = [].
Proof.
  induction l as [|a l IH]; intros H; simpl; [reflexivity|].
  rewrite (H a (or_introl eq_refl)). apply IH. intros x Hx. apply H. right. exact Hx.
Qed.

Lemma filter_andb {A} (f g : A -> bool) l : filter (fun x => f x && g x) l = filter g (filter f l).
Proof.
  induction l as [|a l IH]; simpl; [reflexivity|].
  destruct (f a); simpl; [destruct (g a); rewrite IH; reflexivity|exact IH].
Qed.

Lemma filter_map_snd {A} (f : nat -> bool) (l : list (A * nat)) :
  filter f (map snd l) = map snd (filter (fun p => f (snd p)) l).
Proof.
  induction l as [|a l IH]; simpl; [reflexivity|].
  destruct (f (snd a)); simpl; rewrite IH; reflexivity.
Qed.

Lemma NoDup_map_filter {A B} (h : A -> B) (f : A -> bool) l : NoDup (map h l) -> NoDup (map h (filter f l)).
Proof.
  induction l as [|a l IH]; simpl; intros H; [constructor|].
  inversion H as [|x xs Hn Hd]; subst. destruct (f a); simpl; [|auto].
  constructor; [|auto]. intros Hin. apply Hn.
  apply in_map_iff in Hin. destruct Hin as (y & Hy & Hf). apply filter_In in Hf.
  apply in_map_iff. exists y. tauto.
Qed.

Lemma NoDup_app_disjoint {A} (a b : list A) : NoDup (a ++ b) -> forall x, In x a -> In x b -> False.
Proof.
  induction a as [|y a IH]; simpl; intros H x Ha Hb; [contradiction|].
  inversion H as [|z zs Hn Hd]; subst. destruct Ha as [->|Ha].
  - apply Hn. apply in_or_app. right. exact Hb.
  - exact (IH Hd x Ha Hb).
Qed.

(* removing the one entry with ticket d *)
Lemma filter_remove_unique {A} (l1 l2 : list (A * nat)) (v0 : A) (d : nat) :
  NoDup (map snd (l1 ++ (v0, d) :: l2)) ->
  filter (fun p => negb (snd p =? d)) (l1 ++ (v0, d) :: l2) = l1 ++ l2.
Proof.
  intros H. rewrite filter_app. simpl. rewrite Nat.eqb_refl. simpl.
  rewrite map_app in H. simpl in H.
  f_equal; apply filter_all_true; intros [v t] Hin; simpl; apply Bool.negb_true_iff; apply Nat.eqb_neq; intros ->.
  - apply (NoDup_app_disjoint _ _ H d).
    + apply in_map_iff. exists (v, d). auto.
    + left. reflexivity.
  - apply NoDup_remove_2 in H. apply H. apply in_or_app. right.
    apply in_map_iff. exists (v, d). auto.
Qed.

Lemma filter_notin_prefix (a b : list nat) :
  NoDup (a ++ b) -> filter (fun t => negb (memb t a)) (a ++ b) = b.
Proof.
  intros H. rewrite filter_app.
  rewrite (filter_all_false _ a), (filter_all_true _ b); [reflexivity| |].
  - intros x Hx. apply Bool.negb_true_iff. apply memb_false. intros Ha.
    exact (NoDup_app_disjoint _ _ H x Ha Hx).
  - intros x Hx. apply Bool.negb_false_iff. apply memb_In. exact Hx.
Qed.

Lemma prefixb_app a b : prefixb a (a ++ b) = true.
Proof. induction a as [|x a IH]; simpl; [reflexivity|]. rewrite Z.eqb_refl. exact IH. Qed.

Lemma nodupb_NoDup l : NoDup l -> nodupb l = true.
Proof.
  induction 1 as [|x l Hn Hd IH]; simpl; [reflexivity|].
  rewrite IH. apply memb_false in Hn. rewrite Hn. reflexivity.
Qed.

Lemma lookup_In t r l : lookup t l = Some r -> In (t, r) l.
Proof.
  induction l as [|[t' r'] l IH]; simpl; [discriminate|].
  destruct (t =? t') eqn:E.
  - intros H. injection H as ->. apply Nat.eqb_eq in E. subst. left. reflexivity.
  - intros H. right. exact (IH H).
Qed.

Lemma In_lookup t r (l : list (nat * tres)) : NoDup (map fst l) -> In (t, r) l -> lookup t l = Some r.
Proof.
  induction l as [|[t' r'] l IH]; simpl; intros Hn Hin; [contradiction|].
  inversion Hn as [|x xs Hx Hd]; subst. destruct Hin as [E|Hin].
  - injection E as -> ->. rewrite Nat.eqb_refl. reflexivity.
  - destruct (t =? t') eqn:E.
    + apply Nat.eqb_eq in E. subst. exfalso. apply Hx. apply in_map_iff. exists (t', r). auto.
    + exact (IH Hd Hin).
Qed.

Lemma tres_eqb_eq a b : tres_eqb a b = true -> a = b.
Proof. destruct a, b; simpl; congruence. Qed.

Lemma NoDup_fst_functional {B} (l : list (nat * B)) t r r' :
  NoDup (map fst l) -> In (t, r) l -> In (t, r') l -> r = r'.
Proof.
  induction l as [|[t0 r0] l IH]; simpl; intros Hn H1 H2; [contradiction|].
  inversion Hn as [|x xs Hx Hd]; subst.
  destruct H1 as [E1|H1], H2 as [E2|H2].
  - congruence.
  - injection E1 as -> ->. exfalso. apply Hx. apply in_map_iff. exists (t, r'). auto.
  - injection E2 as -> ->. exfalso. apply Hx. apply in_map_iff. exists (t, r). auto.
  - exact (IH Hd H1 H2).
Qed.

Lemma perm_push (S R I Q : list nat) n :
  Permutation S (R ++ I ++ Q) -> Permutation (S ++ [n]) (R ++ I ++ Q ++ [n]).
Proof.
  intros H. replace (R ++ I ++ Q ++ [n]) with ((R ++ I ++ Q) ++ [n]) by (rewrite <- !app_assoc; reflexivity).
  apply Permutation_app_tail. exact H.
Qed.

Lemma perm_drop_push (S R I Q : list nat) t0 n :
  Permutation S (R ++ I ++ t0 :: Q) -> Permutation (S ++ [n]) (t0 :: R ++ I ++ Q ++ [n]).
Proof.
  intros H. replace (t0 :: R ++ I ++ Q ++ [n]) with ((t0 :: R ++ I ++ Q) ++ [n]) by (simpl; rewrite <- !app_assoc; reflexivity).
  apply Permutation_app_tail. etransitivity; [exact H|].
  rewrite !app_assoc. symmetry. apply Permutation_middle.
Qed.

Lemma NoDup_app_l {A} (a b : list A) : NoDup (a ++ b) -> NoDup a.
Proof.
  induction a as [|x a IH]; simpl; intros H; [constructor|].
  inversion H as [|y ys Hn Hd]; subst. constructor; [|exact (IH Hd)].
  intros Hin. apply Hn. apply in_or_app. left. exact Hin.
Qed.
