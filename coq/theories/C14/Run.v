(* C14 — dispatch used by the generated case files.  A case = (queue capacity, drained?, trace of one port). *)
From QT Require Export C14.Spec.
Open Scope nat_scope.

Definition case := (nat * bool * list event)%type.

(* cases whose trace the model (the code with the fix / the code before it) refuses *)
Definition bad_model (cases : list case) : list nat :=
  mismatches (fun '(cap, _, tr) => is_some (run_gen true cap init tr)) cases 0.
Definition bad_old (cases : list case) : list nat :=
  mismatches (fun '(cap, _, tr) => is_some (run_gen false cap init tr)) cases 0.
(* per case: index of the first refused event (= trace length when accepted) *)
Definition reject_idx (cases : list case) : list nat :=
  map (fun '(cap, _, tr) => reject_at true cap init tr 0) cases.
(* cases that contradict the specification, and the mask of the clauses *)
Definition bad_spec (cases : list case) : list nat :=
  mismatches (fun '(cap, dr, tr) => spec_code cap dr tr =? 0) cases 0.
Definition spec_codes (cases : list case) : list nat :=
  map (fun '(cap, dr, tr) => spec_code cap dr tr) cases.
