(* C17 — property theorems.  Statements only: each is closed by [exact] of a lemma proved elsewhere. *)
From QT Require Import C17.Spec C17.CalendarThm C17.CalendarLoops C17.CalendarInstant C17.GenOk Gen.C17Gen.
Open Scope Z_scope.

(* the calendar: day number <-> (year, month, day) are inverse bijections on valid dates, for every day number *)
Theorem C17_civil_roundtrip_days : forall z, let '(y, m, d) := civil_from_days z in days_from_civil y m d = z.
Proof. exact days_from_civil_from_days. Qed.
Print Assumptions C17_civil_roundtrip_days.

Theorem C17_civil_roundtrip_date :
  forall y m d, valid_date y m d = true -> civil_from_days (days_from_civil y m d) = (y, m, d).
Proof. exact civil_from_days_from_civil. Qed.
Print Assumptions C17_civil_roundtrip_date.

(* YEAR .. SECONDDAY are the fields of the instant in local time, for every offset function and every instant *)
Theorem C17_fields_are_local_fields :
  forall off ts,
    fields_spec off ts [YEAR off ts; MONTH off ts; DAY off ts; DOW off ts; LDOM off ts; HOUR off ts; MINUTE off ts;
                        SECOND off ts; MINUTEDAY off ts; SECONDDAY off ts] = true.
Proof. exact fields_are_local_fields. Qed.
Print Assumptions C17_fields_are_local_fields.

(* BOW: the month/year stepping loops, started from the regenerated first-weekday rule, land on a valid date whose
   day number is   today - (weekday(today) - s) mod 7 + 7 n   for every today, n and first weekday s *)
Theorem C17_BOW_day :
  forall today n s, 0 <= s <= 6 ->
    at_day (bow_ymd bow_back today n s) (today - (weekday today - s) mod 7 + 7 * n).
Proof. exact (bow_ymd_day bow_back bow_back_ok). Qed.
Print Assumptions C17_BOW_day.

Theorem C17_BOW_falls_on_first_weekday :
  forall t n s, 0 <= s <= 6 -> weekday (t - (weekday t - s) mod 7 + 7 * n) = s.
Proof. exact bow_day_weekday. Qed.
Print Assumptions C17_BOW_falls_on_first_weekday.

Theorem C17_BOW_week0_contains_today :
  forall t s, let b n := t - (weekday t - s) mod 7 + 7 * n in b 0 <= t < b 1.
Proof. exact bow_day_contains. Qed.
Print Assumptions C17_BOW_week0_contains_today.

Theorem C17_BOW_contiguous :
  forall t s n, let b n := t - (weekday t - s) mod 7 + 7 * n in b (n + 1) = b n + 7.
Proof. exact bow_day_contiguous. Qed.
Print Assumptions C17_BOW_contiguous.

(* BOM: the month-stepping loops equal month-index arithmetic; successive months are contiguous *)
Theorem C17_BOM_closed_form : forall y m n, 1 <= m <= 12 -> bom_ym y m n = BOM_index y m n.
Proof. exact bom_closed_form. Qed.
Print Assumptions C17_BOM_closed_form.

Theorem C17_BOM_contiguous :
  forall y m n,
    let '(y1, m1) := BOM_index y m n in let '(y2, m2) := BOM_index y m (n + 1) in
    days_from_civil y2 m2 1 = days_from_civil y1 m1 1 + month_length y1 m1.
Proof. exact bom_contiguous. Qed.
Print Assumptions C17_BOM_contiguous.

(* with a fixed UTC offset c the results are the first second of the specified local day *)
Theorem C17_BOW_is_local_midnight :
  forall c ts n s u, 0 <= s <= 6 ->
    BOW_gen (fun _ => c) bow_back ts n s = Ok u -> starts_local_day (fun _ => c) u (BOW_day (fun _ => c) ts n s) = true.
Proof. exact (fun c => BOW_is_local_midnight c bow_back bow_back_ok). Qed.
Print Assumptions C17_BOW_is_local_midnight.

Theorem C17_BOD_is_local_midnight :
  forall c ts n u, BOD (fun _ => c) ts n = Ok u -> starts_local_day (fun _ => c) u (BOD_day (fun _ => c) ts n) = true.
Proof. exact BOD_is_local_midnight. Qed.
Print Assumptions C17_BOD_is_local_midnight.

Theorem C17_BOM_is_local_midnight :
  forall c ts n u, BOM (fun _ => c) ts n = Ok u -> starts_local_day (fun _ => c) u (BOM_day (fun _ => c) ts n) = true.
Proof. exact BOM_is_local_midnight. Qed.
Print Assumptions C17_BOM_is_local_midnight.

Theorem C17_BOY_is_local_midnight :
  forall c ts n u, BOY (fun _ => c) ts n = Ok u -> starts_local_day (fun _ => c) u (BOY_day (fun _ => c) ts n) = true.
Proof. exact BOY_is_local_midnight. Qed.
Print Assumptions C17_BOY_is_local_midnight.

Theorem C17_DATE_rebuilds :
  forall c ts, let off := fun _ : Z => c in
    year_ok (YEAR off ts) = true ->
    DATE off (YEAR off ts) (MONTH off ts) (DAY off ts) (HOUR off ts) (MINUTE off ts) (SECOND off ts) = Ok ts.
Proof. exact DATE_rebuilds. Qed.
Print Assumptions C17_DATE_rebuilds.

(* intervals (non wrap-around arguments in range), for every offset function *)
Theorem C17_HMSINTERVAL_iff :
  forall off ts h1 m1 s1 h2 m2 s2,
    0 <= h1 <= 23 -> 0 <= m1 <= 59 -> 0 <= s1 <= 59 -> 0 <= h2 <= 23 -> 0 <= m2 <= 59 -> 0 <= s2 <= 59 ->
    HMSINTERVAL off ts h1 m1 s1 h2 m2 s2 = Ok (HMS_spec off ts h1 m1 s1 h2 m2 s2).
Proof. exact HMSINTERVAL_iff. Qed.
Print Assumptions C17_HMSINTERVAL_iff.

Theorem C17_MDINTERVAL_iff :
  forall off ts mo1 d1 mo2 d2,
    let y := YEAR off ts in
    valid_date y mo1 d1 = true -> valid_date y mo2 d2 = true ->
    MDINTERVAL off ts mo1 d1 mo2 d2 = Ok (MD_spec off ts mo1 d1 mo2 d2).
Proof. exact MDINTERVAL_iff. Qed.
Print Assumptions C17_MDINTERVAL_iff.

(* non-vacuity: the hypotheses are met by concrete instants (Thursday 2024-05-16 12:00:00 UTC, offset +3 h) *)
Example C17_nonvacuous :
  let off := fun _ : Z => 10800 in
  BOW_gen off bow_back 1715860800 0 1 = Ok 1715634000 /\ year_ok (YEAR off 1715860800) = true
  /\ valid_date (YEAR off 1715860800) 2 29 = true /\ weekday (1715860800 / 86400) = 3.
Proof. vm_compute. repeat split. Qed.
