(* C04 — property theorems.  Statements only: each is closed by [exact] of a lemma proved elsewhere.
   Model: C04/Model.v (check_loops, attr_set_expression, port add/remove).  Specification: C04/Spec.v. *)
From QT Require Import C04.Spec C04.CheckThm C04.InvThm C04.SpecThm C04.ParThm C04.LoadThm C04.GenOk Gen.C04Gen.
Open Scope string_scope.
Open Scope list_scope.

(* check_loops raises CircularDependency exactly when the new expression makes p read (directly, at any nesting depth) a
   port q other than p that already reads p (transitively, through existing ports) -- for EVERY graph, acyclic or not *)
Theorem C04_check_loops_iff_any : forall g p e, check_loops g p e = true <-> closes_cycle g p e.
Proof. exact check_loops_iff_any. Qed.
Print Assumptions C04_check_loops_iff_any.

Theorem C04_check_loops_iff : forall g p e, acyclic_distinct g -> (check_loops g p e = true <-> closes_cycle g p e).
Proof. exact check_loops_iff. Qed.
Print Assumptions C04_check_loops_iff.

(* the model's fuel (ports + 1) is never exhausted: any larger amount gives the same answer *)
Theorem C04_check_loops_fuel_enough :
  forall g p e fuel, (length g < fuel)%nat -> check_loops_fuel fuel g p e = check_loops g p e.
Proof. exact check_loops_fuel_enough. Qed.
Print Assumptions C04_check_loops_fuel_enough.

(* after any sequence of assignments, clears, unparsable texts, port additions and removals, no two distinct ports read
   each other *)
Theorem C04_acyclic_invariant : forall ops g0, acyclic_distinct g0 -> acyclic_distinct (fold_left apply ops g0).
Proof. exact acyclic_invariant. Qed.
Print Assumptions C04_acyclic_invariant.

Theorem C04_reachable_acyclic : forall ops, acyclic_distinct (fold_left apply ops []).
Proof. exact reachable_acyclic. Qed.
Print Assumptions C04_reachable_acyclic.

(* ... which is the same as: there is no cycle q0 -> q1 -> ... -> qk -> q0 with k >= 1 *)
Theorem C04_acyclic_iff_no_cycle :
  forall g, acyclic_distinct g <-> (forall q l r, ~ simple_cycle g q l r).
Proof. exact acyclic_iff_no_cycle. Qed.
Print Assumptions C04_acyclic_iff_no_cycle.

(* an assignment that would close a cycle is rejected with circular-dependency and leaves the graph -- in particular the
   previous expression of the port -- as it was; so does every other operation that is not accepted *)
Theorem C04_rejected_keeps_previous :
  forall g p e, lookup g p <> None -> closes_cycle g p e -> step g (OSet p (TExpr e)) = (g, Circular).
Proof. exact rejected_keeps_previous. Qed.
Print Assumptions C04_rejected_keeps_previous.

Theorem C04_not_accepted_unchanged : forall g o g' out, step g o = (g', out) -> out <> Accepted -> g' = g.
Proof. exact not_accepted_unchanged. Qed.
Print Assumptions C04_not_accepted_unchanged.

(* an assignment that closes no cycle is accepted and installed *)
Theorem C04_no_false_rejection :
  forall g p e, lookup g p <> None -> ~ closes_cycle g p e ->
    step g (OSet p (TExpr e)) = (update g p (Some e), Accepted) /\ lookup (update g p (Some e)) p = Some (Some e).
Proof. exact no_false_rejection. Qed.
Print Assumptions C04_no_false_rejection.

(* ... including one that only refers to the port itself *)
Theorem C04_self_reference_accepted :
  forall g p e, lookup g p <> None -> (forall q, In q (port_deps e) -> q = p) ->
    step g (OSet p (TExpr e)) = (update g p (Some e), Accepted).
Proof. exact self_reference_accepted. Qed.
Print Assumptions C04_self_reference_accepted.

(* the oracle evaluated by the generated case files decides the declarative specification *)
Theorem C04_closes_cycle_b_spec : forall g p e, closes_cycle_b g p e = true <-> closes_cycle g p e.
Proof. exact closes_cycle_b_spec. Qed.
Print Assumptions C04_closes_cycle_b_spec.

Theorem C04_acyclic_b_spec : forall g, acyclic_b g = true <-> acyclic_distinct g.
Proof. exact acyclic_b_spec. Qed.
Print Assumptions C04_acyclic_b_spec.

(* the model of one operation is its specification (walk replaced by closes_cycle) *)
Theorem C04_step_is_spec_step : forall g o, step g o = spec_step g o.
Proof. exact step_spec_step. Qed.
Print Assumptions C04_step_is_spec_step.

(* ---- concurrent requests (several set_attr / remove coroutines in flight on the event loop) ----
   Regenerated from the source on every run: between `await check_loops(...)` and `self._expression = expression` there is no
   suspension point, and check_loops awaits nothing but its own recursion. *)
Theorem C04_store_is_atomic : awaits_between_check_and_store = 0%nat /\ check_loops_foreign_awaits = 0%nat.
Proof. exact store_is_atomic. Qed.
Print Assumptions C04_store_is_atomic.

(* so each assignment is one atomic step of the event loop, and every schedule (any number of requests, any number of
   suspension points before each one's check, any interleaving) is a serialization: the registry it produces is the result
   of serving, one after the other, the requests that got to their check, in that order; the rest are still pending *)
Theorem C04_concurrent_step_serializable : forall sched g ts,
  quiet ts ->
  exists l, fst (run_sched awaits_between_check_and_store g ts sched) = fold_left apply l g
            /\ Permutation (l ++ pending (snd (run_sched awaits_between_check_and_store g ts sched))) (pending ts)
            /\ quiet (snd (run_sched awaits_between_check_and_store g ts sched)).
Proof. exact concurrent_serializable_gen. Qed.
Print Assumptions C04_concurrent_step_serializable.

(* hence -- this is C04_acyclic_invariant applied to that serialization -- no interleaving of requests creates a cycle *)
Theorem C04_concurrent_acyclic : forall sched g ts,
  quiet ts -> acyclic_distinct g -> acyclic_distinct (fst (run_sched awaits_between_check_and_store g ts sched)).
Proof. exact concurrent_acyclic_gen. Qed.
Print Assumptions C04_concurrent_acyclic.

(* what a concurrent step may produce according to Spec.v (the outcomes and the graph of SOME serialization, by the
   specification of single operations) keeps the registry acyclic; the case files enumerate the serializations with
   `perms`, which are exactly the permutations *)
Theorem C04_par_allowed_acyclic : forall g res g', acyclic_distinct g -> par_allowed g res g' -> acyclic_distinct g'.
Proof. exact par_allowed_acyclic. Qed.
Print Assumptions C04_par_allowed_acyclic.

Theorem C04_perms_spec : forall (l p : list (op * outcome)), In p (perms l) <-> Permutation l p.
Proof. exact perms_spec. Qed.
Print Assumptions C04_perms_spec.

(* ---- persisted data and the load path ----
   Regenerated from the source on every run: the check_loops call in attr_set_expression is under no condition (and there is
   exactly one store of a new expression, after it) -- so the expressions that load_from_data assigns at start-up or when a
   port comes back are checked like any other. *)
Theorem C04_check_is_unconditional : check_loops_conditions = 0%nat.
Proof. exact check_is_unconditional. Qed.
Print Assumptions C04_check_is_unconditional.

(* enable() stores the re-parsed copy of the port's own expression text with no suspension point after reading it *)
Theorem C04_enable_reparse_is_atomic : enable_reparse_awaits = 0%nat.
Proof. exact enable_reparse_is_atomic. Qed.
Print Assumptions C04_enable_reparse_is_atomic.

(* histories over assignments, additions, removals AND save / removal keeping the persisted data / (re)creation + load /
   restart: each of the latter is a sequence of the former on the registry, so the registry stays acyclic *)
Theorem C04_load_path_is_base_ops : forall st h, exists l, fst (happly st h) = fold_left apply l (fst st).
Proof. exact happly_is_base_ops. Qed.
Print Assumptions C04_load_path_is_base_ops.

Theorem C04_acyclic_invariant_persist :
  forall hs st, acyclic_distinct (fst st) -> acyclic_distinct (fst (fold_left happly hs st)).
Proof. exact acyclic_invariant_persist. Qed.
Print Assumptions C04_acyclic_invariant_persist.

(* a port that comes back gets its persisted expression unless that closes a cycle; then it stays without expression *)
Theorem C04_plug_checked : forall g s p e,
  lookup g p = None -> lookup s p = Some (Some e) ->
  fst (fst (xstep step (g, s) (XPlug p)))
  = if closes_cycle_b (add_port g p) p e then add_port g p else update (add_port g p) p (Some e).
Proof. exact plug_checked. Qed.
Print Assumptions C04_plug_checked.

(* non-vacuity: a four-port diamond (with a self reference and a dangling id) is accepted, the edge closing it is rejected *)
Example C04_diamond_accepted : snd (run four diamond_ops) = [Accepted; Accepted; Accepted].
Proof. exact diamond_accepted. Qed.
Example C04_three_cycle_rejected :
  snd (run four [OSet "a" (TExpr (PortVal "b")); OSet "b" (TExpr (PortVal "c")); OSet "c" (TExpr (PortVal "a"))])
  = [Accepted; Accepted; Circular].
Proof. exact three_cycle_rejected. Qed.
