(* C06 — property theorems.  Statements only: each is closed by [exact] of a lemma proved elsewhere. *)
From QT Require Import C06.RefStore C06.JsonStr C06.JsonDriver C06.RedisDriver C06.MongoXlate
     C06.SortThm C06.OrderThm C06.JsonStrThm C06.MongoThm C06.JsonThm C06.RedisThm.
Open Scope Z_scope.

(* Sorting by the last key first with a stable sort, then by the one before, ... equals ONE stable sort by the
   lexicographic comparator — any element type, any list of comparators that are total preorders. *)
Theorem C06_stable_sorts_compose :
  forall (A : Type) (les : list (A -> A -> bool)) (l : list A), Forall preorder les ->
    fold_right (fun le acc => isort le acc) l les = isort (lexs les) l.
Proof. exact @stable_sorts_compose. Qed.
Print Assumptions C06_stable_sorts_compose.

(* Python's list.sort(reverse=True) — reverse, sort stably, reverse — is the stable sort by the flipped comparator:
   equal elements keep their original order. *)
Theorem C06_reverse_keeps_stability :
  forall (A : Type) (le : A -> A -> bool) (l : list A), preorder le -> py_sort le true l = isort (flip le) l.
Proof. exact @py_sort_reverse_stable. Qed.
Print Assumptions C06_reverse_keeps_stability.

(* `for key, rev in reversed(sort): records.sort(key, reverse=rev)` is the specification's single sort, first key most
   significant, each key ascending or descending. *)
Theorem C06_python_sorts_compose :
  forall (A : Type) (keys : list ((A -> A -> bool) * bool)) (l : list A),
    Forall (fun k => preorder (fst k)) keys ->
    fold_left (fun acc k => py_sort (fst k) (snd k) acc) (rev keys) l = isort (lexs (map directed keys)) l.
Proof. exact @py_sorts_compose. Qed.
Print Assumptions C06_python_sorts_compose.

(* the ordering of values used for sort keys is a total preorder on ALL values, through any key function *)
Theorem C06_value_order_is_total_preorder :
  forall (B : Type) (key : B -> jval), preorder (fun a b => py_leb (key a) (key b)).
Proof. exact py_leb_preorder_on. Qed.
Print Assumptions C06_value_order_is_total_preorder.

(* JSON driver: for EVERY operation sequence within the contract limits (update parts do not rewrite "id", no sort by
   "id"), the driver's outputs are the reference store's outputs for the automatic identifiers the driver chose, and every
   such choice was an unused identifier — "same records, counts and identifiers up to the naming of automatic ids". *)
Theorem C06_json_refines :
  forall ops, JsonThm.wf_ops ops = true ->
    let outs := json_run true [] ops in
    ref_outs [] (with_choices ops outs) = outs /\ ref_legal [] (with_choices ops outs) = true.
Proof. exact json_refines. Qed.
Print Assumptions C06_json_refines.

Theorem C06_json_next_id_is_unused : forall jl, dget (find_next_id jl) jl = None.
Proof. exact find_next_id_fresh. Qed.
Print Assumptions C06_json_next_id_is_unused.

(* Redis driver (repaired id paths), id set iterated in insertion order: for EVERY operation sequence within the contract
   limits (RedisThm.wf_op_s_gen: collection names without ':', explicit ids non-empty and not numeric, canonical records,
   "id" at most once per filter and never rewritten or sorted on) whose written values lie in a class [okv] on which the
   per-field codec round-trips, and on which the driver does not raise (a sort key missing from a record), the outputs
   are the reference store's for the driver's choices of automatic ids, all of them unused identifiers.
   (The hypothesis cannot be asked of ALL values: C06_codec_needs_a_value_class.) *)
Theorem C06_redis_refines :
  forall (fast : bool) (okv : jval -> Prop), (forall v, okv v -> from_db (to_db fast v) = Some v) ->
  forall ops, wf_ops_s_gen okv ops ->
    let outs := redis_run fast true rempty (map (fun o => (o, None)) ops) in
    ~ In OErr outs ->
    ref_outs [] (with_choices ops outs) = outs /\ ref_legal [] (with_choices ops outs) = true.
Proof. exact redis_refines_sorted_gen. Qed.
Print Assumptions C06_redis_refines.

(* ... and with the repaired string escaping no hypothesis is left: strings of Unicode scalar values, any other value *)
Theorem C06_redis_refines_repaired :
  forall ops, wf_ops_s_gen scalar_val ops ->
    let outs := redis_run false true rempty (map (fun o => (o, None)) ops) in
    ~ In OErr outs ->
    ref_outs [] (with_choices ops outs) = outs /\ ref_legal [] (with_choices ops outs) = true.
Proof. exact redis_refines_sorted_repaired. Qed.
Print Assumptions C06_redis_refines_repaired.

Theorem C06_codec_needs_a_value_class : forall fast, ~ (forall v, from_db (to_db fast v) = Some v).
Proof. exact codec_ok_unsatisfiable. Qed.
Print Assumptions C06_codec_needs_a_value_class.

(* the escaping json.dumps performs is read back by the JSON string scanner, for every string of Unicode scalar values *)
Theorem C06_json_string_roundtrip : forall s : str, Forall scalar_cp s -> read_str (escape s) = Some s.
Proof. exact json_string_roundtrip. Qed.
Print Assumptions C06_json_string_roundtrip.

(* Mongo driver: id translation is invertible and injective, operator names are read back, and the translated filter
   selects on the stored document exactly what the filter selects on the record (MongoDB's own semantics: trusted). *)
Theorem C06_mongo_xlate :
  (forall i : str, id_from_db (id_to_db i) = i)
  /\ (forall i j : str, id_to_db i = id_to_db j -> i = j)
  /\ (forall o : fop, db_op (op_name o) = Some o)
  /\ (forall (f : filt) (r : record) (d : doc),
        MongoThm.filt_ok f = true -> doc_of r = Some d -> db_matches (filt_to_db f) d = matches f r).
Proof. exact (conj id_roundtrip (conj id_to_db_inj (conj db_op_name filt_to_db_homomorphic))). Qed.
Print Assumptions C06_mongo_xlate.

(* non-vacuity: a sequence with every kind of operation satisfies the premise of C06_json_refines and produces records;
   a string with a quote, a backslash, NUL and an astral character satisfies the premise of the round trip *)
Example C06_nonvacuous :
  let c : str := [112] in let n : str := [110] in let s : str := [115] in
  let ops := [Insert c None [(n, JInt 2); (s, JStr [97; 34; 98])]; Insert c (Some [120]) [(n, JInt 1)];
              Update c [(s, JStr [92])] [(n, FOps [(Ge_, JInt 1)])]; Replace c [120] [(n, JInt 2)];
              Query c (Some [ID; n]) [(n, FOps [(In_, JList [JInt 2; JFloat 1 1])])] [(n, true); (s, false)] (Some 5);
              Remove c [(ID, FEq (JStr [120])); (n, FEq (JInt 2))]; Query c None [] [] None] in
  JsonThm.wf_ops ops = true
  /\ json_run true [] ops = [OId [49]; OId [120]; OCount 2; OBool true;
                             ORecs [[(ID, JStr [120]); (n, JInt 2)]; [(ID, JStr [49]); (n, JInt 2)]]; OCount 1;
                             ORecs [[(ID, JStr [49]); (n, JInt 2); (s, JStr [92])]]]
  /\ Forall scalar_cp [97; 34; 98; 92; 0; 128512].
Proof.
  split; [vm_compute; reflexivity|]. split; [vm_compute; reflexivity|].
  repeat constructor; unfold scalar_cp; lia.
Qed.

(* non-vacuity of the Redis premises: a sequence with an insert (string with a quote), an update, a sorted query, a remove *)
Example C06_redis_nonvacuous :
  let c : str := [112] in let n : str := [110] in let s : str := [115] in
  let ops := [Insert c None [(n, JInt 2); (s, JStr [97; 34; 98])]; Update c [(n, JInt 3)] [(ID, FEq (JStr [49]))];
              Query c None [(n, FOps [(Gt_, JInt 1)])] [(n, true)] None; Remove c [(s, FEq (JStr [97; 34; 98]))]] in
  wf_ops_s_gen scalar_val ops
  /\ redis_run false true rempty (map (fun o => (o, None)) ops)
     = [OId [49]; OCount 1; ORecs [[(ID, JStr [49]); (n, JInt 3); (s, JStr [97; 34; 98])]]; OCount 1].
Proof.
  split; [|vm_compute; reflexivity].
  repeat constructor; try (intros [H|H]; [discriminate|destruct H]); try (unfold scalar_cp; lia); try reflexivity.
Qed.
