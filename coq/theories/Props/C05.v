(* C05 — property theorems.  Statements only: each is closed by [exact] of a lemma proved elsewhere. *)
From QT Require Import C05.Spec C05.SpecThm C05.ModelThm C05.ExactThm C05.GenOk Gen.C05Gen.
Open Scope Z_scope.

(* Acceptance.  On integer-valued inputs (a JSON integer that has a binary64; min / max / step / choices integers; a write
   transform that yields a value) the model of patch_port_value — with either step test, with or without the non-finite
   guard — accepts exactly the requests the specification accepts, under either reading of the numbers:
   port exists, enabled, writable, value of the port's type, min <= v <= max, on the grid min + k*step, or one of the choices. *)
Theorem C05_accept_iff_exact :
  forall rl rd p z,
    (forall d, p = Some d -> int_inputs d /\ transform_ok d (VInt z)) -> has_binary64 z ->
    (model_accepts rl p (JInt z) = true <-> accepts rd p (JInt z)).
Proof. exact accept_iff_exact. Qed.
Print Assumptions C05_accept_iff_exact.

Theorem C05_sequence_accept_iff_exact :
  forall rl rd d zs ds rp,
    int_inputs d -> Forall (fun z => Z.abs z < float_limit) zs ->
    (fst (patch_sequence rl (Some d) (map JInt zs) ds rp) = Accepted <-> seq_accepts rd (Some d) (map JInt zs) ds rp).
Proof. exact sequence_accept_iff_exact. Qed.
Print Assumptions C05_sequence_accept_iff_exact.

(* The exact decimal step test (the fix for F8) decides "on the grid min + k*step" of the decimal numbers the user wrote,
   for ALL Python numbers — floats of any magnitude and precision, ints, bools — with no exactness premise; it never raises;
   infinities and NaN are on no grid. *)
Theorem C05_step_decimal_exact :
  forall v m s a b c,
    num_of RDecimal v = Some a -> num_of RDecimal m = Some b -> num_of RDecimal s = Some c -> ~ (c == 0)%Q ->
    (step_decimal v m s = SOk <-> on_grid a b c).
Proof. exact step_decimal_exact. Qed.
Print Assumptions C05_step_decimal_exact.

Theorem C05_step_decimal_total : forall v m s, step_decimal v m s <> SExc.
Proof. exact step_decimal_total. Qed.
Print Assumptions C05_step_decimal_total.

Theorem C05_step_decimal_nonfinite :
  forall v m s, num_of RDecimal v = None \/ num_of RDecimal m = None \/ num_of RDecimal s = None -> step_decimal v m s = SBad.
Proof. exact step_decimal_nonfinite. Qed.
Print Assumptions C05_step_decimal_nonfinite.

(* ... and that is the step test of the source, whenever the translator reads the fixed shape (vacuous before the fix) *)
Theorem C05_repo_step_test_exact :
  step_rule_value = SDecimal ->
  forall v m s a b c,
    num_of RDecimal v = Some a -> num_of RDecimal m = Some b -> num_of RDecimal s = Some c -> ~ (c == 0)%Q ->
    (step_test step_rule_value v m s = SOk <-> on_grid a b c).
Proof. exact repo_step_test_exact. Qed.
Print Assumptions C05_repo_step_test_exact.

(* both entry points of the source use the same step test and the same guard (regenerated on every run) *)
Theorem C05_repo_rules_agree : step_rule_sequence = step_rule_value /\ finite_guard_sequence = finite_guard_value.
Proof. exact rules_agree. Qed.
Print Assumptions C05_repo_rules_agree.

(* A rejected request never reaches the driver and changes nothing: for every rule set, port, JSON value. *)
Theorem C05_reject_no_effect :
  forall r p j, model_accepts r p j = false -> snd (patch_value r p j) = [].
Proof. exact model_rejects_no_effect. Qed.
Print Assumptions C05_reject_no_effect.

Theorem C05_sequence_reject_no_effect :
  forall r p vs ds rp e, fst (patch_sequence r p vs ds rp) = Rejected e -> snd (patch_sequence r p vs ds rp) = [].
Proof. exact sequence_reject_no_effect. Qed.
Print Assumptions C05_sequence_reject_no_effect.

(* An accepted request makes exactly one driver call: with the value itself when the port has no write transform, with
   coerce (transform v) when it has one (None when the transform says "unavailable"). *)
Theorem C05_delivered_value :
  forall r p j es, patch_value r p j = (Accepted, es) ->
    exists d v, p = Some d /\ j_py j = Some v
      /\ ((p_transform d = None /\ es = [DriverWrite (Some v)])
          \/ (exists t x w, p_transform d = Some t /\ t v = TVal x /\ coerce d x = Some w /\ es = [DriverWrite (Some w)])
          \/ (exists t, p_transform d = Some t /\ t v = TUnavail /\ es = [DriverWrite None])).
Proof. exact delivered_value. Qed.
Print Assumptions C05_delivered_value.

(* A write whose transform fails to evaluate on the value (DIV(1, $) at 0 ...), or whose result cannot be coerced to the port
   type, is refused with an error and never reaches the driver (what /repo does: 500 unexpected-error, value unchanged). *)
Theorem C05_failing_transform_refused :
  forall r d j v t,
    j_py j = Some v -> p_transform d = Some t ->
    (t v = TErr \/ exists x, t v = TVal x /\ coerce d x = None) ->
    exists e, patch_value r (Some d) j = (Rejected e, []).
Proof. exact failing_transform_refused. Qed.
Print Assumptions C05_failing_transform_refused.

(* an accepted write passed the validation and the port was enabled and writable; errors come in the code's order *)
Theorem C05_accepted_checks :
  forall r p j, model_accepts r p j = true ->
    exists d, p = Some d /\ value_valid r d j = true /\ p_enabled d = true /\ p_writable d = true.
Proof. exact accepted_checks. Qed.
Print Assumptions C05_accepted_checks.

Theorem C05_error_order :
  forall r d j,
    (value_valid r d j = false -> exists e, fst (patch_value r (Some d) j) = Rejected e /\ (e = EInvalid \/ e = E500))
    /\ (value_valid r d j = true -> p_enabled d = false -> fst (patch_value r (Some d) j) = Rejected EDisabled)
    /\ (value_valid r d j = true -> p_enabled d = true -> p_writable d = false ->
        fst (patch_value r (Some d) j) = Rejected EReadOnly).
Proof. exact error_order. Qed.
Print Assumptions C05_error_order.

(* the sequence entry point applies the same validation to every element, for lists of any length *)
Theorem C05_sequence_validates_like_value :
  forall r d vs ds rp,
    seq_params_ok vs ds rp = true -> length vs = length ds -> p_enabled d = true -> p_writable d = true ->
    (fst (patch_sequence r (Some d) vs ds rp) = Accepted <-> forallb (value_valid r d) vs = true).
Proof. exact sequence_validates_like_value. Qed.
Print Assumptions C05_sequence_validates_like_value.

(* the value schema, keyword by keyword *)
Theorem C05_schema_semantics :
  (forall m z, minimum_ok (VInt m) (JInt z) = true <-> m <= z)
  /\ (forall m z, maximum_ok (VInt m) (JInt z) = true <-> z <= m)
  /\ (forall b, is_type TyNumber (JBool b) = false /\ is_type TyInteger (JBool b) = false)
  /\ (forall m b, minimum_ok m (JBool b) = true /\ maximum_ok m (JBool b) = true)
  /\ (forall z f, is_type TyBoolean (JInt z) = false /\ is_type TyBoolean (JFloat f) = false)
  /\ (forall f, is_type TyInteger (JFloat f) = false)
  /\ (forall b c, j_equal (VInt c) (JBool b) = false /\ j_equal (VBool b) (JInt c) = false)
  /\ (forall c z, j_equal (VInt c) (JInt z) = true <-> c = z)
  /\ (forall d j, validate (get_value_schema d) j = true -> exists v, j_py j = Some v)
  /\ (forall d cs j, p_choices d = Some cs -> validate (get_value_schema d) j = enum_ok cs j).
Proof. exact schema_semantics. Qed.
Print Assumptions C05_schema_semantics.

(* the executable oracle the harness evaluates IS the declarative specification *)
Theorem C05_oracle_decides_spec : forall r p j, acceptsb r p j = true <-> accepts r p j.
Proof. exact acceptsb_spec. Qed.
Print Assumptions C05_oracle_decides_spec.

Theorem C05_sequence_oracle_decides_spec :
  forall r p vs ds rp, seq_acceptsb r p vs ds rp = true <-> seq_accepts r p vs ds rp.
Proof. exact seq_acceptsb_spec. Qed.
Print Assumptions C05_sequence_oracle_decides_spec.

(* non-vacuity: a concrete integer port (min 0, max 100, step 5, transform None) meets the premises; 35 is accepted and
   delivered, 37 is refused; the limit of [has_binary64] is where float(z) starts to overflow *)
Example C05_nonvacuous :
  let d := {| p_type := TNumber; p_min := Some (VInt 0); p_max := Some (VInt 100); p_integer := true; p_step := Some (VInt 5);
              p_choices := None; p_transform := None; p_enabled := true; p_writable := true |} in
  let rl := {| r_step := step_rule_value; r_finite_guard := finite_guard_value |} in
  int_inputs d /\ transform_ok d (VInt 35) /\ has_binary64 35
  /\ patch_value rl (Some d) (JInt 35) = (Accepted, [DriverWrite (Some (VInt 35))])
  /\ patch_value rl (Some d) (JInt 37) = (Rejected EInvalid, [])
  /\ dumps_ok (VInt (float_limit - 1)) = true /\ dumps_ok (VInt float_limit) = false.
Proof. vm_compute. repeat split; try reflexivity; intro H; discriminate H. Qed.
