(* C16 — property theorems.  Statements only: each is closed by [exact] of a lemma proved elsewhere.
   Histories are lists of samples (now_ms, evaluated arguments), newest first; [last_out (fstep F) h] is what the model of
   function F (regenerated constants and pause shapes: Gen/C16Gen.v) answers at the newest sample of h;
   [clean] = no Python-level exception was raised along the history. *)
From QT Require Import C16.Spec C16.Lemmas C16.PauseThm C16.GenOk C16.SimpleThm C16.HoldThm C16.SampledThm C16.SeqThm
  C16.DelayThm C16.FilterThm C16.ArgModel C16.ArgThm.
From QT Require Import Expr.FuncInfo Gen.FuncTable.
Open Scope Z_scope.

(* ------------------------------------------------------------------ each function follows its temporal specification *)
Theorem C16_RISING_spec : forall h, shaped RISING h = true -> last_out (fstep RISING) h = spec_RISING h.
Proof. exact RISING_spec. Qed.
Print Assumptions C16_RISING_spec.

Theorem C16_FALLING_spec : forall h, shaped FALLING h = true -> last_out (fstep FALLING) h = spec_FALLING h.
Proof. exact FALLING_spec. Qed.
Print Assumptions C16_FALLING_spec.

Theorem C16_ACC_spec : forall h, shaped ACC h = true -> clean (outs (fstep ACC) h) = true ->
  last_out (fstep ACC) h = spec_ACC h.
Proof. exact ACC_spec. Qed.
Print Assumptions C16_ACC_spec.

Theorem C16_ACCINC_spec : forall h, shaped ACCINC h = true -> clean (outs (fstep ACCINC) h) = true ->
  last_out (fstep ACCINC) h = spec_ACCINC h.
Proof. exact ACCINC_spec. Qed.
Print Assumptions C16_ACCINC_spec.

Theorem C16_HYST_spec : forall h, shaped HYST h = true -> last_out (fstep HYST) h = spec_HYST h.
Proof. exact HYST_spec. Qed.
Print Assumptions C16_HYST_spec.

Theorem C16_SAMPLE_spec : forall h, shaped SAMPLE h = true -> times_pos h = true ->
  clean (outs (fstep SAMPLE) h) = true -> last_out (fstep SAMPLE) h = spec_SAMPLE h.
Proof. exact SAMPLE_spec. Qed.
Print Assumptions C16_SAMPLE_spec.

Theorem C16_FREEZE_spec : forall h, shaped FREEZE h = true -> times_pos h = true -> sortedb h = true ->
  clean (outs (fstep FREEZE) h) = true -> last_out (fstep FREEZE) h = spec_FREEZE h.
Proof. exact FREEZE_spec. Qed.
Print Assumptions C16_FREEZE_spec.

Theorem C16_HELD_spec : forall h, shaped HELD h = true -> times_pos h = true ->
  clean (outs (fstep HELD) h) = true -> last_out (fstep HELD) h = spec_HELD h.
Proof. exact HELD_spec. Qed.
Print Assumptions C16_HELD_spec.

Theorem C16_DELAY_spec : forall h, shaped DELAY h = true -> times_pos h = true -> spec_pre DELAY h = true ->
  clean (outs (fstep DELAY) h) = true -> last_out (fstep DELAY) h = spec_DELAY h.
Proof. exact DELAY_spec. Qed.
Print Assumptions C16_DELAY_spec.

Theorem C16_SEQUENCE_spec : forall h, shaped SEQUENCE h = true -> times_pos h = true ->
  clean (outs (fstep SEQUENCE) h) = true -> last_out (fstep SEQUENCE) h = spec_SEQUENCE h.
Proof. exact SEQUENCE_spec. Qed.
Print Assumptions C16_SEQUENCE_spec.

Theorem C16_DERIV_spec : forall h, shaped DERIV h = true -> times_pos h = true ->
  clean (outs (fstep DERIV) h) = true -> last_out (fstep DERIV) h = spec_DERIV h.
Proof. exact DERIV_spec. Qed.
Print Assumptions C16_DERIV_spec.

Theorem C16_INTEG_spec : forall h, shaped INTEG h = true -> times_pos h = true ->
  clean (outs (fstep INTEG) h) = true -> last_out (fstep INTEG) h = spec_INTEG h.
Proof. exact INTEG_spec. Qed.
Print Assumptions C16_INTEG_spec.

Theorem C16_FMAVG_spec : forall h, shaped FMAVG h = true -> times_pos h = true -> spec_pre FMAVG h = true ->
  clean (outs (fstep FMAVG) h) = true -> last_out (fstep FMAVG) h = spec_FMAVG h.
Proof. exact FMAVG_spec. Qed.
Print Assumptions C16_FMAVG_spec.

Theorem C16_FMEDIAN_spec : forall h, shaped FMEDIAN h = true -> times_pos h = true -> spec_pre FMEDIAN h = true ->
  clean (outs (fstep FMEDIAN) h) = true -> last_out (fstep FMEDIAN) h = spec_FMEDIAN h.
Proof. exact FMEDIAN_spec. Qed.
Print Assumptions C16_FMEDIAN_spec.

(* ------------------------------------------------------------------ the hub's pausing never changes a port's value *)

(* an evaluation at now' < paused_until with unchanged arguments changes neither the state nor the port's value *)
Theorem C16_paused_eval_noop : forall f st0 now a st o p,
  good st0 -> 0 < now -> params_ok f a = true -> fstep f st0 now a = (st, o, p) ->
  forall now', 0 <= now' -> is_paused now' (deadline p) = true ->
  exists o' p', fstep f st now' a = (st, o', p') /\ forall pv, upd (upd pv o) o' = upd pv o.
Proof. exact paused_eval_noop_gen. Qed.
Print Assumptions C16_paused_eval_noop.

(* the values a port takes when the hub skips evaluations while the expression is paused (main.handle_value_changes) are
   those it takes when the expression is evaluated on every tick — for every function, every tick sequence *)
Theorem C16_pause_invariant : forall f ticks,
  ticks_ok f None ticks -> run_with_pauses (fstep f) ticks = run_every_tick (fstep f) ticks.
Proof. exact pause_invariant. Qed.
Print Assumptions C16_pause_invariant.

(* a time jump of more than TIME_JUMP_THRESHOLD yields no value and restarts the sampling chain *)
Theorem C16_time_jump : forall f st now a v iv,
  match f, a with
  | DERIV, [v'; iv'] | INTEG, [v'; _; iv'] => v' = v /\ iv' = iv /\ s_last st <> None
  | FMAVG, [v'; _; iv'] | FMEDIAN, [v'; _; iv'] => v' = v /\ iv' = iv /\ 0 < s_time st
  | _, _ => False
  end ->
  py_lt (VInt (now - s_time st)) iv = false -> now - s_time st > time_jump_threshold ->
  exists st', fstep f st now a = (st', OSkipped, PNone) /\ s_time st' = now /\ s_vals st' = s_vals st
              /\ (f = DERIV \/ f = INTEG -> s_last st' = Some v).
Proof. exact time_jump. Qed.
Print Assumptions C16_time_jump.

(* the registry gives the fourteen functions the arities and DEPS the model assumes ("asap" exactly for those that pause) *)
Theorem C16_registry : forallb registry_entry_ok all_fns = true.
Proof. exact registry_ok. Qed.
Print Assumptions C16_registry.

(* ------------------------------------------------------------------ unavailable / failing arguments; which are evaluated when
   (C16/ArgModel.v: a sample carries the OUTCOME of every argument expression; ostep also returns the evaluated positions) *)

(* on plain values the outcome model is the value model *)
Theorem C16_ostep_values : forall f st now a, arity_ok f a = true ->
  proj3 (ostep f st now (map AVal a)) = xlift (fstep f st now a).
Proof. exact (ostep_values held_pause_fixed). Qed.
Print Assumptions C16_ostep_values.

(* during a hold SAMPLE answers the held value whatever its arguments do (unavailable, failing), and evaluates none of them *)
Theorem C16_SAMPLE_hold_law : forall st now a0 a1 a0' a1',
  sample_holding st now = true ->
  ostep SAMPLE st now [a0; a1] = ostep SAMPLE st now [a0'; a1']
  /\ snd (ostep SAMPLE st now [a0; a1]) = []
  /\ (forall p, py_add (VInt (s_time st)) (s_dur st) = POk p ->
        ostep SAMPLE st now [a0; a1] = (st, XOut (out_opt (s_last st)), PUntil p, [])).
Proof. exact (SAMPLE_hold_law held_pause_fixed). Qed.
Print Assumptions C16_SAMPLE_hold_law.

Theorem C16_FREEZE_hold_law : forall st now ao ao',
  s_time st <> 0 -> py_gt (VInt (now - s_time st)) (s_dur st) = false ->
  ostep FREEZE st now ao = ostep FREEZE st now ao'
  /\ snd (ostep FREEZE st now ao) = []
  /\ (forall p, py_add (VInt (s_time st)) (s_dur st) = POk p ->
        ostep FREEZE st now ao = (st, XOut (out_opt (s_last st)), PUntil p, [])).
Proof. exact (FREEZE_hold_law held_pause_fixed). Qed.
Print Assumptions C16_FREEZE_hold_law.

Theorem C16_FREEZE_idle_evaluates : forall st now a0 a1,
  s_time st = 0 ->
  snd (ostep FREEZE st now [a0; a1]) =
    match a0 with AVal v => if opt_ne v (s_last st) then [0; 1]%nat else [0%nat] | _ => [0%nat] end.
Proof. exact (FREEZE_idle_evaluates held_pause_fixed). Qed.
Print Assumptions C16_FREEZE_idle_evaluates.

(* every other function (SEQUENCE apart, which stamps its start time first) evaluates all its arguments first: a failing one
   leaves the memory untouched *)
Theorem C16_eager_failure : forall f st now ao x, plain f = true -> first_fail ao = Some x ->
  ostep f st now ao = (st, x, fail_pause x now, all_idx ao).
Proof. exact (eager_failure held_pause_fixed). Qed.
Print Assumptions C16_eager_failure.

Theorem C16_eager_evaluates_all : forall f st now ao, plain f = true -> snd (ostep f st now ao) = all_idx ao.
Proof. exact (eager_evaluates_all held_pause_fixed). Qed.
Print Assumptions C16_eager_evaluates_all.

(* history level (every function except FREEZE and SEQUENCE): the object's state after a history of argument outcomes is
   its state after the effective value history, and the newest outcome is the specified one *)
Theorem C16_effective_state : forall f oh h,
  covered_fn f = true -> otimes_pos oh = true -> oshaped f oh = true -> eff_hist f oh = Some h ->
  (f = SAMPLE -> full_pre SAMPLE h = true /\ clean (outs (fstep SAMPLE) h) = true) ->
  ostate_after (ostep f) oh = state_after (fstep f) h.
Proof. exact effective_state. Qed.
Print Assumptions C16_effective_state.

Theorem C16_outcome_spec : forall f now ao older h x ev,
  covered_fn f = true -> otimes_pos ((now, ao) :: older) = true -> oshaped f ((now, ao) :: older) = true ->
  eff_hist f older = Some h ->
  olast (ostep f) ((now, ao) :: older) = Some (x, ev) ->
  match eff_step f h (now, ao) with
  | EKeep s' => full_pre f (s' :: h) = true -> clean (outs (fstep f) (s' :: h)) = true -> x = XOut (spec_of f (s' :: h))
  | EDrop x' => (f = SAMPLE -> full_pre SAMPLE h = true /\ clean (outs (fstep SAMPLE) h) = true) -> x = x'
  | EStop => True
  end.
Proof. exact outcome_spec. Qed.
Print Assumptions C16_outcome_spec.

(* non-vacuity: a tick sequence within the theorem's hypotheses on which the hub really skips evaluations (ticks 2 and 4
   are not evaluated) and HELD turns true at its deadline; DELAY reproduces its input 1000 ms later *)
Example C16_nonvacuous :
  let w := [ (1700000000000, true,  [VInt 1; VInt 1; VInt 1000]);
             (1700000000400, true,  [VInt 1; VInt 1; VInt 1000]);
             (1700000000700, false, [VInt 1; VInt 1; VInt 1000]);
             (1700000001000, false, [VInt 1; VInt 1; VInt 1000]);
             (1700000001100, false, [VInt 1; VInt 1; VInt 1000]) ] in
  ticks_ok HELD None w
  /\ run_with_pauses (fstep HELD) w = [Some (VBool false); Some (VBool false); Some (VBool false); Some (VBool true); Some (VBool true)]
  /\ spec_DELAY [(3000, [VInt 7; VInt 1000]); (2000, [VInt 7; VInt 1000]); (1500, [VInt 5; VInt 1000]); (1000, [VInt 5; VInt 1000])]
     = OVal (VInt 7)
  /\ spec_DELAY [(2400, [VInt 7; VInt 1000]); (2000, [VInt 7; VInt 1000]); (1500, [VInt 5; VInt 1000]); (1000, [VInt 5; VInt 1000])]
     = OVal (VInt 5).
Proof.
  cbv zeta. split; [|vm_compute; repeat split; reflexivity].
  cbn [ticks_ok]. repeat split; try reflexivity; try discriminate; intros; reflexivity.
Qed.

(* non-vacuity of the outcome theorems: the input is unavailable in the middle of a hold; SAMPLE answers the held 5 and
   evaluates nothing; once the hold is over an unavailable input makes it unavailable, all arguments evaluated *)
Example C16_nonvacuous_outcomes :
  let oh := [(1500, [AUnavail; AVal (VInt 1000)]); (1000, [AVal (VInt 5); AVal (VInt 1000)])] in
  spec_o SAMPLE oh = Some (XOut (OVal (VInt 5)))
  /\ olast (ostep SAMPLE) oh = Some (XOut (OVal (VInt 5)), [])
  /\ olast (ostep SAMPLE) ((2000, [AUnavail; AVal (VInt 1000)]) :: oh) = Some (XUnavail, [0; 1]%nat)
  /\ spec_o SAMPLE ((2000, [AUnavail; AVal (VInt 1000)]) :: oh) = Some XUnavail.
Proof. vm_compute. repeat split; reflexivity. Qed.
