(* C08 — property theorems.  Statements only: each is closed by [exact] of a lemma proved elsewhere.

   save_prog / load_prog are regenerated from /repo's json.py (JSONDriver._save / _load) on every run.
   data, ser, parse are arbitrary; the three premises are the assumptions on the serialisation:
   parsing a serialised store gives the store back, the empty text does not parse, no proper non-empty prefix of a
   serialised store parses (proved for framed decoders: C08_prefix_fact_for_framed_decoders).
   crash_states_c w ub prog 0 s = every file-system state in which the process can die while prog writes payload w:
   before and after each operation and after every byte prefix of every write. *)
From QT Require Import C08.Spec C08.Check C08.AbsThm C08.Oper C08.OperThm C08.GenOk C08.Framing C08.FramingThm Gen.C08Gen.

(* a crash at any point of a save leaves files from which a restart loads exactly the pre- or exactly the post-state
   (never a failure, never a partial or empty store unless that is pre or post), and which again hold that state *)
Theorem C08_crash_atomic :
  forall (data : Type) (ser : data -> bytes) (parse : bytes -> option data) (d_empty : data),
    (forall d, parse (ser d) = Some d) ->
    parse [] = None ->
    (forall d k, (0 < k < List.length (ser d))%nat -> parse (firstn k (ser d)) = None) ->
    forall (use_backup : bool) (pre post : data) (s s' : fs bytes),
      holds data ser d_empty use_backup pre s ->
      In s' (crash_states_c (ser post) use_backup save_prog 0 s) ->
      (load_c data parse d_empty use_backup load_prog s' = LOk pre /\ holds data ser d_empty use_backup pre s')
      \/ (load_c data parse d_empty use_backup load_prog s' = LOk post /\ holds data ser d_empty use_backup post s').
Proof.
  exact (fun data ser parse d_empty H1 H2 H3 ub pre post s s' =>
           crash_atomic_pair data ser parse d_empty H1 H2 H3 pre post save_prog load_prog save_load_check ub s s').
Qed.
Print Assumptions C08_crash_atomic.

(* a save that is not interrupted completes without an error and is acknowledged: a restart loads post *)
Theorem C08_acknowledged_durable :
  forall (data : Type) (ser : data -> bytes) (parse : bytes -> option data) (d_empty : data),
    (forall d, parse (ser d) = Some d) ->
    parse [] = None ->
    (forall d k, (0 < k < List.length (ser d))%nat -> parse (firstn k (ser d)) = None) ->
    forall (use_backup : bool) (pre post : data) (s : fs bytes),
      holds data ser d_empty use_backup pre s ->
      exists s', run_c (ser post) use_backup save_prog 0 s = Some s'
                 /\ holds data ser d_empty use_backup post s'
                 /\ load_c data parse d_empty use_backup load_prog s' = LOk post.
Proof.
  exact (fun data ser parse d_empty H1 H2 H3 ub pre post s =>
           durable_pair data ser parse d_empty H1 H2 H3 pre post save_prog load_prog save_load_check ub s).
Qed.
Print Assumptions C08_acknowledged_durable.

(* whole histories, starting from no files at all: after any sequence of completed saves and of saves interrupted at any
   crash point followed by a restart, the files load the store content d the driver last acknowledged or restarted with,
   and a crash during the next save (of any d') restarts with d or d' *)
Theorem C08_histories :
  forall (data : Type) (ser : data -> bytes) (parse : bytes -> option data) (d_empty : data),
    (forall d, parse (ser d) = Some d) ->
    parse [] = None ->
    (forall d k, (0 < k < List.length (ser d))%nat -> parse (firstn k (ser d)) = None) ->
    forall (use_backup : bool) (d : data) (s : fs bytes),
      reach data ser d_empty parse save_prog load_prog use_backup d s ->
      load_c data parse d_empty use_backup load_prog s = LOk d
      /\ forall d' s', In s' (crash_states_c (ser d') use_backup save_prog 0 s) ->
                       atomic data (load_c data parse d_empty use_backup load_prog s') d d'.
Proof.
  exact (fun data ser parse d_empty H1 H2 H3 =>
           crash_atomic_reach data ser parse d_empty H1 H2 H3 save_prog load_prog save_load_check).
Qed.
Print Assumptions C08_histories.

(* data acknowledged by a completed save is what every later restart sees until the next save starts *)
Theorem C08_histories_durable :
  forall (data : Type) (ser : data -> bytes) (parse : bytes -> option data) (d_empty : data),
    (forall d, parse (ser d) = Some d) ->
    parse [] = None ->
    (forall d k, (0 < k < List.length (ser d))%nat -> parse (firstn k (ser d)) = None) ->
    forall (use_backup : bool) (d : data) (s : fs bytes),
      reach data ser d_empty parse save_prog load_prog use_backup d s ->
      forall d', exists s', run_c (ser d') use_backup save_prog 0 s = Some s'
                            /\ load_c data parse d_empty use_backup load_prog s' = LOk d'
                            /\ reach data ser d_empty parse save_prog load_prog use_backup d' s'.
Proof.
  exact (fun data ser parse d_empty H1 H2 H3 =>
           durable_reach data ser parse d_empty H1 H2 H3 save_prog load_prog save_load_check).
Qed.
Print Assumptions C08_histories_durable.

(* OPERATIONS.  op_trees is the control skeleton of every method of the driver that saves (insert, update, replace, remove),
   regenerated from json.py; a path p through it is a sequence of in-memory changes (chg i: arbitrary, e.g. a loop removing
   many records) and saves.  Whatever the in-memory changes are, a crash at any point of the whole operation (inside its
   save: at any file operation and any byte prefix) restarts with exactly the store from before the operation or exactly the
   store after it - in particular never with only some of the records of a multi-record update/remove changed *)
Theorem C08_operation_atomic :
  forall (data : Type) (ser : data -> bytes) (parse : bytes -> option data) (d_empty : data),
    (forall d, parse (ser d) = Some d) ->
    parse [] = None ->
    (forall d k, (0 < k < List.length (ser d))%nat -> parse (firstn k (ser d)) = None) ->
    forall (chg : nat -> data -> data) (name : string) (t : oprog) (p : list ostep * bool),
      In (name, t) op_trees -> In p (paths t) ->
      forall (use_backup : bool) (pre : data) (i : nat) (s s' : fs bytes),
        let post := op_mem data chg (fst p) i pre in
        holds data ser d_empty use_backup pre s ->
        In s' (op_crash_states data ser chg save_prog use_backup (fst p) i pre s) ->
        (load_c data parse d_empty use_backup load_prog s' = LOk pre /\ holds data ser d_empty use_backup pre s')
        \/ (load_c data parse d_empty use_backup load_prog s' = LOk post /\ holds data ser d_empty use_backup post s').
Proof.
  exact (fun data ser parse d_empty H1 H2 H3 chg name t p Ht Hp ub pre i s s' =>
           op_crash_atomic data ser parse d_empty H1 H2 H3 chg save_prog load_prog save_load_check ub pre (fst p)
             (tree_ok_path t p (op_tree_ok name t Ht) Hp) i pre s s').
Qed.
Print Assumptions C08_operation_atomic.

(* an operation that saves and is not interrupted is acknowledged only after its single save completed: a restart then
   loads the store after the operation *)
Theorem C08_operation_durable :
  forall (data : Type) (ser : data -> bytes) (parse : bytes -> option data) (d_empty : data),
    (forall d, parse (ser d) = Some d) ->
    parse [] = None ->
    (forall d k, (0 < k < List.length (ser d))%nat -> parse (firstn k (ser d)) = None) ->
    forall (chg : nat -> data -> data) (name : string) (t : oprog) (p : list ostep * bool),
      In (name, t) op_trees -> In p (paths t) ->
      existsb (fun st => match st with OSave => true | OMem => false end) (fst p) = true ->
      forall (use_backup : bool) (pre : data) (i : nat) (s : fs bytes),
        let post := op_mem data chg (fst p) i pre in
        holds data ser d_empty use_backup pre s ->
        exists s', op_run data ser chg save_prog use_backup (fst p) i pre s = Some s'
                   /\ holds data ser d_empty use_backup post s'
                   /\ load_c data parse d_empty use_backup load_prog s' = LOk post.
Proof.
  exact (fun data ser parse d_empty H1 H2 H3 chg name t p Ht Hp Hs ub pre i s =>
           op_durable data ser parse d_empty H1 H2 H3 chg save_prog load_prog save_load_check ub pre (fst p)
             (tree_ok_path t p (op_tree_ok name t Ht) Hp) Hs i pre s).
Qed.
Print Assumptions C08_operation_durable.

(* the prefix premise, proved for the shape of the driver's file: a decoder that accepts only texts whose nesting depth
   closes exactly at the last byte (one top-level object, nothing after it) rejects every proper non-empty prefix *)
Theorem C08_prefix_fact_for_framed_decoders :
  forall (depth : bytes -> Z) (data : Type) (ser : data -> bytes) (parse0 : bytes -> option data),
    (forall d, closed_at_end depth (ser d) = true) ->
    forall d k, (0 < k < List.length (ser d))%nat -> framed depth parse0 (firstn k (ser d)) = None.
Proof. exact (fun depth data ser parse0 H => framed_prefix depth data ser parse0 H). Qed.
Print Assumptions C08_prefix_fact_for_framed_decoders.

(* non-vacuity: the premises are satisfiable (toy serialiser: n is written as an opening brace, n ones, a closing brace); a
   save of 3 over 2 has crash states that restart with 2, crash states that restart with 3 and crash states in which some
   file holds a two-byte prefix of the payload; all of them meet the theorem's conclusion *)
Example C08_nonvacuous :
  (forall n, toy_parse (toy_ser n) = Some n) /\ toy_parse [] = None
  /\ (forall n k, (0 < k < List.length (toy_ser n))%nat -> toy_parse (firstn k (toy_ser n)) = None)
  /\ let s := mkfs (Some (toy_ser 2)) None None in
     let cs := crash_states_c (toy_ser 3) true save_prog 0 s in
     let loads n s' := match load_c nat toy_parse O true load_prog s' with LOk m => Nat.eqb m n | _ => false end in
     let partial (f : option bytes) := match f with Some [123; 49] => true | _ => false end in
     holds nat toy_ser O true 2%nat s
     /\ existsb (loads 2%nat) cs = true /\ existsb (loads 3%nat) cs = true
     /\ existsb (fun s' => partial (fdata s') || partial (fbackup s') || partial (ftemp s')) cs = true
     /\ forallb (fun s' => loads 2%nat s' || loads 3%nat s') cs = true
     /\ forallb (fun m => existsb (fun nt : string * oprog => String.eqb (fst nt) m && has_save (snd nt)) op_trees)
                 ["insert"%string; "update"%string; "replace"%string; "remove"%string] = true.
Proof.
  split; [exact toy_parse_ser|]. split; [exact toy_parse_nil|]. split; [exact toy_parse_prefix|].
  split; [left; reflexivity|]. vm_compute. repeat split.
Qed.
