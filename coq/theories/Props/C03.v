(* C03 — property theorems.  Statements only: each is closed by [exact] of a lemma proved elsewhere.
   [func_table] is the function registry regenerated from core/expressions/*.py on every run; [h] says whether HISTORY is enabled. *)
From QT Require Import C03.Parser C03.ParserThm C03.LiteralThm C03.WfThm C03.Grammar C03.GrammarThm Gen.FuncTable.
Open Scope nat_scope.

(* every accepted text yields a well-formed tree: function names registered and enabled, number of arguments within the
   declared bounds, argument kinds admissible, port ids over [a-zA-Z0-9_.-], literal texts valid int()/float()/keyword
   literals without surrounding whitespace *)
Theorem C03_accepted_is_wellformed :
  forall h fuel s pos e, parse_fuel func_table h fuel tt s pos = POK e -> wf func_table h e.
Proof. exact (parse_ok_wf func_table). Qed.
Print Assumptions C03_accepted_is_wellformed.

(* the canonical text (what the hub stores and reports) of every well-formed tree is accepted and parses to that very tree:
   same structure, same port references (hence dependencies), same literal texts and values — for trees of any depth/width *)
Theorem C03_canonical_text_parses_back :
  forall h e, wf func_table h e -> parse func_table h (print e) = POK e.
Proof. exact (wf_print_parse func_table). Qed.
Print Assumptions C03_canonical_text_parses_back.

(* together: printing is a parse fixpoint for every accepted text *)
Theorem C03_print_parse_fixpoint :
  forall h s e, parse func_table h s = POK e -> parse func_table h (print e) = POK e.
Proof. exact (print_parse_fixpoint func_table). Qed.
Print Assumptions C03_print_parse_fixpoint.

(* with surrounding whitespace and at any position / nesting budget *)
Theorem C03_whitespace_insensitive :
  forall h e, wf func_table h e -> forall fuel pos pad,
    depth e < fuel -> forallb is_space pad = true -> parse_fuel func_table h fuel tt (pad ++ print e) pos = POK e.
Proof. exact (parse_print func_table). Qed.
Print Assumptions C03_whitespace_insensitive.

(* accepted literals contain neither parentheses nor commas (so a literal argument is never split by the call scan) *)
Theorem C03_literal_plain :
  forall t pos v, parse_literal t pos = POK (PLit t v) -> forallb (fun c => negb (special c)) t = true.
Proof. exact literal_plain. Qed.
Print Assumptions C03_literal_plain.

(* ---------------------------------------------------------------- the accept/reject oracle of the harness (Grammar.derives, a
   recogniser written from the grammar: strip, '$'/'@' id, NAME '(' args split at top-level commas ')', literal) and the
   parser model (the index-based scan) accept exactly the same texts — every text, any length and nesting, both history
   settings; nothing is excluded *)
(* soundness of the oracle: what the parser accepts the grammar derives, with the flag "is a port reference" of the root *)
Theorem C03_grammar_sound :
  forall h s e, parse func_table h s = POK e -> derives func_table h (S (List.length s)) s = Some (is_ref e).
Proof. exact (grammar_sound func_table). Qed.
Print Assumptions C03_grammar_sound.

Theorem C03_grammar_sound_ex :
  forall h s e, parse func_table h s = POK e -> exists fuel, derives func_table h fuel s = Some (is_ref e).
Proof. exact (grammar_sound_ex func_table). Qed.
Print Assumptions C03_grammar_sound_ex.

(* completeness: what the grammar derives (with whatever fuel) the parser accepts, and the root is a reference iff the flag says so *)
Theorem C03_grammar_complete :
  forall h fuel s b, derives func_table h fuel s = Some b -> exists e, parse func_table h s = POK e /\ is_ref e = b.
Proof. exact (grammar_complete func_table). Qed.
Print Assumptions C03_grammar_complete.

(* the same at every nesting budget and position (the induction that gives both directions: same fuel on both sides) *)
Theorem C03_grammar_sound_fuel :
  forall h fuel s pos e, parse_fuel func_table h fuel tt s pos = POK e -> derives func_table h fuel s = Some (is_ref e).
Proof. exact (parse_derives func_table). Qed.
Print Assumptions C03_grammar_sound_fuel.

Theorem C03_grammar_complete_fuel :
  forall h fuel s b, derives func_table h fuel s = Some b ->
    forall pos, exists e, parse_fuel func_table h fuel tt s pos = POK e /\ is_ref e = b.
Proof. exact (derives_parse func_table). Qed.
Print Assumptions C03_grammar_complete_fuel.

(* the recogniser's fuel: more never hurts, and S (length s) — what [accepts] uses — always suffices *)
Theorem C03_grammar_fuel_mono :
  forall h fuel s b, derives func_table h fuel s = Some b -> derives func_table h (S fuel) s = Some b.
Proof. exact (derives_mono func_table). Qed.
Print Assumptions C03_grammar_fuel_mono.

Theorem C03_grammar_fuel_bound :
  forall h fuel s b, derives func_table h fuel s = Some b -> derives func_table h (S (List.length s)) s = Some b.
Proof. exact (derives_bound func_table). Qed.
Print Assumptions C03_grammar_fuel_bound.

(* hence the oracle as the harness calls it is the parser model's accept/reject, for every text *)
Theorem C03_oracle_exact :
  forall h s, accepts func_table h s = match parse func_table h s with POK _ => true | PErrR _ => false end.
Proof. exact (accepts_exact func_table). Qed.
Print Assumptions C03_oracle_exact.

(* non-vacuity: a nested text with odd whitespace is accepted, and its canonical text parses back *)
Example C03_nonvacuous :
  let s := list_ascii_of_string "  IF( GT($p1 ,1_0.5e1), ADD(1,$, -inf) ,$x.y )" in
  exists e, parse func_table false s = POK e
            /\ print e = list_ascii_of_string "IF(GT($p1, 1_0.5e1), ADD(1, $, -inf), $x.y)".
Proof. eexists. vm_compute. split; reflexivity. Qed.
