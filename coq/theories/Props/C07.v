(* C07 — property theorems.  Statements only: each is closed by [exact] of a lemma proved elsewhere.
   [canon] = "parse the text, print the expression" and [eval_tw] = "evaluate the write transform, coerce to the port's type"
   are arbitrary functions in the port theorems (so they hold for the real parser/evaluator, whatever they do); the only
   fact about texts that is used — a canonical text parses back to itself — is a premise of [wf_port] and is discharged for
   the C03 parser/printer by [C07_canonical_texts_are_fixpoints] (from C03's print_parse_fixpoint). *)
From QT Require Import C07.SaveLoad C07.SaveLoadThm C07.RoundTripThm C07.HubThm C07.OwnerThm C07.Run C07.CanonThm.
Open Scope string_scope.
Open Scope list_scope.

(* save, construct a new port of the same kind, load: every restorable attribute, the persisted value and the history
   timestamp are what they were *)
Theorem C07_port_roundtrip : forall canon eval_tw p,
  wf_port canon p -> view (fst (load_from_data canon eval_tw (fresh p) (prepare_for_save p))) = view p.
Proof. exact port_roundtrip. Qed.
Print Assumptions C07_port_roundtrip.

(* a persisted, writable port with a value: the driver receives exactly one write while loading — that value through the
   write transform and the type coercion ([through_tw]: a disabled port's transform cannot read the port's own value, which
   is handled like an unavailable value — after fixes/C07-load-write-transform-error.diff; before it, loading raised) *)
Theorem C07_persisted_value_written_once : forall canon eval_tw p,
  wf_port canon p -> forall v, persisted p = true -> p_value p = v -> is_null v = false -> p_writable p = true ->
  restorable p "transform_write" = true -> restorable p "enabled" = true ->
  snd (load_from_data canon eval_tw (fresh p) (prepare_for_save p))
  = [through_tw eval_tw (p_boolean p) (p_integer p) (tw_text p) (enabled_attr p) v].
Proof. exact persisted_value_written_once. Qed.
Print Assumptions C07_persisted_value_written_once.

(* ... and nothing is written for a port that is not persisted, has no value, or is read-only *)
Theorem C07_nothing_written_otherwise : forall canon eval_tw p,
  wf_port canon p -> persisted p = false \/ is_null (p_value p) = true \/ p_writable p = false ->
  snd (load_from_data canon eval_tw (fresh p) (prepare_for_save p)) = [].
Proof. exact nothing_written_otherwise. Qed.
Print Assumptions C07_nothing_written_otherwise.

(* the stored record is a dict: whatever order its fields come in, loading gives the same attributes, value, history
   timestamp and driver writes (for ANY record with distinct keys and ANY port, well-formed or not) *)
Theorem C07_load_order_irrelevant_result : forall canon eval_tw p0 d1 d2,
  NoDup (map fst d1) -> Permutation d1 d2 ->
  (forall n, get_attr (fst (load_from_data canon eval_tw p0 d1)) n = get_attr (fst (load_from_data canon eval_tw p0 d2)) n)
  /\ p_value (fst (load_from_data canon eval_tw p0 d1)) = p_value (fst (load_from_data canon eval_tw p0 d2))
  /\ p_hlt (fst (load_from_data canon eval_tw p0 d1)) = p_hlt (fst (load_from_data canon eval_tw p0 d2))
  /\ snd (load_from_data canon eval_tw p0 d1) = snd (load_from_data canon eval_tw p0 d2).
Proof. exact load_order_irrelevant. Qed.
Print Assumptions C07_load_order_irrelevant_result.

(* what loading leaves in each attribute, in closed form: the attribute's own field of the record decides, nothing else *)
Theorem C07_load_closed_form : forall canon eval_tw p0 data, NoDup (map fst data) ->
  (forall n, get_attr (fst (load_from_data canon eval_tw p0 data)) n = attrs_after canon p0 data n)
  /\ p_value (fst (load_from_data canon eval_tw p0 data)) = spec_value canon p0 data
  /\ p_hlt (fst (load_from_data canon eval_tw p0 data)) = spec_hlt data
  /\ snd (load_from_data canon eval_tw p0 data) = spec_writes canon eval_tw p0 data.
Proof. exact load_char. Qed.
Print Assumptions C07_load_closed_form.

(* nothing deleted reappears: after ANY history of adds / edits / removes / writes / saves / restarts, an id that is not a
   live port (slave) is not one after a restart either *)
Theorem C07_deleted_stays_deleted : forall static ops id,
  ~ In id (h_live (run static ops)) -> ~ In id (h_live (restart (run static ops))).
Proof. exact deleted_stays_deleted. Qed.
Print Assumptions C07_deleted_stays_deleted.

Theorem C07_deleted_slave_stays_deleted : forall static ops name,
  ~ In name (h_slaves (run static ops)) -> ~ In name (h_slaves (restart (run static ops))).
Proof. exact deleted_slave_stays_deleted. Qed.
Print Assumptions C07_deleted_slave_stays_deleted.

(* removing a virtual port leaves neither a port record nor a definition record behind *)
Theorem C07_remove_leaves_no_record : forall h id,
  In id (h_live h) -> In id (h_vports h) -> ~ In id (h_static h) ->
  let h' := step h (ORemovePort id) in
  ~ In id (h_live h') /\ ~ In id (st_ports h') /\ ~ In id (st_vports h') /\ ~ In id (h_live (restart h')).
Proof. exact remove_leaves_no_record. Qed.
Print Assumptions C07_remove_leaves_no_record.

(* transient storage faults on the save path: a round of the save loop in which storing a marked port fails leaves the mark in
   place, and the next round stores the port and clears the marks *)
Theorem C07_failed_save_is_retried : forall h id,
  In id (h_pending h) -> In id (h_live h) ->
  In id (h_pending (step h (OSaveFailed id)))
  /\ (let h' := step (step h (OSaveFailed id)) OSaveAll in In id (st_ports h') /\ h_pending h' = []).
Proof. exact failed_save_is_retried. Qed.
Print Assumptions C07_failed_save_is_retried.

Theorem C07_device_roundtrip : forall empty_hash d0 d, wf_device d -> device_load empty_hash d0 (device_save d) = d.
Proof. exact device_roundtrip. Qed.
Print Assumptions C07_device_roundtrip.

Theorem C07_slave_roundtrip : forall s, wf_slave s -> slave_load (slave_save s) = Some s.
Proof. exact slave_roundtrip. Qed.
Print Assumptions C07_slave_roundtrip.

(* what GET /devices shows of a slave is a function of its entry, so it survives as well; passwords pending provisioning
   (kept in clear text in the entry, provisioning needs them) are shown as "set" / "" only *)
Theorem C07_slave_document_roundtrip : forall s,
  wf_slave s -> option_map slave_doc (slave_load (slave_save s)) = Some (slave_doc s).
Proof. exact slave_doc_roundtrip. Qed.
Print Assumptions C07_slave_document_roundtrip.

Theorem C07_slave_document_hides_passwords : forall l n v,
  In (n, v) (map expose l) -> ends_with "_password" n = true -> v = JStr "set" \/ v = JStr "".
Proof. exact exposed_hides_passwords. Qed.
Print Assumptions C07_slave_document_hides_passwords.

(* persisted slave ports (a permanently offline slave has its ports from the store only): after a restart the slave named n has
   exactly the ports whose record id is n + "." + remote id — whatever the remote id is, dots included — and no other slave
   with a dot-free name (device names cannot contain dots) claims such a record *)
Theorem C07_slave_ports_reloaded_exactly : forall n stored r, In r (load_ports n stored) <-> In (slave_port_id n r) stored.
Proof. exact load_ports_exact. Qed.
Print Assumptions C07_slave_ports_reloaded_exactly.

Theorem C07_slave_port_owner_unique : forall m n r,
  dot_free m = true -> dot_free n = true -> owns m (slave_port_id n r) = true -> m = n.
Proof. exact owner_unique. Qed.
Print Assumptions C07_slave_port_owner_unique.

(* ... and owns nothing else: adding, editing (disabling) or removing a slave leaves every local port, virtual port definition
   and port record as it was, also when a local port's id starts with the slave's name and a dot *)
Theorem C07_slave_ops_keep_local_ports : forall h o,
  match o with OAddSlave _ | OEditSlave _ | ORemoveSlave _ => True | _ => False end ->
  let h' := step h o in
  h_live h' = h_live h /\ h_vports h' = h_vports h /\ st_ports h' = st_ports h /\ st_vports h' = st_vports h
  /\ h_live (restart h') = h_live (restart h).
Proof. exact slave_ops_keep_local_ports. Qed.
Print Assumptions C07_slave_ops_keep_local_ports.

(* the premise of wf_port about texts, for the real grammar: what the hub reports for an accepted text parses back to itself *)
Theorem C07_canonical_texts_are_fixpoints : forall s t, canon_run s = Some t -> canon_run t = Some t.
Proof. exact canon_run_stable. Qed.
Print Assumptions C07_canonical_texts_are_fixpoints.

(* non-vacuity: a concrete writable, persisted virtual port with an expression and a write transform is well-formed for the
   C03 canonicaliser; it is saved, loaded back through a shuffled record, and its driver gets 2 * 3.5 = 7.0 once *)
Example C07_nonvacuous :
  canon_run "  ADD( $v2,1 )" = Some "ADD($v2, 1)" /\ canon_run "ADD($v2, 1)" = Some "ADD($v2, 1)" /\ canon_run "MUL($, 2)" = Some "MUL($, 2)"
  /\ load_from_data canon_run eval_tw_run (fresh ex_port) (rev (prepare_for_save ex_port))
     = ({| p_id := "v1"; p_defs := ex_defs; p_init := ex_init;
           p_attrs := [("id", JStr "v1"); ("display_name", JStr "a""b\c"); ("enabled", JBool true); ("expression", JStr "ADD($v2, 1)");
                       ("transform_write", JStr "MUL($, 2)"); ("persisted", JBool true); ("calib", JInt 0)];
           p_value := JQ 14; p_hlt := 1700000001000; p_writable := true; p_boolean := false; p_integer := false |}, [JQ 28])
  /\ view (fst (load_from_data canon_run eval_tw_run (fresh ex_port) (prepare_for_save ex_port))) = view ex_port
  /\ h_live (restart (run ["h1"] [OAddVirtualPort "v1"; OAddVirtualPort "v2"; OSetAttr "v1"; ORemovePort "v2"; OWriteValue "v1"; OSaveAll]))
     = ["h1"; "v1"]
  /\ load_ports "s1" ["s1.p1"; "s1.floor1.lamp"; "s10.p1"; "s2.s1.p1"] = ["p1"; "floor1.lamp"]
  /\ h_live (restart (run ["h1"] [OAddSlave "garage"; OAddVirtualPort "garage.door_override"; OEditSlave "garage"; ORemoveSlave "garage"]))
     = ["h1"; "garage.door_override"].
Proof. vm_compute. repeat split. Qed.

Example C07_wf_nonvacuous : wf_port canon_run ex_port.
Proof. exact ex_port_wf. Qed.
