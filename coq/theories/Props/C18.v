(* C18 — property theorems (being filled in). *)
From QT Require Import C18.Spec.
Open Scope Z_scope.
