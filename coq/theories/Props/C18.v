(* C18 — property theorems.  Statements only: each is closed by [exact] of a lemma proved elsewhere.
   [run cfg st0 rs] is the state after ANY request sequence rs (API GET / DELETE with raw query arguments, value changes,
   clock advances) from ANY store and clock with an empty cache: so "for every reachable state of the sample cache".
   [abstract] (Spec.v) says which effective request the raw arguments denote (defaults and validation). *)
From QT Require Import C18.Spec C18.SortThm C18.ApiThm C18.CacheThm C18.MainThm C18.Interleave C18.InterleaveThm C18.SegmentsThm C18.RetypeThm.
Open Scope Z_scope.

(* a range query answers exactly the stored samples of that port with from <= time < to, oldest first, at most
   `limit` of them counted from the start of that order, typed like the port; the state is unchanged *)
Theorem C18_slice : forall cfg st0 rs p q k from to limit,
  let st := fst (run cfg st0 rs) in
  abstract cfg (st_now st) (ApiGet p q) = ASlice p k from to limit ->
  step cfg st (ApiGet p q)
  = (st, RSamples (map (fun s => (s_ts s, typed_like k (s_val s)))
                       (firstn (Z.to_nat limit) (sort_by_ts (filter (in_range p from to) (st_store st)))))).
Proof. exact slice_exact. Qed.
Print Assumptions C18_slice.

(* "oldest first" pinned down without an algorithm: ascending timestamps, and under every timestamp exactly the input's
   samples with that timestamp in stored order; any list with these two properties is that list *)
Theorem C18_sort_by_ts_meaning : forall l,
  Sorted.StronglySorted le_ts (sort_by_ts l) /\ forall k, filter (at_ts k) (sort_by_ts l) = filter (at_ts k) l.
Proof. exact sort_by_ts_characterized. Qed.
Print Assumptions C18_sort_by_ts_meaning.

Theorem C18_sort_by_ts_unique : forall r1 r2,
  Sorted.StronglySorted le_ts r1 -> Sorted.StronglySorted le_ts r2 ->
  (forall k, filter (at_ts k) r1 = filter (at_ts k) r2) -> r1 = r2.
Proof. exact sorted_unique. Qed.
Print Assumptions C18_sort_by_ts_unique.

(* a query by timestamps answers one entry per requested timestamp, in request order (duplicates included), each the
   newest sample at or before that timestamp or null — in every cache state reachable by previous requests *)
Theorem C18_by_timestamp : forall cfg st0 rs p q k tss,
  0 <= cfg_min_age cfg -> st_cache st0 = [] ->
  let st := fst (run cfg st0 rs) in
  abstract cfg (st_now st) (ApiGet p q) = AByTimestamp p k tss ->
  snd (step cfg st (ApiGet p q))
  = REntries (map (fun t => option_map (fun s => (t, typed_like k (s_val s))) (newest_at_or_before (st_store st) p t)) tss)
  /\ st_store (fst (step cfg st (ApiGet p q))) = st_store st.
Proof. exact by_timestamp_exact. Qed.
Print Assumptions C18_by_timestamp.

(* the invariant behind it: after any request sequence a cached entry is older than the cache age and equals what the
   store would answer now *)
Theorem C18_cache_invariant : forall cfg rs st0,
  0 <= cfg_min_age cfg -> st_cache st0 = [] ->
  forall p t v, cache_get (st_cache (fst (run cfg st0 rs))) p t = Some v ->
    t + cfg_min_age cfg < st_now (fst (run cfg st0 rs))
    /\ exists k, port_kind cfg p = Some k
                 /\ v = option_map (fun s => typed_like k (s_val s)) (newest_at_or_before (st_store (fst (run cfg st0 rs))) p t).
Proof. exact (fun cfg rs st0 A E => run_reaches_ok cfg st0 rs A E). Qed.
Print Assumptions C18_cache_invariant.

(* "newest at or before" pinned down: a sample with the largest timestamp among the candidates, the first stored one *)
Theorem C18_newest_meaning : forall l,
  match newest l with
  | None => l = []
  | Some b => exists l1 l2, l = l1 ++ b :: l2
                            /\ Forall (fun s => s_ts s < s_ts b) l1 /\ Forall (fun s => s_ts s <= s_ts b) l2
  end.
Proof. exact newest_characterized. Qed.
Print Assumptions C18_newest_meaning.

(* deletion removes exactly the samples of that port in the half-open range, and keeps the others in order *)
Theorem C18_delete_exact : forall cfg st p q from to,
  abstract cfg (st_now st) (ApiDelete p q) = ADelete p from to ->
  snd (step cfg st (ApiDelete p q)) = RDone
  /\ st_store (fst (step cfg st (ApiDelete p q))) = filter (fun s => negb (in_range p (Some from) to s)) (st_store st).
Proof. exact delete_exact. Qed.
Print Assumptions C18_delete_exact.

Theorem C18_delete_membership : forall st p from to s,
  In s (delete_spec st p from to) <-> In s st /\ ~ (s_oid s = p /\ from <= s_ts s < to).
Proof. exact delete_membership. Qed.
Print Assumptions C18_delete_membership.

(* a value change of a port with on-change history (history_interval = -1, real date/time) appears as exactly one sample *)
Theorem C18_change_recorded_once : forall cfg st p v,
  port_on_change cfg p = true -> cfg_real_ms cfg < st_now st ->
  step cfg st (ValueChange p (Some v))
  = ({| st_store := st_store st ++ [(p, st_now st, v)]; st_cache := st_cache st; st_now := st_now st |}, RNone).
Proof. exact change_recorded_once. Qed.
Print Assumptions C18_change_recorded_once.

(* nothing else touches the stored samples: refused requests, queries, value changes that are not recorded, the clock *)
Theorem C18_store_only_changes_by_delete_or_record : forall cfg st r,
  match abstract cfg (st_now st) r with
  | ADelete _ _ _ | ARecord _ _ => True
  | _ => st_store (fst (step cfg st r)) = st_store st
  end.
Proof. exact store_only_changes_by_delete_or_record. Qed.
Print Assumptions C18_store_only_changes_by_delete_or_record.

(* all of the above at once: the model run and the specification's abstract machine (a sample list and a clock, no
   cache) end with the same samples and clock, and every answer the specification prescribes is the answer given *)
Theorem C18_run_refines_spec : forall cfg rs st0,
  0 <= cfg_min_age cfg -> cache_ok cfg st0 ->
  fst (spec_run cfg (st_store st0, st_now st0) rs) = (st_store (fst (run cfg st0 rs)), st_now (fst (run cfg st0 rs)))
  /\ Forall2 agrees (snd (run cfg st0 rs)) (snd (spec_run cfg (st_store st0, st_now st0) rs)).
Proof. exact run_refines_spec. Qed.
Print Assumptions C18_run_refines_spec.

(* ---- requests that overlap on a driver whose calls suspend (Interleave.v: a request = start / driver call / finish) ---- *)

(* after ANY interleaving of segments (any number of requests in flight) whose schedule satisfies [sched_ok] — the clock is
   not advanced while a request is suspended; a request starts under an identifier that is not in flight — every cached
   entry is older than the cache age and, unless a DELETE of its port is suspended in the driver, equals what the store
   answers now.  (The DELETE's second invalidation, 6506e34, is what makes the exemption end with the DELETE.) *)
Theorem C18_overlap_cache_invariant : forall cfg es st0,
  0 <= cfg_min_age cfg -> st_cache st0 = [] -> sched_ok cfg (istate_of st0) es ->
  let s := fst (irun cfg (istate_of st0) es) in
  forall p t v, cache_get (st_cache (i_st s)) p t = Some v ->
    t + cfg_min_age cfg < st_now (i_st s)
    /\ exists k, port_kind cfg p = Some k /\ (~ pending_del s p -> v = fresh_val (st_store (i_st s)) p k t).
Proof. exact (fun cfg es st0 A E S => proj1 (irun_keeps_invariant cfg es (istate_of st0) A (J_initial cfg st0 E) S)). Qed.
Print Assumptions C18_overlap_cache_invariant.

(* hence a by-timestamp query that runs alone after any such overlapping history, on a port that has no DELETE in flight
   (in particular when nothing is in flight: [C18_nothing_in_flight]), answers exactly the specification *)
Theorem C18_by_timestamp_after_overlaps : forall cfg st0 es p q k tss,
  0 <= cfg_min_age cfg -> st_cache st0 = [] -> sched_ok cfg (istate_of st0) es ->
  let s := fst (irun cfg (istate_of st0) es) in
  ~ pending_del s p ->
  abstract cfg (st_now (i_st s)) (ApiGet p q) = AByTimestamp p k tss ->
  snd (istep cfg s (ISeq (ApiGet p q))) = REntries (by_timestamp_spec (st_store (i_st s)) p k tss).
Proof. exact by_timestamp_after_overlaps. Qed.
Print Assumptions C18_by_timestamp_after_overlaps.

Theorem C18_nothing_in_flight : forall s p, i_fly s = [] -> ~ pending_del s p.
Proof. exact nothing_in_flight. Qed.
Print Assumptions C18_nothing_in_flight.

(* the premise is decidable; the harness evaluates [sched_okb] on every schedule it runs *)
Theorem C18_sched_okb_sound : forall cfg es s, sched_okb cfg s es = true -> sched_ok cfg s es.
Proof. exact sched_okb_sound. Qed.
Print Assumptions C18_sched_okb_sound.

(* a request that runs alone is the composition of its three segments: the sequential model above IS the interleaved
   model on schedules without overlap *)
Theorem C18_alone_is_three_segments : forall cfg s id r,
  fly_get (i_fly s) id = None ->
  let s3 := fst (irun cfg s [IStart id r; IDriver id; IFinish id]) in
  let outs := snd (irun cfg s [IStart id r; IDriver id; IFinish id]) in
  let s' := fst (istep cfg s (ISeq r)) in
  let o := snd (istep cfg s (ISeq r)) in
  i_st s3 = i_st s' /\ i_gens s3 = i_gens s' /\ same_flights (i_fly s3) (i_fly s)
  /\ (outs = [RNone; RNone; o] \/ outs = [o; ROther; ROther]).
Proof. exact alone_is_three_segments. Qed.
Print Assumptions C18_alone_is_three_segments.

(* a port replaced by a port of another kind under the same id (removed with its history, registered again): the cache
   invariant carries over to the NEW configuration, so the theorems above apply with it — answers are typed like the port
   as it is registered now, for every kind of the old and of the new port *)
Theorem C18_port_replacement_keeps_cache_invariant : forall cfg cfg' st p,
  cache_ok cfg st ->
  cfg_min_age cfg' = cfg_min_age cfg ->
  (forall p', p' <> p -> port_kind cfg' p' = port_kind cfg p') ->
  cache_ok cfg' (hist_remove_samples st p None None)
  /\ st_store (hist_remove_samples st p None None) = filter (fun s => negb (s_oid s =? p)) (st_store st).
Proof. exact port_replacement_keeps_invariant. Qed.
Print Assumptions C18_port_replacement_keeps_cache_invariant.

(* non-vacuity: the premises are met by concrete requests; a cached answer is served (after the first request the cache
   holds timestamp 1500) in the request's order, with the duplicate, and after DELETE the cache is gone *)
Example C18_nonvacuous :
  let cfg := {| cfg_ports := [(1, (KNum, true)); (3, (KBool, false))]; cfg_min_age := 3600000; cfg_real_ms := 1546304400000 |} in
  let st0 := {| st_store := [(1, 1000, 6); (1, 2000, 10); (1, 2000, 28); (3, 2000, 0); (1, 3000, -15)];
                st_cache := []; st_now := 1700000000000 |} in
  let byts l := {| q_from := QAbsent; q_to := QAbsent; q_limit := QAbsent; q_timestamps := Some (map QInt l) |} in
  let range f t n := {| q_from := f; q_to := t; q_limit := n; q_timestamps := None |} in
  abstract cfg 1700000000000 (ApiGet 1 (byts [2500; 1500; 2500])) = AByTimestamp 1 KNum [2500; 1500; 2500]
  /\ abstract cfg 1700000000000 (ApiGet 1 (range (QInt 1000) (QInt 3000) (QInt 2))) = ASlice 1 KNum (Some 1000) 3000 2
  /\ abstract cfg 1700000000000 (ApiGet 1 (range QEmpty QAbsent QAbsent)) = ASlice 1 KNum None 1700000000000 1000
  /\ abstract cfg 1700000000000 (ApiDelete 1 (range (QInt 2000) (QInt 3000) QAbsent)) = ADelete 1 2000 3000
  /\ snd (run cfg st0 [ApiGet 1 (byts [1500]); ApiGet 1 (byts [2500; 1500; 2500]);
                       ApiGet 1 (range (QInt 1000) (QInt 3000) (QInt 2)); ValueChange 1 (Some 5);
                       ApiDelete 1 (range (QInt 2000) (QInt 3000) QAbsent); ApiGet 1 (byts [2500])])
     = [REntries [Some (1500, VNum 6)];
        REntries [Some (2500, VNum 10); Some (1500, VNum 6); Some (2500, VNum 10)];
        RSamples [(1000, VNum 6); (2000, VNum 10)]; RNone; RDone; REntries [Some (2500, VNum 6)]]
  /\ st_cache (fst (run cfg st0 [ApiGet 1 (byts [1500])])) = [(1, 1500, Some (VNum 6))]
  /\ st_store (fst (run cfg st0 [ValueChange 1 (Some 5); ApiDelete 1 (range (QInt 2000) (QInt 3000) QAbsent)]))
     = [(1, 1000, 6); (3, 2000, 0); (1, 3000, -15); (1, 1700000000000, 5)].
Proof. vm_compute. repeat split. Qed.

(* non-vacuity of the overlap theorems: a by-timestamp query (id 1) suspended after its driver call while a DELETE (id 2)
   covering its answer runs to the end; the schedule is admissible, the suspended query still answers the pre-deletion
   sample (it overlaps the DELETE), its cache write goes to the popped dict, and the same question asked afterwards
   gets the post-deletion answer *)
Example C18_overlap_nonvacuous :
  let cfg := {| cfg_ports := [(1, (KNum, true))]; cfg_min_age := 3600000; cfg_real_ms := 1546304400000 |} in
  let st0 := {| st_store := [(1, 1000, 6); (1, 2000, 10); (1, 3000, -15)]; st_cache := []; st_now := 1700000000000 |} in
  let byts l := {| q_from := QAbsent; q_to := QAbsent; q_limit := QAbsent; q_timestamps := Some (map QInt l) |} in
  let del f t := {| q_from := QInt f; q_to := QInt t; q_limit := QAbsent; q_timestamps := None |} in
  let es := [IStart 1 (ApiGet 1 (byts [2500])); IDriver 1; IStart 2 (ApiDelete 1 (del 2000 3000)); IDriver 2; IFinish 1;
             IFinish 2; ISeq (ApiGet 1 (byts [2500]))] in
  (* the removal suspended after the first invalidation while a whole query runs: the stale entry is cached and popped again *)
  let es2 := [IStart 1 (ApiDelete 1 (del 2000 3000)); IStart 2 (ApiGet 1 (byts [2500])); IDriver 2; IFinish 2; IDriver 1] in
  sched_okb cfg (istate_of st0) es = true
  /\ snd (irun cfg (istate_of st0) es)
     = [RNone; RNone; RNone; RNone; REntries [Some (2500, VNum 10)]; RDone; REntries [Some (2500, VNum 6)]]
  /\ st_cache (i_st (fst (irun cfg (istate_of st0) es))) = [(1, 2500, Some (VNum 6))]
  /\ sched_okb cfg (istate_of st0) (es2 ++ [IFinish 1; ISeq (ApiGet 1 (byts [2500]))]) = true
  /\ st_cache (i_st (fst (irun cfg (istate_of st0) es2))) = [(1, 2500, Some (VNum 10))]
  /\ i_fly (fst (irun cfg (istate_of st0) (es2 ++ [IFinish 1]))) = []
  /\ snd (irun cfg (istate_of st0) (es2 ++ [IFinish 1; ISeq (ApiGet 1 (byts [2500]))]))
     = [RNone; RNone; RNone; REntries [Some (2500, VNum 10)]; RNone; RDone; REntries [Some (2500, VNum 6)]].
Proof. vm_compute. repeat split. Qed.
