(* placeholder while the pipeline is brought up *)
From QT Require Import C14.Spec.
Example C14_placeholder : run 4 init [] = Some init.
Proof. reflexivity. Qed.
Print Assumptions C14_placeholder.
