(* C14 — property theorems.  Statements only: each is closed by [exact] of a lemma proved elsewhere.
   [run cap init tr = Some s] : the trace [tr] (of any length) is accepted by the model of one port's I/O with queue
   capacity [cap], from a freshly constructed port, and leads to state [s].  The projections of a trace (submitted, failed,
   took, driver_writes, delivers, surviving, outstanding, count, excl ...) are defined in C14/Spec.v on the events alone. *)
From QT Require Import C14.Spec C14.ExclThm C14.QueueThm C14.MainThm C14.ResultThm.
From Coq Require Import Permutation.
Open Scope nat_scope.

(* at any point of any accepted trace at most one driver read of the port is in flight: #ReadStart - #ReadEnd is 0 or 1 *)
Theorem C14_reads_exclusive :
  forall cap tr s, run cap init tr = Some s ->
    forall pre post, tr = pre ++ post -> count is_rend pre <= count is_rstart pre <= count is_rend pre + 1.
Proof. exact reads_never_overlap. Qed.
Print Assumptions C14_reads_exclusive.

(* ... and at most one driver write (write loop or the direct write of load_from_data) *)
Theorem C14_writes_exclusive :
  forall cap tr s, run cap init tr = Some s ->
    forall pre post, tr = pre ++ post -> count is_wend pre <= count is_wstart pre <= count is_wend pre + 1.
Proof. exact writes_never_overlap. Qed.
Print Assumptions C14_writes_exclusive.

(* the same on states *)
Theorem C14_in_flight_bounds :
  forall cap tr s, run cap init tr = Some s -> reads_in_flight s <= 1 /\ writes_in_flight s <= 1.
Proof. exact in_flight_bounds. Qed.
Print Assumptions C14_in_flight_bounds.

(* the values started at the driver, followed by the values still pending, are the submitted values minus exactly the
   tickets failed with QueueFull, in submission order *)
Theorem C14_write_order :
  forall cap tr s, run cap init tr = Some s ->
    map fst (surviving tr) = driver_writes tr ++ pending_values s.
Proof. exact write_order. Qed.
Print Assumptions C14_write_order.

(* a submission makes a ticket fail with QueueFull only when cap tickets are queued, and that ticket is the oldest of them;
   when fewer are queued (or the queue is unbounded) nothing fails *)
Theorem C14_drop_only_at_capacity_oldest_first :
  forall cap tr s pre v t d post,
    run cap init tr = Some s -> tr = pre ++ WriteSubmit v t d :: post ->
    match d with
    | None => cap = 0 \/ List.length (outstanding pre) < cap
    | Some t0 => 0 < cap /\ List.length (outstanding pre) = cap /\ hd_error (outstanding pre) = Some t0
    end.
Proof. exact drop_rule. Qed.
Print Assumptions C14_drop_only_at_capacity_oldest_first.

(* no ticket is lost or duplicated: the tickets issued so far are 0..n-1 and each is, exactly once, resolved (written or
   failed), in flight at the driver, or queued; the tickets resolved with QueueFull are exactly the dropped ones *)
Theorem C14_drop_notified :
  forall cap tr s, run cap init tr = Some s ->
    map snd (submitted tr) = seq 0 (next s) /\
    Permutation (map snd (submitted tr)) (map fst (results s) ++ in_flight_tickets s ++ map snd (write_q s)) /\
    NoDup (map fst (results s) ++ in_flight_tickets s ++ map snd (write_q s)) /\
    (forall t, In (t, TQueueFull) (results s) <-> In t (failed tr)).
Proof. exact tickets_partition. Qed.
Print Assumptions C14_drop_notified.

(* what submitters are told: the recorded result of their ticket; QueueFull exactly for dropped tickets; never twice *)
Theorem C14_submitters_told :
  forall cap tr s, run cap init tr = Some s ->
    (forall t, In t (failed tr) -> In (t, TQueueFull) (results s)) /\
    (forall t r, In (t, r) (delivers tr) -> In (t, r) (results s) /\ (r = TQueueFull <-> In t (failed tr))) /\
    NoDup (map fst (delivers tr)).
Proof. exact drop_notified. Qed.
Print Assumptions C14_submitters_told.

(* ... and otherwise the result of their own driver call (k-th dequeued ticket, k-th driver result) *)
Theorem C14_told_own_result :
  forall cap tr s, run cap init tr = Some s ->
    forall t r, In (t, r) (delivers tr) -> r <> TQueueFull -> lookup t (driver_results tr) = Some r.
Proof. exact told_own_result. Qed.
Print Assumptions C14_told_own_result.

(* cancellation of a caller that WAITS in the read guard (an aborted reset / restore request) is part of the alphabet
   ([ReadCancel]), so C14_reads_exclusive above covers it; the step itself only removes one waiter: the read in flight keeps
   `_reading`, the write path is untouched *)
Theorem C14_cancelled_waiter_keeps_holder :
  forall cap s c s', step cap s (ReadCancel c) = Some s' ->
    reading s' = reading s /\ reads_in_flight s' = reads_in_flight s /\ read_waiters s = S (read_waiters s')
    /\ write_q s' = write_q s /\ wl s' = wl s.
Proof. exact cancel_keeps_holder. Qed.
Print Assumptions C14_cancelled_waiter_keeps_holder.

(* the submitter's own level (what transform_and_write_value gives back to the API function, the eval loop or the sequence
   step, and what patch_port_value answers), judged on the prefix before the answer: told QueueFull <=> the ticket was
   dropped; told anything else (in particular OK) => the ticket was dequeued by the write loop and that is the result of its
   own driver call; an API 204/202 => not dropped, started at the driver, driver returned normally *)
Theorem C14_submitter_level :
  forall cap tr s pre e post, run cap init tr = Some s -> tr = pre ++ e :: post ->
    match e with
    | Told t r =>
        (r = TQueueFull <-> In t (failed pre)) /\
        (r <> TQueueFull -> lookup t (driver_results pre) = Some r /\ In t (map snd (took pre)))
    | ApiTold t true => ~ In t (failed pre) /\ lookup t (driver_results pre) = Some TOk /\ In t (map snd (took pre))
    | ApiTold t false => In t (failed pre) \/ lookup t (driver_results pre) = Some TExc
    | _ => True
    end.
Proof. exact submitter_level. Qed.
Print Assumptions C14_submitter_level.

(* attribute changes: disable() / enable() leave the write path alone (the code neither empties the queue nor resolves
   pending futures on disable), so every theorem above covers values pending at disable time: they are still written in
   submission order and their submitters are told the result of their own driver call; and no accepted trace contains a
   step that removes a queued entry in any other way ([Discard]) *)
Theorem C14_disable_keeps_write_path :
  forall cap s e s', e = Disable \/ e = Enable -> step cap s e = Some s' ->
    write_q s' = write_q s /\ wl s' = wl s /\ results s' = results s /\ next s' = next s /\ delivered s' = delivered s
    /\ reading s' = reading s /\ direct s' = direct s.
Proof. exact disable_keeps_write_path. Qed.
Print Assumptions C14_disable_keeps_write_path.

Theorem C14_no_discard : forall cap tr s, run cap init tr = Some s -> forall t, ~ In (Discard t) tr.
Proof. exact no_discard. Qed.
Print Assumptions C14_no_discard.

(* ... and none contains a 204/202 answer of patch_port_value for a value that was not handed to the write queue
   ([ApiUnqueued]): together with C14_submitter_level, every API write answered 2xx was started at the driver *)
Theorem C14_api_accepted_is_queued :
  forall cap tr s, run cap init tr = Some s -> forall e, In e tr -> is_side_exit e = false.
Proof. exact no_side_exit. Qed.
Print Assumptions C14_api_accepted_is_queued.

(* the executable specification that is run against the implementation holds of every accepted trace *)
Theorem C14_spec_holds_of_accepted :
  forall cap tr s, run cap init tr = Some s -> spec_code cap false tr = 0.
Proof. exact spec_holds_of_accepted. Qed.
Print Assumptions C14_spec_holds_of_accepted.

(* non-vacuity: capacity 2; three submissions while the first write is at the driver, the third overflows and ticket 1 (the
   oldest queued) fails; a read waits behind a read; the driver sees 10, 13 *)
Example C14_nonvacuous :
  let tr := [Enable; ReadRequest SrcPass; ReadStart SrcPass; ReadRequest SrcLoad;
             WriteSubmit 10 0 None; WriteTake 10 0; WriteStart 10;
             WriteSubmit 11 1 None; WriteSubmit 12 2 None; WriteSubmit 13 3 (Some 1%nat); Deliver 1 TQueueFull;
             ReadEnd SrcPass OVal; ReadStart SrcLoad;
             WriteEnd WOk; Deliver 0 TOk; Told 0 TOk; ApiTold 0 true; Told 1 TQueueFull; ApiTold 1 false;
             ReadRequest SrcLoad; ReadCancel SrcLoad;
             Disable; LoopResume; WriteTake 12 2; WriteStart 12; Snap true true 1]%Z in
  exists s, run 2 init tr = Some s
    /\ failed tr = [1] /\ driver_writes tr = [10; 12]%Z /\ pending_values s = [13]%Z
    /\ map fst (surviving tr) = [10; 12; 13]%Z /\ reads_in_flight s = 1 /\ writes_in_flight s = 1
    /\ run 2 init (tr ++ [ReadStart SrcPass]) = None /\ run 2 init (tr ++ [DirectStart 5%Z]) = None
    /\ run 2 init (tr ++ [WriteTake 13 3]) = None /\ run 2 init (tr ++ [Told 2 TOk]) = None
    /\ run 2 init (tr ++ [Told 1 TOk]) = None /\ run 2 init (tr ++ [ReadCancel SrcLoad]) = None
    /\ run 2 init (tr ++ [Discard 3]) = None /\ run 2 init (tr ++ [ReadRequest SrcPass]) = None.
Proof. eexists. vm_compute. repeat split. Qed.
