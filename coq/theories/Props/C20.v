(* C20 — property theorems.  Statements only: each is closed by [exact] of a lemma proved elsewhere.
   [E : env] stands for the expression parser/printer and the evaluation of transforms (C02/C03), arbitrary here.
   [put_ports] is the restore with the two proposed repairs (fixes/C20-*.diff); [put_ports_gen V] is either version. *)
From QT Require Import C20.Lemmas C20.FlagsThm C20.PortsThm C20.OtherThm C20.AcceptThm C20.Example C20.Shape Gen.C20Gen C20.GenOk C20.Endpoints Gen.C20EndpointsGen C20.EndpointsOk.
Open Scope string_scope.
Open Scope list_scope.
Open Scope Z_scope.

(* backup then restore of /ports: for every source hub, every target hub on the same hardware (any virtual ports, any
   attributes, any stale expressions), if the restore of what GET /ports answered is accepted, GET /ports answers the same
   afterwards: the same ports, and under every key the same value, except pending_value, and `value` for a port that has an
   expression or whose transforms are not inverse to each other at that value *)
Theorem C20_ports_roundtrip : forall E s1 s2 s2',
  hub_ok E s1 -> same_hardware s1 s2 ->
  put_ports E (map JObj (get_ports E s1)) s2 = (s2', None) ->
  docs_equiv E (get_ports E s1) (get_ports E s2').
Proof. exact ports_roundtrip. Qed.
Print Assumptions C20_ports_roundtrip.

(* the order of the entries in the document does not matter *)
Theorem C20_ports_roundtrip_any_order : forall E s1 s2 s2' order,
  hub_ok E s1 -> same_hardware s1 s2 -> Permutation.Permutation order (h_ports s1) ->
  put_ports E (map JObj (map (port_json E) order)) s2 = (s2', None) ->
  docs_equiv E (get_ports E s1) (get_ports E s2').
Proof. exact ports_roundtrip_any_order. Qed.
Print Assumptions C20_ports_roundtrip_any_order.

(* polling and event delivery are enabled when put_ports returns: on success, on rejection at any entry of any document, and
   when the request is refused outright — for the code before and after the repairs *)
Theorem C20_flags_restored : forall V E doc h h' err,
  h_updating h = true -> h_events h = true ->
  put_ports_gen V E doc h = (h', err) -> h_updating h' = true /\ h_events h' = true.
Proof. exact flags_restored. Qed.
Print Assumptions C20_flags_restored.

Theorem C20_flags_on_after_restore_body : forall V E doc entries h h' err,
  h_backup_support h = true -> as_entries doc = Some entries ->
  put_ports_gen V E doc h = (h', err) -> h_updating h' = true /\ h_events h' = true.
Proof. exact flags_on_after_body. Qed.
Print Assumptions C20_flags_on_after_restore_body.

(* a document rejected during the restore: the error carries the id of one of its entries *)
Theorem C20_error_names_entry : forall V E doc entries h h' err,
  h_backup_support h = true -> as_entries doc = Some entries ->
  put_ports_gen V E doc h = (h', Some err) -> names_entry entries err.
Proof. exact error_names_entry. Qed.
Print Assumptions C20_error_names_entry.

(* /device: attributes restored; password hashes kept, not restored *)
Theorem C20_device_roundtrip : forall d1 d2 d2',
  same_device_kind d1 d2 ->
  put_device (get_device d1) d2 = (d2', None) ->
  device_equiv (get_device d1) (get_device d2')
  /\ dv_hashes d2' = dv_hashes d2
  /\ (forall w, password_field d2' w = password_field d2 w).
Proof. exact device_roundtrip. Qed.
Print Assumptions C20_device_roundtrip.

(* /devices.  [reach] = what the devices on the network answer to GET /device while the restore runs (None = unreachable).  An
   entry is restored as a live device when it is enabled, reachable and not asked to listen without the `listen` flag - with its
   sync method kept as stated (detected only when unspecified: listen_enabled null and poll_interval 0) - otherwise as a disabled
   device.  Premise: each entry of the backup is what that makes of it, apart from online / last_sync. *)
Theorem C20_slaves_roundtrip : forall reach s1 s2 s2',
  (forall e, In e (sl_devices s1) -> strip_slave (slave_result reach e) = strip_slave e) ->
  put_slave_devices reach (get_slave_devices s1) s2 = (s2', None) ->
  map strip_slave (get_slave_devices s2') = map strip_slave (get_slave_devices s1)
  /\ sl_updating s2' = true /\ sl_events s2' = true.
Proof. exact slaves_roundtrip. Qed.
Print Assumptions C20_slaves_roundtrip.

Theorem C20_slaves_flags_restored : forall reach doc s s' err,
  put_slave_devices reach doc s = (s', err) -> sl_updating s' = true /\ sl_events s' = true.
Proof. exact slaves_flags_restored. Qed.
Print Assumptions C20_slaves_flags_restored.

(* /peripherals *)
Theorem C20_peripherals_roundtrip : forall known auto st dyn ps2 ps2',
  (forall e, In e st -> is_static e = true) ->
  (forall e, In e dyn -> is_static e = false /\ peripheral_json auto e = e) ->
  filter is_static ps2 = st ->
  put_peripherals known auto (get_peripherals (st ++ dyn)) ps2 = (ps2', None) ->
  get_peripherals ps2' = get_peripherals (st ++ dyn).
Proof. exact peripherals_roundtrip. Qed.
Print Assumptions C20_peripherals_roundtrip.

(* the source text of the restore functions has the shape the model of the switches assumes: in put_ports and put_slave_devices
   nothing stands between switching polling / event delivery off and the `try` whose `finally` switches them on (so
   C20_flags_restored / C20_slaves_flags_restored speak about every path of the real functions); put_device and put_peripherals do
   not touch the switches.  Gen/C20Gen.v is regenerated from /repo's working tree on every run. *)
Theorem C20_switches_guarded_in_source :
  switches_guarded put_ports_shape = true /\ switches_guarded put_slave_devices_shape = true
  /\ switches_untouched put_device_shape = true /\ switches_untouched put_peripherals_shape = true.
Proof. exact restore_shapes_ok. Qed.
Print Assumptions C20_switches_guarded_in_source.

(* the whole hub: a complete backup is restored endpoint by endpoint in ascending `order` - the standard endpoints (/device 10,
   /devices 15, /ports 20, ...: frontend/js/api/provisioning.js) merged with those the hub advertises (GET /backup/endpoints,
   core/api/funcs/backup.py), both regenerated from /repo's working tree on every run.  C20_ports_roundtrip needs the target to have
   the same non-virtual ports as the source when PUT /ports runs ([same_hardware]); the ports of peripherals and slave devices
   exist only after PUT /peripherals and PUT /devices: with the orders written in the source those come before /ports. *)
Theorem C20_port_creators_restored_before_ports :
  sequence_ok (standard_endpoints ++ advertised_endpoints) = true
  /\ restored_before "/peripherals" "/ports" (restore_sequence (standard_endpoints ++ advertised_endpoints)) = true
  /\ restored_before "/devices" "/ports" (restore_sequence (standard_endpoints ++ advertised_endpoints)) = true.
Proof. exact port_creators_restored_first. Qed.
Print Assumptions C20_port_creators_restored_before_ports.

(* ---- acceptance: an unaltered backup is never refused, so the round trip holds without the proviso "if accepted" ----
   [acceptable r E s1 s2] is a boolean test: every attribute value of the source lies in its domain, transforms refer to their
   own port, virtual ports have definitions POST /ports accepts, [r] is a topological order of the source's dependency graph
   (every reference of an expression to another port goes to a lower rank: the source has no loop), the target may hold as many
   virtual ports as the source has, and backup support is on. *)
Theorem C20_ports_backup_accepted : forall E r s1 s2,
  hub_ok E s1 -> same_hardware s1 s2 -> acceptable r E s1 s2 = true ->
  exists s2', put_ports E (map JObj (get_ports E s1)) s2 = (s2', None).
Proof. exact ports_backup_accepted. Qed.
Print Assumptions C20_ports_backup_accepted.

Theorem C20_ports_roundtrip_total : forall E r s1 s2,
  hub_ok E s1 -> same_hardware s1 s2 -> acceptable r E s1 s2 = true ->
  exists s2', put_ports E (map JObj (get_ports E s1)) s2 = (s2', None)
              /\ docs_equiv E (get_ports E s1) (get_ports E s2').
Proof. exact ports_roundtrip_total. Qed.
Print Assumptions C20_ports_roundtrip_total.

Theorem C20_device_roundtrip_total : forall d1 d2,
  same_device_kind d1 d2 -> device_acceptable d1 d2 = true ->
  exists d2', put_device (get_device d1) d2 = (d2', None)
              /\ device_equiv (get_device d1) (get_device d2') /\ dv_hashes d2' = dv_hashes d2.
Proof. exact device_roundtrip_total. Qed.
Print Assumptions C20_device_roundtrip_total.

Theorem C20_slaves_roundtrip_total : forall reach s1 s2,
  (forall e, In e (sl_devices s1) -> strip_slave (slave_result reach e) = strip_slave e) ->
  forallb (slave_entry_ok reach) (sl_devices s1) = true -> endpoints_distinct (sl_devices s1) = true ->
  exists s2', put_slave_devices reach (get_slave_devices s1) s2 = (s2', None)
              /\ map strip_slave (get_slave_devices s2') = map strip_slave (get_slave_devices s1)
              /\ sl_updating s2' = true /\ sl_events s2' = true.
Proof. exact slaves_roundtrip_total. Qed.
Print Assumptions C20_slaves_roundtrip_total.

Theorem C20_peripherals_roundtrip_total : forall known auto st dyn ps2,
  (forall e, In e st -> is_static e = true) ->
  (forall e, In e dyn -> is_static e = false /\ peripheral_json auto e = e) ->
  (forall e, In e dyn -> driver_known known e = true) ->
  ids_distinct (st ++ dyn) = true ->
  forallb (fun e => is_none (invalid_peripheral e)) (st ++ dyn) = true ->
  filter is_static ps2 = st ->
  exists ps2', put_peripherals known auto (get_peripherals (st ++ dyn)) ps2 = (ps2', None)
               /\ get_peripherals ps2' = get_peripherals (st ++ dyn).
Proof. exact peripherals_roundtrip_total. Qed.
Print Assumptions C20_peripherals_roundtrip_total.

(* non-vacuity: a source hub (an expression between two hardware ports, a virtual port with transforms and a value, a disabled
   virtual port named like a slave's port) and a target hub with other virtual ports and a stale expression that would close a
   loop meet the premises; the restore is accepted, creates the virtual ports, drops the target's, forgets the stale expression,
   and the rejection path keeps its promises *)
Example C20_nonvacuous :
  hub_ok ex_env ex_src /\ same_hardware ex_src ex_tgt
  /\ acceptable ex_rank ex_env ex_src ex_tgt = true            (* the premises of C20_ports_roundtrip_total hold *)
  /\ (let '(h', err) := put_ports ex_env (map JObj (get_ports ex_env ex_src)) ex_tgt in
      err = None
      /\ map p_id (h_ports h') = ["hw2"; "hw1"; "s1.x"; "v"]
      /\ option_map p_expression (find_port "hw2" (h_ports h')) = Some ""
      /\ option_map (fun p => (port_value ex_env p, p_raw p)) (find_port "v" (h_ports h')) = Some (JNum 140, JNum 280)
      /\ docs_equivb ex_env (get_ports ex_env ex_src) (get_ports ex_env h') = true)
  /\ (let bad := [JObj [("id", JStr "hw1"); ("tag", JNum 4)]] in
      let '(h', err) := put_ports ex_env bad ex_tgt in
      option_map (fun e => (e_code e, e_id e, e_field e)) err = Some ("invalid-field", Some (JStr "hw1"), Some "tag")
      /\ h_updating h' = true /\ h_events h' = true /\ map p_id (h_ports h') = ["hw2"; "hw1"]).
Proof.
  split; [exact ex_src_ok|]. split; [apply ex_same_hardware; now left|]. split; [vm_compute; reflexivity|]. vm_compute. repeat split.
Qed.

(* the premises of the other three total theorems are met by concrete documents, and the restores are accepted *)
Example C20_nonvacuous_other :
  (let d1 := ex_dev "Living_Room-2" "Source ""hub""" "5e884898da28047151d0e56f8dc6292773603d0d6aabbdd62a11ef721d1542d8" in
   let d2 := ex_dev "tgt" "" empty_hash in
   device_acceptable d1 d2 = true
   /\ option_map (fun d => dv_attrs d) (match put_device (get_device d1) d2 with (d, None) => Some d | _ => None end) = Some (dv_attrs d1)
   /\ lookup "admin_password" (get_device (fst (put_device (get_device d1) d2))) = Some (JStr ""))      (* kept: still unset *)
  /\ (let s1 := {| sl_devices := ex_slaves; sl_updating := true; sl_events := true |} in
      (* a disabled device, and live devices in the three sync modes (listening / polled / neither: permanently offline), with and
         without the `listen` flag: every entry is restored as it is, in particular "neither" stays "neither" *)
      forallb (slave_entry_ok ex_reach) (sl_devices s1) = true /\ endpoints_distinct (sl_devices s1) = true
      /\ forallb (fun e => entry_eqb (strip_slave (slave_result ex_reach e)) (strip_slave e)) (sl_devices s1) = true
      /\ map (fun e => (Backup.get "enabled" e, Backup.get "poll_interval" e, Backup.get "listen_enabled" e))
             (sl_devices (fst (put_slave_devices ex_reach (get_slave_devices s1)
                                                 {| sl_devices := [ex_slave "old" "h" 0]; sl_updating := true; sl_events := true |})))
         = [(JBool false, JNum 120, JBool false); (JBool true, JNum 0, JBool true); (JBool true, JNum 120, JBool false);
            (JBool true, JNum 0, JBool false); (JBool true, JNum 0, JBool false)]
      /\ snd (put_slave_devices ex_reach (get_slave_devices s1) {| sl_devices := []; sl_updating := true; sl_events := true |}) = None
      (* unspecified (listen_enabled absent, poll_interval 0) is detected: listening with the flag, the default interval without *)
      /\ map (fun e => (Backup.get "poll_interval" e, Backup.get "listen_enabled" e))
             (sl_devices (fst (put_slave_devices ex_reach [remove_key "listen_enabled" (ex_live "relay" "relay.local" 0 JNull); remove_key "listen_enabled" (ex_live "plain" "plain.local" 0 JNull)]
                                                 {| sl_devices := []; sl_updating := true; sl_events := true |})))
         = [(JNum 0, JBool true); (JNum 40, JBool false)])
  /\ (let known := String.eqb "mock.Driver" in
      let dyn := [ex_periph "pa"; ex_periph "pb"] in
      forallb (driver_known known) dyn = true /\ ids_distinct dyn = true
      /\ forallb (fun e => is_none (invalid_peripheral e)) dyn = true
      /\ forallb (fun e => entry_eqb (peripheral_json (fun _ => "") e) e) dyn = true
      /\ put_peripherals known (fun _ => "") (get_peripherals dyn) [ex_periph "pc"] = (dyn, None)).
Proof. vm_compute. repeat split. Qed.
