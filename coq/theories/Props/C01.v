(* C01 — property theorems.  Statements only: each is closed by [exact] of a lemma proved elsewhere. *)
From QT Require Import C01.Hub C01.HubThm C01.HubInst C01.GenOk Gen.C01Gen Expr.Spec Expr.Deps.
Open Scope nat_scope.

(* Convergence, for the hub LTS over the concrete expression language (integer number ports, echo drivers / sources, no
   transforms): from any initial state without expressions, after ANY trace — any number of ports, any interleaving of
   polling passes (one event per port read or skipped), evaluation-task steps, write completions, source changes,
   expression assignments and enable / disable of ports at rest — every quiescent state has every enabled port with an
   expression hold (at its driver and as reported value) the coerced value of that expression over the current last read
   values AND the current enabled flags: `$p` of a disabled p is an error there, as in PortValue._eval, so DEFAULT($p, 1) must
   be 1 and AVAILABLE($p) false once p is disabled.  The property is silent only when the evaluation of the expression or the
   coercion of its result to the port type is an error.
   [refresh_after_write], [enable_forces_all] and [disable_forces_all] are regenerated from core/ports.py on every run; the
   theorem needs all three to be true (C01/GenOk.v; History/C01Old.v refutes each of the other settings). *)
Theorem C01_convergence :
  forall (pname : pid -> string) (ids : list pid) (now : Z) s0 tr s,
    pristine Z expr s0 ->
    run_wf Z veqb expr pyval (feval pname ids now) (deps pname ids) coerce disable_forces_all s0 tr ->
    run Z veqb expr pyval (feval pname ids now) (deps pname ids) coerce refresh_after_write enable_forces_all disable_forces_all s0 tr = Some s ->
    quiescent Z veqb expr s ->
    forall q, In q (all_ids s) -> follows Z veqb expr pyval (feval pname ids now) coerce s q.
Proof.
  rewrite refresh_after_write_true, enable_forces_all_true. intros pname ids now.
  exact (convergence Z veqb veqb_spec expr pyval (feval pname ids now) (deps pname ids) coerce (frame pname ids now)
                     disable_forces_all disable_forces_all_true).
Qed.
Print Assumptions C01_convergence.

(* a port is re-evaluated after every change of a port it reads ... *)
Theorem C01_reeval_on_dep_change :
  forall (pname : pid -> string) (ids : list pid) (now : Z) (s : state Z expr) chg q e d,
    pass s = Some {| to_read := []; changed := chg |} -> In q (all_ids s) -> en (Hub.ports s q) = true ->
    Hub.expr (Hub.ports s q) = Some e -> In d (deps pname ids e) -> d <> q -> In d chg ->
    exists s', step Z veqb expr pyval (feval pname ids now) (deps pname ids) coerce true true disable_forces_all s PassEnd = Some s'
               /\ evq (Hub.ports s' q) = evq (Hub.ports s q) ++ [lasts Z expr s].
Proof.
  intros pname ids now.
  exact (reeval_on_dep_change Z veqb expr pyval (feval pname ids now) (deps pname ids) coerce disable_forces_all).
Qed.
Print Assumptions C01_reeval_on_dep_change.

(* ... and a change of a port it does not read never triggers an evaluation (hence never alters it) *)
Theorem C01_no_eval_without_dep_change :
  forall (pname : pid -> string) (ids : list pid) (now : Z) (s : state Z expr) chg q e,
    pass s = Some {| to_read := []; changed := chg |} -> In q (all_ids s) -> Hub.expr (Hub.ports s q) = Some e ->
    force_all s = false -> forced (Hub.ports s q) = false -> (forall d, In d (deps pname ids e) -> d <> q -> ~ In d chg) ->
    exists s', step Z veqb expr pyval (feval pname ids now) (deps pname ids) coerce true true disable_forces_all s PassEnd = Some s'
               /\ evq (Hub.ports s' q) = evq (Hub.ports s q).
Proof.
  intros pname ids now.
  exact (no_eval_without_dep_change Z veqb expr pyval (feval pname ids now) (deps pname ids) coerce disable_forces_all).
Qed.
Print Assumptions C01_no_eval_without_dep_change.

(* evaluation itself depends on nothing but the reported dependencies — their enabled flags and their last read values
   (discharges the frame hypothesis of the LTS proof) *)
Theorem C01_frame :
  forall (pname : pid -> string) ids now e (f1 f2 : pid -> bool) (s1 s2 : snap Z),
    (forall d, In d (deps pname ids e) -> f1 d = f2 d) -> (forall d, In d (deps pname ids e) -> s1 d = s2 d) ->
    feval pname ids now e f1 s1 = feval pname ids now e f2 s2.
Proof. exact frame. Qed.
Print Assumptions C01_frame.
