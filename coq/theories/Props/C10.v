(* C10 — property theorems.  Statements only: each is closed by [exact] of a lemma proved elsewhere.
   [mac] (HMAC-SHA256), [decode] (PyJWT's token parsing) and [sha256hex] are universally quantified: nothing is assumed
   about them except, for the password-history theorems, that a hex digest is never the empty string. *)
From QT Require Import C10.Model C10.Spec C10.AuthThm C10.PasswordThm C10.MainThm.
Open Scope string_scope.
Open Scope Z_scope.

(* SOUNDNESS.  If the consumer endpoint authenticates a header as user u then the header is "Bearer <ws> token", PyJWT
   decodes the token, its algorithm is HS256, its issuer, origin and user are the expected ones, its issue time - when
   the hub has a real clock - is absent or within the skew, its signature is the MAC of its signing input under u's
   CURRENT hash (which is not empty), and APIHandler.prepare gives exactly u's level. *)
Theorem C10_grant_sound :
  forall mac decode skew eh h now8 hdr u,
    grant mac decode skew h now8 hdr = Some u ->
    (exists tok t key,
        bearer_token hdr = Some tok /\ decode tok = Tok t
        /\ t_alg t = Some (JStr "HS256")
        /\ claim t "iss" = Some (JStr "qToggle")
        /\ claim t "ori" = Some (JStr "consumer")
        /\ claim t "usr" = Some (JStr (user_name u))
        /\ (has_real now8 = true -> iat_within_skew skew now8 (claim t "iat"))
        /\ get_hash h u = Some key /\ key <> ""
        /\ t_sig t = mac key (t_si t))
    /\ prepare mac decode skew eh h now8 (Some hdr) = level_of u.
Proof. exact grant_sound. Qed.
Print Assumptions C10_grant_sound.

(* the same for every caller of parse_auth_header (any origin, any hash function, usr required or not) *)
Theorem C10_parse_sound :
  forall mac decode skew now8 hdr origin hash_func require_usr usr,
    parse_auth_header mac decode skew now8 hdr origin hash_func require_usr = RGrant usr ->
    accepted_shape mac decode skew now8 hdr origin hash_func require_usr usr.
Proof. exact parse_sound. Qed.
Print Assumptions C10_parse_sound.

(* COMPLETENESS for what make_auth_header issues ([issuedb]: "Bearer " + an HS256 token over exactly the claims
   make_auth_header builds, signed with the given key): it is accepted, at the named user's level, whenever the verifier's
   clock is within the skew of the issue time. *)
Theorem C10_grant_complete :
  forall mac decode skew eh h now8 hdr u key iat,
    issuedb mac decode "consumer" (Some (user_name u)) key iat hdr = true ->
    get_hash h u = Some key -> key <> "" ->
    fresh skew now8 iat ->
    grant mac decode skew h now8 hdr = Some u /\ prepare mac decode skew eh h now8 (Some hdr) = level_of u.
Proof. exact grant_complete. Qed.
Print Assumptions C10_grant_complete.

(* ISSUE TIME = NOW.  The model of make_auth_header writes the clock of the call (whole seconds) as iat - the specification's
   issue time - and a header issued at clock t verifies at every receiver clock t' with -skew <= t' - t <= skew - 7/8 s
   (times in eighths of a second; the 7/8 s is the truncation of iat to whole seconds). *)
Theorem C10_issue_time_is_now : forall t8, issue_iat t8 = spec_issue_time t8.
Proof. reflexivity. Qed.
Print Assumptions C10_issue_time_is_now.

Theorem C10_grant_complete_issued_now :
  forall mac decode skew eh h t8 t8' hdr u key,
    issuedb mac decode "consumer" (Some (user_name u)) key (issue_iat t8) hdr = true ->
    get_hash h u = Some key -> key <> "" ->
    - (8 * skew) <= t8' - t8 <= 8 * skew - 7 ->
    grant mac decode skew h t8' hdr = Some u /\ prepare mac decode skew eh h t8' (Some hdr) = level_of u.
Proof. exact grant_complete_issued_now. Qed.
Print Assumptions C10_grant_complete_issued_now.

Theorem C10_device_token_issued_now :
  forall mac decode skew username key t8 t8' hdr,
    issuedb mac decode "device" username key (issue_iat t8) hdr = true -> key <> "" ->
    - (8 * skew) <= t8' - t8 <= 8 * skew - 7 ->
    parse_auth_header mac decode skew t8' hdr "device" (fun _ => Some key) false = RGrant (username_claim username).
Proof. exact device_complete_issued_now. Qed.
Print Assumptions C10_device_token_issued_now.

(* tokens the hub issues for webhooks (no usr) and reverse calls (usr = device id) verify under the same function *)
Theorem C10_device_token_complete :
  forall mac decode skew username key iat hdr now8,
    issuedb mac decode "device" username key iat hdr = true -> key <> "" -> fresh skew now8 iat ->
    parse_auth_header mac decode skew now8 hdr "device" (fun _ => Some key) false = RGrant (username_claim username).
Proof. exact device_complete. Qed.
Print Assumptions C10_device_token_complete.

(* PASSWORD HISTORY.  After the first boot and any history of PATCH /device, PUT /device, factory reset (+ reboot) and
   restarts, the hash in force for u is the hash of the last password set for u ("" after a factory reset). *)
Theorem C10_password_history :
  forall sha256hex, (forall pw, sha256hex pw <> "") ->
  forall l u,
    get_hash (cur (run sha256hex init_state (ORestart :: flatten_api l))) u = Some (sha256hex (last_password l u)).
Proof. exact password_history. Qed.
Print Assumptions C10_password_history.

(* for every sequence of primitive operations (set without save, save, load, reset, restart, in any order) the model's
   hashes are the hashes of the passwords of the abstract password machine of Spec.v *)
Theorem C10_hash_tracks_password :
  forall sha256hex, (forall pw, sha256hex pw <> "") ->
  forall ops u,
    get_hash (cur (run sha256hex init_state ops)) u = option_map sha256hex (get_pw (pcur (prun pinit ops)) u).
Proof. exact hash_tracks_password. Qed.
Print Assumptions C10_hash_tracks_password.

Theorem C10_save_restart_keeps :
  forall sha256hex, (forall pw, sha256hex pw <> "") ->
  forall ops u,
    get_hash (cur (run sha256hex init_state (ops ++ [OSave; ORestart]))) u
    = match get_hash (cur (run sha256hex init_state ops)) u with Some h => Some h | None => Some (sha256hex "") end.
Proof. exact save_restart_keeps. Qed.
Print Assumptions C10_save_restart_keeps.

(* a change the system password command refuses (PATCH /device answers 500) changes nothing: hashes and persisted record *)
Theorem C10_refused_change_changes_nothing :
  forall sha256hex ops u pw,
    run sha256hex init_state (ops ++ api_ops (APatchRefused u pw)) = run sha256hex init_state ops.
Proof. exact refused_patch_no_change. Qed.
Print Assumptions C10_refused_change_changes_nothing.

(* PUT /device (backup restore: reset preserving the hashes, load, save) keeps the three hashes AND persists them again *)
Theorem C10_put_keeps_hashes :
  forall sha256hex st a n v,
    cur st = {| h_admin := Some a; h_normal := Some n; h_viewonly := Some v |} -> a <> "" -> n <> "" -> v <> "" ->
    let st' := run sha256hex st (api_ops APut) in cur st' = cur st /\ store st' = Some (cur st).
Proof. exact put_keeps_hashes. Qed.
Print Assumptions C10_put_keeps_hashes.

(* THE SLAVE SIDE.  After any sequence of successful forwarded PATCH /device requests the hash the hub keeps for a slave
   is the hash of the slave's current admin password (the empty password included) ... *)
Theorem C10_slave_hash_tracks :
  forall sha256hex sops pw0, hub_slave_hash sha256hex pw0 sops = sha256hex (slave_password pw0 sops).
Proof. exact slave_hash_tracks. Qed.
Print Assumptions C10_slave_hash_tracks.

Theorem C10_slave_hash_rename_invariant :
  forall sha256hex pw0 a b,
    hub_slave_hash sha256hex pw0 (a ++ SRename :: b) = hub_slave_hash sha256hex pw0 (a ++ b).
Proof. exact slave_hash_rename_invariant. Qed.
Print Assumptions C10_slave_hash_rename_invariant.

(* ... so a header the hub issues for the slave with that hash is accepted by the slave (same rules, admin level), and the
   slave-events endpoint, which verifies with that hash, accepts exactly tokens signed with the slave's current hash
   (C10_parse_sound with hash_func = fun _ => Some (hub_slave_hash ...)) *)
Theorem C10_slave_accepts_hub_header :
  forall mac decode skew sha256hex, (forall pw, sha256hex pw <> "") ->
  forall sops pw0 t8 t8' hdr,
    issuedb mac decode "consumer" (Some "admin") (hub_slave_hash sha256hex pw0 sops) (issue_iat t8) hdr = true ->
    - (8 * skew) <= t8' - t8 <= 8 * skew - 7 ->
    parse_auth_header mac decode skew t8' hdr "consumer"
      (fun u => if jeq_str u "admin" then Some (sha256hex (slave_password pw0 sops)) else None) true
    = RGrant (Some (JStr "admin")).
Proof. exact slave_accepts_hub_header. Qed.
Print Assumptions C10_slave_accepts_hub_header.

(* GET /devices shows "set"/"" for a slave's password attributes, also while a new password waits to be provisioned *)
Theorem C10_slave_doc_bit_only :
  forall pending bit, bit = "" \/ bit = "set" -> slave_doc_pw pending bit = "" \/ slave_doc_pw pending bit = "set".
Proof. exact slave_doc_bit_only. Qed.
Print Assumptions C10_slave_doc_bit_only.

(* after a password change only the new password authenticates, also after a restart *)
Theorem C10_only_current_password :
  forall mac decode skew sha256hex, (forall pw, sha256hex pw <> "") ->
  forall l now8 hdr u,
    grant mac decode skew (hub_after sha256hex l) now8 hdr = Some u ->
    exists tok t,
      bearer_token hdr = Some tok /\ decode tok = Tok t
      /\ claim t "usr" = Some (JStr (user_name u))
      /\ t_sig t = mac (sha256hex (last_password l u)) (t_si t).
Proof. exact only_current_password. Qed.
Print Assumptions C10_only_current_password.

Theorem C10_current_password_authenticates :
  forall mac decode skew sha256hex, (forall pw, sha256hex pw <> "") ->
  forall l now8 hdr u iat,
    issuedb mac decode "consumer" (Some (user_name u)) (sha256hex (last_password l u)) iat hdr = true ->
    fresh skew now8 iat ->
    grant mac decode skew (hub_after sha256hex l) now8 hdr = Some u
    /\ prepare mac decode skew (sha256hex "") (hub_after sha256hex l) now8 (Some hdr) = level_of u.
Proof. exact current_password_authenticates. Qed.
Print Assumptions C10_current_password_authenticates.

(* a request without Authorization header: admin exactly when the admin hash is the hash of the empty password *)
Theorem C10_no_header :
  forall mac decode skew sha256hex, (forall pw, sha256hex pw <> "") ->
  forall l now8,
    prepare mac decode skew (sha256hex "") (hub_after sha256hex l) now8 None
    = (if (sha256hex (last_password l Admin) =? sha256hex "")%string then 30 else 0).
Proof. exact no_header_after_history. Qed.
Print Assumptions C10_no_header.

(* THE DEVICE DOCUMENT depends on the hashes only through the "set" / "" bit of each password *)
Theorem C10_no_secret_in_device_json :
  forall sha256hex others st st',
    (forall u, pw_bit sha256hex st u = pw_bit sha256hex st' u) ->
    device_json sha256hex others st = device_json sha256hex others st'.
Proof. exact no_secret_in_device_json. Qed.
Print Assumptions C10_no_secret_in_device_json.

Theorem C10_password_bit_values :
  forall sha256hex st u, pw_bit sha256hex st u = "" \/ pw_bit sha256hex st u = "set".
Proof. exact pw_bit_values. Qed.
Print Assumptions C10_password_bit_values.

(* non-vacuity: with concrete (toy) instances of mac / decode / sha256hex a token is granted after a password change, the
   same token is refused after the next change, a token with alg "none" is refused, and make_auth_header's shape holds *)
Example C10_nonvacuous :
  let sha := fun pw => "h:" ++ pw in
  let mac := fun k m => k ++ "|" ++ m in
  let tk alg key := Tok {| t_alg := Some (JStr alg);
                           t_claims := [("iss", JStr "qToggle"); ("ori", JStr "consumer"); ("usr", JStr "normal");
                                        ("iat", JNum (8 * 1790000000))];
                           t_si := "si"; t_sig := key ++ "|si" |} in
  let decode := fun t => if (t =? "good")%string then tk "HS256" "h:pw1"
                         else if (t =? "none")%string then tk "none" "h:pw1" else Malformed in
  let h1 := hub_after sha [APatch [(Normal, "pw1")]; ARestart] in
  let h2 := hub_after sha [APatch [(Normal, "pw1")]; ARestart; APatch [(Normal, "pw2")]] in
  let now8 := 8 * 1790000300 in
  grant mac decode 300 h1 now8 "Bearer good" = Some Normal
  /\ grant mac decode 300 h1 (now8 + 1) "Bearer good" = None
  /\ grant mac decode 300 h2 now8 "Bearer good" = None
  /\ grant mac decode 300 h1 now8 "Bearer none" = None
  /\ prepare mac decode 300 (sha "") h1 now8 (Some "bearer   good") = 20
  /\ prepare mac decode 300 (sha "") h1 now8 None = 30
  /\ issuedb mac decode "consumer" (Some "normal") "h:pw1" (Some 1790000000) "Bearer good" = true
  /\ last_password [APatch [(Normal, "pw1")]; ARestart; APatch [(Normal, "pw2")]] Normal = "pw2".
Proof. vm_compute. repeat split. Qed.
