(* C11 — property theorems.  Statements only: each is closed by [exact] of a lemma proved elsewhere.
   [grun event_table reset_prog session_expiry_factor cap tr] is the model of core/sessions.py and of the _enabled flag of
   core/events/handlers.py (C11/Model.v) instantiated with the event table, the statements of Session.reset_and_wait and
   SESSION_EXPIRY_FACTOR regenerated from the source (Gen/C11Gen.v); cap is settings.core.event_queue_size; tr is any list of
   Trigger / Listen / Tick / Disable / Enable events.  [gspec_delivery] (C11/Spec.v) is the specified delivery of the history
   in which the events triggered while event handling was disabled are dropped for everyone. *)
From QT Require Import C11.Model C11.Spec C11.PromptThm C11.GenOk C11.GenThm Gen.C11Gen.
From Coq Require Import Sorted.
Open Scope Z_scope.

(* no answer to a listen call contains an event whose REQUIRED_ACCESS exceeds the level of that call *)
Theorem C11_level_safety : forall cap tr,
  forall o e, In o (snd (grun event_table reset_prog session_expiry_factor cap tr)) -> In e (o_evs o) ->
    exists level, rid_level tr (o_rid o) = Some level /\ req_of event_table e <= level.
Proof. exact glevel_safety_gen. Qed.
Print Assumptions C11_level_safety.

(* per session id, the answers (which call, at which step, which events in which order) are exactly the specified ones:
   pending permitted events, minus superseded updates, minus the oldest beyond the queue size, in trigger order *)
Theorem C11_exactly_once_in_order : forall cap sid tr, (1 <= cap)%nat ->
  outputs_of tr sid (snd (grun event_table reset_prog session_expiry_factor cap tr)) = gspec_delivery event_table cap sid tr.
Proof. exact gexactly_once_gen. Qed.
Print Assumptions C11_exactly_once_in_order.

(* over all answers of a session, the delivered events are strictly increasing in trigger position: no event twice, trigger order *)
Theorem C11_trigger_order : forall cap sid tr, (1 <= cap)%nat ->
  StronglySorted lt (map e_id (List.concat (map o_evs
    (outputs_of tr sid (snd (grun event_table reset_prog session_expiry_factor cap tr)))))).
Proof. exact gtrigger_order_gen. Qed.
Print Assumptions C11_trigger_order.

(* the code's is_duplicate relation is the supersession rule of the specification; the default queue size is admissible *)
Theorem C11_supersession_rule :
  forall c, ec_dup (class_of event_table c) = spec_shape (ec_type (class_of event_table c)).
Proof. exact shapes_ok. Qed.
Print Assumptions C11_supersession_rule.

Theorem C11_default_queue_size : (1 <= Z.to_nat default_event_queue_size)%nat.
Proof. exact default_cap_ok. Qed.
Print Assumptions C11_default_queue_size.

(* right after a Tick no call is left waiting with a queued event or an expired timeout *)
Theorem C11_prompt : forall cap tr now x o,
  grun event_table reset_prog session_expiry_factor cap (tr ++ [Tick now]) = (x, o) ->
  Forall (fun y => forall r, s_future (snd y) = Some r ->
                     s_queue (snd y) = [] /\ now - s_accessed (snd y) <= s_timeout (snd y)) (snd x).
Proof. exact gprompt_tick_gen. Qed.
Print Assumptions C11_prompt.

(* right after a Listen nothing is left queued: what was deliverable has been answered at once *)
Theorem C11_prompt_listen : forall cap tr sid level timeout now x o,
  grun event_table reset_prog session_expiry_factor cap (tr ++ [Listen sid level timeout now]) = (x, o) ->
  exists s, lookup sid (snd x) = Some s /\ s_queue s = [] /\ s_level s = level.
Proof. exact gprompt_listen_gen. Qed.
Print Assumptions C11_prompt_listen.

(* non-vacuity: queue size 2; an admin (30) and a view-only (10) session; port-update p0 twice (superseded), device-update
   (admin only), value-change, port-add: the admin gets the newest two, the viewer the newest two it may see; the viewer's
   id then used by an admin, a device-update queued for it, and a view-only call on the same id does not receive it;
   a value-change triggered while event handling is disabled reaches nobody, the one after Enable is delivered *)
Example C11_nonvacuous :
  snd (grun event_table reset_prog session_expiry_factor 2
         [Listen 0 30 5 0; Listen 1 10 5 0; Tick 1; Trigger 2 0; Tick 1;
          Trigger 2 0; Trigger 4 0; Trigger 3 0; Trigger 0 1; Listen 0 30 5 2; Listen 1 10 5 2;
          Listen 1 30 5 3; Tick 9; Trigger 4 0; Listen 1 10 5 9; Trigger 3 1; Tick 10;
          Listen 1 10 5 10; Disable; Trigger 3 0; Enable; Trigger 3 2; Tick 10])
  = [mk_out 4 0 [mk_ev 3 2 0]; mk_out 4 1 [mk_ev 3 2 0];
     mk_out 9 9 [mk_ev 7 3 0; mk_ev 8 0 1]; mk_out 10 10 [mk_ev 7 3 0; mk_ev 8 0 1];
     mk_out 12 11 []; mk_out 16 14 [mk_ev 15 3 1]; mk_out 22 17 [mk_ev 21 3 2]].
Proof. vm_compute. reflexivity. Qed.
