(* C09 — property theorems.  Statements only: each is closed by [exact] of a lemma proved elsewhere.
   [gen_tables], [wrapper] are the definitions regenerated from /repo by the translators on every run. *)
From QT Require Import C09.Model C09.ModelThm C09.GenOk C09.Events C09.Stateful C09.Conditions C09.Listen Gen.C09Gen.
Open Scope string_scope.
Open Scope Z_scope.

(* the api_call wrapper lets a call through exactly when the caller's level reaches the required one — all integers *)
Theorem C09_wrapper_sound : forall l r, wrapper l r = Serve <-> r <= l.
Proof. exact wrapper_sound. Qed.
Print Assumptions C09_wrapper_sound.

Theorem C09_wrapper_refuses : forall l r, l < r -> wrapper l r = Deny (if l =? 0 then 401 else 403).
Proof. exact wrapper_refuses. Qed.
Print Assumptions C09_wrapper_refuses.

(* complete finite check: every method of every handler of every routing entry names a function whose api_call level
   is the level the hand-written specification gives to that route and method *)
Theorem C09_table_matches_spec :
  forall e hm r,
    In e gen_routes -> In hm gen_hmeths -> e_kind e = KApi -> hm_handler hm = e_handler e ->
    route_of_template (e_tmpl e) = Some r ->
    level_of gen_tables (hm_func hm) = Some (required_spec r (hm_meth hm)).
Proof. exact gen_table_matches_spec. Qed.
Print Assumptions C09_table_matches_spec.

(* for every flag assignment, route, method and level: a request that reaches an API function is served iff the level
   is at least the specified one; below it the answer is 401 (level none) or 403 and the body does not run *)
Theorem C09_enforced :
  forall fl r m l json h f rq,
    dispatch gen_tables fl (route_template r) m = DServe h f rq ->
    0 <= l -> well_formed gen_tables m json = true ->
    (handle gen_tables fl (route_template r) m l json = Ran f <-> required_spec r m <= l)
    /\ (l < required_spec r m ->
        handle gen_tables fl (route_template r) m l json = Status (if l =? 0 then 401 else 403)).
Proof. exact (enforced gen_tables wrapper_sound wrapper_refuses gen_table_ok). Qed.
Print Assumptions C09_enforced.

(* no side condition at all on the request: if a body ran, the caller had the specified level *)
Theorem C09_no_run_below_level :
  forall fl r m l json f,
    0 <= l -> handle gen_tables fl (route_template r) m l json = Ran f -> required_spec r m <= l.
Proof. exact (no_run_below_level gen_tables wrapper_sound gen_table_ok). Qed.
Print Assumptions C09_no_run_below_level.

(* a path shape that is not an enabled route gets 404, whatever the method and level *)
Theorem C09_unknown_404 :
  forall fl t m l json, route_known gen_tables fl t = false -> handle gen_tables fl t m l json = Status 404.
Proof. exact (not_known_404 gen_tables). Qed.
Print Assumptions C09_unknown_404.

(* POST /devices/{name}/events keeps the property by its own authentication (its wrapper level is none): the event
   reaches the slave iff the slave exists, is permanently offline, and the presented token is a fresh device-origin
   token whose signature verifies under the slave's admin password hash; otherwise 401 (unknown slave: 404) *)
Theorem C09_events_served_iff :
  forall s c, events_decide s c = EvServed
              <-> s_exists s = true /\ token_verifies s c = true /\ s_poll s = false /\ s_listen s = false.
Proof. exact events_served_iff. Qed.
Print Assumptions C09_events_served_iff.

Theorem C09_events_unverified_401 :
  forall s c, s_exists s = true -> token_verifies s c = false -> events_decide s c = EvStatus 401.
Proof. exact events_unverified_401. Qed.
Print Assumptions C09_events_unverified_401.

Theorem C09_events_unknown_404 : forall s c, s_exists s = false -> events_decide s c = EvStatus 404.
Proof. exact events_unknown_404. Qed.
Print Assumptions C09_events_unknown_404.

Theorem C09_events_model_is_spec : forall s c, events_decide s c = events_spec s c.
Proof. exact events_decide_spec. Qed.
Print Assumptions C09_events_model_is_spec.

(* the level prepare() grants, in the order of tests regenerated from the source, is the specified one: a header is
   judged alone; only a request without header is admin when the admin password is empty *)
Theorem C09_grant_is_spec :
  forall present valid admin_empty tl,
    (valid = true -> present = true) -> grant present valid admin_empty tl = grant_spec present valid admin_empty tl.
Proof. exact grant_ok. Qed.
Print Assumptions C09_grant_is_spec.

(* histories of credential operations: for every history the model (regenerated grant + tables) reaches the password
   state the specification prescribes (PUT /device keeps the passwords; a restart of the hub changes no credential), and an
   operation by a caller who is below admin in the current state changes nothing *)
Theorem C09_history_state :
  forall fl,
    (exists h f rq, dispatch gen_tables fl (route_template RDevice) PUT = DServe h f rq) ->
    (exists h f rq, dispatch gen_tables fl (route_template RDevice) PATCH = DServe h f rq) ->
    forall h st, run (step_model gen_tables grant fl) st h = run step_spec st h.
Proof. exact (fun fl => run_model_spec gen_tables grant fl wrapper_sound wrapper_refuses gen_table_ok grant_ok). Qed.
Print Assumptions C09_history_state.

Theorem C09_no_credential_change_below_admin :
  forall fl,
    (exists h f rq, dispatch gen_tables fl (route_template RDevice) PUT = DServe h f rq) ->
    (exists h f rq, dispatch gen_tables fl (route_template RDevice) PATCH = DServe h f rq) ->
    forall st o c, cred_level grant_spec st c < LV_ADMIN -> fst (step_model gen_tables grant fl st o c) = st.
Proof.
  exact (fun fl => no_credential_change_below_admin gen_tables grant fl wrapper_sound wrapper_refuses gen_table_ok grant_ok).
Qed.
Print Assumptions C09_no_credential_change_below_admin.

Theorem C09_restart_keeps_credentials :
  forall fl st c, fst (step_model gen_tables grant fl st OpRestart c) = st /\ fst (step_spec st OpRestart c) = st.
Proof. intros; split; reflexivity. Qed.
Print Assumptions C09_restart_keeps_credentials.

(* optional features: complete finite check that every routing entry is guarded by exactly the conditions the
   specification gives to its route (history: the setting AND a samples-capable driver) and every handler method by its
   method conditions; hence, for every assignment of the atomic facts, a route whose conditions do not all hold is an
   unknown route: 404 for every method and caller *)
Theorem C09_conditions_match_spec : cond_ok gen_tables = true.
Proof. exact gen_cond_ok. Qed.
Print Assumptions C09_conditions_match_spec.

Theorem C09_route_without_feature_404 :
  forall (at_ : string -> bool) r m l json,
    forallb at_ (route_condition_spec r) = false ->
    handle gen_tables (flags_from gen_derived at_) (route_template r) m l json = Status 404.
Proof. exact (fun at_ => route_without_feature_404 gen_tables at_ gen_cond_ok). Qed.
Print Assumptions C09_route_without_feature_404.

(* GET /listen: the session listens at the caller's level (the call in get_listen and the signature of reset_and_wait are
   regenerated), every event class carries the specified level of its type, hence whatever was triggered and whatever
   ?timeout= was asked, a delivered event is one the listener's level permits *)
Theorem C09_listen_only_permitted :
  forall level timeout triggered t,
    In t (listen_model level timeout triggered) -> exists r, event_level_spec t = Some r /\ r <= level.
Proof. exact listen_only_permitted. Qed.
Print Assumptions C09_listen_only_permitted.

(* non-vacuity, with every optional feature on: PATCH /ports/id/value reaches patch_port_value (normal): served for
   normal, 403 for view-only, 401 without authentication; POST /reset is refused to normal; an unknown shape is 404 *)
Example C09_nonvacuous :
  let fl := fun _ : string => true in
  dispatch gen_tables fl (route_template RPortValue) PATCH
    = DServe "PortValueHandler" "qtoggleserver.core.api.funcs.ports.patch_port_value" 20
  /\ handle gen_tables fl (route_template RPortValue) PATCH 20 true
     = Ran "qtoggleserver.core.api.funcs.ports.patch_port_value"
  /\ handle gen_tables fl (route_template RPortValue) PATCH 10 true = Status 403
  /\ handle gen_tables fl (route_template RPortValue) PATCH 0 true = Status 401
  /\ handle gen_tables fl (route_template RReset) POST 20 true = Status 403
  /\ route_known gen_tables fl "/api/nonexistent" = false
  /\ well_formed gen_tables PATCH true = true.
Proof. vm_compute. repeat split. Qed.
