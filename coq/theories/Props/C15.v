(* C15 — property theorems.  Statements only: each is closed by [exact] of a lemma proved elsewhere. *)
From QT Require Import C15.Spec C15.SimThm C15.FaultThm C15.ConcreteThm.
Open Scope Z_scope.

(* Non-interference.  For every expression language whose expressions read only their declared dependencies, every set H of
   ports closed under dependencies, every state and every trace -- whatever the ports outside H do (raise on read, on write,
   in the heart beat, in their attribute getters, report skip, return arbitrary values, at any time and for any duration; the
   trace is arbitrary) -- what can be observed of the ports in H (last values, driver values, parked flags, queued
   evaluations, clock; heart beats, reads, value-change events, evaluation pushes, expression-driven write requests, driver
   writes and their results) is exactly the run of the system in which the other ports do not exist. *)
Theorem C15_noninterference :
  forall (eid : Type) (fdeps : eid -> list pid) (feval : eid -> (pid -> option value) -> eres),
    (forall e s1 s2, (forall d, In d (fdeps e) -> s1 d = s2 d) -> feval e s1 = feval e s2) ->
    forall (H : pid -> bool) (st : state eid) (tr : list event),
      deps_closed fdeps H (st_ports st) ->
      project H (run eid fdeps feval st tr) = run eid fdeps feval (proj_state H st) (erase_faulty H tr).
Proof. exact noninterference. Qed.
Print Assumptions C15_noninterference.

(* the same for the concrete expressions of the tie (`$x`, `ADD($x, $y)`): no hypothesis about expressions is left *)
Theorem C15_noninterference_tie_expressions :
  forall (H : pid -> bool) (st : state cexpr) (tr : list event),
    deps_closed cdeps H (st_ports st) ->
    project H (run cexpr cdeps ceval st tr) = run cexpr cdeps ceval (proj_state H st) (erase_faulty H tr).
Proof. exact (noninterference cexpr cdeps ceval cframe). Qed.
Print Assumptions C15_noninterference_tie_expressions.

(* The failing port keeps its last good value: over any trace in which every read of x raises or reports skip (writes, source
   changes, evaluations and passes of any number, over any length of time), the last value of x does not change. *)
Theorem C15_last_good_value_kept :
  forall (eid : Type) (fdeps : eid -> list pid) (feval : eid -> (pid -> option value) -> eres)
         (st : state eid) (tr : list event) (x : pid),
    (forall outs, In (Pass outs) tr -> po_rd (out_of outs x) <> RVal) ->
    last_of eid (run_st eid fdeps feval st tr) x = last_of eid st x.
Proof. exact last_good_value_kept. Qed.
Print Assumptions C15_last_good_value_kept.

(* Retry and recovery: when the read of x raises at a pass at time t, then during any continuation whose passes all take place
   at most 10 s after t the driver of x is not asked again and x keeps its value; at the first pass more than 10 s after t the
   port is read again, and if that read succeeds x takes the driver's value and is no longer parked. *)
Theorem C15_retry_and_recover :
  forall (eid : Type) (fdeps : eid -> list pid) (feval : eid -> (pid -> option value) -> eres)
         (st : state eid) (x : pid) (p : port eid) (outs : list (pid * pout)) (tr : list event) (outs' : list (pid * pout)),
    NoDup (map p_id (st_ports st)) ->
    port_of (st_ports st) x = Some p -> is_read (st_now st) p = true ->
    po_rd (out_of outs x) = RErr ->
    let t := st_now st in
    let st1 := step_st eid fdeps feval st (Pass outs) in
    Forall (fun u => u - t <= retry_ms) (pass_times eid fdeps feval st1 tr) ->
    let st2 := run_st eid fdeps feval st1 tr in
    ~ In (ORead x) (run_obs eid fdeps feval st1 tr)
    /\ last_of eid st2 x = last_of eid st x
    /\ (st_now st2 - t > retry_ms ->
        In (ORead x) (step_obs eid fdeps st2 (Pass outs'))
        /\ (po_rd (out_of outs' x) = RVal ->
            last_of eid (step_st eid fdeps feval st2 (Pass outs')) x = drv_of eid st2 x
            /\ ~ (exists u, parked_since eid (step_st eid fdeps feval st2 (Pass outs')) x u))).
Proof. exact retry_and_recover. Qed.
Print Assumptions C15_retry_and_recover.

(* Non-vacuity.  Port 1 fails (read error at t0, still failing 5 s later, recovered after 10.5 s), port 2 is a healthy source,
   port 3 follows `$2`.  H = {2, 3} is closed under dependencies; the healthy ports produce a value change, an evaluation and a
   write while port 1 is failing; port 1 is parked, left alone at +5 s, read again at +10.5 s and takes the driver's value. *)
Definition nv_ports : list (port cexpr) :=
  [ mkPort 1 true false None (Some 7) (Some 1) None [];
    mkPort 2 true false None (Some 5) (Some 1) None [];
    mkPort 3 true false (Some (CPort 2)) (Some 1) (Some 1) None [] ].
Definition nv_st : state cexpr := mkState nv_ports 1700000000000 1700000000.
Definition nv_fail : list (pid * pout) := [(1, mkPout true RErr true)].
Definition nv_tr : list event :=
  [ Pass nv_fail; Eval 3; Write 3 (Some 5) WOk; Pass nv_fail; Advance 5000; Pass nv_fail; Advance 5500; Pass [] ].

Example C15_nonvacuous :
  let H := fun x => mem x [2; 3] in
  deps_closed cdeps H (st_ports nv_st)
  /\ NoDup (map p_id (st_ports nv_st))
  /\ proj_obs H (run_obs cexpr cdeps ceval nv_st nv_tr)
     = [ORead 2; ORead 3; OChange 2 (Some 1) (Some 5); OPush 3; OEvalWrite 3 (Some 5); OWrite 3 (Some 5) WOk;
        ORead 2; ORead 3; OChange 3 (Some 1) (Some 5); OHb 2; ORead 2; OHb 3; ORead 3; OHb 2; ORead 2; OHb 3; ORead 3]
  /\ filter (fun o => obs_pid o =? 1) (run_obs cexpr cdeps ceval nv_st nv_tr) = [ORead 1; OHb 1; OHb 1; ORead 1; OChange 1 (Some 1) (Some 7)]
  /\ last_of cexpr (run_st cexpr cdeps ceval nv_st (firstn 6 nv_tr)) 1 = Some (Some 1)
  /\ last_of cexpr (run_st cexpr cdeps ceval nv_st nv_tr) 1 = Some (Some 7).
Proof.
  split; [apply deps_closedb_sound; vm_compute; reflexivity|].
  split; [repeat constructor; simpl; intuition discriminate|].
  vm_compute. repeat split.
Qed.
