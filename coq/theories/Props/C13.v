(* C13 — property theorems.  Statements only: each is closed by [exact] of a lemma proved elsewhere.
   Model: C13/Provisioning.v over the mirror of C12/Mirror.v; specification: C13/Spec.v.  [cfg_src] (Gen/C13Gen.v) is the variant
   of three statements of slaves/devices.py that the translator read from the source on this run; the theorems about it are
   proved through C13/GenOk.v (cfg_src = cfg_fixed) and therefore only compile for the repaired code.  The refutations for the
   code as found are in History/C13Old.v. *)
From QT Require Import C12.Mirror C12.Spec C13.Provisioning C13.Spec C13.ProvThm C13.EpisodeThm C13.GenOk C13.GenThm Gen.C13Gen.
Open Scope string_scope.

(* --- reported as pending, kept on the master --------------------------------------------------------------------------- *)
(* an attribute set while the slave is offline is recorded under the slave's name for it, the cache holds the user's value and
   GET /ports shows it *)
Theorem C13_pending_reported_attr : forall id n v m p slave fb,
  find_port id (m_ports m) = Some p -> mem n MASTER_ATTRS = false ->
  exists p', find_port id (m_ports (set_attr_offline id n v m)) = Some p' /\
    In (slave_name n) (reported_pending_port p') /\ get (slave_name n) (mp_cached p') = v /\
    (v <> VNone -> get_attr slave fb p' n = v).
Proof. exact pending_reported_attr. Qed.
Print Assumptions C13_pending_reported_attr.

(* a value written while the slave is offline: "value" is pending, the cached value is the user's, both are persisted *)
Theorem C13_pending_reported_value : forall c id v m p,
  find_port id (m_ports m) = Some p ->
  exists p', find_port id (m_ports (write_value_offline c id v m)) = Some p' /\
    In "value" (reported_pending_port p') /\ mp_cached_value p' = v /\
    (exists sp, In sp (sv_ports (save (write_value_offline c id v m))) /\ sv_id sp = id /\ sv_value sp = v /\ In "value" (sv_prov sp)).
Proof. exact pending_reported_value. Qed.
Print Assumptions C13_pending_reported_value.

Theorem C13_pending_reported_device : forall n v m,
  let m' := patch_device_offline [(n, v)] m in
  In n (reported_pending_device m') /\ get n (m_dev m') = v /\ sv_dev_prov (save m') = m_dev_prov m' /\ sv_dev (save m') = m_dev m'.
Proof. exact pending_reported_device. Qed.
Print Assumptions C13_pending_reported_device.

(* attributes the master owns are changed locally and never become pending *)
Theorem C13_master_attr_edit_not_pending : forall id n v m p,
  find_port id (m_ports m) = Some p -> mem n MASTER_ATTRS = true ->
  exists p', find_port id (m_ports (set_attr_offline id n v m)) = Some p' /\ mp_prov p' = mp_prov p /\ mp_cached p' = mp_cached p.
Proof. exact master_attr_edit_not_pending. Qed.
Print Assumptions C13_master_attr_edit_not_pending.

(* --- not overwritten by what the slave reports ------------------------------------------------------------------------- *)
Theorem C13_pending_not_overwritten : forall e m id p n,
  find_port id (m_ports m) = Some p -> In n (mp_prov p) -> get n (mp_cached p) <> VNone -> n <> "value" -> keeps id e ->
  exists p', find_port id (m_ports (fst (handle cfg_src e m))) = Some p' /\
    get n (mp_cached p') = get n (mp_cached p) /\ mp_prov p' = mp_prov p.
Proof. exact not_overwritten_attr_src. Qed.
Print Assumptions C13_pending_not_overwritten.

(* PARTIAL.  The full statement
     ... -> exists p', find_port id (m_ports (fst (handle cfg_src e m))) = Some p' /\ mp_cached_value p' = mp_cached_value p /\
            mp_prov p' = mp_prov p /\ (mp_enabled p = true -> stable id (SEv e) -> mp_queue p' = mp_queue p /\ mp_enabled p' = true)
   is false (ProvThm.not_overwritten_value_refuted): if the port's own "enabled" attribute is pending with a false value, the
   repaired port-update handler keeps that pending value and update_enabled disables the mirror port.  Proved with the extra
   premise (third line of the last conjunct) that a pending "enabled" is true.  The first three conjuncts are unconditional. *)
Theorem C13_pending_value_not_overwritten_partial : forall e m id p,
  find_port id (m_ports m) = Some p -> In "value" (mp_prov p) -> mp_cached_value p <> VNone -> keeps id e ->
  exists p', find_port id (m_ports (fst (handle cfg_src e m))) = Some p' /\
    mp_cached_value p' = mp_cached_value p /\ mp_prov p' = mp_prov p /\
    (mp_enabled p = true -> stable id (SEv e) ->
     (In "enabled" (mp_prov p) -> get "enabled" (mp_cached p) <> VNone -> truthy (get "enabled" (mp_cached p)) = true) ->
     mp_queue p' = mp_queue p /\ mp_enabled p' = true).
Proof. exact not_overwritten_value_partial_src. Qed.
Print Assumptions C13_pending_value_not_overwritten_partial.

(* every event, a full-update included, leaves a pending device attribute alone *)
Theorem C13_pending_device_attr_not_overwritten : forall e m n,
  In n (m_dev_prov m) -> get n (m_dev m) <> VNone ->
  get n (m_dev (fst (handle cfg_src e m))) = get n (m_dev m) /\ m_dev_prov (fst (handle cfg_src e m)) = m_dev_prov m.
Proof. exact not_overwritten_device_src. Qed.
Print Assumptions C13_pending_device_attr_not_overwritten.

(* a main-loop iteration does not touch a pending value whose queue is empty *)
Theorem C13_tick_keeps_pending_value : forall m id p, find_port id (m_ports m) = Some p -> mp_queue p = [] ->
  exists p', find_port id (m_ports (tick m)) = Some p' /\ mp_cached_value p' = mp_cached_value p /\ mp_queue p' = [] /\
             mp_prov p' = mp_prov p /\ mp_cached p' = mp_cached p /\ mp_enabled p' = mp_enabled p.
Proof. exact tick_keeps_pending_value. Qed.
Print Assumptions C13_tick_keeps_pending_value.

(* --- pushed exactly once, with the kept value, before the refresh ------------------------------------------------------- *)
(* among the requests the HTTP client issues for apply_provisioning there is exactly one about each pending item and it
   carries the cached (= the user's, by the theorems above) value *)
Theorem C13_pushed_once_with_user_value : forall flags m, NoDup (ids (m_ports m)) ->
  pushed_once (pending_items m) (filter issued (snd (apply_provisioning cfg_src flags m))) = true.
Proof. exact pushed_once_src. Qed.
Print Assumptions C13_pushed_once_with_user_value.

(* reconnect of a listening slave: exactly once, before GET /device and GET /ports, and nothing the user did not change *)
Theorem C13_pushed_before_refresh_listen : forall flags dev ports m, NoDup (ids (m_ports m)) ->
  push_ok false (pending_items m) (filter issued (snd (handle_online cfg_src flags dev ports m))) = true.
Proof. exact push_ok_online_src. Qed.
Print Assumptions C13_pushed_before_refresh_listen.

(* reconnect of a polled slave (the GET /device probe passes through the guarded device update first) *)
Theorem C13_pushed_before_refresh_poll : forall flags dev ports m, NoDup (ids (m_ports m)) ->
  push_ok true (pending_items (poll_device cfg_src dev m)) (filter issued (snd (poll_reconnect cfg_src flags dev ports m))) = true.
Proof. exact push_ok_poll_src. Qed.
Print Assumptions C13_pushed_before_refresh_poll.

(* --- over a whole offline episode ------------------------------------------------------------------------------------- *)
(* whatever the slave reports and however many main-loop iterations run in between (any interleaving [steps] of offline edits,
   remote events and ticks, starting with nothing pending): the LAST value the user gave to every item is what is pending at the
   end -- device attributes, port attributes (of ports that exist), values (of ports that exist and are enabled).  Needs the
   repaired offline write (the queue is emptied: History/C13Old.v C13_offline_write_keeps_queue_refuted); events that remove a
   port, full-updates and edits of the attribute "enabled" are outside *)
Theorem C13_episode_keeps_last_edits : forall steps m,
  nothing_pending m ->
  (forall e, In (ORemote e) steps -> forall id, keeps id e /\ stable id (SEv e)) ->
  (forall id n v, In (OSetAttr id n v) steps -> slave_name n <> "enabled" /\ slave_name n <> "value") ->
  forall it, In it (last_edits steps) ->
  match it with
  | IDevAttr n v => v <> VNone -> In it (pending_items (orun cfg_src steps m))
  | IPortAttr id n v => v <> VNone -> (exists p, find_port id (m_ports m) = Some p) ->
                        In it (pending_items (orun cfg_src steps m))
  | IPortValue id v => v <> VNone -> (exists p, find_port id (m_ports m) = Some p /\ mp_enabled p = true) ->
                       In it (pending_items (orun cfg_src steps m))
  end.
Proof. exact episode_keeps_last_edits_src. Qed.
Print Assumptions C13_episode_keeps_last_edits.

(* ... and each of them is then sent exactly once with that value *)
Theorem C13_episode_pushed_once : forall flags steps m,
  NoDup (ids (m_ports m)) ->
  (forall e, In (ORemote e) steps -> forall id, keeps id e /\ stable id (SEv e)) ->
  (forall id n v, In (OSetAttr id n v) steps -> slave_name n <> "enabled" /\ slave_name n <> "value") ->
  let m' := orun cfg_src steps m in
  pushed_once (pending_items m') (filter issued (snd (apply_provisioning cfg_src flags m'))) = true.
Proof. exact episode_pushed_once_src. Qed.
Print Assumptions C13_episode_pushed_once.

(* --- afterwards nothing is pending -------------------------------------------------------------------------------------- *)
Theorem C13_nothing_pending_after : forall c flags m,
  Forall (fun n => get n (m_dev m) <> VNone) (m_dev_prov m) ->
  nothing_pending (fst (apply_provisioning c flags m)).
Proof. exact nothing_pending_after. Qed.
Print Assumptions C13_nothing_pending_after.

Theorem C13_nothing_pending_after_reconnect : forall flags dev ports m,
  Forall (fun n => get n (m_dev m) <> VNone) (m_dev_prov m) ->
  nothing_pending (fst (handle_online cfg_src flags dev ports m)).
Proof. exact nothing_pending_after_online_src. Qed.
Print Assumptions C13_nothing_pending_after_reconnect.

(* the source has the repaired variant of the three statements *)
Theorem C13_source_is_repaired : cfg_src = cfg_fixed.
Proof. exact cfg_src_fixed. Qed.
Print Assumptions C13_source_is_repaired.

(* non-vacuity: display_name, gain and the value of p1 and the device's display_name edited offline; a port-update and a
   value-change reported meanwhile; on reconnect the device is sent exactly these four, with the user's values, before the refresh *)
Definition ex13_port : mport :=
  mk_mport "p1" [("id", VS "p1"); ("display_name", VS "P1"); ("enabled", VB true); ("gain", VZ 3)] [] (VZ 5) true (VZ 5) []
           [("tag", VS "")] [].
Definition ex13_m0 : master := mk_master [ex13_port] [("name", VS "dev1"); ("display_name", VS "")] [] true false.
Definition ex13_steps : list ostep :=
  [OSetAttr "p1" "display_name" (VS "offline name"); OWriteValue "p1" (VZ 42); OPatchDevice [("display_name", VS "User Dev")];
   ORemote (EPortUpdate [("id", VS "p1"); ("display_name", VS "P1"); ("enabled", VB true); ("gain", VZ 9); ("value", VZ 6)] None);
   OTick; OSetAttr "p1" "gain" (VZ 50); ORemote (EValueChange "p1" (VZ 7)); OTick].
Example C13_nonvacuous :
  let m := orun cfg_fixed ex13_steps ex13_m0 in
  pending_items m = [IDevAttr "display_name" (VS "User Dev"); IPortAttr "p1" "display_name" (VS "offline name");
                     IPortAttr "p1" "gain" (VZ 50); IPortValue "p1" (VZ 42)] /\
  map to_request (filter issued (snd (handle_online cfg_fixed [] [] [] m))) =
    [mk_req "PATCH" "/device" (BAttrs [("display_name", VS "User Dev")]);
     mk_req "PATCH" "/ports/p1" (BAttrs [("display_name", VS "offline name"); ("gain", VZ 50)]);
     mk_req "PATCH" "/ports/p1/value" (BVal (VZ 42)); mk_req "GET" "/device" BNone; mk_req "GET" "/ports" BNone] /\
  push_ok false (pending_items m) (filter issued (snd (handle_online cfg_fixed [] [] [] m))) = true /\
  NoDup (ids (m_ports m)).
Proof. vm_compute. repeat split. repeat constructor; simpl; tauto. Qed.
